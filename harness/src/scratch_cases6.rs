//! C12 harness, sixth table (Model/ScratchOps3.lean): prepare wrappers, compressed key wrappers, the convolution
//! products, the CGGI blind rotation and its keys, circuit bootstrapping and its keys, the BDD key, `fhe_uint_prepare`,
//! the BDD blind rotations / selection / retrieval, the two-word circuits, `FheUint` encrypt / decrypt, and the
//! queries of the poulpy-ckks products and composites (reference back ends; the calls themselves run in scratch_cases7.rs).
pub trait CkksTb3: poulpy_hal::layouts::Backend {
    fn tb(_m: &poulpy_hal::layouts::Module<Self>, _op: &str, _kv: &crate::cmd_scratch::Kv) -> Option<usize> {
        None
    }
}
macro_rules! ckks_tb3_impl {
    ($BE:ty) => {
        impl CkksTb3 for $BE {
            fn tb(module: &poulpy_hal::layouts::Module<Self>, op: &str, kv: &crate::cmd_scratch::Kv) -> Option<usize> {
                use poulpy_ckks::CKKSMeta;
                use poulpy_ckks::leveled::{
                    CKKSAddManyOps, CKKSAddOps, CKKSAllOpsTmpBytes, CKKSDotProductOps, CKKSMulAddOps, CKKSMulManyOps, CKKSMulOps, CKKSMulSubOps,
                };
                use poulpy_core::layouts::{Base2K, Degree, Dnum, Dsize, GGLWELayout, GLWETensorKeyLayout, Rank, TorusPrecision};
                use poulpy_hal::api::ModuleN;
                let n = module.n();
                let res = crate::cmd_scratch::glwe_layout(n, kv.g("b2k").max(1), kv.g("size"), kv.g("rank"));
                let a = crate::cmd_scratch::glwe_layout(n, kv.g("ab2k").max(1), kv.g("asize"), kv.g("arank"));
                let tsk = GLWETensorKeyLayout {
                    n: Degree(n as u32),
                    base2k: Base2K(kv.g("tb2k").max(1) as u32),
                    k: TorusPrecision((kv.g("tb2k") * kv.g("tsize")) as u32),
                    rank: Rank(kv.g("rank") as u32),
                    dnum: Dnum(kv.g("tdnum").max(1) as u32),
                    dsize: Dsize(kv.g("tdsize").max(1) as u32),
                };
                let atk = GGLWELayout {
                    n: Degree(n as u32),
                    base2k: Base2K(kv.g("kb2k").max(1) as u32),
                    k: TorusPrecision((kv.g("kb2k") * kv.g("ksize")) as u32),
                    rank_in: Rank(kv.g("krin") as u32),
                    rank_out: Rank(kv.g("krout") as u32),
                    dnum: Dnum(kv.g("dnum").max(1) as u32),
                    dsize: Dsize(kv.g("dsize").max(1) as u32),
                };
                let meta = CKKSMeta { log_delta: kv.g("ptk") / 2, log_budget: kv.g("ptk") - kv.g("ptk") / 2 };
                let all_eq = |v: &[usize]| -> usize { if v.iter().all(|x| *x == v[0]) { v[0] } else { usize::MAX } };
                Some(match op {
                    "ckks_mul" => module.ckks_mul_tmp_bytes(&res, &tsk),
                    "ckks_square" => module.ckks_square_tmp_bytes(&res, &tsk),
                    "ckks_mul_pt_vec_znx" => module.ckks_mul_pt_vec_znx_tmp_bytes(&res, &a, &meta),
                    "ckks_mul_pt_vec_rnx" => module.ckks_mul_pt_vec_rnx_tmp_bytes(&res, &a, &meta),
                    "ckks_composite_ct" => all_eq(&[module.ckks_mul_add_ct_tmp_bytes(&res, &tsk), module.ckks_mul_sub_ct_tmp_bytes(&res, &tsk)]),
                    "ckks_composite_pt_vec_znx" => all_eq(&[
                        module.ckks_mul_add_pt_vec_znx_tmp_bytes(&res, &a, &meta),
                        module.ckks_mul_sub_pt_vec_znx_tmp_bytes(&res, &a, &meta),
                        module.ckks_dot_product_pt_vec_znx_tmp_bytes(&res, &a, &meta),
                    ]),
                    "ckks_composite_pt_vec_rnx" => all_eq(&[
                        module.ckks_mul_add_pt_vec_rnx_tmp_bytes(&res, &a, &meta),
                        module.ckks_mul_sub_pt_vec_rnx_tmp_bytes(&res, &a, &meta),
                        module.ckks_dot_product_pt_vec_rnx_tmp_bytes(&res, &a, &meta),
                    ]),
                    "ckks_composite_pt_const" => all_eq(&[
                        module.ckks_mul_add_pt_const_tmp_bytes(&res, &a, &meta),
                        module.ckks_mul_sub_pt_const_tmp_bytes(&res, &a, &meta),
                        module.ckks_dot_product_pt_const_tmp_bytes(&res, &a, &meta),
                    ]),
                    "ckks_mul_many" => {
                        if module.ckks_add_many_tmp_bytes() != module.ckks_add_tmp_bytes() {
                            usize::MAX
                        } else {
                            module.ckks_mul_many_tmp_bytes(kv.g("cnt"), &res, &tsk)
                        }
                    }
                    "ckks_dot_product_ct" => module.ckks_dot_product_ct_tmp_bytes(kv.g("cnt"), &res, &tsk),
                    "ckks_all_ops" => module.ckks_all_ops_tmp_bytes(&res, &tsk, &meta),
                    "ckks_all_ops_with_atk" => module.ckks_all_ops_with_atk_tmp_bytes(&res, &tsk, &atk, &meta),
                    _ => return None,
                })
            }
        }
    };
}
ckks_tb3_impl!(poulpy_cpu_ref::FFT64Ref);
ckks_tb3_impl!(poulpy_cpu_ref::NTT120Ref);
impl CkksTb3 for poulpy_cpu_avx::FFT64Avx {}
impl CkksTb3 for poulpy_cpu_avx::NTT120Avx {}

macro_rules! backend_cases6 {
    ($modname:ident, $BE:ty) => {
        pub mod $modname {
            use crate::cmd_scratch::{Kv, bytes_of_i64, exec_window, fmt_outcome, glwe_layout, rand_glwe, rand_vec};
            use poulpy_bin_fhe::bdd_arithmetic::{
                Add, BDDEncryptionInfos, BDDKey, BDDKeyEncryptSk, BDDKeyHelper, BDDKeyLayout, BDDKeyPrepared, BDDKeyPreparedFactory, FheUint,
                FheUintPrepare, FheUintPrepared, GGSWBlindRotation, GLWEBlindRetrieval, GLWEBlindRetriever, GLWEBlindRotation, GLWEBlindSelection,
                GetGGSWBit,
            };
            use poulpy_bin_fhe::blind_rotation::{
                BlindRotationExecute, BlindRotationKey, BlindRotationKeyCompressed, BlindRotationKeyCompressedEncryptSk, BlindRotationKeyEncryptSk,
                BlindRotationKeyLayout, BlindRotationKeyPrepared, BlindRotationKeyPreparedFactory, CGGI, LookUpTableLayout, LookupTable,
            };
            use poulpy_bin_fhe::circuit_bootstrapping::{
                CircuitBootstrappingEncryptionInfos, CircuitBootstrappingExecute, CircuitBootstrappingKey, CircuitBootstrappingKeyEncryptSk,
                CircuitBootstrappingKeyLayout, CircuitBootstrappingKeyPrepared, CircuitBootstrappingKeyPreparedFactory,
            };
            use poulpy_core::{
                EncryptionLayout, GGLWEToGGSWKeyCompressedEncryptSk, GLWEAutomorphismKeyCompressedEncryptSk, GLWEAutomorphismKeyEncryptSk,
                GLWEKeyswitch, GLWEMulPlain, GLWESwitchingKeyCompressedEncryptSk, GLWETensorKeyCompressedEncryptSk, GLWETensoring, GLWETrace,
                LWEEncryptSk,
                layouts::{
                    Base2K, Degree, Dnum, Dsize, GGLWE, GGLWEInfos, GGLWELayout, GGLWEPreparedFactory, GGLWEPreparedToRef, GGLWEToGGSWKey,
                    GGLWEToGGSWKeyLayout, GGLWEToGGSWKeyPreparedFactory, GGSW, GGSWLayout, GGSWPreparedFactory, GLWE, GLWEAutomorphismKey,
                    GLWEAutomorphismKeyLayout, GLWEAutomorphismKeyPrepared, GLWEAutomorphismKeyPreparedFactory, GLWEInfos, GLWELayout,
                    GLWEPlaintext, GLWESecret, GLWESecretPreparedFactory, GLWESwitchingKey, GLWESwitchingKeyLayout,
                    GLWESwitchingKeyPreparedFactory, GLWETensor, GLWETensorKey, GLWETensorKeyLayout, GLWETensorKeyPreparedFactory, GLWEToLWEKey,
                    GLWEToLWEKeyLayout, GLWEToLWEKeyPreparedFactory, LWE, LWELayout, LWEPlaintext, LWESecret, LWESwitchingKey,
                    LWESwitchingKeyLayout, LWESwitchingKeyPreparedFactory, LWEToGLWEKey, LWEToGLWEKeyLayout, LWEToGLWEKeyPreparedFactory, Rank,
                    TorusPrecision,
                    compressed::{GGLWEToGGSWKeyCompressed, GLWEAutomorphismKeyCompressed, GLWESwitchingKeyCompressed, GLWETensorKeyCompressed},
                    prepared::{GGSWPrepared, GLWESecretPrepared},
                },
            };
            use poulpy_hal::{
                api::*,
                layouts::{DeviceBuf, DigestU64, FillUniform, Module, ScalarZnx, Scratch, ScratchOwned, WriterTo, ZnxInfos, ZnxView, ZnxViewMut},
                source::Source,
            };
            use std::collections::HashMap;

            type BE = $BE;

            fn wrap(b: &mut [u8]) -> &mut Scratch<BE> {
                <Scratch<BE> as ScratchFromBytes<BE>>::from_bytes(b)
            }
            fn ser<T: WriterTo>(x: &T) -> Vec<u8> {
                let mut v = Vec::new();
                x.write_to(&mut v).unwrap();
                v
            }
            fn d(n: usize) -> Degree {
                Degree(n as u32)
            }
            fn tp(b2k: usize, size: usize) -> TorusPrecision {
                TorusPrecision((b2k * size) as u32)
            }

            /// automorphism / switching key read from `krin krout ksize kb2k dnum dsize`
            fn key_layout(n: usize, kv: &Kv) -> GGLWELayout {
                GGLWELayout {
                    n: d(n),
                    base2k: Base2K(kv.g("kb2k").max(1) as u32),
                    k: tp(kv.g("kb2k"), kv.g("ksize")),
                    rank_in: Rank(kv.g("krin") as u32),
                    rank_out: Rank(kv.g("krout") as u32),
                    dnum: Dnum(kv.g("dnum").max(1) as u32),
                    dsize: Dsize(kv.g("dsize").max(1) as u32),
                }
            }
            fn atk_layout(n: usize, kv: &Kv) -> GLWEAutomorphismKeyLayout {
                GLWEAutomorphismKeyLayout {
                    n: d(n),
                    base2k: Base2K(kv.g("kb2k").max(1) as u32),
                    k: tp(kv.g("kb2k"), kv.g("ksize")),
                    rank: Rank(kv.g("krout") as u32),
                    dnum: Dnum(kv.g("dnum").max(1) as u32),
                    dsize: Dsize(kv.g("dsize").max(1) as u32),
                }
            }
            fn ggsw_key_layout(n: usize, kv: &Kv) -> GGSWLayout {
                GGSWLayout {
                    n: d(n),
                    base2k: Base2K(kv.g("kb2k").max(1) as u32),
                    k: tp(kv.g("kb2k"), kv.g("ksize")),
                    rank: Rank(kv.g("krout") as u32),
                    dnum: Dnum(kv.g("dnum").max(1) as u32),
                    dsize: Dsize(kv.g("dsize").max(1) as u32),
                }
            }
            fn tsk_layout(n: usize, kv: &Kv) -> GGLWEToGGSWKeyLayout {
                GGLWEToGGSWKeyLayout {
                    n: d(n),
                    base2k: Base2K(kv.g("tb2k").max(1) as u32),
                    k: tp(kv.g("tb2k"), kv.g("tsize")),
                    rank: Rank(kv.g("rank") as u32),
                    dnum: Dnum(kv.g("tdnum").max(1) as u32),
                    dsize: Dsize(kv.g("tdsize").max(1) as u32),
                }
            }
            fn brk_layout(n: usize, kv: &Kv) -> BlindRotationKeyLayout {
                BlindRotationKeyLayout {
                    n_glwe: d(n),
                    n_lwe: d(kv.g("nlwe").max(1)),
                    base2k: Base2K(kv.g("bb2k").max(1) as u32),
                    k: tp(kv.g("bb2k"), kv.g("bsize")),
                    dnum: Dnum(kv.g("bdnum").max(1) as u32),
                    rank: Rank(kv.g("rank") as u32),
                }
            }
            fn res_ggsw_layout(n: usize, kv: &Kv) -> GGSWLayout {
                GGSWLayout {
                    n: d(n),
                    base2k: Base2K(kv.g("b2k").max(1) as u32),
                    k: tp(kv.g("b2k"), kv.g("size")),
                    rank: Rank(kv.g("rank") as u32),
                    dnum: Dnum(kv.g("rdnum").max(1) as u32),
                    dsize: Dsize(1),
                }
            }
            fn cbt_layout(n: usize, kv: &Kv) -> CircuitBootstrappingKeyLayout {
                CircuitBootstrappingKeyLayout {
                    brk_layout: brk_layout(n, kv),
                    atk_layout: GLWEAutomorphismKeyLayout {
                        n: d(n),
                        base2k: Base2K(kv.g("kb2k").max(1) as u32),
                        k: tp(kv.g("kb2k"), kv.g("ksize")),
                        rank: Rank(kv.g("rank") as u32),
                        dnum: Dnum(kv.g("dnum").max(1) as u32),
                        dsize: Dsize(kv.g("dsize").max(1) as u32),
                    },
                    tsk_layout: tsk_layout(n, kv),
                }
            }
            fn bdd_layout(n: usize, kv: &Kv) -> BDDKeyLayout {
                let ksg = kv.g("ksglwe") == 1;
                BDDKeyLayout {
                    cbt_layout: cbt_layout(n, kv),
                    ks_glwe_layout: if ksg {
                        Some(GLWESwitchingKeyLayout {
                            n: d(n),
                            base2k: Base2K(kv.g("gkb2k").max(1) as u32),
                            k: tp(kv.g("gkb2k"), kv.g("gksize")),
                            rank_in: Rank(kv.g("rank") as u32),
                            rank_out: Rank(kv.g("gkrout").max(1) as u32),
                            dnum: Dnum(kv.g("gkdnum").max(1) as u32),
                            dsize: Dsize(kv.g("gkdsize").max(1) as u32),
                        })
                    } else {
                        None
                    },
                    ks_lwe_layout: GLWEToLWEKeyLayout {
                        n: d(n),
                        base2k: Base2K(kv.g("lkb2k").max(1) as u32),
                        k: tp(kv.g("lkb2k"), kv.g("lksize")),
                        rank_in: Rank(if ksg { kv.g("gkrout").max(1) } else { kv.g("rank") } as u32),
                        dnum: Dnum(kv.g("lkdnum").max(1) as u32),
                    },
                }
            }

            /// key set that only knows its layout (enough for the queries)
            struct InfoOnly(GGLWELayout);
            impl poulpy_core::layouts::GLWEAutomorphismKeyHelper<GLWEAutomorphismKeyPrepared<DeviceBuf<BE>, BE>, BE> for InfoOnly {
                fn get_automorphism_key(&self, _k: i64) -> Option<&GLWEAutomorphismKeyPrepared<DeviceBuf<BE>, BE>> {
                    None
                }
                fn automorphism_key_infos(&self) -> GGLWELayout {
                    self.0
                }
            }
            /// packing keys read from `tsize tb2k tdnum tdsize` (rank of the result)
            fn pack_key_layout(n: usize, kv: &Kv) -> GLWEAutomorphismKeyLayout {
                GLWEAutomorphismKeyLayout {
                    n: d(n),
                    base2k: Base2K(kv.g("tb2k").max(1) as u32),
                    k: tp(kv.g("tb2k"), kv.g("tsize")),
                    rank: Rank(kv.g("rank") as u32),
                    dnum: Dnum(kv.g("tdnum").max(1) as u32),
                    dsize: Dsize(kv.g("tdsize").max(1) as u32),
                }
            }

            /// the companion query of every operation of this table
            pub fn tb_of(module: &Module<BE>, op: &str, kv: &Kv) -> Option<usize> {
                let n = module.n();
                let res = glwe_layout(n, kv.g("b2k").max(1), kv.g("size"), kv.g("rank"));
                let a = glwe_layout(n, kv.g("ab2k").max(1), kv.g("asize"), kv.g("arank"));
                let key = key_layout(n, kv);
                let (block, ext) = (kv.g("block").max(1), kv.g("ext").max(1));
                let pt = |size: usize, b2k: usize| glwe_layout(n, b2k, size, 0);
                Some(match op {
                    "gglwe_prepare" => module.gglwe_prepare_tmp_bytes(&key),
                    "ggsw_prepare" => module.ggsw_prepare_tmp_bytes(&ggsw_key_layout(n, kv)),
                    "glwe_switching_key_prepare" => module.glwe_switching_key_prepare_tmp_bytes(&key),
                    "glwe_automorphism_key_prepare" => module.glwe_automorphism_key_prepare_tmp_bytes(&key),
                    "prepare_tensor_key" => module.prepare_tensor_key_tmp_bytes(&key),
                    "gglwe_to_ggsw_key_prepare" => module.gglwe_to_ggsw_key_prepare_tmp_bytes(&key),
                    "lwe_switching_key_prepare" => module.lwe_switching_key_prepare_tmp_bytes(&key),
                    "lwe_to_glwe_key_prepare" => module.lwe_to_glwe_key_prepare_tmp_bytes(&key),
                    "glwe_to_lwe_key_prepare" => module.glwe_to_lwe_key_prepare_tmp_bytes(&key),
                    "glwe_switching_key_compressed_encrypt_sk" => module.glwe_switching_key_compressed_encrypt_sk_tmp_bytes(&key),
                    "glwe_automorphism_key_compressed_encrypt_sk" => module.glwe_automorphism_key_compressed_encrypt_sk_tmp_bytes(&key),
                    "glwe_tensor_key_compressed_encrypt_sk" => module.glwe_tensor_key_compressed_encrypt_sk_tmp_bytes(&key),
                    "gglwe_to_ggsw_key_compressed_encrypt_sk" => {
                        <Module<BE> as GGLWEToGGSWKeyCompressedEncryptSk<BE>>::gglwe_to_ggsw_key_encrypt_sk_tmp_bytes(module, &key)
                    }
                    "glwe_mul_plain" => module.glwe_mul_plain_tmp_bytes(&res, &a, &pt(kv.g("bsize"), kv.g("ab2k").max(1))),
                    "glwe_mul_plain_assign" => module.glwe_mul_plain_tmp_bytes(&res, &res, &pt(kv.g("bsize"), kv.g("b2k").max(1))),
                    "glwe_tensor_apply" | "glwe_tensor_apply_add_assign" => {
                        module.glwe_tensor_apply_tmp_bytes(&res, &a, &glwe_layout(n, kv.g("ab2k").max(1), kv.g("bsize"), kv.g("arank")))
                    }
                    "glwe_tensor_square_apply" => module.glwe_tensor_square_apply_tmp_bytes(&res, &a),
                    "blind_rotation_execute" => module.blind_rotation_execute_tmp_bytes(block, ext, &res, &brk_layout(n, kv)),
                    "blind_rotation_key_encrypt_sk" => module.blind_rotation_key_encrypt_sk_tmp_bytes(&brk_layout(n, kv)),
                    "blind_rotation_key_compressed_encrypt_sk" => module.blind_rotation_key_compressed_encrypt_sk_tmp_bytes(&brk_layout(n, kv)),
                    "blind_rotation_key_prepare" => {
                        <Module<BE> as BlindRotationKeyPreparedFactory<CGGI, BE>>::blind_rotation_key_prepare_tmp_bytes(module, &brk_layout(n, kv))
                    }
                    "circuit_bootstrapping_execute" => {
                        <Module<BE> as CircuitBootstrappingExecute<CGGI, BE>>::circuit_bootstrapping_execute_tmp_bytes(
                            module, block, ext, &res_ggsw_layout(n, kv), &cbt_layout(n, kv),
                        )
                    }
                    "circuit_bootstrapping_key_encrypt_sk" => {
                        <Module<BE> as CircuitBootstrappingKeyEncryptSk<CGGI, BE>>::circuit_bootstrapping_key_encrypt_sk_tmp_bytes(module, &cbt_layout(n, kv))
                    }
                    "circuit_bootstrapping_key_prepare" => {
                        <Module<BE> as CircuitBootstrappingKeyPreparedFactory<CGGI, BE>>::circuit_bootstrapping_key_prepare_tmp_bytes(module, &cbt_layout(n, kv))
                    }
                    "bdd_key_encrypt_sk" => <Module<BE> as BDDKeyEncryptSk<CGGI, BE>>::bdd_key_encrypt_sk_tmp_bytes(module, &bdd_layout(n, kv)),
                    "prepare_bdd_key" => <Module<BE> as BDDKeyPreparedFactory<CGGI, BE>>::prepare_bdd_key_tmp_bytes(module, &bdd_layout(n, kv)),
                    "fhe_uint_prepare" => {
                        kv.g("threads").max(1)
                            * <Module<BE> as FheUintPrepare<CGGI, BE>>::fhe_uint_prepare_tmp_bytes(
                                module, block, 1, &res_ggsw_layout(n, kv), &a, &bdd_layout(n, kv),
                            )
                    }
                    "glwe_blind_rotation" => module.glwe_blind_rotation_tmp_bytes(&res, &ggsw_key_layout(n, kv)),
                    "ggsw_to_ggsw_blind_rotation" => <Module<BE> as GGSWBlindRotation<u8, BE>>::ggsw_to_ggsw_blind_rotation_tmp_bytes(module, &res, &ggsw_key_layout(n, kv)),
                    "scalar_to_ggsw_blind_rotation" => <Module<BE> as GGSWBlindRotation<u8, BE>>::scalar_to_ggsw_blind_rotation_tmp_bytes(module, &res, &ggsw_key_layout(n, kv)),
                    "glwe_blind_selection" => {
                        <Module<BE> as GLWEBlindSelection<u8, BE>>::glwe_blind_selection_tmp_bytes(module, &res, &ggsw_key_layout(n, kv))
                    }
                    "glwe_blind_retrieval" => module.glwe_blind_retrieval_tmp_bytes(&res, &ggsw_key_layout(n, kv)),
                    "retrieve" => GLWEBlindRetriever::retrieve_tmp_bytes::<_, _, _, BE>(module, &res, &ggsw_key_layout(n, kv)),
                    "bdd_2w_to_1w" => {
                        use crate::cmd_bddeval::DynCircuit;
                        use poulpy_bin_fhe::bdd_arithmetic::{ExecuteBDDCircuit2WTo1W, verif_hooks::u32_circuits};
                        let circuits = u32_circuits();
                        let (_, c) = circuits.iter().find(|(nm, _)| *nm == kv.s("circ"))?;
                        let circ = DynCircuit(*c);
                        let pk = pack_key_layout(n, kv);
                        let helper = InfoOnly(GGLWELayout { n: pk.n, base2k: pk.base2k, k: pk.k, rank_in: pk.rank, rank_out: pk.rank, dnum: pk.dnum, dsize: pk.dsize });
                        let threads = kv.g("threads").max(1);
                        let multi = module
                            .execute_bdd_circuit_2w_to_1w_multi_thread_tmp_bytes::<_, u32, _, _, GLWEAutomorphismKeyPrepared<DeviceBuf<BE>, BE>, _>(
                                threads, &circ, &res, &ggsw_key_layout(n, kv), &helper,
                            );
                        let single = module.execute_bdd_circuit_2w_to_1w_tmp_bytes::<_, u32, _, _, GLWEAutomorphismKeyPrepared<DeviceBuf<BE>, BE>, _>(
                            &circ, &res, &ggsw_key_layout(n, kv), &helper,
                        );
                        if threads == 1 && single != multi { usize::MAX } else { multi }
                    }
                    "fhe_uint_encrypt_sk" => FheUint::<Vec<u8>, u32>::alloc_from_infos(&res).encrypt_sk_tmp_bytes::<_, BE>(module),
                    "fhe_uint_decrypt" => FheUint::<Vec<u8>, u32>::alloc_from_infos(&res).decrypt_tmp_bytes::<_, BE>(module),
                    _ => return <BE as super::CkksTb3>::tb(module, op, kv),
                })
            }

            pub fn case(op: &str, kv: &Kv) -> Option<String> {
                let mis = kv.g("mis");
                let win = kv.0.get("win").and_then(|s| s.parse::<usize>().ok());
                let module: Module<BE> = Module::<BE>::new(kv.g("n") as u64);
                let tb: usize = tb_of(&module, op, kv)?;
                if kv.g("tbonly") == 1 {
                    return Some(format!("tb={tb}"));
                }
                if op.starts_with("ckks_") {
                    return Some(<BE as crate::scratch_cases7::CkksRun>::run(op, kv, tb).unwrap_or_else(|| format!("tb={tb}")));
                }
                let n = module.n();
                let (size, rank, b2k) = (kv.g("size"), kv.g("rank"), kv.g("b2k").max(1));
                let (asize, ab2k) = (kv.g("asize"), kv.g("ab2k").max(1));
                let big_scratch = || -> ScratchOwned<BE> { ScratchOwned::<BE>::alloc(1 << 25) };
                macro_rules! finish {
                    ($f:expr) => {{
                        let o = exec_window::<Scratch<BE>>(tb, mis, win, wrap, $f);
                        return Some(fmt_outcome(tb, &o));
                    }};
                }
                let xe = || Source::new([3u8; 32]);
                let xa = || Source::new([4u8; 32]);
                let mk_sk = |r: usize, seed: u8| -> (GLWESecret<Vec<u8>>, GLWESecretPrepared<DeviceBuf<BE>, BE>) {
                    let mut sk = GLWESecret::alloc(d(n), Rank(r as u32));
                    sk.fill_ternary_prob(0.5, &mut Source::new([seed; 32]));
                    let mut skp: GLWESecretPrepared<DeviceBuf<BE>, BE> = module.glwe_secret_prepared_alloc(Rank(r as u32));
                    module.glwe_secret_prepare(&mut skp, &sk);
                    (sk, skp)
                };
                // what a prepared switching-type key does to a fixed input: the observable of the prepare wrappers
                fn ks_probe<K: GGLWEPreparedToRef<BE> + GGLWEInfos>(module: &Module<BE>, key: &K) -> Vec<u8> {
                    let n = module.n();
                    let (b, sz) = (key.base2k().0 as usize, key.size());
                    let a = rand_glwe(n, b, sz.max(1), key.rank_in().0 as usize, 21);
                    let mut r = GLWE::alloc_from_infos(&glwe_layout(n, b, sz.max(1), key.rank_out().0 as usize));
                    module.glwe_keyswitch(&mut r, &a, key, ScratchOwned::<BE>::alloc(1 << 24).borrow());
                    bytes_of_i64(r.data().raw())
                }
                let key = key_layout(n, kv);
                let key_enc = EncryptionLayout::new_from_default_sigma(key).unwrap();
                // encrypted selector bits for the BDD helpers: a directly encrypted FheUintPrepared<u8>
                let mk_bits = |value: u8| -> FheUintPrepared<DeviceBuf<BE>, u8, BE> {
                    let infos = EncryptionLayout::new_from_default_sigma(ggsw_key_layout(n, kv)).unwrap();
                    let (_, skp) = mk_sk(kv.g("krout"), 1);
                    let mut p: FheUintPrepared<DeviceBuf<BE>, u8, BE> = FheUintPrepared::alloc_from_infos(&module, &infos);
                    p.encrypt_sk(&module, value, &skp, &infos, &mut xe(), &mut xa(), big_scratch().borrow());
                    p
                };

                match op {
                    // ------------------------------------------------------------------ prepare wrappers
                    "gglwe_prepare" => {
                        let mut g: GGLWE<Vec<u8>> = GGLWE::alloc_from_infos(&key);
                        g.fill_uniform(8, &mut xa());
                        finish!(|s: &mut Scratch<BE>| {
                            let mut p = module.gglwe_prepared_alloc_from_infos(&g);
                            module.gglwe_prepare(&mut p, &g, s);
                            ks_probe(&module, &p)
                        })
                    }
                    "ggsw_prepare" => {
                        let mut g: GGSW<Vec<u8>> = GGSW::alloc_from_infos(&ggsw_key_layout(n, kv));
                        g.fill_uniform(8, &mut xa());
                        finish!(|s: &mut Scratch<BE>| {
                            let mut p: GGSWPrepared<DeviceBuf<BE>, BE> = module.ggsw_prepared_alloc_from_infos(&g);
                            module.ggsw_prepare(&mut p, &g, s);
                            p.data().digest_u64().to_le_bytes().to_vec()
                        })
                    }
                    "glwe_switching_key_prepare" => {
                        let mut g: GLWESwitchingKey<Vec<u8>> = GLWESwitchingKey::alloc_from_infos(&key);
                        g.fill_uniform(8, &mut xa());
                        finish!(|s: &mut Scratch<BE>| {
                            let mut p = module.glwe_switching_key_prepared_alloc_from_infos(&g);
                            module.glwe_switching_key_prepare(&mut p, &g, s);
                            ks_probe(&module, &p)
                        })
                    }
                    "glwe_automorphism_key_prepare" => {
                        let mut g: GLWEAutomorphismKey<Vec<u8>> = GLWEAutomorphismKey::alloc_from_infos(&atk_layout(n, kv));
                        g.fill_uniform(8, &mut xa());
                        finish!(|s: &mut Scratch<BE>| {
                            let mut p = module.glwe_automorphism_key_prepared_alloc_from_infos(&g);
                            module.glwe_automorphism_key_prepare(&mut p, &g, s);
                            ks_probe(&module, &p)
                        })
                    }
                    "prepare_tensor_key" => {
                        let mut g: GLWETensorKey<Vec<u8>> = GLWETensorKey::alloc_from_infos(&GLWETensorKeyLayout {
                            n: d(n),
                            base2k: key.base2k,
                            k: key.k,
                            rank: key.rank_out,
                            dnum: key.dnum,
                            dsize: key.dsize,
                        });
                        g.fill_uniform(8, &mut xa());
                        finish!(|s: &mut Scratch<BE>| {
                            let mut p = module.alloc_tensor_key_prepared_from_infos(&g);
                            module.prepare_tensor_key(&mut p, &g, s);
                            ks_probe(&module, &p)
                        })
                    }
                    "gglwe_to_ggsw_key_prepare" => {
                        let mut g: GGLWEToGGSWKey<Vec<u8>> = GGLWEToGGSWKey::alloc_from_infos(&GGLWEToGGSWKeyLayout {
                            n: d(n),
                            base2k: key.base2k,
                            k: key.k,
                            rank: key.rank_out,
                            dnum: key.dnum,
                            dsize: key.dsize,
                        });
                        g.fill_uniform(8, &mut xa());
                        finish!(|s: &mut Scratch<BE>| {
                            let mut p = module.gglwe_to_ggsw_key_prepared_alloc_from_infos(&g);
                            module.gglwe_to_ggsw_key_prepare(&mut p, &g, s);
                            Vec::new()
                        })
                    }
                    "lwe_switching_key_prepare" => {
                        let mut g: LWESwitchingKey<Vec<u8>> =
                            LWESwitchingKey::alloc_from_infos(&LWESwitchingKeyLayout { n: d(n), base2k: key.base2k, k: key.k, dnum: key.dnum });
                        g.fill_uniform(8, &mut xa());
                        finish!(|s: &mut Scratch<BE>| {
                            let mut p = module.lwe_switching_key_prepared_alloc_from_infos(&g);
                            module.lwe_switching_key_prepare(&mut p, &g, s);
                            ks_probe(&module, &p)
                        })
                    }
                    "lwe_to_glwe_key_prepare" => {
                        let mut g: LWEToGLWEKey<Vec<u8>> = LWEToGLWEKey::alloc_from_infos(&LWEToGLWEKeyLayout {
                            n: d(n),
                            base2k: key.base2k,
                            k: key.k,
                            rank_out: key.rank_out,
                            dnum: key.dnum,
                        });
                        g.fill_uniform(8, &mut xa());
                        finish!(|s: &mut Scratch<BE>| {
                            let mut p = module.lwe_to_glwe_key_prepared_alloc_from_infos(&g);
                            module.lwe_to_glwe_key_prepare(&mut p, &g, s);
                            ks_probe(&module, &p)
                        })
                    }
                    "glwe_to_lwe_key_prepare" => {
                        let mut g: GLWEToLWEKey<Vec<u8>> = GLWEToLWEKey::alloc_from_infos(&GLWEToLWEKeyLayout {
                            n: d(n),
                            base2k: key.base2k,
                            k: key.k,
                            rank_in: key.rank_in,
                            dnum: key.dnum,
                        });
                        g.fill_uniform(8, &mut xa());
                        finish!(|s: &mut Scratch<BE>| {
                            let mut p = module.glwe_to_lwe_key_prepared_alloc_from_infos(&g);
                            module.glwe_to_lwe_key_prepare(&mut p, &g, s);
                            ks_probe(&module, &p)
                        })
                    }
                    // ------------------------------------------------------------------ compressed key wrappers
                    "glwe_switching_key_compressed_encrypt_sk" => {
                        let (sk_in, _) = mk_sk(kv.g("krin"), 1);
                        let (sk_out, _) = mk_sk(kv.g("krout"), 2);
                        finish!(|s: &mut Scratch<BE>| {
                            let mut k: GLWESwitchingKeyCompressed<Vec<u8>> = GLWESwitchingKeyCompressed::alloc_from_infos(&key);
                            module.glwe_switching_key_compressed_encrypt_sk(&mut k, &sk_in, &sk_out, [4u8; 32], &key_enc, &mut xe(), s);
                            ser(&k)
                        })
                    }
                    "glwe_automorphism_key_compressed_encrypt_sk" => {
                        let (sk, _) = mk_sk(kv.g("krout"), 1);
                        let infos = EncryptionLayout::new_from_default_sigma(atk_layout(n, kv)).unwrap();
                        finish!(|s: &mut Scratch<BE>| {
                            let mut k: GLWEAutomorphismKeyCompressed<Vec<u8>> = GLWEAutomorphismKeyCompressed::alloc_from_infos(&infos);
                            module.glwe_automorphism_key_compressed_encrypt_sk(&mut k, -1, &sk, [4u8; 32], &infos, &mut xe(), s);
                            ser(&k)
                        })
                    }
                    "glwe_tensor_key_compressed_encrypt_sk" => {
                        let (sk, _) = mk_sk(kv.g("krout"), 1);
                        let infos = EncryptionLayout::new_from_default_sigma(GLWETensorKeyLayout {
                            n: d(n),
                            base2k: key.base2k,
                            k: key.k,
                            rank: key.rank_out,
                            dnum: key.dnum,
                            dsize: key.dsize,
                        })
                        .unwrap();
                        finish!(|s: &mut Scratch<BE>| {
                            let mut k: GLWETensorKeyCompressed<Vec<u8>> = GLWETensorKeyCompressed::alloc_from_infos(&infos);
                            module.glwe_tensor_key_compressed_encrypt_sk(&mut k, &sk, [4u8; 32], &infos, &mut xe(), s);
                            ser(&k)
                        })
                    }
                    "gglwe_to_ggsw_key_compressed_encrypt_sk" => {
                        let (sk, _) = mk_sk(kv.g("krout"), 1);
                        let infos = EncryptionLayout::new_from_default_sigma(GGLWEToGGSWKeyLayout {
                            n: d(n),
                            base2k: key.base2k,
                            k: key.k,
                            rank: key.rank_out,
                            dnum: key.dnum,
                            dsize: key.dsize,
                        })
                        .unwrap();
                        finish!(|s: &mut Scratch<BE>| {
                            let mut k: GGLWEToGGSWKeyCompressed<Vec<u8>> = GGLWEToGGSWKeyCompressed::alloc_from_infos(&infos);
                            <Module<BE> as GGLWEToGGSWKeyCompressedEncryptSk<BE>>::gglwe_to_ggsw_key_encrypt_sk(
                                &module, &mut k, &sk, [4u8; 32], &infos, &mut xe(), s,
                            );
                            ser(&k)
                        })
                    }
                    // ------------------------------------------------------------------ convolution products
                    "glwe_mul_plain" | "glwe_mul_plain_assign" => {
                        let (ea, eb, off, bsize) = (kv.g("ea"), kv.g("eb"), kv.g("off"), kv.g("bsize"));
                        if op == "glwe_mul_plain" {
                            let ga = rand_glwe(n, ab2k, asize, rank, 5);
                            let mut pt: GLWEPlaintext<Vec<u8>> = GLWEPlaintext::alloc_from_infos(&glwe_layout(n, ab2k, bsize, 0));
                            pt.data.raw_mut().copy_from_slice(rand_vec(n, 1, bsize, ab2k.saturating_sub(3).max(1), 6).raw());
                            let res_infos = glwe_layout(n, b2k, size, rank);
                            finish!(|s: &mut Scratch<BE>| {
                                let mut r = GLWE::alloc_from_infos(&res_infos);
                                module.glwe_mul_plain(off, &mut r, &ga, ea * ab2k, &pt, eb * ab2k, s);
                                bytes_of_i64(r.data().raw())
                            })
                        }
                        let g0 = rand_glwe(n, b2k, size, rank, 5);
                        let mut pt: GLWEPlaintext<Vec<u8>> = GLWEPlaintext::alloc_from_infos(&glwe_layout(n, b2k, bsize, 0));
                        pt.data.raw_mut().copy_from_slice(rand_vec(n, 1, bsize, b2k.saturating_sub(3).max(1), 6).raw());
                        finish!(|s: &mut Scratch<BE>| {
                            let mut r = g0.clone();
                            // `eb` = effective limbs of res (left operand), `ea` = effective limbs of the plaintext
                            module.glwe_mul_plain_assign(off, &mut r, eb * b2k, &pt, ea * b2k, s);
                            bytes_of_i64(r.data().raw())
                        })
                    }
                    "glwe_tensor_apply" | "glwe_tensor_apply_add_assign" | "glwe_tensor_square_apply" => {
                        let (ea, eb, off, bsize) = (kv.g("ea"), kv.g("eb"), kv.g("off"), kv.g("bsize"));
                        let ga = rand_glwe(n, ab2k, asize, rank, 5);
                        let gb = rand_glwe(n, ab2k, bsize.max(1), rank, 6);
                        let res_infos = glwe_layout(n, b2k, size, rank);
                        let mut t0: GLWETensor<Vec<u8>> = GLWETensor::alloc_from_infos(&res_infos);
                        let cols = t0.data().cols();
                        t0.data_mut().raw_mut().copy_from_slice(rand_vec(n, cols, size, b2k.saturating_sub(3).max(1), 9).raw());
                        let which = op.to_string();
                        finish!(|s: &mut Scratch<BE>| {
                            let mut t = t0.clone();
                            match which.as_str() {
                                "glwe_tensor_apply" => module.glwe_tensor_apply(off, &mut t, &ga, ea * ab2k, &gb, eb * ab2k, s),
                                "glwe_tensor_apply_add_assign" => module.glwe_tensor_apply_add_assign(off, &mut t, &ga, ea * ab2k, &gb, eb * ab2k, s),
                                _ => module.glwe_tensor_square_apply(off, &mut t, &ga, ea * ab2k, s),
                            }
                            bytes_of_i64(t.data().raw())
                        })
                    }
                    // ------------------------------------------------------------------ blind rotation (CGGI)
                    "blind_rotation_execute" | "blind_rotation_key_encrypt_sk" | "blind_rotation_key_compressed_encrypt_sk"
                    | "blind_rotation_key_prepare" => {
                        let (block, ext, nlwe) = (kv.g("block").max(1), kv.g("ext").max(1), kv.g("nlwe").max(1));
                        let brk_infos = EncryptionLayout::new_from_default_sigma(brk_layout(n, kv)).unwrap();
                        let (_, skp) = mk_sk(rank, 1);
                        let mut sk_lwe: LWESecret<Vec<u8>> = LWESecret::alloc(d(nlwe));
                        sk_lwe.fill_binary_block(block, &mut Source::new([7u8; 32]));
                        if op == "blind_rotation_key_encrypt_sk" {
                            finish!(|s: &mut Scratch<BE>| {
                                let mut brk: BlindRotationKey<Vec<u8>, CGGI> = BlindRotationKey::<Vec<u8>, CGGI>::alloc(&brk_infos);
                                module.blind_rotation_key_encrypt_sk(&mut brk, &skp, &sk_lwe, &brk_infos, &mut xe(), &mut xa(), s);
                                ser(&brk)
                            })
                        }
                        if op == "blind_rotation_key_compressed_encrypt_sk" {
                            finish!(|s: &mut Scratch<BE>| {
                                let mut brk: BlindRotationKeyCompressed<Vec<u8>, CGGI> = BlindRotationKeyCompressed::<Vec<u8>, CGGI>::alloc(&brk_infos);
                                module.blind_rotation_key_compressed_encrypt_sk(&mut brk, &skp, &sk_lwe, [4u8; 32], &brk_infos, &mut xe(), s);
                                ser(&brk)
                            })
                        }
                        let mut brk: BlindRotationKey<Vec<u8>, CGGI> = BlindRotationKey::<Vec<u8>, CGGI>::alloc(&brk_infos);
                        module.blind_rotation_key_encrypt_sk(&mut brk, &skp, &sk_lwe, &brk_infos, &mut xe(), &mut xa(), big_scratch().borrow());
                        let lb = kv.g("bb2k").max(1);
                        let lwe_infos = EncryptionLayout::new_from_default_sigma(LWELayout { n: d(nlwe), k: tp(lb, 2), base2k: Base2K(lb as u32) }).unwrap();
                        let mut lwe: LWE<Vec<u8>> = LWE::alloc_from_infos(&lwe_infos);
                        let mut pt_lwe: LWEPlaintext<Vec<u8>> = LWEPlaintext::alloc_from_infos(&lwe_infos);
                        pt_lwe.encode_i64(1, TorusPrecision(3));
                        module.lwe_encrypt_sk(&mut lwe, &pt_lwe, &sk_lwe, &lwe_infos, &mut xe(), &mut xa(), big_scratch().borrow());
                        let lut_infos = LookUpTableLayout { n: d(n), extension_factor: ext, k: tp(lb, 1), base2k: Base2K(lb as u32) };
                        let mut lut: LookupTable = LookupTable::alloc(&lut_infos);
                        lut.set(&module, &[1i64, -1, 2, -2], 4);
                        if op == "blind_rotation_key_prepare" {
                            finish!(|s: &mut Scratch<BE>| {
                                let mut p: BlindRotationKeyPrepared<DeviceBuf<BE>, CGGI, BE> = BlindRotationKeyPrepared::alloc(&module, &brk);
                                p.prepare(&module, &brk, s);
                                let mut r: GLWE<Vec<u8>> = GLWE::alloc_from_infos(&glwe_layout(n, kv.g("bb2k").max(1), kv.g("bsize"), rank));
                                p.execute(&module, &mut r, &lwe, &lut, ScratchOwned::<BE>::alloc(1 << 24).borrow());
                                bytes_of_i64(r.data().raw())
                            })
                        }
                        let mut p: BlindRotationKeyPrepared<DeviceBuf<BE>, CGGI, BE> = BlindRotationKeyPrepared::alloc(&module, &brk);
                        p.prepare(&module, &brk, big_scratch().borrow());
                        let res_infos = glwe_layout(n, b2k, size, rank);
                        finish!(|s: &mut Scratch<BE>| {
                            let mut r: GLWE<Vec<u8>> = GLWE::alloc_from_infos(&res_infos);
                            p.execute(&module, &mut r, &lwe, &lut, s);
                            bytes_of_i64(r.data().raw())
                        })
                    }
                    // ------------------------------------------------------------------ circuit bootstrapping, BDD key, fhe_uint_prepare
                    "circuit_bootstrapping_execute" | "circuit_bootstrapping_key_encrypt_sk" | "circuit_bootstrapping_key_prepare" => {
                        let (block, nlwe) = (kv.g("block").max(1), kv.g("nlwe").max(1));
                        let layout = cbt_layout(n, kv);
                        let enc = CircuitBootstrappingEncryptionInfos::from_default_sigma(&layout).unwrap();
                        let (sk, _) = mk_sk(rank, 1);
                        let mut sk_lwe: LWESecret<Vec<u8>> = LWESecret::alloc(d(nlwe));
                        sk_lwe.fill_binary_block(block, &mut Source::new([7u8; 32]));
                        if op == "circuit_bootstrapping_key_encrypt_sk" {
                            finish!(|s: &mut Scratch<BE>| {
                                let mut k: CircuitBootstrappingKey<Vec<u8>, CGGI> = CircuitBootstrappingKey::alloc_from_infos(&layout);
                                k.encrypt_sk(&module, &sk_lwe, &sk, &enc, &mut xe(), &mut xa(), s);
                                ser(&k)
                            })
                        }
                        let mut k: CircuitBootstrappingKey<Vec<u8>, CGGI> = CircuitBootstrappingKey::alloc_from_infos(&layout);
                        k.encrypt_sk(&module, &sk_lwe, &sk, &enc, &mut xe(), &mut xa(), big_scratch().borrow());
                        let lwe_infos = EncryptionLayout::new_from_default_sigma(LWELayout { n: d(nlwe), k: tp(b2k, 2), base2k: Base2K(b2k as u32) }).unwrap();
                        let mut lwe: LWE<Vec<u8>> = LWE::alloc_from_infos(&lwe_infos);
                        let mut pt_lwe: LWEPlaintext<Vec<u8>> = LWEPlaintext::alloc_from_infos(&lwe_infos);
                        pt_lwe.encode_i64(1, TorusPrecision(2));
                        module.lwe_encrypt_sk(&mut lwe, &pt_lwe, &sk_lwe, &lwe_infos, &mut xe(), &mut xa(), big_scratch().borrow());
                        let res_infos = res_ggsw_layout(n, kv);
                        let out_ggsw = |g: &GGSW<Vec<u8>>| -> Vec<u8> {
                            let mut o = Vec::new();
                            for r in 0..kv.g("rdnum").max(1) {
                                for c in 0..rank + 1 {
                                    o.extend(bytes_of_i64(g.at(r, c).data().raw()));
                                }
                            }
                            o
                        };
                        if op == "circuit_bootstrapping_key_prepare" {
                            finish!(|s: &mut Scratch<BE>| {
                                let mut p: CircuitBootstrappingKeyPrepared<DeviceBuf<BE>, CGGI, BE> = CircuitBootstrappingKeyPrepared::alloc_from_infos(&module, &layout);
                                p.prepare(&module, &k, s);
                                let mut g: GGSW<Vec<u8>> = GGSW::alloc_from_infos(&res_infos);
                                p.execute_to_constant(&module, &mut g, &lwe, 1, 1, ScratchOwned::<BE>::alloc(1 << 25).borrow());
                                out_ggsw(&g)
                            })
                        }
                        let mut p: CircuitBootstrappingKeyPrepared<DeviceBuf<BE>, CGGI, BE> = CircuitBootstrappingKeyPrepared::alloc_from_infos(&module, &layout);
                        p.prepare(&module, &k, big_scratch().borrow());
                        finish!(|s: &mut Scratch<BE>| {
                            let mut g: GGSW<Vec<u8>> = GGSW::alloc_from_infos(&res_infos);
                            p.execute_to_constant(&module, &mut g, &lwe, 1, 1, s);
                            out_ggsw(&g)
                        })
                    }
                    "bdd_key_encrypt_sk" | "prepare_bdd_key" | "fhe_uint_prepare" => {
                        let (block, nlwe) = (kv.g("block").max(1), kv.g("nlwe").max(1));
                        let layout = bdd_layout(n, kv);
                        let enc = BDDEncryptionInfos::from_default_sigma(&layout).unwrap();
                        let (sk, skp) = mk_sk(rank, 1);
                        let mut sk_lwe: LWESecret<Vec<u8>> = LWESecret::alloc(d(nlwe));
                        sk_lwe.fill_binary_block(block, &mut Source::new([7u8; 32]));
                        if op == "bdd_key_encrypt_sk" {
                            finish!(|s: &mut Scratch<BE>| {
                                let mut k: BDDKey<Vec<u8>, CGGI> = BDDKey::alloc_from_infos(&layout);
                                k.encrypt_sk(&module, &sk_lwe, &sk, &enc, &mut xe(), &mut xa(), s);
                                ser(&k)
                            })
                        }
                        let mut k: BDDKey<Vec<u8>, CGGI> = BDDKey::alloc_from_infos(&layout);
                        k.encrypt_sk(&module, &sk_lwe, &sk, &enc, &mut xe(), &mut xa(), big_scratch().borrow());
                        let bits_infos = EncryptionLayout::new_from_default_sigma(if asize == 0 {
                            glwe_layout(n, b2k, size, rank)
                        } else {
                            glwe_layout(n, ab2k, asize, rank)
                        })
                        .unwrap();
                        let mut c: FheUint<Vec<u8>, u32> = FheUint::alloc_from_infos(&bits_infos);
                        c.encrypt_sk(&module, 0xA5C3_0F69u32, &skp, &bits_infos, &mut xe(), &mut xa(), big_scratch().borrow());
                        let ggsw_infos = res_ggsw_layout(n, kv);
                        let digest = |p: &FheUintPrepared<DeviceBuf<BE>, u32, BE>| -> Vec<u8> {
                            (0..32).flat_map(|i| p.get_bit(i).data().digest_u64().to_le_bytes()).collect()
                        };
                        if op == "prepare_bdd_key" {
                            finish!(|s: &mut Scratch<BE>| {
                                let mut kp: BDDKeyPrepared<DeviceBuf<BE>, CGGI, BE> = BDDKeyPrepared::alloc_from_infos(&module, &layout);
                                kp.prepare(&module, &k, s);
                                // observable of the prepared key: one prepared bit (block-binary keys only: `execute_standard`
                                // has a debug assertion on the dimension of the extracted LWE)
                                if block > 1 {
                                    let mut p: FheUintPrepared<DeviceBuf<BE>, u32, BE> = FheUintPrepared::alloc_from_infos(&module, &ggsw_infos);
                                    p.prepare_custom(&module, &c, 1, 1, &kp, ScratchOwned::<BE>::alloc(1 << 25).borrow());
                                    digest(&p)
                                } else {
                                    Vec::new()
                                }
                            })
                        }
                        let mut kp: BDDKeyPrepared<DeviceBuf<BE>, CGGI, BE> = BDDKeyPrepared::alloc_from_infos(&module, &layout);
                        kp.prepare(&module, &k, big_scratch().borrow());
                        let (threads, bitsper, idx) = (kv.g("threads").max(1), kv.g("bitsper").max(1), kv.g("idx"));
                        finish!(|s: &mut Scratch<BE>| {
                            let mut p: FheUintPrepared<DeviceBuf<BE>, u32, BE> = FheUintPrepared::alloc_from_infos(&module, &ggsw_infos);
                            p.prepare_custom_multi_thread(threads, &module, &c, idx, threads * bitsper, &kp, s);
                            digest(&p)
                        })
                    }
                    // ------------------------------------------------------------------ BDD blind rotations, selection, retrieval
                    "glwe_blind_rotation" => {
                        let bits = mk_bits(0b1011_0110);
                        let g0 = rand_glwe(n, b2k, size, rank, 5);
                        let bm = kv.g("bitmask");
                        finish!(|s: &mut Scratch<BE>| {
                            let mut r = GLWE::alloc_from_infos(&glwe_layout(n, b2k, size, rank));
                            module.glwe_blind_rotation(&mut r, &g0, &bits, false, 0, bm, 0, s);
                            bytes_of_i64(r.data().raw())
                        })
                    }
                    "ggsw_to_ggsw_blind_rotation" | "scalar_to_ggsw_blind_rotation" => {
                        let bits = mk_bits(0b1011_0110);
                        let bm = kv.g("bitmask");
                        // `cells` = (rank + 1) * dnum of the GGSW result
                        let rd = (kv.g("cells") / (rank + 1)).max(1);
                        let infos = GGSWLayout { n: d(n), base2k: Base2K(b2k as u32), k: tp(b2k, size), rank: Rank(rank as u32), dnum: Dnum(rd as u32), dsize: Dsize(1) };
                        let mut a0: GGSW<Vec<u8>> = GGSW::alloc_from_infos(&infos);
                        a0.fill_uniform(8, &mut xa());
                        let mut tv = ScalarZnx::alloc(n, 1);
                        tv.raw_mut()[1] = 1;
                        let out = move |g: &GGSW<Vec<u8>>| -> Vec<u8> {
                            let mut o = Vec::new();
                            for r in 0..rd {
                                for c in 0..rank + 1 {
                                    o.extend(bytes_of_i64(g.at(r, c).data().raw()));
                                }
                            }
                            o
                        };
                        if op == "ggsw_to_ggsw_blind_rotation" {
                            finish!(|s: &mut Scratch<BE>| {
                                let mut g: GGSW<Vec<u8>> = GGSW::alloc_from_infos(&infos);
                                <Module<BE> as GGSWBlindRotation<u8, BE>>::ggsw_blind_rotation(&module, &mut g, &a0, &bits, false, 0, bm, 0, s);
                                out(&g)
                            })
                        }
                        finish!(|s: &mut Scratch<BE>| {
                            let mut g: GGSW<Vec<u8>> = GGSW::alloc_from_infos(&infos);
                            <Module<BE> as GGSWBlindRotation<u8, BE>>::scalar_to_ggsw_blind_rotation(&module, &mut g, &tv, &bits, false, 0, bm, 0, s);
                            out(&g)
                        })
                    }
                    "glwe_blind_selection" => {
                        let bits = mk_bits(0b0000_0101);
                        let steps = kv.g("steps").max(1);
                        // a sparse table: entries 0 and `steps` of a 3-bit index space (one present, one absent branch)
                        let cts0: Vec<GLWE<Vec<u8>>> = (0..2).map(|i| rand_glwe(n, b2k, size, rank, 30 + i as u8)).collect();
                        finish!(|s: &mut Scratch<BE>| {
                            let mut cts = cts0.clone();
                            let mut map: HashMap<usize, &mut GLWE<Vec<u8>>> = HashMap::new();
                            let mut it = cts.iter_mut();
                            map.insert(0, it.next().unwrap());
                            map.insert(steps.min(7), it.next().unwrap());
                            let mut r = GLWE::alloc_from_infos(&glwe_layout(n, b2k, size, rank));
                            <Module<BE> as GLWEBlindSelection<u8, BE>>::glwe_blind_selection(&module, &mut r, map, &bits, 0, 3, s);
                            bytes_of_i64(r.data().raw())
                        })
                    }
                    "glwe_blind_retrieval" => {
                        let bits = mk_bits(0b0000_0010);
                        let steps = kv.g("steps").max(1);
                        let cts0: Vec<GLWE<Vec<u8>>> = (0..steps + 1).map(|i| rand_glwe(n, b2k, size, rank, 30 + i as u8)).collect();
                        finish!(|s: &mut Scratch<BE>| {
                            let mut cts = cts0.clone();
                            module.glwe_blind_retrieval_statefull(&mut cts, &bits, 0, 2, s);
                            cts.iter().flat_map(|c| bytes_of_i64(c.data().raw())).collect()
                        })
                    }
                    "retrieve" => {
                        let bits = mk_bits(0b0000_0010);
                        let steps = kv.g("steps").max(1);
                        let cts0: Vec<GLWE<Vec<u8>>> = (0..steps + 1).map(|i| rand_glwe(n, b2k, size, rank, 30 + i as u8)).collect();
                        let infos = glwe_layout(n, b2k, size, rank);
                        finish!(|s: &mut Scratch<BE>| {
                            let mut rt = GLWEBlindRetriever::alloc(&infos, cts0.len());
                            let mut r = GLWE::alloc_from_infos(&infos);
                            rt.retrieve(&module, &mut r, &cts0, &bits, 0, s);
                            bytes_of_i64(r.data().raw())
                        })
                    }
                    // ------------------------------------------------------------------ two-word circuits
                    "bdd_2w_to_1w" => {
                        use crate::cmd_bddeval::DynCircuit;
                        use poulpy_bin_fhe::bdd_arithmetic::{ExecuteBDDCircuit2WTo1W, GetBitCircuitInfo, verif_hooks::u32_circuits};
                        let threads = kv.g("threads").max(1);
                        let ggsw_infos = EncryptionLayout::new_from_default_sigma(ggsw_key_layout(n, kv)).unwrap();
                        let (sk, skp) = mk_sk(kv.g("krout"), 1);
                        let circuits = u32_circuits();
                        let (_, c) = circuits.iter().find(|(nm, _)| *nm == kv.s("circ"))?;
                        let circ = DynCircuit(*c);
                        if circ.max_state_size() != kv.g("state") {
                            return Some(format!("state-mismatch:{}", circ.max_state_size()));
                        }
                        let mut ap = FheUintPrepared::<DeviceBuf<BE>, u32, BE>::alloc_from_infos(&module, &ggsw_infos.layout);
                        let mut bp = FheUintPrepared::<DeviceBuf<BE>, u32, BE>::alloc_from_infos(&module, &ggsw_infos.layout);
                        ap.encrypt_sk(&module, 0x1234_5678, &skp, &ggsw_infos, &mut Source::new([3u8; 32]), &mut Source::new([4u8; 32]), big_scratch().borrow());
                        bp.encrypt_sk(&module, 0x0fed_cba9, &skp, &ggsw_infos, &mut Source::new([5u8; 32]), &mut Source::new([6u8; 32]), big_scratch().borrow());
                        let key_infos = EncryptionLayout::new_from_default_sigma(pack_key_layout(n, kv)).unwrap();
                        let mut keys: HashMap<i64, GLWEAutomorphismKeyPrepared<DeviceBuf<BE>, BE>> = HashMap::new();
                        for p in poulpy_core::glwe_packer_galois_elements(&module) {
                            let mut key: GLWEAutomorphismKey<Vec<u8>> = GLWEAutomorphismKey::alloc_from_infos(&key_infos);
                            module.glwe_automorphism_key_encrypt_sk(&mut key, p, &sk, &key_infos, &mut xe(), &mut xa(), big_scratch().borrow());
                            let mut kp: GLWEAutomorphismKeyPrepared<DeviceBuf<BE>, BE> = module.glwe_automorphism_key_prepared_alloc_from_infos(&key);
                            module.glwe_automorphism_key_prepare(&mut kp, &key, big_scratch().borrow());
                            keys.insert(p, kp);
                        }
                        let res_infos = glwe_layout(n, b2k, size, rank);
                        finish!(|s: &mut Scratch<BE>| {
                            let mut out: FheUint<Vec<u8>, u32> = FheUint::alloc_from_infos(&res_infos);
                            module.execute_bdd_circuit_2w_to_1w_multi_thread(threads, &mut out, &circ, &ap, &bp, &keys, s);
                            use poulpy_core::layouts::GLWEToRef;
                            bytes_of_i64(out.to_ref().data().raw())
                        })
                    }
                    // ------------------------------------------------------------------ FheUint encrypt / decrypt
                    "fhe_uint_encrypt_sk" | "fhe_uint_decrypt" => {
                        let infos = EncryptionLayout::new_from_default_sigma(glwe_layout(n, b2k, size, rank)).unwrap();
                        let (_, skp) = mk_sk(rank, 1);
                        if op == "fhe_uint_encrypt_sk" {
                            finish!(|s: &mut Scratch<BE>| {
                                let mut c: FheUint<Vec<u8>, u32> = FheUint::alloc_from_infos(&infos);
                                c.encrypt_sk(&module, 0xA5C3_0F69u32, &skp, &infos, &mut xe(), &mut xa(), s);
                                { use poulpy_core::layouts::GLWEToRef; bytes_of_i64(c.to_ref().data().raw()) }
                            })
                        }
                        let mut c: FheUint<Vec<u8>, u32> = FheUint::alloc_from_infos(&infos);
                        c.encrypt_sk(&module, 0xA5C3_0F69u32, &skp, &infos, &mut xe(), &mut xa(), big_scratch().borrow());
                        finish!(|s: &mut Scratch<BE>| c.decrypt(&module, &skp, s).to_le_bytes().to_vec())
                    }
                    _ => None,
                }
            }
        }
    };
}
backend_cases6!(fft64ref, poulpy_cpu_ref::FFT64Ref);
backend_cases6!(ntt120ref, poulpy_cpu_ref::NTT120Ref);
backend_cases6!(fft64avx, poulpy_cpu_avx::FFT64Avx);
backend_cases6!(ntt120avx, poulpy_cpu_avx::NTT120Avx);
