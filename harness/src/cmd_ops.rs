//! `pvh ops` — interpreter of straight-line programs of noise-free GLWE / GGSW operations
//! (poulpy-core `api/operations.rs`, `operations/{glwe,ggsw}.rs`) over a pool of real ciphertexts
//! with explicit limbs, on any of the four back ends.  No key is involved.
//!
//! Request line:
//!   `id be=<fft64ref|ntt120ref|fft64avx|ntt120avx> n=<N> scr=<i64> [sb=<bytes>] ; decl ; decl ; … ; op ; op ; …`
//!   (`sb` = size of the scratch arena handed to every operation, default 65536: the operations that need
//!   scratch assert `scratch.available() >= …_tmp_bytes` → `panic:scratch`)
//! Declarations (pool entries are numbered 0,1,… in order of declaration):
//!   `ct <rank> <size> <base2k> <V>`                     a GLWE (rank 0 = plaintext)
//!   `ggsw <rank> <size> <base2k> <dnum> <dsize> <V>`    a GGSW
//!   `V` = `z` (zeros) or `v,v,…` in (column, limb, coefficient) order — for a GGSW the
//!   (row, col) GLWEs one after the other, row-major.
//! Operations (indices into the pool, argument order of the Rust API):
//!   add r a b | add_assign r a | sub r a b | sub_assign r a | sub_negate_assign r a |
//!   negate r a | negate_assign r | copy r a | rotate k r a | rotate_assign k r |
//!   mul_xp_minus_one k r a | mul_xp_minus_one_assign k r | rsh k r | lsh_assign r k |
//!   lsh r a k | lsh_add r a k | lsh_sub r a k | normalize r a | normalize_assign r |
//!   ggsw_rotate k r a | ggsw_rotate_assign k r
//! Before every operation the whole scratch arena is filled with the 64-bit pattern `scr`, so the
//! content of scratch is an explicit input.
//!
//! Answer line: `id S S … [panic:<class>|err:<kind>]` with one `S` per executed operation:
//!   `<r>=<rank>x<size>@<base2k>:v,v,…`  the full result object after the operation (same order as
//!   `V`); the program stops at the first panic (`panic:<class>`) or malformed request (`err:<kind>`:
//!   `alias` = an out-of-place operation whose result is also an operand, which the Rust borrow
//!   rules do not admit; `kind` = wrong object kind; `index`).
use std::io::{BufRead, Write};

use poulpy_core::layouts::{Base2K, Degree, Dnum, Dsize, GGSW, GGSWInfos, GLWE, GLWEInfos, LWEInfos, Rank, TorusPrecision};
use poulpy_core::{GGSWRotate, GLWEAdd, GLWECopy, GLWEMulXpMinusOne, GLWENegate, GLWENormalize, GLWERotate, GLWEShift, GLWESub};
use poulpy_hal::{
    api::{ModuleNew, ScratchOwnedAlloc, ScratchOwnedBorrow},
    layouts::{Module, ScratchOwned, ZnxInfos, ZnxView, ZnxViewMut},
};

use crate::cmd_hal::panic_class;

#[derive(Clone)]
enum Obj {
    Ct(GLWE<Vec<u8>>),
    Gg(GGSW<Vec<u8>>),
}

fn us(s: &str) -> usize {
    s.parse().unwrap()
}

fn vals(s: &str) -> Vec<i64> {
    if s == "z" || s == "-" || s.is_empty() { vec![] } else { s.split(',').map(|x| x.parse::<i64>().unwrap()).collect() }
}

fn show_ct(idx: usize, c: &GLWE<Vec<u8>>) -> String {
    let d = c.data();
    let mut v: Vec<String> = Vec::new();
    for col in 0..d.cols() {
        for j in 0..d.size() {
            v.extend(d.at(col, j).iter().map(|x| x.to_string()));
        }
    }
    format!(
        "{idx}={}x{}@{}:{}",
        c.rank().0,
        c.size(),
        c.base2k().0,
        if v.is_empty() { "-".to_string() } else { v.join(",") }
    )
}

fn show_gg(idx: usize, g: &GGSW<Vec<u8>>) -> String {
    let mut v: Vec<String> = Vec::new();
    let rows: usize = g.dnum().0 as usize;
    let cols: usize = g.rank().0 as usize + 1;
    for r in 0..rows {
        for c in 0..cols {
            let ct = g.at(r, c);
            let d = ct.data();
            for col in 0..d.cols() {
                for j in 0..d.size() {
                    v.extend(d.at(col, j).iter().map(|x| x.to_string()));
                }
            }
        }
    }
    format!(
        "{idx}={}x{}@{}#{}:{}",
        g.rank().0,
        g.size(),
        g.base2k().0,
        rows,
        if v.is_empty() { "-".to_string() } else { v.join(",") }
    )
}

enum Stop {
    Err(&'static str),
}

macro_rules! ops_backend {
    ($fname:ident, $be:ty) => {
        /// returns the step outputs produced so far in `out`; Err(kind) for a malformed request
        fn $fname(n: usize, scr: i64, sb: usize, stmts: &[Vec<&str>], out: &mut Vec<String>) -> Result<(), Stop> {
            type BE = $be;
            let module: Module<BE> = Module::<BE>::new(n as u64);
            let mut scratch: ScratchOwned<BE> = ScratchOwned::alloc(sb);
            let mut pool: Vec<Obj> = Vec::new();

            macro_rules! ct {
                ($i:expr) => {
                    match pool.get($i) {
                        Some(Obj::Ct(c)) => c,
                        Some(_) => return Err(Stop::Err("kind")),
                        None => return Err(Stop::Err("index")),
                    }
                };
            }
            macro_rules! gg {
                ($i:expr) => {
                    match pool.get($i) {
                        Some(Obj::Gg(c)) => c,
                        Some(_) => return Err(Stop::Err("kind")),
                        None => return Err(Stop::Err("index")),
                    }
                };
            }

            for st in stmts {
                if st.is_empty() {
                    continue;
                }
                match st[0] {
                    "ct" => {
                        let (rank, size, b) = (us(st[1]), us(st[2]), us(st[3]));
                        let mut c = GLWE::alloc(Degree(n as u32), Base2K(b as u32), TorusPrecision((size * b) as u32), Rank(rank as u32));
                        let v = vals(st[4]);
                        let mut p = 0usize;
                        for col in 0..rank + 1 {
                            for j in 0..size {
                                for x in c.data_mut().at_mut(col, j).iter_mut() {
                                    *x = v.get(p).copied().unwrap_or(0);
                                    p += 1;
                                }
                            }
                        }
                        pool.push(Obj::Ct(c));
                        continue;
                    }
                    "ggsw" => {
                        let (rank, size, b, dnum, dsize) = (us(st[1]), us(st[2]), us(st[3]), us(st[4]), us(st[5]));
                        let mut g = GGSW::alloc(
                            Degree(n as u32),
                            Base2K(b as u32),
                            TorusPrecision((size * b) as u32),
                            Rank(rank as u32),
                            Dnum(dnum as u32),
                            Dsize(dsize as u32),
                        );
                        let v = vals(st[6]);
                        let mut p = 0usize;
                        for r in 0..dnum {
                            for cc in 0..rank + 1 {
                                let mut ct = g.at_mut(r, cc);
                                for col in 0..rank + 1 {
                                    for j in 0..size {
                                        for x in ct.data_mut().at_mut(col, j).iter_mut() {
                                            *x = v.get(p).copied().unwrap_or(0);
                                            p += 1;
                                        }
                                    }
                                }
                            }
                        }
                        pool.push(Obj::Gg(g));
                        continue;
                    }
                    _ => {}
                }

                // scratch content = `scr` repeated
                {
                    let s = scratch.borrow();
                    for ch in s.data.chunks_exact_mut(8) {
                        ch.copy_from_slice(&scr.to_ne_bytes());
                    }
                }

                let op = st[0];
                match op {
                    "add" | "sub" => {
                        let (r, a, b) = (us(st[1]), us(st[2]), us(st[3]));
                        if r == a || r == b {
                            return Err(Stop::Err("alias"));
                        }
                        let mut res = ct!(r).clone();
                        crate::fillpat::refill(res.data_mut());
                        let (ca, cb) = (ct!(a), ct!(b));
                        if op == "add" {
                            module.glwe_add_into(&mut res, ca, cb);
                        } else {
                            module.glwe_sub(&mut res, ca, cb);
                        }
                        pool[r] = Obj::Ct(res);
                        out.push(show_ct(r, ct!(r)));
                    }
                    "add_assign" | "sub_assign" | "sub_negate_assign" | "negate" | "copy" | "normalize" => {
                        let (r, a) = (us(st[1]), us(st[2]));
                        if r == a {
                            return Err(Stop::Err("alias"));
                        }
                        let mut res = ct!(r).clone();
                        if matches!(op, "negate" | "copy" | "normalize") {
                            crate::fillpat::refill(res.data_mut());
                        }
                        let ca = ct!(a);
                        match op {
                            "add_assign" => module.glwe_add_assign(&mut res, ca),
                            "sub_assign" => module.glwe_sub_assign(&mut res, ca),
                            "sub_negate_assign" => module.glwe_sub_negate_assign(&mut res, ca),
                            "negate" => module.glwe_negate(&mut res, ca),
                            "copy" => module.glwe_copy(&mut res, ca),
                            _ => module.glwe_normalize(&mut res, ca, scratch.borrow()),
                        }
                        pool[r] = Obj::Ct(res);
                        out.push(show_ct(r, ct!(r)));
                    }
                    "negate_assign" | "normalize_assign" => {
                        let r = us(st[1]);
                        let mut res = ct!(r).clone();
                        if op == "negate_assign" {
                            module.glwe_negate_assign(&mut res);
                        } else {
                            module.glwe_normalize_assign(&mut res, scratch.borrow());
                        }
                        pool[r] = Obj::Ct(res);
                        out.push(show_ct(r, ct!(r)));
                    }
                    "rotate" | "mul_xp_minus_one" => {
                        let k: i64 = st[1].parse().unwrap();
                        let (r, a) = (us(st[2]), us(st[3]));
                        if r == a {
                            return Err(Stop::Err("alias"));
                        }
                        let mut res = ct!(r).clone();
                        crate::fillpat::refill(res.data_mut());
                        let ca = ct!(a);
                        if op == "rotate" {
                            module.glwe_rotate(k, &mut res, ca);
                        } else {
                            module.glwe_mul_xp_minus_one(k, &mut res, ca);
                        }
                        pool[r] = Obj::Ct(res);
                        out.push(show_ct(r, ct!(r)));
                    }
                    "rotate_assign" | "mul_xp_minus_one_assign" => {
                        let k: i64 = st[1].parse().unwrap();
                        let r = us(st[2]);
                        let mut res = ct!(r).clone();
                        if op == "rotate_assign" {
                            module.glwe_rotate_assign(k, &mut res, scratch.borrow());
                        } else {
                            module.glwe_mul_xp_minus_one_assign(k, &mut res, scratch.borrow());
                        }
                        pool[r] = Obj::Ct(res);
                        out.push(show_ct(r, ct!(r)));
                    }
                    "rsh" => {
                        let (k, r) = (us(st[1]), us(st[2]));
                        let mut res = ct!(r).clone();
                        module.glwe_rsh(k, &mut res, scratch.borrow());
                        pool[r] = Obj::Ct(res);
                        out.push(show_ct(r, ct!(r)));
                    }
                    "lsh_assign" => {
                        let (r, k) = (us(st[1]), us(st[2]));
                        let mut res = ct!(r).clone();
                        module.glwe_lsh_assign(&mut res, k, scratch.borrow());
                        pool[r] = Obj::Ct(res);
                        out.push(show_ct(r, ct!(r)));
                    }
                    "lsh" | "lsh_add" | "lsh_sub" => {
                        let (r, a, k) = (us(st[1]), us(st[2]), us(st[3]));
                        if r == a {
                            return Err(Stop::Err("alias"));
                        }
                        let mut res = ct!(r).clone();
                        if op == "lsh" {
                            crate::fillpat::refill(res.data_mut());
                        }
                        let ca = ct!(a);
                        match op {
                            "lsh" => module.glwe_lsh(&mut res, ca, k, scratch.borrow()),
                            "lsh_add" => module.glwe_lsh_add(&mut res, ca, k, scratch.borrow()),
                            _ => module.glwe_lsh_sub(&mut res, ca, k, scratch.borrow()),
                        }
                        pool[r] = Obj::Ct(res);
                        out.push(show_ct(r, ct!(r)));
                    }
                    "ggsw_rotate" => {
                        let k: i64 = st[1].parse().unwrap();
                        let (r, a) = (us(st[2]), us(st[3]));
                        if r == a {
                            return Err(Stop::Err("alias"));
                        }
                        let mut res = gg!(r).clone();
                        if crate::fillpat::active() {
                            use poulpy_core::layouts::{GGSWInfos, GLWEInfos};
                            let (dn, rk): (usize, usize) = (res.dnum().into(), res.rank().into());
                            for row in 0..dn {
                                for ci in 0..rk + 1 {
                                    for (i, x) in res.at_mut(row, ci).data_mut().raw_mut().iter_mut().enumerate() {
                                        *x = crate::fillpat::pat(0, i + 977 * (row * 16 + ci));
                                    }
                                }
                            }
                        }
                        let ga = gg!(a);
                        module.ggsw_rotate(k, &mut res, ga);
                        pool[r] = Obj::Gg(res);
                        out.push(show_gg(r, gg!(r)));
                    }
                    "ggsw_rotate_assign" => {
                        let k: i64 = st[1].parse().unwrap();
                        let r = us(st[2]);
                        let mut res = gg!(r).clone();
                        module.ggsw_rotate_assign(k, &mut res, scratch.borrow());
                        pool[r] = Obj::Gg(res);
                        out.push(show_gg(r, gg!(r)));
                    }
                    _ => return Err(Stop::Err("op")),
                }
            }
            Ok(())
        }
    };
}

ops_backend!(run_fft64ref, poulpy_cpu_ref::FFT64Ref);
ops_backend!(run_ntt120ref, poulpy_cpu_ref::NTT120Ref);
ops_backend!(run_fft64avx, poulpy_cpu_avx::FFT64Avx);
ops_backend!(run_ntt120avx, poulpy_cpu_avx::NTT120Avx);

pub fn run(_args: &[String]) {
    let last_panic: std::sync::Arc<std::sync::Mutex<String>> = std::sync::Arc::new(std::sync::Mutex::new(String::new()));
    {
        let lp = last_panic.clone();
        std::panic::set_hook(Box::new(move |info| {
            *lp.lock().unwrap() = info.to_string();
        }));
    }
    let stdin = std::io::stdin();
    let stdout = std::io::stdout();
    let mut w = std::io::BufWriter::new(stdout.lock());
    for line in stdin.lock().lines() {
        let line = line.unwrap();
        crate::fillpat::set_from_line(&line);
        let mut parts = line.split(';');
        let head: Vec<&str> = parts.next().unwrap_or("").split_whitespace().collect();
        if head.is_empty() {
            continue;
        }
        let id = head[0];
        let mut be = "fft64ref";
        let mut n = 8usize;
        let mut scr = 0i64;
        let mut sb = 1usize << 16;
        for t in &head[1..] {
            if let Some(v) = t.strip_prefix("be=") {
                be = v;
            } else if let Some(v) = t.strip_prefix("n=") {
                n = v.parse().unwrap();
            } else if let Some(v) = t.strip_prefix("scr=") {
                scr = v.parse().unwrap();
            } else if let Some(v) = t.strip_prefix("sb=") {
                sb = v.parse().unwrap();
            }
        }
        let stmts: Vec<Vec<&str>> = parts.map(|s| s.split_whitespace().collect()).collect();
        let mut out: Vec<String> = Vec::new();
        let r = std::panic::catch_unwind(std::panic::AssertUnwindSafe(|| match be {
            "fft64ref" => run_fft64ref(n, scr, sb, &stmts, &mut out),
            "ntt120ref" => run_ntt120ref(n, scr, sb, &stmts, &mut out),
            "fft64avx" => run_fft64avx(n, scr, sb, &stmts, &mut out),
            "ntt120avx" => run_ntt120avx(n, scr, sb, &stmts, &mut out),
            _ => Err(Stop::Err("backend")),
        }));
        let tail = match r {
            Ok(Ok(())) => String::new(),
            Ok(Err(Stop::Err(k))) => format!("err:{k}"),
            Err(_) => {
                let msg = last_panic.lock().unwrap().clone();
                format!("panic:{}", panic_class(&msg))
            }
        };
        let mut fields = out;
        if !tail.is_empty() {
            fields.push(tail);
        }
        if fields.is_empty() {
            fields.push("empty".to_string());
        }
        writeln!(w, "{id} {}", fields.join(" ")).unwrap();
    }
    w.flush().unwrap();
}
