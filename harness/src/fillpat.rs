//! Garbage pre-fill of result operands (C11, two-fill runs).  A request token `fill=<u64>` selects a
//! position-dependent garbage pattern derived from that value; without it (or `fill=0`) every command keeps
//! the constant pattern it always used, so the existing correspondence runs are unchanged.
use std::sync::atomic::{AtomicU64, Ordering};

use poulpy_hal::layouts::{VecZnx, ZnxViewMut};

static FILL: AtomicU64 = AtomicU64::new(0);

/// reads `fill=<u64>` anywhere on the request line (tokens separated by blanks or `;`)
pub fn set_from_line(line: &str) {
    let mut v = 0u64;
    for t in line.split(|c: char| c.is_whitespace() || c == ';') {
        if let Some(x) = t.strip_prefix("fill=") {
            v = x.parse().unwrap_or(0);
        }
    }
    FILL.store(v, Ordering::SeqCst);
}

pub fn active() -> bool {
    FILL.load(Ordering::SeqCst) != 0
}

/// garbage value for position `i`: `default` when no fill was requested, else a 44-bit signed word
pub fn pat(default: i64, i: usize) -> i64 {
    let f = FILL.load(Ordering::SeqCst);
    if f == 0 {
        return default;
    }
    let mut z = (i as u64).wrapping_add(f).wrapping_mul(0x9E3779B97F4A7C15);
    z = (z ^ (z >> 30)).wrapping_mul(0xBF58476D1CE4E5B9);
    ((z ^ (z >> 27)) as i64) >> 20
}

/// overwrite every visible limb of `v` with the selected garbage (no-op without `fill=`)
pub fn refill(v: &mut VecZnx<Vec<u8>>) {
    if active() {
        for (i, x) in v.raw_mut().iter_mut().enumerate() {
            *x = pat(0, i);
        }
    }
}
