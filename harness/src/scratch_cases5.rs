//! C12 harness, fifth table: relinearisation, cswap, and the poulpy-ckks queries that are built from
//! modelled core operations (reference back ends; the CKKS calls themselves run in scratch_cases7.rs).
pub trait CkksTb2: poulpy_hal::layouts::Backend {
    fn tb(_m: &poulpy_hal::layouts::Module<Self>, _op: &str, _kv: &crate::cmd_scratch::Kv) -> Option<usize> {
        None
    }
}
macro_rules! ckks_tb2_impl {
    ($BE:ty) => {
        impl CkksTb2 for $BE {
            fn tb(module: &poulpy_hal::layouts::Module<Self>, op: &str, kv: &crate::cmd_scratch::Kv) -> Option<usize> {
                use poulpy_ckks::CKKSMeta;
                use poulpy_ckks::leveled::{
                    CKKSAddOps, CKKSConjugateOps, CKKSDecrypt, CKKSEncrypt, CKKSMulOps, CKKSPlaintextZnxOps, CKKSRotateOps, CKKSSubOps,
                };
                use poulpy_core::layouts::{Base2K, Degree, Dnum, Dsize, GGLWELayout, Rank, TorusPrecision};
                use poulpy_hal::api::ModuleN;
                let n = module.n();
                let res = crate::cmd_scratch::glwe_layout(n, kv.g("b2k").max(1), kv.g("size"), kv.g("rank"));
                let a = crate::cmd_scratch::glwe_layout(n, kv.g("ab2k").max(1), kv.g("asize"), kv.g("arank"));
                let key = GGLWELayout {
                    n: Degree(n as u32),
                    base2k: Base2K(kv.g("kb2k").max(1) as u32),
                    k: TorusPrecision((kv.g("kb2k") * kv.g("ksize")) as u32),
                    rank_in: Rank(kv.g("krin") as u32),
                    rank_out: Rank(kv.g("krout") as u32),
                    dnum: Dnum(kv.g("dnum").max(1) as u32),
                    dsize: Dsize(kv.g("dsize").max(1) as u32),
                };
                let meta = CKKSMeta { log_delta: kv.g("ptk") / 2, log_budget: kv.g("ptk") - kv.g("ptk") / 2 };
                Some(match op {
                    "ckks_rotate" => {
                        let (r, c) = (module.ckks_rotate_tmp_bytes(&res, &key), module.ckks_conjugate_tmp_bytes(&res, &key));
                        if r != c { usize::MAX } else { r }
                    }
                    "ckks_pt_vec_znx" => {
                        let t = module.ckks_add_pt_vec_znx_tmp_bytes();
                        if module.ckks_sub_pt_vec_znx_tmp_bytes() != t || module.ckks_sub_tmp_bytes() != t { usize::MAX } else { t }
                    }
                    "ckks_pt_vec_rnx" => {
                        let t = module.ckks_add_pt_vec_rnx_tmp_bytes(&res, &res, &meta);
                        if module.ckks_sub_pt_vec_rnx_tmp_bytes(&res, &res, &meta) != t { usize::MAX } else { t }
                    }
                    "ckks_extract_pt" => module.ckks_extract_pt_znx_tmp_bytes(),
                    "ckks_encrypt_sk" => module.ckks_encrypt_sk_tmp_bytes(&res),
                    "ckks_decrypt" => module.ckks_decrypt_tmp_bytes(&res),
                    "ckks_mul_pt_const" => module.ckks_mul_pt_const_tmp_bytes(&res, &a, &meta),
                    _ => return None,
                })
            }
        }
    };
}
ckks_tb2_impl!(poulpy_cpu_ref::FFT64Ref);
ckks_tb2_impl!(poulpy_cpu_ref::NTT120Ref);
impl CkksTb2 for poulpy_cpu_avx::FFT64Avx {}
impl CkksTb2 for poulpy_cpu_avx::NTT120Avx {}

macro_rules! backend_cases5 {
    ($modname:ident, $BE:ty) => {
        pub mod $modname {
            use crate::cmd_scratch::{Kv, bytes_of_i64, exec_window, fmt_outcome, glwe_layout, rand_glwe, rand_vec};
            use poulpy_bin_fhe::bdd_arithmetic::Cswap;
            use poulpy_core::{
                EncryptionLayout, GGSWEncryptSk, GLWETensorKeyEncryptSk, GLWETensoring,
                layouts::{
                    Base2K, Degree, Dnum, Dsize, GGSW, GGSWLayout, GGSWPreparedFactory, GLWE, GLWESecret, GLWESecretPreparedFactory,
                    GLWETensor, GLWETensorKey, GLWETensorKeyLayout, GLWETensorKeyPrepared, GLWETensorKeyPreparedFactory, Rank,
                    TorusPrecision,
                    prepared::{GGSWPrepared, GLWESecretPrepared},
                },
            };
            use poulpy_hal::{
                api::*,
                layouts::{DeviceBuf, Module, ScalarZnx, Scratch, ScratchOwned, ZnxInfos, ZnxView, ZnxViewMut},
                source::Source,
            };

            type BE = $BE;

            fn wrap(b: &mut [u8]) -> &mut Scratch<BE> {
                <Scratch<BE> as ScratchFromBytes<BE>>::from_bytes(b)
            }

            fn tsk_layout(n: usize, kv: &Kv) -> GLWETensorKeyLayout {
                GLWETensorKeyLayout {
                    n: Degree(n as u32),
                    base2k: Base2K(kv.g("tb2k").max(1) as u32),
                    k: TorusPrecision((kv.g("tb2k") * kv.g("tsize")) as u32),
                    rank: Rank(kv.g("rank") as u32),
                    dnum: Dnum(kv.g("tdnum").max(1) as u32),
                    dsize: Dsize(kv.g("tdsize").max(1) as u32),
                }
            }
            fn ggsw_layout(n: usize, kv: &Kv) -> GGSWLayout {
                GGSWLayout {
                    n: Degree(n as u32),
                    base2k: Base2K(kv.g("kb2k").max(1) as u32),
                    k: TorusPrecision((kv.g("kb2k") * kv.g("ksize")) as u32),
                    rank: Rank(kv.g("krout") as u32),
                    dnum: Dnum(kv.g("dnum").max(1) as u32),
                    dsize: Dsize(kv.g("dsize").max(1) as u32),
                }
            }

            pub fn tb_of(module: &Module<BE>, op: &str, kv: &Kv) -> Option<usize> {
                let n = module.n();
                let res = glwe_layout(n, kv.g("b2k").max(1), kv.g("size"), kv.g("rank"));
                let a = glwe_layout(n, kv.g("ab2k").max(1), kv.g("asize"), kv.g("arank"));
                match op {
                    "glwe_tensor_relinearize" => Some(module.glwe_tensor_relinearize_tmp_bytes(&res, &a, &tsk_layout(n, kv))),
                    "cswap" => Some(module.cswap_tmp_bytes(&res, &a, &ggsw_layout(n, kv))),
                    _ => <BE as super::CkksTb2>::tb(module, op, kv),
                }
            }

            pub fn case(op: &str, kv: &Kv) -> Option<String> {
                let mis = kv.g("mis");
                let win = kv.0.get("win").and_then(|s| s.parse::<usize>().ok());
                let module: Module<BE> = Module::<BE>::new(kv.g("n") as u64);
                let tb: usize = match tb_of(&module, op, kv) {
                    Some(t) => t,
                    None => return crate::scratch_cases6::$modname::case(op, kv),
                };
                if kv.g("tbonly") == 1 {
                    return Some(format!("tb={tb}"));
                }
                if op.starts_with("ckks_") {
                    return Some(<BE as crate::scratch_cases7::CkksRun>::run(op, kv, tb).unwrap_or_else(|| format!("tb={tb}")));
                }
                let n = module.n();
                let (size, rank, b2k) = (kv.g("size"), kv.g("rank"), kv.g("b2k").max(1));
                let big_scratch = || -> ScratchOwned<BE> { ScratchOwned::<BE>::alloc(1 << 24) };
                macro_rules! finish {
                    ($f:expr) => {{
                        let o = exec_window::<Scratch<BE>>(tb, mis, win, wrap, $f);
                        return Some(fmt_outcome(tb, &o));
                    }};
                }
                let mk_sk = |r: usize, seed: u8| -> (GLWESecret<Vec<u8>>, GLWESecretPrepared<DeviceBuf<BE>, BE>) {
                    let mut sk = GLWESecret::alloc(Degree(n as u32), Rank(r as u32));
                    sk.fill_ternary_prob(0.5, &mut Source::new([seed; 32]));
                    let mut skp: GLWESecretPrepared<DeviceBuf<BE>, BE> = module.glwe_secret_prepared_alloc(Rank(r as u32));
                    module.glwe_secret_prepare(&mut skp, &sk);
                    (sk, skp)
                };
                match op {
                    "glwe_tensor_relinearize" => {
                        let infos = EncryptionLayout::new_from_default_sigma(tsk_layout(n, kv)).unwrap();
                        let (sk, _) = mk_sk(rank, 1);
                        let mut tk: GLWETensorKey<Vec<u8>> = GLWETensorKey::alloc_from_infos(&infos);
                        module.glwe_tensor_key_encrypt_sk(&mut tk, &sk, &infos, &mut Source::new([3u8; 32]), &mut Source::new([4u8; 32]), big_scratch().borrow());
                        let mut tkp: GLWETensorKeyPrepared<DeviceBuf<BE>, BE> = module.alloc_tensor_key_prepared_from_infos(&tk);
                        module.prepare_tensor_key(&mut tkp, &tk, big_scratch().borrow());
                        let a_infos = glwe_layout(n, kv.g("ab2k").max(1), kv.g("asize"), rank);
                        let mut t: GLWETensor<Vec<u8>> = GLWETensor::alloc_from_infos(&a_infos);
                        let cols = t.data().cols();
                        t.data_mut().raw_mut().copy_from_slice(rand_vec(n, cols, kv.g("asize"), kv.g("ab2k").saturating_sub(3).max(1), 9).raw());
                        let tskuse = kv.g("tskuse");
                        let res_infos = glwe_layout(n, b2k, size, rank);
                        finish!(|s: &mut Scratch<BE>| {
                            let mut r = GLWE::alloc_from_infos(&res_infos);
                            module.glwe_tensor_relinearize(&mut r, &t, &tkp, tskuse, s);
                            bytes_of_i64(r.data().raw())
                        })
                    }
                    "cswap" => {
                        let infos = EncryptionLayout::new_from_default_sigma(ggsw_layout(n, kv)).unwrap();
                        let (_, skp) = mk_sk(kv.g("krout"), 1);
                        let mut pt = ScalarZnx::alloc(n, 1);
                        pt.raw_mut()[0] = 1;
                        let mut g: GGSW<Vec<u8>> = GGSW::alloc_from_infos(&infos);
                        module.ggsw_encrypt_sk(&mut g, &pt, &skp, &infos, &mut Source::new([3u8; 32]), &mut Source::new([4u8; 32]), big_scratch().borrow());
                        let mut gp: GGSWPrepared<DeviceBuf<BE>, BE> = module.ggsw_prepared_alloc_from_infos(&g);
                        module.ggsw_prepare(&mut gp, &g, big_scratch().borrow());
                        let a0 = rand_glwe(n, b2k, size, rank, 5);
                        let b0 = rand_glwe(n, kv.g("ab2k").max(1), kv.g("asize"), rank, 6);
                        finish!(|s: &mut Scratch<BE>| {
                            let (mut x, mut y) = (a0.clone(), b0.clone());
                            module.cswap(&mut x, &mut y, &gp, s);
                            let mut o = bytes_of_i64(x.data().raw());
                            o.extend(bytes_of_i64(y.data().raw()));
                            o
                        })
                    }
                    _ => None,
                }
            }
        }
    };
}
backend_cases5!(fft64ref, poulpy_cpu_ref::FFT64Ref);
backend_cases5!(ntt120ref, poulpy_cpu_ref::NTT120Ref);
backend_cases5!(fft64avx, poulpy_cpu_avx::FFT64Avx);
backend_cases5!(ntt120avx, poulpy_cpu_avx::NTT120Avx);
