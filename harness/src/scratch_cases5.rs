//! C12 harness, fifth table: poulpy-bin-fhe (cswap, blind rotation, circuit bootstrapping, integer
//! preparation) and poulpy-ckks queries.
macro_rules! backend_cases5 {
    ($modname:ident, $BE:ty) => {
        pub mod $modname {
            use crate::cmd_scratch::Kv;
            pub fn case(_op: &str, _kv: &Kv) -> Option<String> {
                None
            }
        }
    };
}
backend_cases5!(fft64ref, poulpy_cpu_ref::FFT64Ref);
backend_cases5!(ntt120ref, poulpy_cpu_ref::NTT120Ref);
backend_cases5!(fft64avx, poulpy_cpu_avx::FFT64Avx);
backend_cases5!(ntt120avx, poulpy_cpu_avx::NTT120Avx);
