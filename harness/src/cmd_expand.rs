//! `pvh expand` — GGSW ciphertexts obtained by row expansion with the real code, on all four back
//! ends, with explicit inputs (C04, third clause).
//!
//! Request line (tokens `k=v`):
//!   `id op=<from_gglwe|ks|auto> n=<N> rank=<r> ba=<base2k of the input and of the result> ka=<k of the input>
//!       dsa=<dsize of input/result> dnum=<rows> ko=<k of the result> bk=<key base2k> kk=<key k> dsk=<key dsize>
//!       dnk=<key dnum> m2=<zero|one|mone|mono:k|dense:seed> seed=<u64> [p=<galois element, op=auto>] [dirty=<u64>]`
//! * `from_gglwe`: `ggsw_from_gglwe(res, a, tsk)` with `a` = `gglwe_encrypt_sk(m2)` (rank_in 1);
//! * `ks`: `ggsw_keyswitch(res, a, ksk, tsk)` with `a` = `ggsw_encrypt_sk(m2)` under a first secret,
//!   result under the second (printed as `sk`);
//! * `auto`: `ggsw_automorphism(res, a, auto_key(p), tsk)`.
//! Answer: `id ok sk=<ints> m2=<ints> [am=<rows of a>] [k=<ints of the rank keys of tsk>] be0=<cells> … be3=<cells>`
//! (`<cells>` = GGSW cells in (row, column) order joined by `;`, each `<C>x<S>:<ints>`, or `panic:<class>`).
//! Keys and inputs are generated once on NTT120Ref; the raw containers are prepared and used on every back end.
use std::io::{BufRead, Write};

use poulpy_core::{
    EncryptionLayout, GGLWEEncryptSk, GGLWEToGGSWKeyEncryptSk, GGSWAutomorphism, GGSWEncryptSk, GGSWFromGGLWE, GGSWKeyswitch,
    GLWEAutomorphismKeyEncryptSk, GLWESwitchingKeyEncryptSk,
    layouts::{
        Base2K, Degree, Dnum, Dsize, GGLWE, GGLWELayout, GGLWEToGGSWKey, GGLWEToGGSWKeyLayout, GGLWEToGGSWKeyPreparedFactory, GGSW,
        GGSWLayout, GLWEAutomorphismKey, GLWEAutomorphismKeyLayout, GLWEAutomorphismKeyPreparedFactory, GLWESecret,
        GLWESecretPreparedFactory, GLWESwitchingKey, GLWESwitchingKeyLayout, GLWESwitchingKeyPreparedFactory, Rank, TorusPrecision,
        prepared::GLWESecretPrepared,
    },
};
use poulpy_cpu_avx::{FFT64Avx, NTT120Avx};
use poulpy_cpu_ref::{FFT64Ref, NTT120Ref};
use poulpy_hal::{
    api::{ModuleNew, ScratchOwnedAlloc, ScratchOwnedBorrow, TakeSlice},
    layouts::{DeviceBuf, Module, ScalarZnx, ScratchOwned, ZnxView, ZnxViewMut},
    source::Source,
};

use crate::cmd_ep::{fmt_ggsw_cells, fmt_glwe, fmt_ints, kvs, make_m2, seed32};
use crate::cmd_hal::panic_class;

pub const SCRATCH: usize = 1 << 24;

pub struct XCase {
    pub op: String,
    pub n: usize,
    pub rank: usize,
    pub ba: usize,
    pub dsa: usize,
    pub dnum: usize,
    pub ko: usize,
    pub dirty: u64,
}

macro_rules! expand_backend {
    ($fname:ident, $be:ty) => {
        fn $fname(
            c: &XCase,
            a_gglwe: Option<&GGLWE<Vec<u8>>>,
            a_ggsw: Option<&GGSW<Vec<u8>>>,
            tsk: &GGLWEToGGSWKey<Vec<u8>>,
            ksk: Option<&GLWESwitchingKey<Vec<u8>>>,
            atk: Option<&GLWEAutomorphismKey<Vec<u8>>>,
        ) -> String {
            type BE = $be;
            let r = std::panic::catch_unwind(std::panic::AssertUnwindSafe(|| {
                let module: Module<BE> = Module::<BE>::new(c.n as u64);
                let mut scratch: ScratchOwned<BE> = ScratchOwned::alloc(SCRATCH);
                let mut tsk_prep = module.gglwe_to_ggsw_key_prepared_alloc_from_infos(tsk);
                module.gglwe_to_ggsw_key_prepare(&mut tsk_prep, tsk, scratch.borrow());
                let res_infos = GGSWLayout {
                    n: Degree(c.n as u32),
                    base2k: Base2K(c.ba as u32),
                    k: TorusPrecision(c.ko as u32),
                    rank: Rank(c.rank as u32),
                    dnum: Dnum(c.dnum as u32),
                    dsize: Dsize(c.dsa as u32),
                };
                let mut res: GGSW<Vec<u8>> = GGSW::alloc_from_infos(&res_infos);
                for r in 0..c.dnum {
                    for ci in 0..c.rank + 1 {
                        for (i, x) in res.at_mut(r, ci).data_mut().raw_mut().iter_mut().enumerate() {
                            *x = crate::fillpat::pat(0x7777, i + 977 * (r * 16 + ci));
                        }
                    }
                }
                match c.op.as_str() {
                    "from_gglwe" => {
                        dirty_fill::<BE>(&mut scratch, c.dirty);
                        module.ggsw_from_gglwe(&mut res, a_gglwe.unwrap(), &tsk_prep, scratch.borrow());
                    }
                    "ks" => {
                        let k = ksk.unwrap();
                        let mut kp = module.glwe_switching_key_prepared_alloc_from_infos(k);
                        module.glwe_switching_key_prepare(&mut kp, k, scratch.borrow());
                        dirty_fill::<BE>(&mut scratch, c.dirty);
                        module.ggsw_keyswitch(&mut res, a_ggsw.unwrap(), &kp, &tsk_prep, scratch.borrow());
                    }
                    "auto" => {
                        let k = atk.unwrap();
                        let mut kp = module.glwe_automorphism_key_prepared_alloc_from_infos(k);
                        module.glwe_automorphism_key_prepare(&mut kp, k, scratch.borrow());
                        dirty_fill::<BE>(&mut scratch, c.dirty);
                        module.ggsw_automorphism(&mut res, a_ggsw.unwrap(), &kp, &tsk_prep, scratch.borrow());
                    }
                    _ => return "bad-op".to_string(),
                }
                fmt_ggsw_cells(&res, c.dnum, c.rank + 1)
            }));
            match r {
                Ok(s) => s,
                Err(e) => {
                    let msg = e.downcast_ref::<String>().cloned().or_else(|| e.downcast_ref::<&str>().map(|s| s.to_string())).unwrap_or_default();
                    format!("panic:{}", panic_class(&msg))
                }
            }
        }
    };
}

pub fn dirty_fill<BE: poulpy_hal::layouts::Backend>(scratch: &mut ScratchOwned<BE>, dirty: u64)
where
    ScratchOwned<BE>: ScratchOwnedBorrow<BE>,
    poulpy_hal::layouts::Scratch<BE>: TakeSlice,
{
    let (sl, _) = scratch.borrow().take_slice::<u64>(SCRATCH / 8 - 64);
    for (i, x) in sl.iter_mut().enumerate() {
        *x = if dirty != 0 { dirty.wrapping_add((i as u64 % 7) << 40) } else { 0 };
    }
}

expand_backend!(run_fft64ref, FFT64Ref);
expand_backend!(run_ntt120ref, NTT120Ref);
expand_backend!(run_fft64avx, FFT64Avx);
expand_backend!(run_ntt120avx, NTT120Avx);

pub fn one_case(t: &[&str]) -> String {
    let kv = kvs(t);
    let us = |k: &str| kv.get(k).map(|s| s.parse::<usize>().unwrap()).unwrap_or(0);
    let c = XCase {
        op: kv.get("op").unwrap_or(&"from_gglwe").to_string(),
        n: us("n"),
        rank: us("rank"),
        ba: us("ba"),
        dsa: us("dsa").max(1),
        dnum: us("dnum"),
        ko: us("ko"),
        dirty: kv.get("dirty").map(|s| s.parse::<u64>().unwrap()).unwrap_or(0),
    };
    let seed: u64 = kv.get("seed").map(|s| s.parse().unwrap()).unwrap_or(1);
    let m2 = make_m2(c.n, kv.get("m2").copied().unwrap_or("one"));
    let (ka, bk, kk, dsk, dnk) = (us("ka"), us("bk"), us("kk"), us("dsk").max(1), us("dnk"));

    type G = NTT120Ref;
    let module: Module<G> = Module::<G>::new(c.n as u64);
    let mut scratch: ScratchOwned<G> = ScratchOwned::alloc(SCRATCH);
    let mut source_xe = Source::new(seed32(seed, 2));
    let mut source_xa = Source::new(seed32(seed, 3));

    // secrets: `sk` is the secret of the result; `sk_in` only for op=ks
    let mk_secret = |tag: u8| -> (GLWESecret<Vec<u8>>, Vec<i64>) {
        let mut s1 = Source::new(seed32(seed, tag));
        let mut s2 = Source::new(seed32(seed, tag));
        let mut sk = GLWESecret::alloc(Degree(c.n as u32), Rank(c.rank as u32));
        sk.fill_ternary_prob(0.5, &mut s1);
        let mut copy = ScalarZnx::alloc(c.n, c.rank);
        let mut ints = Vec::new();
        for i in 0..c.rank {
            copy.fill_ternary_prob(i, 0.5, &mut s2);
            ints.extend_from_slice(copy.at(i, 0));
        }
        (sk, ints)
    };
    let (sk, sk_ints) = mk_secret(1);
    let mut sk_prep: GLWESecretPrepared<DeviceBuf<G>, G> = module.glwe_secret_prepared_alloc(Rank(c.rank as u32));
    module.glwe_secret_prepare(&mut sk_prep, &sk);

    let tsk_infos = GGLWEToGGSWKeyLayout {
        n: Degree(c.n as u32),
        base2k: Base2K(bk as u32),
        k: TorusPrecision(kk as u32),
        rank: Rank(c.rank as u32),
        dnum: Dnum(dnk as u32),
        dsize: Dsize(dsk as u32),
    };
    let tsk_enc = EncryptionLayout::new_from_default_sigma(tsk_infos).unwrap();
    let mut tsk: GGLWEToGGSWKey<Vec<u8>> = GGLWEToGGSWKey::alloc_from_infos(&tsk_infos);
    module.gglwe_to_ggsw_key_encrypt_sk(&mut tsk, &sk, &tsk_enc, &mut source_xe, &mut source_xa, scratch.borrow());

    let mut out = format!("ok sk={} m2={}", fmt_ints(&sk_ints), fmt_ints(&m2));
    // key dump: (key, row, input column, output column, limb, coefficient)
    {
        let mut s = String::new();
        let mut first = true;
        for i in 0..c.rank {
            let g = tsk.at(i);
            for r in 0..dnk {
                for ci in 0..c.rank {
                    let cell = g.at(r, ci);
                    let v = cell.data();
                    for co in 0..c.rank + 1 {
                        for j in 0..kk.div_ceil(bk) {
                            for x in v.at(co, j) {
                                if !first {
                                    s.push(',');
                                }
                                first = false;
                                s.push_str(&x.to_string());
                            }
                        }
                    }
                }
            }
        }
        out.push_str(&format!(" k={s}"));
    }

    let mut pt = ScalarZnx::alloc(c.n, 1);
    pt.raw_mut().copy_from_slice(&m2);

    let mut a_gglwe: Option<GGLWE<Vec<u8>>> = None;
    let mut a_ggsw: Option<GGSW<Vec<u8>>> = None;
    let mut ksk: Option<GLWESwitchingKey<Vec<u8>>> = None;
    let mut atk: Option<GLWEAutomorphismKey<Vec<u8>>> = None;

    match c.op.as_str() {
        "from_gglwe" => {
            let a_infos = GGLWELayout {
                n: Degree(c.n as u32),
                base2k: Base2K(c.ba as u32),
                k: TorusPrecision(ka as u32),
                rank_in: Rank(1),
                rank_out: Rank(c.rank as u32),
                dnum: Dnum(c.dnum as u32),
                dsize: Dsize(c.dsa as u32),
            };
            let a_enc = EncryptionLayout::new_from_default_sigma(a_infos).unwrap();
            let mut a: GGLWE<Vec<u8>> = GGLWE::alloc_from_infos(&a_infos);
            module.gglwe_encrypt_sk(&mut a, &pt, &sk_prep, &a_enc, &mut source_xe, &mut source_xa, scratch.borrow());
            let rows: Vec<String> = (0..c.dnum).map(|r| fmt_glwe(&a.at(r, 0))).collect();
            out.push_str(&format!(" am={}", rows.join(";")));
            a_gglwe = Some(a);
        }
        "ks" | "auto" => {
            let a_infos = GGSWLayout {
                n: Degree(c.n as u32),
                base2k: Base2K(c.ba as u32),
                k: TorusPrecision(ka as u32),
                rank: Rank(c.rank as u32),
                dnum: Dnum(c.dnum as u32),
                dsize: Dsize(c.dsa as u32),
            };
            let a_enc = EncryptionLayout::new_from_default_sigma(a_infos).unwrap();
            let mut a: GGSW<Vec<u8>> = GGSW::alloc_from_infos(&a_infos);
            if c.op == "ks" {
                let (sk_in, _) = mk_secret(9);
                let mut sk_in_prep: GLWESecretPrepared<DeviceBuf<G>, G> = module.glwe_secret_prepared_alloc(Rank(c.rank as u32));
                module.glwe_secret_prepare(&mut sk_in_prep, &sk_in);
                module.ggsw_encrypt_sk(&mut a, &pt, &sk_in_prep, &a_enc, &mut source_xe, &mut source_xa, scratch.borrow());
                let k_infos = GLWESwitchingKeyLayout {
                    n: Degree(c.n as u32),
                    base2k: Base2K(bk as u32),
                    k: TorusPrecision(kk as u32),
                    rank_in: Rank(c.rank as u32),
                    rank_out: Rank(c.rank as u32),
                    dnum: Dnum(dnk as u32),
                    dsize: Dsize(dsk as u32),
                };
                let k_enc = EncryptionLayout::new_from_default_sigma(k_infos).unwrap();
                let mut k: GLWESwitchingKey<Vec<u8>> = GLWESwitchingKey::alloc_from_infos(&k_infos);
                module.glwe_switching_key_encrypt_sk(&mut k, &sk_in, &sk, &k_enc, &mut source_xe, &mut source_xa, scratch.borrow());
                ksk = Some(k);
            } else {
                module.ggsw_encrypt_sk(&mut a, &pt, &sk_prep, &a_enc, &mut source_xe, &mut source_xa, scratch.borrow());
                let p: i64 = kv.get("p").map(|s| s.parse().unwrap()).unwrap_or(-5);
                let k_infos = GLWEAutomorphismKeyLayout {
                    n: Degree(c.n as u32),
                    base2k: Base2K(bk as u32),
                    k: TorusPrecision(kk as u32),
                    rank: Rank(c.rank as u32),
                    dnum: Dnum(dnk as u32),
                    dsize: Dsize(dsk as u32),
                };
                let k_enc = EncryptionLayout::new_from_default_sigma(k_infos).unwrap();
                let mut k: GLWEAutomorphismKey<Vec<u8>> = GLWEAutomorphismKey::alloc_from_infos(&k_infos);
                module.glwe_automorphism_key_encrypt_sk(&mut k, p, &sk, &k_enc, &mut source_xe, &mut source_xa, scratch.borrow());
                atk = Some(k);
            }
            a_ggsw = Some(a);
        }
        _ => {}
    }

    out.push_str(&format!(" be0={}", run_fft64ref(&c, a_gglwe.as_ref(), a_ggsw.as_ref(), &tsk, ksk.as_ref(), atk.as_ref())));
    out.push_str(&format!(" be1={}", run_ntt120ref(&c, a_gglwe.as_ref(), a_ggsw.as_ref(), &tsk, ksk.as_ref(), atk.as_ref())));
    out.push_str(&format!(" be2={}", run_fft64avx(&c, a_gglwe.as_ref(), a_ggsw.as_ref(), &tsk, ksk.as_ref(), atk.as_ref())));
    out.push_str(&format!(" be3={}", run_ntt120avx(&c, a_gglwe.as_ref(), a_ggsw.as_ref(), &tsk, ksk.as_ref(), atk.as_ref())));
    out
}

pub fn run(_args: &[String]) {
    if std::env::var("PVH_VERBOSE").is_err() {
        std::panic::set_hook(Box::new(|_| {}));
    }
    let stdin = std::io::stdin();
    let stdout = std::io::stdout();
    let mut out = stdout.lock();
    for line in stdin.lock().lines() {
        let line = line.unwrap();
        crate::fillpat::set_from_line(&line);
        let t: Vec<&str> = line.split_whitespace().collect();
        if t.is_empty() {
            continue;
        }
        let id = t[0];
        let r = std::panic::catch_unwind(std::panic::AssertUnwindSafe(|| one_case(&t[1..])));
        match r {
            Ok(s) => writeln!(out, "{id} {s}").unwrap(),
            Err(e) => {
                let msg = e.downcast_ref::<String>().cloned().or_else(|| e.downcast_ref::<&str>().map(|s| s.to_string())).unwrap_or_default();
                writeln!(out, "{id} gen-panic:{}", panic_class(&msg)).unwrap()
            }
        }
    }
    out.flush().unwrap();
}
