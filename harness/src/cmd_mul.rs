//! `pvh mul` — ciphertext multiplication of the real code (tensor / square / accumulate /
//! relinearise / plain / constant), on all four back ends, with fully explicit inputs (C05).
//!
//! Request line (tokens `k=v`):
//!   `id op=<tensor|tensor_add|square|plain|plain_assign|const|const_assign|relin> n=<N> rank=<r> b=<operand base2k>
//!       ka=<effective k of a> kb=<effective k of b / plaintext> bo=<res base2k> ko=<res k> off=<cnv_offset>
//!       [clen=<limbs of the constant>] [bk= kk= dsize= dnum=  (tensor key)] m=<rand|ext> seed=<u64>
//!       [dirty=<u64>] [stale=<bits>]`
//! Answer line: `id ok sk=<ints> a=<C>x<S>:<ints> [x=<C>x<S>:<ints>] [c=<ints>] [r0=…] [g=<ints>]
//!               be0=<R> be1=<R> be2=<R> be3=<R>` with `<R>` = `<C>x<S>:<ints>` or `panic:<class>`
//! (FFT64Ref, NTT120Ref, FFT64Avx, NTT120Avx; integer lists in (column, limb, coefficient) order).
//! For the tensor forms `dec=` is the plaintext returned by the real `glwe_tensor_decrypt` (NTT120Ref) applied to
//! the tensor `dect=` (the same operation re-run on NTT120Ref).
//! For `relin`, `a` is the tensor produced by `glwe_tensor_apply` on NTT120Ref from two fresh
//! encryptions and `g` the tensor key (`glwe_tensor_key_encrypt_sk`) in (row, input column) order.
use std::io::{BufRead, Write};

use poulpy_core::{
    EncryptionLayout, GLWEEncryptSk, GLWEMulConst, GLWEMulPlain, GLWETensorDecrypt, GLWETensorKeyEncryptSk, GLWETensoring,
    layouts::{
        Base2K, Degree, Dnum, Dsize, GGLWEInfos, GGLWEToRef, GLWE, GLWEInfos, GLWELayout, GLWEPlaintext, GLWESecret,
        GLWESecretPreparedFactory, GLWESecretTensor, GLWESecretTensorFactory, GLWESecretTensorPrepared,
        GLWESecretTensorPreparedFactory, GLWETensor, GLWETensorKey, GLWETensorKeyLayout, GLWETensorKeyPrepared,
        GLWETensorKeyPreparedFactory, LWEInfos, Rank, TorusPrecision, prepared::GLWESecretPrepared,
    },
};
use poulpy_cpu_avx::{FFT64Avx, NTT120Avx};
use poulpy_cpu_ref::{FFT64Ref, NTT120Ref};
use poulpy_hal::{
    api::{ModuleNew, ScratchOwnedAlloc, ScratchOwnedBorrow, ScratchTakeBasic, TakeSlice, VecZnxDftApply, VecZnxFillUniform},
    layouts::{DeviceBuf, Module, ScalarZnx, ScratchOwned, VecZnx, ZnxInfos, ZnxView, ZnxViewMut},
    source::Source,
};

use crate::cmd_ep::{Sm, fmt_glwe, fmt_ints, fmt_vec, kvs, seed32};
use crate::cmd_hal::panic_class;

pub const SCRATCH: usize = 1 << 23;

pub struct MCase {
    pub op: String,
    pub n: usize,
    pub rank: usize,
    pub b: usize,
    pub ka: usize,
    pub kb: usize,
    pub bo: usize,
    pub ko: usize,
    pub off: usize,
    pub dirty: u64,
    pub consts: Vec<i64>,
    pub r0: Vec<i64>,
    pub stale: Vec<i64>,
    pub key_size: usize,
}

macro_rules! mul_backend {
    ($fname:ident, $be:ty) => {
        fn $fname(
            c: &MCase,
            a: &VecZnx<Vec<u8>>,
            x: Option<&VecZnx<Vec<u8>>>,
            tsk: Option<&GLWETensorKey<Vec<u8>>>,
        ) -> String {
            type BE = $be;
            let r = std::panic::catch_unwind(std::panic::AssertUnwindSafe(|| {
                let module: Module<BE> = Module::<BE>::new(c.n as u64);
                let mut scratch: ScratchOwned<BE> = ScratchOwned::alloc(SCRATCH);
                let in_a = GLWELayout { n: Degree(c.n as u32), base2k: Base2K(c.b as u32), k: TorusPrecision(c.ka as u32), rank: Rank(c.rank as u32) };
                let in_b = GLWELayout { n: Degree(c.n as u32), base2k: Base2K(c.b as u32), k: TorusPrecision(c.kb as u32), rank: Rank(c.rank as u32) };
                let out = GLWELayout { n: Degree(c.n as u32), base2k: Base2K(c.bo as u32), k: TorusPrecision(c.ko as u32), rank: Rank(c.rank as u32) };
                let mut tsk_prep: Option<GLWETensorKeyPrepared<DeviceBuf<BE>, BE>> = None;
                if let Some(t) = tsk {
                    let mut p = module.alloc_tensor_key_prepared_from_infos(t);
                    module.prepare_tensor_key(&mut p, t, scratch.borrow());
                    tsk_prep = Some(p);
                }
                {
                    let (sl, _) = scratch.borrow().take_slice::<u64>(SCRATCH / 8 - 64);
                    for (i, w) in sl.iter_mut().enumerate() {
                        *w = if c.dirty != 0 { c.dirty.wrapping_add((i as u64 % 7) << 40) } else { 0 };
                    }
                }
                match c.op.as_str() {
                    "tensor" | "tensor_add" | "square" => {
                        let mut ga: GLWE<Vec<u8>> = GLWE::alloc_from_infos(&in_a);
                        ga.data_mut().raw_mut().copy_from_slice(a.raw());
                        let mut res: GLWETensor<Vec<u8>> = GLWETensor::alloc_from_infos(&out);
                        if c.op == "tensor_add" {
                            res.data_mut().raw_mut().copy_from_slice(&c.r0);
                        } else {
                            for (i, w) in res.data_mut().raw_mut().iter_mut().enumerate() {
                                *w = crate::fillpat::pat(0x3333, i);
                            }
                        }
                        if c.op == "square" {
                            module.glwe_tensor_square_apply(c.off, &mut res, &ga, c.ka, scratch.borrow());
                        } else {
                            let mut gb: GLWE<Vec<u8>> = GLWE::alloc_from_infos(&in_b);
                            gb.data_mut().raw_mut().copy_from_slice(x.unwrap().raw());
                            if c.op == "tensor" {
                                module.glwe_tensor_apply(c.off, &mut res, &ga, c.ka, &gb, c.kb, scratch.borrow());
                            } else {
                                module.glwe_tensor_apply_add_assign(c.off, &mut res, &ga, c.ka, &gb, c.kb, scratch.borrow());
                            }
                        }
                        fmt_vec(&clone_vec(res.data()))
                    }
                    "plain" | "plain_assign" => {
                        let mut ga: GLWE<Vec<u8>> = GLWE::alloc_from_infos(&in_a);
                        ga.data_mut().raw_mut().copy_from_slice(a.raw());
                        let mut pt: GLWEPlaintext<Vec<u8>> = GLWEPlaintext::alloc_from_infos(&in_b);
                        pt.data.raw_mut().copy_from_slice(x.unwrap().raw());
                        if c.op == "plain" {
                            let mut res: GLWE<Vec<u8>> = GLWE::alloc_from_infos(&out);
                            for (i, w) in res.data_mut().raw_mut().iter_mut().enumerate() {
                                *w = crate::fillpat::pat(0x3333, i);
                            }
                            module.glwe_mul_plain(c.off, &mut res, &ga, c.ka, &pt, c.kb, scratch.borrow());
                            fmt_glwe(&res)
                        } else {
                            module.glwe_mul_plain_assign(c.off, &mut ga, c.ka, &pt, c.kb, scratch.borrow());
                            fmt_glwe(&ga)
                        }
                    }
                    "const" | "const_assign" => {
                        let mut ga: GLWE<Vec<u8>> = GLWE::alloc_from_infos(&in_a);
                        ga.data_mut().raw_mut().copy_from_slice(a.raw());
                        if c.op == "const" {
                            let mut res: GLWE<Vec<u8>> = GLWE::alloc_from_infos(&out);
                            for (i, w) in res.data_mut().raw_mut().iter_mut().enumerate() {
                                *w = crate::fillpat::pat(0x3333, i);
                            }
                            module.glwe_mul_const(c.off, &mut res, &ga, &c.consts, scratch.borrow());
                            fmt_glwe(&res)
                        } else {
                            module.glwe_mul_const_assign(c.off, &mut ga, &c.consts, scratch.borrow());
                            fmt_glwe(&ga)
                        }
                    }
                    "relin" => {
                        // `a` is a tensor in radix b with precision ka
                        let mut t: GLWETensor<Vec<u8>> = GLWETensor::alloc_from_infos(&in_a);
                        t.data_mut().raw_mut().copy_from_slice(a.raw());
                        let mut res: GLWE<Vec<u8>> = GLWE::alloc_from_infos(&out);
                        for (i, w) in res.data_mut().raw_mut().iter_mut().enumerate() {
                            *w = crate::fillpat::pat(0x3333, i);
                        }
                        let p = tsk_prep.as_ref().unwrap();
                        if !c.stale.is_empty() {
                            // the first two takes of glwe_tensor_relinearize: a_dft (pairs × a_dft_size), [a_conv], res_dft
                            let pairs = (c.rank * (c.rank + 1) / 2).max(1);
                            let bk = p.base2k().as_usize();
                            let a_dft_size = (t.size() * c.b).div_ceil(bk);
                            let (_d0, s1): (poulpy_hal::layouts::VecZnxDft<&mut [u8], BE>, _) = scratch.borrow().take_vec_znx_dft(&module, pairs, a_dft_size);
                            let cols = c.rank + 1;
                            let mut v: VecZnx<Vec<u8>> = VecZnx::alloc(c.n, cols, c.key_size);
                            v.raw_mut().copy_from_slice(&c.stale);
                            if c.b != bk {
                                let (_conv, s2) = s1.take_vec_znx(c.n, 1, a_dft_size);
                                let (mut d, _) = s2.take_vec_znx_dft(&module, cols, c.key_size);
                                for j in 0..cols {
                                    module.vec_znx_dft_apply(1, 0, &mut d, j, &v, j);
                                }
                            } else {
                                let (mut d, _) = s1.take_vec_znx_dft(&module, cols, c.key_size);
                                for j in 0..cols {
                                    module.vec_znx_dft_apply(1, 0, &mut d, j, &v, j);
                                }
                            }
                        }
                        module.glwe_tensor_relinearize(&mut res, &t, p, p.size(), scratch.borrow());
                        fmt_glwe(&res)
                    }
                    _ => "bad-op".to_string(),
                }
            }));
            match r {
                Ok(s) => s,
                Err(e) => {
                    let msg = e.downcast_ref::<String>().cloned().or_else(|| e.downcast_ref::<&str>().map(|s| s.to_string())).unwrap_or_default();
                    format!("panic:{}", panic_class(&msg))
                }
            }
        }
    };
}

pub fn clone_vec<D: poulpy_hal::layouts::DataRef>(v: &VecZnx<D>) -> VecZnx<Vec<u8>> {
    let mut o: VecZnx<Vec<u8>> = VecZnx::alloc(v.n(), v.cols(), v.size());
    for c in 0..v.cols() {
        for j in 0..v.size() {
            o.at_mut(c, j).copy_from_slice(v.at(c, j));
        }
    }
    o
}

mul_backend!(run_fft64ref, FFT64Ref);
mul_backend!(run_ntt120ref, NTT120Ref);
mul_backend!(run_fft64avx, FFT64Avx);
mul_backend!(run_ntt120avx, NTT120Avx);

pub fn one_case(t: &[&str]) -> String {
    let kv = kvs(t);
    let us = |k: &str| kv.get(k).map(|s| s.parse::<usize>().unwrap()).unwrap_or(0);
    let mut c = MCase {
        op: kv.get("op").unwrap_or(&"tensor").to_string(),
        n: us("n"),
        rank: us("rank"),
        b: us("b"),
        ka: us("ka"),
        kb: us("kb"),
        bo: us("bo"),
        ko: us("ko"),
        off: us("off"),
        dirty: kv.get("dirty").map(|s| s.parse::<u64>().unwrap()).unwrap_or(0),
        consts: vec![],
        r0: vec![],
        stale: vec![],
        key_size: 0,
    };
    let seed: u64 = kv.get("seed").map(|s| s.parse().unwrap()).unwrap_or(1);
    let mclass = kv.get("m").copied().unwrap_or("rand");

    type G = NTT120Ref;
    let module: Module<G> = Module::<G>::new(c.n as u64);
    let mut scratch: ScratchOwned<G> = ScratchOwned::alloc(SCRATCH);
    let mut source_xs = Source::new(seed32(seed, 1));
    let mut source_xs2 = Source::new(seed32(seed, 1));
    let mut source_xe = Source::new(seed32(seed, 2));
    let mut source_xa = Source::new(seed32(seed, 3));
    let mut rnd = Sm(seed ^ 0xC05);

    let mut sk = GLWESecret::alloc(Degree(c.n as u32), Rank(c.rank as u32));
    sk.fill_ternary_prob(0.5, &mut source_xs);
    let mut sk_copy = ScalarZnx::alloc(c.n, c.rank);
    for i in 0..c.rank {
        sk_copy.fill_ternary_prob(i, 0.5, &mut source_xs2);
    }
    let mut sk_prep: GLWESecretPrepared<DeviceBuf<G>, G> = module.glwe_secret_prepared_alloc(Rank(c.rank as u32));
    module.glwe_secret_prepare(&mut sk_prep, &sk);
    let mut sk_ints: Vec<i64> = Vec::new();
    for i in 0..c.rank {
        sk_ints.extend_from_slice(sk_copy.at(i, 0));
    }
    let mut out = format!("ok sk={}", fmt_ints(&sk_ints));

    let b = c.b;
    let mut enc = |k: usize| -> GLWE<Vec<u8>> {
        let infos = GLWELayout { n: Degree(c.n as u32), base2k: Base2K(b as u32), k: TorusPrecision(k as u32), rank: Rank(c.rank as u32) };
        let mut ct: GLWE<Vec<u8>> = GLWE::alloc_from_infos(&infos);
        let mut pt: GLWEPlaintext<Vec<u8>> = GLWEPlaintext::alloc_from_infos(&infos);
        if mclass == "ext" {
            for x in pt.data.raw_mut().iter_mut() {
                *x = if rnd.next() & 1 == 0 { -(1i64 << (b - 1)) } else { (1i64 << (b - 1)) - 1 };
            }
        } else {
            module.vec_znx_fill_uniform(b, &mut pt.data, 0, &mut source_xa);
        }
        let e = EncryptionLayout::new_from_default_sigma(infos).unwrap();
        module.glwe_encrypt_sk(&mut ct, &pt, &sk_prep, &e, &mut source_xe, &mut source_xa, scratch.borrow());
        ct
    };

    let ga = enc(c.ka);
    let mut a_vec: VecZnx<Vec<u8>> = clone_vec(ga.data());
    let mut x_vec: Option<VecZnx<Vec<u8>>> = None;
    let mut tsk: Option<GLWETensorKey<Vec<u8>>> = None;

    match c.op.as_str() {
        "tensor" | "tensor_add" => {
            let gb = enc(c.kb);
            x_vec = Some(clone_vec(gb.data()));
        }
        "square" => {}
        "plain" | "plain_assign" => {
            let size_b = c.kb.div_ceil(c.b);
            let mut p: VecZnx<Vec<u8>> = VecZnx::alloc(c.n, 1, size_b);
            let mut r2 = Sm(seed ^ 0x9999);
            for x in p.raw_mut().iter_mut() {
                *x = if mclass == "ext" {
                    if r2.next() & 1 == 0 { -(1i64 << (c.b - 1)) } else { (1i64 << (c.b - 1)) - 1 }
                } else {
                    ((r2.next() << (64 - c.b)) as i64) >> (64 - c.b)
                };
            }
            x_vec = Some(p);
        }
        "const" | "const_assign" => {
            let clen = us("clen").max(1);
            let mut r2 = Sm(seed ^ 0x7777);
            c.consts = (0..clen)
                .map(|_| if mclass == "ext" { -(1i64 << (c.b - 1)) } else { ((r2.next() << (64 - c.b)) as i64) >> (64 - c.b) })
                .collect();
            out.push_str(&format!(" c={}", fmt_ints(&c.consts)));
        }
        "relin" => {
            // the tensor: product of two fresh encryptions at offset `off`, radix b, precision ka
            let gb = enc(c.ka);
            let t_infos = GLWELayout { n: Degree(c.n as u32), base2k: Base2K(c.b as u32), k: TorusPrecision(c.ka as u32), rank: Rank(c.rank as u32) };
            let mut tt: GLWETensor<Vec<u8>> = GLWETensor::alloc_from_infos(&t_infos);
            module.glwe_tensor_apply(c.off, &mut tt, &ga, c.ka, &gb, c.ka, scratch.borrow());
            a_vec = clone_vec(tt.data());
            out.push_str(&format!(" f1={} f2={}", fmt_glwe(&ga), fmt_glwe(&gb)));
            let tsk_infos = GLWETensorKeyLayout {
                n: Degree(c.n as u32),
                base2k: Base2K(us("bk") as u32),
                k: TorusPrecision(us("kk") as u32),
                rank: Rank(c.rank as u32),
                dnum: Dnum(us("dnum") as u32),
                dsize: Dsize(us("dsize") as u32),
            };
            let tsk_enc = EncryptionLayout::new_from_default_sigma(tsk_infos).unwrap();
            let mut k: GLWETensorKey<Vec<u8>> = GLWETensorKey::alloc_from_infos(&tsk_infos);
            module.glwe_tensor_key_encrypt_sk(&mut k, &sk, &tsk_enc, &mut source_xe, &mut source_xa, scratch.borrow());
            // dump: (row, input column, output column, limb, coefficient)
            let kr = GGLWEToRef::to_ref(&k);
            let rows = us("dnum");
            let pairs = (c.rank * (c.rank + 1) / 2).max(1);
            let mut s = String::new();
            let mut first = true;
            for r in 0..rows {
                for ci in 0..pairs {
                    let cell = kr.at(r, ci);
                    let v = cell.data();
                    for co in 0..v.cols() {
                        for j in 0..v.size() {
                            for x in v.at(co, j) {
                                if !first {
                                    s.push(',');
                                }
                                first = false;
                                s.push_str(&x.to_string());
                            }
                        }
                    }
                }
            }
            c.key_size = us("kk").div_ceil(us("bk"));
            out.push_str(&format!(" g={s}"));
            tsk = Some(k);
            let stale_bits = us("stale");
            if stale_bits > 0 {
                let cols = c.rank + 1;
                let mut r = Sm(seed ^ 0x57A1E);
                let mut v: VecZnx<Vec<u8>> = VecZnx::alloc(c.n, cols, c.key_size);
                for x in v.raw_mut().iter_mut() {
                    *x = ((r.next() << (64 - stale_bits)) as i64) >> (64 - stale_bits);
                }
                c.stale = v.raw().to_vec();
                out.push_str(&format!(" r0={}", fmt_vec(&v)));
            }
        }
        _ => {}
    }
    if c.op == "tensor_add" {
        let cols = c.rank + 1;
        let size_o = c.ko.div_ceil(c.bo);
        let mut v: VecZnx<Vec<u8>> = VecZnx::alloc(c.n, cols * (cols + 1) / 2, size_o);
        let mut r2 = Sm(seed ^ 0x4444);
        for x in v.raw_mut().iter_mut() {
            *x = ((r2.next() << (64 - c.bo)) as i64) >> (64 - c.bo);
        }
        c.r0 = v.raw().to_vec();
        out.push_str(&format!(" r0={}", fmt_vec(&v)));
    }
    out.push_str(&format!(" a={}", fmt_vec(&a_vec)));
    if let Some(x) = &x_vec {
        out.push_str(&format!(" x={}", fmt_vec(x)));
    }
    if matches!(c.op.as_str(), "tensor" | "square" | "tensor_add") {
        // the real tensor decryption of the real result (NTT120Ref): `dec` = plaintext limbs in the result's layout
        let in_a = GLWELayout { n: Degree(c.n as u32), base2k: Base2K(c.b as u32), k: TorusPrecision(c.ka as u32), rank: Rank(c.rank as u32) };
        let in_b = GLWELayout { n: Degree(c.n as u32), base2k: Base2K(c.b as u32), k: TorusPrecision(c.kb as u32), rank: Rank(c.rank as u32) };
        let outl = GLWELayout { n: Degree(c.n as u32), base2k: Base2K(c.bo as u32), k: TorusPrecision(c.ko as u32), rank: Rank(c.rank as u32) };
        let r = std::panic::catch_unwind(std::panic::AssertUnwindSafe(|| {
            let mut scr2: ScratchOwned<G> = ScratchOwned::alloc(SCRATCH);
            let mut ga2: GLWE<Vec<u8>> = GLWE::alloc_from_infos(&in_a);
            ga2.data_mut().raw_mut().copy_from_slice(a_vec.raw());
            let mut res: GLWETensor<Vec<u8>> = GLWETensor::alloc_from_infos(&outl);
            if c.op == "tensor_add" {
                res.data_mut().raw_mut().copy_from_slice(&c.r0);
            }
            if c.op == "square" {
                module.glwe_tensor_square_apply(c.off, &mut res, &ga2, c.ka, scr2.borrow());
            } else {
                let mut gb2: GLWE<Vec<u8>> = GLWE::alloc_from_infos(&in_b);
                gb2.data_mut().raw_mut().copy_from_slice(x_vec.as_ref().unwrap().raw());
                if c.op == "tensor" {
                    module.glwe_tensor_apply(c.off, &mut res, &ga2, c.ka, &gb2, c.kb, scr2.borrow());
                } else {
                    module.glwe_tensor_apply_add_assign(c.off, &mut res, &ga2, c.ka, &gb2, c.kb, scr2.borrow());
                }
            }
            let mut sk_tensor: GLWESecretTensor<Vec<u8>> = GLWESecretTensor::alloc(Degree(c.n as u32), Rank(c.rank as u32));
            module.glwe_secret_tensor_prepare(&mut sk_tensor, &sk, scr2.borrow());
            let mut stp: GLWESecretTensorPrepared<DeviceBuf<G>, G> = module.glwe_secret_tensor_prepared_alloc(Rank(c.rank as u32));
            module.glwe_secret_tensor_prepared_prepare(&mut stp, &sk_tensor);
            let mut pt: GLWEPlaintext<Vec<u8>> = GLWEPlaintext::alloc_from_infos(&outl);
            module.glwe_tensor_decrypt(&res, &mut pt, &sk_prep, &stp, scr2.borrow());
            format!("{} dect={}", fmt_vec(&clone_vec(&pt.data)), fmt_vec(&clone_vec(res.data())))
        }));
        match r {
            Ok(s) => out.push_str(&format!(" dec={s}")),
            Err(_) => out.push_str(" dec=panic"),
        }
    }
    out.push_str(&format!(" be0={}", run_fft64ref(&c, &a_vec, x_vec.as_ref(), tsk.as_ref())));
    out.push_str(&format!(" be1={}", run_ntt120ref(&c, &a_vec, x_vec.as_ref(), tsk.as_ref())));
    out.push_str(&format!(" be2={}", run_fft64avx(&c, &a_vec, x_vec.as_ref(), tsk.as_ref())));
    out.push_str(&format!(" be3={}", run_ntt120avx(&c, &a_vec, x_vec.as_ref(), tsk.as_ref())));
    out
}

pub fn run(_args: &[String]) {
    if std::env::var("PVH_VERBOSE").is_err() {
        std::panic::set_hook(Box::new(|_| {}));
    }
    let stdin = std::io::stdin();
    let stdout = std::io::stdout();
    let mut out = stdout.lock();
    for line in stdin.lock().lines() {
        let line = line.unwrap();
        crate::fillpat::set_from_line(&line);
        let t: Vec<&str> = line.split_whitespace().collect();
        if t.is_empty() {
            continue;
        }
        let id = t[0];
        let r = std::panic::catch_unwind(std::panic::AssertUnwindSafe(|| one_case(&t[1..])));
        match r {
            Ok(s) => writeln!(out, "{id} {s}").unwrap(),
            Err(e) => {
                let msg = e.downcast_ref::<String>().cloned().or_else(|| e.downcast_ref::<&str>().map(|s| s.to_string())).unwrap_or_default();
                writeln!(out, "{id} gen-panic:{}", panic_class(&msg)).unwrap()
            }
        }
    }
    out.flush().unwrap();
}
