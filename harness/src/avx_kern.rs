//! `pvh avx` — kernel mode: calls one slice kernel of one back end on explicit inputs through the
//! lowest public entry point (the `Znx*` / `I128*` primitive traits every back end type
//! implements), inside guarded buffers so that out-of-slice accesses of a vector kernel are
//! observed instead of corrupting the heap.
//!
//! request : `id kern be=<fref|favx|nref|navx> op=<name> [b=..] [lsh=..] [k=..] [p=..] [ow=0|1] x=.. [a=..] [c=..]`
//! answer  : `id X|C` — the two mutable buffers after the call (`-` = empty / not used), a trailing
//!           `|stray:<k>` when a guard word next to a buffer changed, `panic:<class>` on a panic.
use poulpy_cpu_ref::reference::ntt120::{AddOp, I128BigOps, I128NormalizeOps, SubOp};
use poulpy_cpu_ref::reference::znx::*;

pub trait AllZnx:
    ZnxAdd
    + ZnxAddAssign
    + ZnxSub
    + ZnxSubAssign
    + ZnxSubNegateAssign
    + ZnxAutomorphism
    + ZnxCopy
    + ZnxNegate
    + ZnxNegateAssign
    + ZnxMulAddPowerOfTwo
    + ZnxMulPowerOfTwo
    + ZnxMulPowerOfTwoAssign
    + ZnxRotate
    + ZnxZero
    + ZnxSwitchRing
    + ZnxNormalizeFirstStep
    + ZnxNormalizeMiddleStep
    + ZnxNormalizeFinalStep
    + ZnxNormalizeMiddleStepSub
    + ZnxNormalizeFinalStepSub
    + ZnxNormalizeFinalStepAssign
    + ZnxNormalizeFirstStepCarryOnly
    + ZnxNormalizeFirstStepAssign
    + ZnxNormalizeMiddleStepCarryOnly
    + ZnxNormalizeMiddleStepAssign
    + ZnxExtractDigitAddMul
    + ZnxNormalizeDigit
{
}
impl<T> AllZnx for T where
    T: ZnxAdd
        + ZnxAddAssign
        + ZnxSub
        + ZnxSubAssign
        + ZnxSubNegateAssign
        + ZnxAutomorphism
        + ZnxCopy
        + ZnxNegate
        + ZnxNegateAssign
        + ZnxMulAddPowerOfTwo
        + ZnxMulPowerOfTwo
        + ZnxMulPowerOfTwoAssign
        + ZnxRotate
        + ZnxZero
        + ZnxSwitchRing
        + ZnxNormalizeFirstStep
        + ZnxNormalizeMiddleStep
        + ZnxNormalizeFinalStep
        + ZnxNormalizeMiddleStepSub
        + ZnxNormalizeFinalStepSub
        + ZnxNormalizeFinalStepAssign
        + ZnxNormalizeFirstStepCarryOnly
        + ZnxNormalizeFirstStepAssign
        + ZnxNormalizeMiddleStepCarryOnly
        + ZnxNormalizeMiddleStepAssign
        + ZnxExtractDigitAddMul
        + ZnxNormalizeDigit
{
}

pub const GUARD: usize = 320;
const CANARY64: i64 = 0x5A5A_1234_0F0F_7777;
const CANARY128: i128 = 0x5A5A_1234_0F0F_7777_1111_2222_3333_4444;

/// a slice living between two canary zones
pub struct G<T: Copy + PartialEq> {
    pub buf: Vec<T>,
    pub len: usize,
    canary: T,
}
impl<T: Copy + PartialEq> G<T> {
    pub fn new(v: &[T], canary: T) -> Self {
        let mut buf = vec![canary; GUARD];
        buf.extend_from_slice(v);
        buf.extend(std::iter::repeat(canary).take(GUARD));
        G { buf, len: v.len(), canary }
    }
    pub fn s(&self) -> &[T] {
        &self.buf[GUARD..GUARD + self.len]
    }
    pub fn m(&mut self) -> &mut [T] {
        let l = self.len;
        &mut self.buf[GUARD..GUARD + l]
    }
    /// signed offset (relative to the slice start) of the first changed guard word
    pub fn stray(&self) -> Option<i64> {
        for (i, x) in self.buf.iter().enumerate() {
            if (i < GUARD || i >= GUARD + self.len) && *x != self.canary {
                return Some(i as i64 - GUARD as i64);
            }
        }
        None
    }
}

pub fn show<T: std::fmt::Display>(v: &[T]) -> String {
    if v.is_empty() {
        "-".to_string()
    } else {
        v.iter().map(|x| x.to_string()).collect::<Vec<_>>().join(",")
    }
}

pub struct Req<'a> {
    pub t: &'a [&'a str],
}
impl<'a> Req<'a> {
    pub fn get(&self, k: &str) -> Option<&'a str> {
        for tok in self.t {
            if let Some((a, b)) = tok.split_once('=') {
                if a == k {
                    return Some(b);
                }
            }
        }
        None
    }
    pub fn usize(&self, k: &str) -> usize {
        self.get(k).and_then(|s| s.parse().ok()).unwrap_or(0)
    }
    pub fn i64(&self, k: &str) -> i64 {
        self.get(k).and_then(|s| s.parse().ok()).unwrap_or(0)
    }
    pub fn list<T: std::str::FromStr>(&self, k: &str) -> Vec<T> {
        match self.get(k) {
            None | Some("-") | Some("") => vec![],
            Some(s) => s.split(',').filter_map(|x| x.parse().ok()).collect(),
        }
    }
}

fn fin(x: &G<i64>, c: &G<i64>, a: &G<i64>) -> String {
    let mut s = format!("{}|{}", show(x.s()), show(c.s()));
    if let Some(k) = x.stray().or(c.stray()).or(a.stray()) {
        s.push_str(&format!("|stray:{k}"));
    }
    s
}

/// 64-bit slice kernels
pub fn kern64<T: AllZnx>(r: &Req) -> String {
    let op = r.get("op").unwrap_or("");
    let b = r.usize("b");
    let lsh = r.usize("lsh");
    let k = r.i64("k");
    let p = r.i64("p");
    let ow = r.usize("ow") == 1;
    let mut x = G::new(&r.list::<i64>("x"), CANARY64);
    let a = G::new(&r.list::<i64>("a"), CANARY64);
    let mut c = G::new(&r.list::<i64>("c"), CANARY64);
    match op {
        "first_carry_only" => T::znx_normalize_first_step_carry_only(b, lsh, x.s(), c.m()),
        "first_assign" => T::znx_normalize_first_step_assign(b, lsh, x.m(), c.m()),
        "first" => {
            if ow {
                T::znx_normalize_first_step::<true>(b, lsh, x.m(), a.s(), c.m())
            } else {
                T::znx_normalize_first_step::<false>(b, lsh, x.m(), a.s(), c.m())
            }
        }
        "middle_carry_only" => T::znx_normalize_middle_step_carry_only(b, lsh, x.s(), c.m()),
        "middle_assign" => T::znx_normalize_middle_step_assign(b, lsh, x.m(), c.m()),
        "middle" => {
            if ow {
                T::znx_normalize_middle_step::<true>(b, lsh, x.m(), a.s(), c.m())
            } else {
                T::znx_normalize_middle_step::<false>(b, lsh, x.m(), a.s(), c.m())
            }
        }
        "middle_sub" => T::znx_normalize_middle_step_sub(b, lsh, x.m(), a.s(), c.m()),
        "final_assign" => T::znx_normalize_final_step_assign(b, lsh, x.m(), c.m()),
        "final" => {
            if ow {
                T::znx_normalize_final_step::<true>(b, lsh, x.m(), a.s(), c.m())
            } else {
                T::znx_normalize_final_step::<false>(b, lsh, x.m(), a.s(), c.m())
            }
        }
        "final_sub" => T::znx_normalize_final_step_sub(b, lsh, x.m(), a.s(), c.m()),
        "extract_digit_addmul" => T::znx_extract_digit_addmul(b, lsh, x.m(), c.m()),
        "normalize_digit" => T::znx_normalize_digit(b, x.m(), c.m()),
        // c is the second read-only operand for the three-address forms
        "add" => T::znx_add(x.m(), a.s(), c.s()),
        "add_assign" => T::znx_add_assign(x.m(), a.s()),
        "sub" => T::znx_sub(x.m(), a.s(), c.s()),
        "sub_assign" => T::znx_sub_assign(x.m(), a.s()),
        "sub_negate_assign" => T::znx_sub_negate_assign(x.m(), a.s()),
        "negate" => T::znx_negate(x.m(), a.s()),
        "negate_assign" => T::znx_negate_assign(x.m()),
        "mul_pow2" => T::znx_mul_power_of_two(k, x.m(), a.s()),
        "mul_pow2_assign" => T::znx_mul_power_of_two_assign(k, x.m()),
        "muladd_pow2" => T::znx_muladd_power_of_two(k, x.m(), a.s()),
        "automorphism" => T::znx_automorphism(p, x.m(), a.s()),
        "rotate" => T::znx_rotate(p, x.m(), a.s()),
        "switch_ring" => T::znx_switch_ring(x.m(), a.s()),
        _ => return "bad-op".to_string(),
    }
    fin(&x, &c, &a)
}

/// i128 kernels of the NTT120 family.  x: i64 or i128 result (per op), a: i128/i64 operand, c: i128.
pub fn kern128<T: I128BigOps + I128NormalizeOps>(r: &Req) -> String {
    let op = r.get("op").unwrap_or("");
    let b = r.usize("b");
    let lsh = r.usize("lsh");
    let mut x64 = G::new(&r.list::<i64>("x"), CANARY64);
    let a64 = G::new(&r.list::<i64>("a"), CANARY64);
    let mut x128 = G::new(&r.list::<i128>("x"), CANARY128);
    let a128 = G::new(&r.list::<i128>("a"), CANARY128);
    let mut c128 = G::new(&r.list::<i128>("c"), CANARY128);
    let norm = match op {
        "nfc_middle" => {
            T::nfc_middle_step(b, lsh, x64.m(), a128.s(), c128.m());
            true
        }
        "nfc_middle_assign" => {
            T::nfc_middle_step_assign(b, lsh, x64.m(), c128.m());
            true
        }
        "nfc_middle_add" => {
            T::nfc_middle_step_into::<AddOp>(b, lsh, x64.m(), a128.s(), c128.m());
            true
        }
        "nfc_middle_sub" => {
            T::nfc_middle_step_into::<SubOp>(b, lsh, x64.m(), a128.s(), c128.m());
            true
        }
        "nfc_final_assign" => {
            T::nfc_final_step_assign(b, lsh, x64.m(), c128.m());
            true
        }
        "nfc_final_add" => {
            T::nfc_final_step_into::<AddOp>(b, lsh, x64.m(), c128.m());
            true
        }
        "nfc_final_sub" => {
            T::nfc_final_step_into::<SubOp>(b, lsh, x64.m(), c128.m());
            true
        }
        "i128_add" => {
            T::i128_add(x128.m(), a128.s(), c128.s());
            false
        }
        "i128_add_assign" => {
            T::i128_add_assign(x128.m(), a128.s());
            false
        }
        "i128_add_small" => {
            // c carries the i64 operand b
            let bs: Vec<i64> = c128.s().iter().map(|v| *v as i64).collect();
            T::i128_add_small(x128.m(), a128.s(), &bs);
            false
        }
        "i128_add_small_assign" => {
            T::i128_add_small_assign(x128.m(), a64.s());
            false
        }
        "i128_sub" => {
            T::i128_sub(x128.m(), a128.s(), c128.s());
            false
        }
        "i128_sub_assign" => {
            T::i128_sub_assign(x128.m(), a128.s());
            false
        }
        "i128_sub_negate_assign" => {
            T::i128_sub_negate_assign(x128.m(), a128.s());
            false
        }
        "i128_sub_small_a" => {
            T::i128_sub_small_a(x128.m(), a64.s(), c128.s());
            false
        }
        "i128_sub_small_b" => {
            let bs: Vec<i64> = c128.s().iter().map(|v| *v as i64).collect();
            T::i128_sub_small_b(x128.m(), a128.s(), &bs);
            false
        }
        "i128_sub_small_assign" => {
            T::i128_sub_small_assign(x128.m(), a64.s());
            false
        }
        "i128_sub_small_negate_assign" => {
            T::i128_sub_small_negate_assign(x128.m(), a64.s());
            false
        }
        "i128_negate" => {
            T::i128_negate(x128.m(), a128.s());
            false
        }
        "i128_negate_assign" => {
            T::i128_negate_assign(x128.m());
            false
        }
        "i128_neg_from_small" => {
            T::i128_neg_from_small(x128.m(), a64.s());
            false
        }
        "i128_from_small" => {
            T::i128_from_small(x128.m(), a64.s());
            false
        }
        _ => return "bad-op".to_string(),
    };
    let mut s = if norm {
        format!("{}|{}", show(x64.s()), show(c128.s()))
    } else {
        format!("{}|{}", show(x128.s()), show(c128.s()))
    };
    let st = if norm { x64.stray() } else { x128.stray() };
    if let Some(k) = st.or(c128.stray()) {
        s.push_str(&format!("|stray:{k}"));
    }
    s
}

/// NTT120 integer kernels through the public primitive traits.
/// `id q120 be=<nref|navx> op=<consts|c_from_b|from_znx64|mul_bbc> [x=..] [y=..] [mask=..]`
pub fn q120<T>(r: &Req) -> String
where
    T: poulpy_cpu_ref::reference::ntt120::NttCFromB
        + poulpy_cpu_ref::reference::ntt120::NttFromZnx64
        + poulpy_cpu_ref::reference::ntt120::NttMulBbc,
{
    use poulpy_cpu_ref::reference::ntt120::{
        mat_vec::BbcMeta,
        primes::{PrimeSet, Primes30},
    };
    let op = r.get("op").unwrap_or("");
    match op {
        "consts" => {
            let m = BbcMeta::<Primes30>::new();
            format!(
                "q={} crt={} bbc_h={} s2l={} s2h={}",
                show(&Primes30::Q),
                show(&Primes30::CRT_CST),
                m.h,
                show(&m.s2l_pow_red),
                show(&m.s2h_pow_red)
            )
        }
        "c_from_b" => {
            let x: Vec<u64> = r.list("x");
            let nn = x.len() / 4;
            let xg = G::new(&x, 0xA5A5_0000_1111_2222u64);
            let mut res = G::new(&vec![0u32; 8 * nn], 0xDEAD_BEEFu32);
            T::ntt_c_from_b(nn, res.m(), xg.s());
            let mut s = show(res.s());
            if res.stray().is_some() {
                s.push_str("|stray");
            }
            s
        }
        "from_znx64" => {
            let x: Vec<i64> = r.list("x");
            let nn = x.len();
            let mut res = G::new(&vec![0u64; 4 * nn], 0xA5A5_0000_1111_2222u64);
            match r.get("mask") {
                Some(m) => T::ntt_from_znx64_masked(res.m(), &x, m.parse::<i64>().unwrap_or(-1)),
                None => T::ntt_from_znx64(res.m(), &x),
            }
            let mut s = show(res.s());
            if res.stray().is_some() {
                s.push_str("|stray");
            }
            s
        }
        "mul_bbc" => {
            let x: Vec<u64> = r.list("x");
            let y: Vec<u64> = r.list("y");
            let ell = x.len() / 4;
            let xv: Vec<u32> = x.iter().flat_map(|v| [*v as u32, (*v >> 32) as u32]).collect();
            let yv: Vec<u32> = y.iter().flat_map(|v| [*v as u32, (*v >> 32) as u32]).collect();
            let m = BbcMeta::<Primes30>::new();
            let mut res = vec![0u64; 4];
            T::ntt_mul_bbc(&m, ell, &mut res, &xv, &yv);
            show(&res)
        }
        _ => "bad-op".to_string(),
    }
}

/// Raw NTT120 kernels through the public primitive traits, one request = one kernel call on explicit operands
/// (no layouts, no scratch): the bit-for-bit twin of the lane / whole-kernel theorems `C10.NttAvx.*`.
/// `id nk be=<nref|navx> op=<…> [n=] [x=..] [y=..] [rows= stride= blk=]`
pub fn nk<T>(r: &Req) -> String
where
    T: poulpy_cpu_ref::reference::ntt120::NttDFTExecute<poulpy_cpu_ref::reference::ntt120::ntt::NttTable<poulpy_cpu_ref::reference::ntt120::primes::Primes30>>
        + poulpy_cpu_ref::reference::ntt120::NttDFTExecute<poulpy_cpu_ref::reference::ntt120::ntt::NttTableInv<poulpy_cpu_ref::reference::ntt120::primes::Primes30>>
        + poulpy_cpu_ref::reference::ntt120::NttAdd
        + poulpy_cpu_ref::reference::ntt120::NttAddAssign
        + poulpy_cpu_ref::reference::ntt120::NttSub
        + poulpy_cpu_ref::reference::ntt120::NttSubAssign
        + poulpy_cpu_ref::reference::ntt120::NttSubNegateAssign
        + poulpy_cpu_ref::reference::ntt120::NttNegate
        + poulpy_cpu_ref::reference::ntt120::NttNegateAssign
        + poulpy_cpu_ref::reference::ntt120::NttToZnx128
        + poulpy_cpu_ref::reference::ntt120::NttMulBbb
        + poulpy_cpu_ref::reference::ntt120::NttMulBbc1ColX2
        + poulpy_cpu_ref::reference::ntt120::NttMulBbc2ColsX2
        + poulpy_cpu_ref::reference::ntt120::NttPackLeft1BlkX2
        + poulpy_cpu_ref::reference::ntt120::NttPackRight1BlkX2
        + poulpy_cpu_ref::reference::ntt120::NttPairwisePackLeft1BlkX2
        + poulpy_cpu_ref::reference::ntt120::NttPairwisePackRight1BlkX2,
{
    use poulpy_cpu_ref::reference::ntt120::{
        mat_vec::{BbbMeta, BbcMeta},
        ntt::{NttTable, NttTableInv},
        primes::Primes30,
    };
    const CAN: u64 = 0xA5A5_0000_1111_2222u64;
    let u32s = |v: &[u64]| -> Vec<u32> { v.iter().flat_map(|w| [*w as u32, (*w >> 32) as u32]).collect() };
    let u64s = |v: &[u32]| -> Vec<u64> { v.chunks(2).map(|c| c[0] as u64 | ((c[1] as u64) << 32)).collect() };
    let fin64 = |g: &G<u64>| -> String {
        let mut s = show(g.s());
        if g.stray().is_some() {
            s.push_str("|stray");
        }
        s
    };
    let op = r.get("op").unwrap_or("");
    let x: Vec<u64> = r.list("x");
    let y: Vec<u64> = r.list("y");
    match op {
        "consts" => {
            let m = BbbMeta::<Primes30>::new();
            format!(
                "bbb_h={} s1h={} s2l={} s2h={} s3l={} s3h={} s4l={} s4h={}",
                m.h,
                m.s1h_pow_red,
                show(&m.s2l_pow_red),
                show(&m.s2h_pow_red),
                show(&m.s3l_pow_red),
                show(&m.s3h_pow_red),
                show(&m.s4l_pow_red),
                show(&m.s4h_pow_red)
            )
        }
        "ntt" | "intt" => {
            let n = r.usize("n");
            let mut d = G::new(&x, CAN);
            if op == "ntt" {
                let t = NttTable::<Primes30>::new(n);
                <T as poulpy_cpu_ref::reference::ntt120::NttDFTExecute<NttTable<Primes30>>>::ntt_dft_execute(&t, d.m());
            } else {
                let t = NttTableInv::<Primes30>::new(n);
                <T as poulpy_cpu_ref::reference::ntt120::NttDFTExecute<NttTableInv<Primes30>>>::ntt_dft_execute(&t, d.m());
            }
            fin64(&d)
        }
        "add" | "sub" | "negate" => {
            let mut res = G::new(&vec![0u64; x.len()], CAN);
            match op {
                "add" => T::ntt_add(res.m(), &x, &y),
                "sub" => T::ntt_sub(res.m(), &x, &y),
                _ => T::ntt_negate(res.m(), &x),
            }
            fin64(&res)
        }
        "add_assign" | "sub_assign" | "sub_negate_assign" | "negate_assign" => {
            let mut res = G::new(&x, CAN);
            match op {
                "add_assign" => T::ntt_add_assign(res.m(), &y),
                "sub_assign" => T::ntt_sub_assign(res.m(), &y),
                "sub_negate_assign" => T::ntt_sub_negate_assign(res.m(), &y),
                _ => T::ntt_negate_assign(res.m()),
            }
            fin64(&res)
        }
        "to_znx128" => {
            let n = x.len() / 4;
            let mut res = G::new(&vec![0i128; n], 0x5151_5151_5151_5151_5151i128);
            T::ntt_to_znx128(res.m(), n, &x);
            let mut s = show(res.s());
            if res.stray().is_some() {
                s.push_str("|stray");
            }
            s
        }
        "mul_bbb" => {
            let ell = x.len() / 4;
            let m = BbbMeta::<Primes30>::new();
            let mut res = G::new(&vec![0u64; 4], CAN);
            T::ntt_mul_bbb(&m, ell, res.m(), &x, &y);
            fin64(&res)
        }
        "mul_bbc_x2" | "mul_bbc_2cols" => {
            let ell = x.len() / 8;
            let m = BbcMeta::<Primes30>::new();
            let (xv, yv) = (u32s(&x), u32s(&y));
            let mut res = G::new(&vec![0u64; if op == "mul_bbc_x2" { 8 } else { 16 }], CAN);
            if op == "mul_bbc_x2" {
                T::ntt_mul_bbc_1col_x2(&m, ell, res.m(), &xv, &yv);
            } else {
                T::ntt_mul_bbc_2cols_x2(&m, ell, res.m(), &xv, &yv);
            }
            fin64(&res)
        }
        "pack_left" | "pairwise_pack_left" | "pack_right" | "pairwise_pack_right" => {
            let (rows, stride, blk) = (r.usize("rows"), r.usize("stride"), r.usize("blk"));
            let mut dst = G::new(&vec![0u32; 16 * rows], 0xDEAD_BEEFu32);
            match op {
                "pack_left" => T::ntt_pack_left_1blk_x2(dst.m(), &x, rows, stride, blk),
                "pairwise_pack_left" => T::ntt_pairwise_pack_left_1blk_x2(dst.m(), &x, &y, rows, stride, blk),
                // q120c operands travel as u64 words (two u32 each); `stride` is given in u32 units as the trait wants
                "pack_right" => T::ntt_pack_right_1blk_x2(dst.m(), &u32s(&x), rows, stride, blk),
                _ => T::ntt_pairwise_pack_right_1blk_x2(dst.m(), &u32s(&x), &u32s(&y), rows, stride, blk),
            }
            let mut s = show(&u64s(dst.s()));
            if dst.stray().is_some() {
                s.push_str("|stray");
            }
            s
        }
        _ => "bad-op".to_string(),
    }
}

/// `I64Ops::i64_convolution_by_const` (the `i64` by-constant convolution of the FFT64 family) on one explicit block:
/// `id cnvk be=<fref|favx> dst=<rows> off=<offset> asz=<a_size> x=<8·a_size i64> y=<constants>` → the `8·dst` words written
pub fn cnvk<T: poulpy_cpu_ref::reference::fft64::convolution::I64Ops>(r: &Req) -> String {
    let (dst_size, offset, a_size) = (r.usize("dst"), r.usize("off"), r.usize("asz"));
    let x: Vec<i64> = r.list("x");
    let y: Vec<i64> = r.list("y");
    let mut dst = G::new(&vec![0x5555_5555_5555_5555i64; 8 * dst_size], 0x7A7A_1111_2222_3333i64);
    T::i64_convolution_by_const(dst.m(), dst_size, offset, &x, a_size, &y);
    let mut s = show(dst.s());
    if dst.stray().is_some() {
        s.push_str("|stray");
    }
    s
}
