//! C12 harness, fourth table: noise helpers, tensor decryption, packing, GLWEPacker.
macro_rules! backend_cases4 {
    ($modname:ident, $BE:ty) => {
        pub mod $modname {
            use crate::cmd_scratch::{Kv, bytes_of_i64, exec_window, fmt_outcome, glwe_layout, rand_glwe, rand_vec};
            use poulpy_core::{
                EncryptionLayout, GGLWEEncryptSk, GGLWENoise, GGSWEncryptSk, GGSWNoise, GLWEAutomorphismKeyEncryptSk, GLWENoise,
                GLWEPacker, GLWEPacking, GLWETensorDecrypt, glwe_packer_add, glwe_packer_galois_elements, glwe_packer_tmp_bytes,
                layouts::{
                    Base2K, Degree, Dnum, Dsize, GGLWE, GGLWELayout, GGSW, GGSWLayout, GLWE, GLWEAutomorphismKey,
                    GLWEAutomorphismKeyLayout, GLWEAutomorphismKeyPrepared, GLWEAutomorphismKeyPreparedFactory, GLWEPlaintext,
                    GLWESecret, GLWESecretPreparedFactory, GLWESecretTensor, GLWESecretTensorFactory,
                    GLWESecretTensorPrepared, GLWESecretTensorPreparedFactory, GLWETensor, Rank, TorusPrecision,
                    prepared::GLWESecretPrepared,
                },
            };
            use poulpy_hal::{
                api::*,
                layouts::{DeviceBuf, Module, ScalarZnx, Scratch, ScratchOwned, ZnxInfos, ZnxView, ZnxViewMut},
                source::Source,
            };
            use std::collections::HashMap;

            type BE = $BE;

            fn wrap(b: &mut [u8]) -> &mut Scratch<BE> {
                <Scratch<BE> as ScratchFromBytes<BE>>::from_bytes(b)
            }

            fn atk_layout(n: usize, kv: &Kv) -> GLWEAutomorphismKeyLayout {
                GLWEAutomorphismKeyLayout {
                    n: Degree(n as u32),
                    base2k: Base2K(kv.g("kb2k").max(1) as u32),
                    k: TorusPrecision((kv.g("kb2k") * kv.g("ksize")) as u32),
                    rank: Rank(kv.g("krout") as u32),
                    dnum: Dnum(kv.g("dnum").max(1) as u32),
                    dsize: Dsize(kv.g("dsize").max(1) as u32),
                }
            }

            pub fn tb_of(module: &Module<BE>, op: &str, kv: &Kv) -> Option<usize> {
                let n = module.n();
                let (size, rank, b2k) = (kv.g("size"), kv.g("rank"), kv.g("b2k").max(1));
                let res = glwe_layout(n, b2k, size, rank);
                let mat = GGLWELayout {
                    n: Degree(n as u32),
                    base2k: Base2K(b2k as u32),
                    k: TorusPrecision((b2k * size) as u32),
                    rank_in: Rank(kv.g("grin").max(1) as u32),
                    rank_out: Rank(rank as u32),
                    dnum: Dnum(kv.g("rdnum").max(1) as u32),
                    dsize: Dsize(1),
                };
                let ggsw = GGSWLayout {
                    n: Degree(n as u32),
                    base2k: Base2K(b2k as u32),
                    k: TorusPrecision((b2k * size) as u32),
                    rank: Rank(rank as u32),
                    dnum: Dnum(kv.g("rdnum").max(1) as u32),
                    dsize: Dsize(1),
                };
                Some(match op {
                    "glwe_noise" => module.glwe_noise_tmp_bytes(&res),
                    "gglwe_noise" => module.gglwe_noise_tmp_bytes(&mat),
                    "ggsw_noise" => module.ggsw_noise_tmp_bytes(&ggsw),
                    "glwe_tensor_decrypt" => module.glwe_tensor_decrypt_tmp_bytes(&res),
                    "glwe_pack" => module.glwe_pack_tmp_bytes(&res, &atk_layout(n, kv)),
                    "glwe_packer_add" => glwe_packer_tmp_bytes(module, &res, &atk_layout(n, kv)),
                    _ => return None,
                })
            }

            pub fn case(op: &str, kv: &Kv) -> Option<String> {
                let mis = kv.g("mis");
                let win = kv.0.get("win").and_then(|s| s.parse::<usize>().ok());
                let module: Module<BE> = Module::<BE>::new(kv.g("n") as u64);
                let tb: usize = match tb_of(&module, op, kv) {
                    Some(t) => t,
                    None => return crate::scratch_cases5::$modname::case(op, kv),
                };
                if kv.g("tbonly") == 1 {
                    return Some(format!("tb={tb}"));
                }
                let n = module.n();
                let (size, rank, b2k) = (kv.g("size"), kv.g("rank"), kv.g("b2k").max(1));
                let big_scratch = || -> ScratchOwned<BE> { ScratchOwned::<BE>::alloc(1 << 24) };
                macro_rules! finish {
                    ($f:expr) => {{
                        let o = exec_window::<Scratch<BE>>(tb, mis, win, wrap, $f);
                        return Some(fmt_outcome(tb, &o));
                    }};
                }
                let mk_sk = |r: usize, seed: u8| -> (GLWESecret<Vec<u8>>, GLWESecretPrepared<DeviceBuf<BE>, BE>) {
                    let mut sk = GLWESecret::alloc(Degree(n as u32), Rank(r as u32));
                    sk.fill_ternary_prob(0.5, &mut Source::new([seed; 32]));
                    let mut skp: GLWESecretPrepared<DeviceBuf<BE>, BE> = module.glwe_secret_prepared_alloc(Rank(r as u32));
                    module.glwe_secret_prepare(&mut skp, &sk);
                    (sk, skp)
                };
                let xe = || Source::new([3u8; 32]);
                let xa = || Source::new([4u8; 32]);
                let stats = |s: poulpy_hal::layouts::Stats| -> Vec<u8> {
                    let mut o = s.std().to_le_bytes().to_vec();
                    o.extend(s.max().to_le_bytes());
                    o
                };
                match op {
                    "glwe_noise" => {
                        let (_, skp) = mk_sk(rank, 1);
                        let ct = rand_glwe(n, b2k, size, rank, 5);
                        let mut pt = GLWEPlaintext::alloc_from_infos(&glwe_layout(n, b2k, size, rank));
                        pt.data_mut().raw_mut().copy_from_slice(rand_vec(n, 1, size, 5, 6).raw());
                        finish!(|s: &mut Scratch<BE>| stats(module.glwe_noise(&ct, &pt, &skp, s)))
                    }
                    "gglwe_noise" | "ggsw_noise" => {
                        let (_, skp) = mk_sk(rank, 1);
                        let rdnum = kv.g("rdnum").max(1);
                        let grin = kv.g("grin").max(1);
                        if op == "gglwe_noise" {
                            let infos = EncryptionLayout::new_from_default_sigma(GGLWELayout {
                                n: Degree(n as u32),
                                base2k: Base2K(b2k as u32),
                                k: TorusPrecision((b2k * size) as u32),
                                rank_in: Rank(grin as u32),
                                rank_out: Rank(rank as u32),
                                dnum: Dnum(rdnum as u32),
                                dsize: Dsize(1),
                            })
                            .unwrap();
                            let mut pt = ScalarZnx::alloc(n, grin);
                            pt.raw_mut().iter_mut().enumerate().for_each(|(i, x)| *x = (i % 3) as i64 - 1);
                            let mut g: GGLWE<Vec<u8>> = GGLWE::alloc_from_infos(&infos);
                            module.gglwe_encrypt_sk(&mut g, &pt, &skp, &infos, &mut xe(), &mut xa(), big_scratch().borrow());
                            finish!(|s: &mut Scratch<BE>| stats(module.gglwe_noise(&g, rdnum - 1, grin - 1, &pt, &skp, s)))
                        }
                        let infos = EncryptionLayout::new_from_default_sigma(GGSWLayout {
                            n: Degree(n as u32),
                            base2k: Base2K(b2k as u32),
                            k: TorusPrecision((b2k * size) as u32),
                            rank: Rank(rank as u32),
                            dnum: Dnum(rdnum as u32),
                            dsize: Dsize(1),
                        })
                        .unwrap();
                        let mut pt = ScalarZnx::alloc(n, 1);
                        pt.raw_mut()[1] = 1;
                        let mut g: GGSW<Vec<u8>> = GGSW::alloc_from_infos(&infos);
                        module.ggsw_encrypt_sk(&mut g, &pt, &skp, &infos, &mut xe(), &mut xa(), big_scratch().borrow());
                        let col = kv.g("col").min(rank);
                        finish!(|s: &mut Scratch<BE>| stats(module.ggsw_noise(&g, rdnum - 1, col, &pt, &skp, s)))
                    }
                    "glwe_tensor_decrypt" => {
                        let (sk, skp) = mk_sk(rank, 1);
                        let mut skt = GLWESecretTensor::alloc(Degree(n as u32), Rank(rank as u32));
                        module.glwe_secret_tensor_prepare(&mut skt, &sk, big_scratch().borrow());
                        let mut sktp: GLWESecretTensorPrepared<DeviceBuf<BE>, BE> =
                            module.glwe_secret_tensor_prepared_alloc(Rank(rank as u32));
                        module.glwe_secret_tensor_prepared_prepare(&mut sktp, &skt);
                        let infos = glwe_layout(n, b2k, size, rank);
                        let mut t: GLWETensor<Vec<u8>> = GLWETensor::alloc_from_infos(&infos);
                        let cols = t.data().cols();
                        t.data_mut().raw_mut().copy_from_slice(rand_vec(n, cols, size, b2k.saturating_sub(3).max(1), 9).raw());
                        finish!(|s: &mut Scratch<BE>| {
                            let mut pt = GLWEPlaintext::alloc_from_infos(&infos);
                            module.glwe_tensor_decrypt(&t, &mut pt, &skp, &sktp, s);
                            bytes_of_i64(pt.data().raw())
                        })
                    }
                    "glwe_pack" | "glwe_packer_add" => {
                        let key_infos = EncryptionLayout::new_from_default_sigma(atk_layout(n, kv)).unwrap();
                        let (sk, _) = mk_sk(rank, 1);
                        let mut keys: HashMap<i64, GLWEAutomorphismKeyPrepared<DeviceBuf<BE>, BE>> = HashMap::new();
                        for p in glwe_packer_galois_elements(&module) {
                            let mut key: GLWEAutomorphismKey<Vec<u8>> = GLWEAutomorphismKey::alloc_from_infos(&key_infos);
                            module.glwe_automorphism_key_encrypt_sk(&mut key, p, &sk, &key_infos, &mut xe(), &mut xa(), big_scratch().borrow());
                            let mut kp: GLWEAutomorphismKeyPrepared<DeviceBuf<BE>, BE> =
                                module.glwe_automorphism_key_prepared_alloc_from_infos(&key);
                            module.glwe_automorphism_key_prepare(&mut kp, &key, big_scratch().borrow());
                            keys.insert(p, kp);
                        }
                        let infos = glwe_layout(n, b2k, size, rank);
                        if op == "glwe_pack" {
                            let gap = kv.g("gap");
                            finish!(|s: &mut Scratch<BE>| {
                                let mut cts: Vec<GLWE<Vec<u8>>> = (0..3).map(|i| rand_glwe(n, b2k, size, rank, 20 + i as u8)).collect();
                                let mut r = GLWE::alloc_from_infos(&infos);
                                {
                                    let mut it = cts.iter_mut();
                                    let mut m: HashMap<usize, &mut GLWE<Vec<u8>>> = HashMap::new();
                                    m.insert(0, it.next().unwrap());
                                    m.insert(1, it.next().unwrap());
                                    m.insert(n / 2, it.next().unwrap());
                                    module.glwe_pack(&mut r, m, gap, &keys, s);
                                }
                                bytes_of_i64(r.data().raw())
                            })
                        }
                        finish!(|s: &mut Scratch<BE>| {
                            let mut packer = GLWEPacker::alloc(&infos, 0);
                            for i in 0..n {
                                let ct = rand_glwe(n, b2k, size, rank, 30 + i as u8);
                                if i % 3 == 2 {
                                    glwe_packer_add(&module, &mut packer, None::<&GLWE<Vec<u8>>>, &keys, s);
                                } else {
                                    glwe_packer_add(&module, &mut packer, Some(&ct), &keys, s);
                                }
                            }
                            let mut r = GLWE::alloc_from_infos(&infos);
                            poulpy_core::glwe_packer_flush(&module, &mut packer, &mut r, big_scratch().borrow());
                            bytes_of_i64(r.data().raw())
                        })
                    }
                    _ => None,
                }
            }
        }
    };
}

backend_cases4!(fft64ref, poulpy_cpu_ref::FFT64Ref);
backend_cases4!(ntt120ref, poulpy_cpu_ref::NTT120Ref);
backend_cases4!(fft64avx, poulpy_cpu_avx::FFT64Avx);
backend_cases4!(ntt120avx, poulpy_cpu_avx::NTT120Avx);
