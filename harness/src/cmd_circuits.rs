//! Dump the u32 BDD circuit tables exactly as compiled into poulpy-bin-fhe (hook accessor).
use poulpy_bin_fhe::bdd_arithmetic::{Node, verif_hooks::u32_circuits};

pub fn run(_args: &[String]) {
    for (name, c) in u32_circuits() {
        println!("circuit {} in={} out={} maxstate={}", name, c.input_size(), c.output_size(), c.max_state_size());
        for bit in 0..c.output_size() {
            let (nodes, w) = c.get_circuit(bit);
            let mut s = String::new();
            for n in nodes {
                match n {
                    Node::Cmux(b, h, l) => s.push_str(&format!(" C{b},{h},{l}")),
                    Node::Copy => s.push_str(" P"),
                    Node::None => s.push_str(" N"),
                }
            }
            println!("bit {} {} w={} n={}{}", name, bit, w, nodes.len(), s);
        }
    }
}
