//! `pvh ring`: coefficient-domain ring operations through the public HAL API on `Module<BE>`, all
//! four back ends.  stdin: `id <op> be=<backend> n=<n> rs=<res size> [p=..] [limb=..] [a=<col>]
//! [b=<col>] [r=<col>] [rcols= rc= acols= ac= bcols= bc=] [nin= nt= nouts= nins= ps= parts=]`;
//! stdout: `id <result column | panic:class> [stray] [mutin]`.  Column syntax as in
//! lean/Poulpy/Driver/Ring.lean.  Every buffer is allocated with one extra (hidden) limb and filled
//! with position-dependent garbage first; after the call everything outside the selected result
//! column must be unchanged (`stray` otherwise) and the operands must be unchanged (`mutin`).
use std::cell::RefCell;
use std::collections::HashMap;
use std::io::{BufRead, Write};

use poulpy_cpu_avx::{FFT64Avx, NTT120Avx};
use poulpy_cpu_ref::{FFT64Ref, NTT120Ref};
use poulpy_hal::{
    api::{
        ModuleNew, ScratchOwnedAlloc, ScratchOwnedBorrow, VecZnxAddAssign, VecZnxAddInto, VecZnxAddScalarAssign,
        VecZnxAddScalarInto, VecZnxAutomorphism, VecZnxAutomorphismAssign, VecZnxBigAddAssign, VecZnxBigAddInto,
        VecZnxBigAddSmallAssign, VecZnxBigAddSmallInto, VecZnxBigAutomorphism, VecZnxBigAutomorphismAssign, VecZnxBigFromSmall,
        VecZnxBigNegate, VecZnxBigNegateAssign, VecZnxBigSub, VecZnxBigSubAssign, VecZnxBigSubNegateAssign, VecZnxBigSubSmallA,
        VecZnxBigSubSmallAssign, VecZnxBigSubSmallB, VecZnxBigSubSmallNegateAssign, VecZnxCopy, VecZnxMergeRings,
        VecZnxMulXpMinusOne, VecZnxMulXpMinusOneAssign, VecZnxNegate, VecZnxNegateAssign, VecZnxRotate, VecZnxRotateAssign,
        VecZnxSplitRing, VecZnxSub, VecZnxSubAssign, VecZnxSubNegateAssign, VecZnxSubScalar, VecZnxSubScalarAssign,
        VecZnxSwitchRing, VecZnxZero,
    },
    layouts::{
        Backend, CyclotomicOrder, DeviceBuf, GaloisElement, Module, ScalarZnx, ScratchOwned, VecZnx, VecZnxBig, ZnxInfos,
        ZnxView, ZnxViewMut, galois_element,
    },
};

pub trait BigScalar: Copy {
    fn from_i128(v: i128) -> Self;
    fn to_i128(self) -> i128;
}
impl BigScalar for i64 {
    fn from_i128(v: i128) -> Self {
        v as i64
    }
    fn to_i128(self) -> i128 {
        self as i128
    }
}
impl BigScalar for i128 {
    fn from_i128(v: i128) -> Self {
        v
    }
    fn to_i128(self) -> i128 {
        self
    }
}

thread_local! {
    static LAST_PANIC: RefCell<String> = RefCell::new(String::new());
}

fn classify(msg: &str) -> &'static str {
    if msg.contains("index out of bounds") || msg.contains("out of range") || msg.contains("range end index") || msg.contains("range start index") {
        "bounds"
    } else if msg.contains("overflow") {
        "overflow"
    } else if msg.contains("cannot invert 0") {
        "other"
    } else {
        "assert"
    }
}

type Col = Vec<Vec<i128>>;

fn parse_poly(s: &str) -> Vec<i128> {
    if s == "-" || s.is_empty() { vec![] } else { s.split(',').map(|x| x.parse::<i128>().unwrap()).collect() }
}
fn parse_col(s: &str) -> Col {
    if s == "-" || s.is_empty() { vec![] } else { s.split('|').map(parse_poly).collect() }
}
fn show_col(c: &Col) -> String {
    if c.is_empty() {
        return "-".to_string();
    }
    c.iter()
        .map(|l| if l.is_empty() { "-".to_string() } else { l.iter().map(|x| x.to_string()).collect::<Vec<_>>().join(",") })
        .collect::<Vec<_>>()
        .join("|")
}

struct Args<'a>(HashMap<&'a str, &'a str>);
impl<'a> Args<'a> {
    fn new(t: &[&'a str]) -> Self {
        let mut m = HashMap::new();
        for x in t {
            if let Some((k, v)) = x.split_once('=') {
                m.insert(k, v);
            }
        }
        Args(m)
    }
    fn usize(&self, k: &str, d: usize) -> usize {
        self.0.get(k).and_then(|s| s.parse().ok()).unwrap_or(d)
    }
    fn i64(&self, k: &str) -> i64 {
        self.0.get(k).and_then(|s| s.parse().ok()).unwrap_or(0)
    }
    fn col(&self, k: &str) -> Option<Col> {
        self.0.get(k).map(|s| parse_col(s))
    }
    fn usizes(&self, k: &str) -> Vec<usize> {
        self.0.get(k).map(|s| if *s == "-" { vec![] } else { s.split(',').map(|x| x.parse().unwrap()).collect() }).unwrap_or_default()
    }
}

fn garbage(idx: usize, salt: u64) -> i64 {
    let mut z = (idx as u64).wrapping_add(salt).wrapping_mul(0x9E3779B97F4A7C15);
    z = (z ^ (z >> 30)).wrapping_mul(0xBF58476D1CE4E5B9);
    (z ^ (z >> 27)) as i64
}

/// small vector: `size` visible limbs + one hidden guard limb, garbage everywhere, `content` in column `col`
fn mk_vec(n: usize, cols: usize, size: usize, col: usize, content: Option<&Col>, salt: u64) -> VecZnx<Vec<u8>> {
    let mut v = VecZnx::alloc(n, cols, size + 1);
    for (i, x) in v.raw_mut().iter_mut().enumerate() {
        *x = garbage(i, salt);
    }
    if let Some(c) = content {
        for (j, limb) in c.iter().enumerate().take(size) {
            for (k, x) in limb.iter().enumerate().take(n) {
                v.at_mut(col, j)[k] = *x as i64;
            }
        }
    }
    v.size = size;
    v
}
fn snapshot(v: &mut VecZnx<Vec<u8>>) -> Vec<i64> {
    let s = v.size;
    v.size = v.max_size;
    let r = v.raw().to_vec();
    v.size = s;
    r
}
/// returns (selected column, stray?)
fn extract(v: &mut VecZnx<Vec<u8>>, col: usize, before: &[i64]) -> (Col, bool) {
    let size = v.size;
    let (n, cols) = (v.n, v.cols);
    let out: Col = (0..size).map(|j| v.at(col, j).iter().map(|x| *x as i128).collect()).collect();
    let after = snapshot(v);
    let mut stray = false;
    for (idx, (x, y)) in before.iter().zip(after.iter()).enumerate() {
        let poly = idx / n.max(1);
        let (j, c) = (poly / cols, poly % cols);
        if !(c == col && j < size) && x != y {
            stray = true;
        }
    }
    (out, stray)
}

fn mk_big<BE: Backend>(n: usize, cols: usize, size: usize, col: usize, content: Option<&Col>, salt: u64) -> VecZnxBig<DeviceBuf<BE>, BE>
where
    BE::ScalarBig: BigScalar,
    VecZnxBig<DeviceBuf<BE>, BE>: ZnxViewMut<Scalar = BE::ScalarBig>,
{
    let mut v = VecZnxBig::<DeviceBuf<BE>, BE>::alloc(n, cols, size + 1);
    for (i, x) in v.raw_mut().iter_mut().enumerate() {
        *x = BE::ScalarBig::from_i128(garbage(i, salt) as i128 * 0x1_0000_0001i128);
    }
    if let Some(c) = content {
        for (j, limb) in c.iter().enumerate().take(size) {
            for (k, x) in limb.iter().enumerate().take(n) {
                v.at_mut(col, j)[k] = BE::ScalarBig::from_i128(*x);
            }
        }
    }
    v.size = size;
    v
}
fn snapshot_big<BE: Backend>(v: &mut VecZnxBig<DeviceBuf<BE>, BE>) -> Vec<i128>
where
    BE::ScalarBig: BigScalar,
    VecZnxBig<DeviceBuf<BE>, BE>: ZnxViewMut<Scalar = BE::ScalarBig>,
{
    let s = v.size;
    v.size = v.max_size;
    let r = v.raw().iter().map(|x| x.to_i128()).collect();
    v.size = s;
    r
}
fn extract_big<BE: Backend>(v: &mut VecZnxBig<DeviceBuf<BE>, BE>, col: usize, before: &[i128]) -> (Col, bool)
where
    BE::ScalarBig: BigScalar,
    VecZnxBig<DeviceBuf<BE>, BE>: ZnxViewMut<Scalar = BE::ScalarBig>,
{
    let size = v.size;
    let (n, cols) = (v.n, v.cols);
    let out: Col = (0..size).map(|j| v.at(col, j).iter().map(|x| x.to_i128()).collect()).collect();
    let after = snapshot_big::<BE>(v);
    let mut stray = false;
    for (idx, (x, y)) in before.iter().zip(after.iter()).enumerate() {
        let poly = idx / n.max(1);
        let (j, c) = (poly / cols, poly % cols);
        if !(c == col && j < size) && x != y {
            stray = true;
        }
    }
    (out, stray)
}

struct Ctx<BE: Backend> {
    modules: HashMap<usize, Module<BE>>,
    scratch: ScratchOwned<BE>,
}

fn run_case<BE: Backend>(ctx: &mut Ctx<BE>, op: &str, g: &Args) -> String
where
    BE::ScalarBig: BigScalar,
    VecZnxBig<DeviceBuf<BE>, BE>: ZnxViewMut<Scalar = BE::ScalarBig>,
    ScratchOwned<BE>: ScratchOwnedAlloc<BE> + ScratchOwnedBorrow<BE>,
    Module<BE>: ModuleNew<BE>
        + VecZnxZero
        + VecZnxCopy
        + VecZnxAddInto
        + VecZnxAddAssign
        + VecZnxSub
        + VecZnxSubAssign
        + VecZnxSubNegateAssign
        + VecZnxNegate
        + VecZnxNegateAssign
        + VecZnxAddScalarInto
        + VecZnxAddScalarAssign
        + VecZnxSubScalar
        + VecZnxSubScalarAssign
        + VecZnxRotate
        + VecZnxRotateAssign<BE>
        + VecZnxMulXpMinusOne
        + VecZnxMulXpMinusOneAssign<BE>
        + VecZnxAutomorphism
        + VecZnxAutomorphismAssign<BE>
        + VecZnxSwitchRing
        + VecZnxSplitRing<BE>
        + VecZnxMergeRings<BE>
        + VecZnxBigFromSmall<BE>
        + VecZnxBigAddInto<BE>
        + VecZnxBigAddAssign<BE>
        + VecZnxBigAddSmallInto<BE>
        + VecZnxBigAddSmallAssign<BE>
        + VecZnxBigSub<BE>
        + VecZnxBigSubAssign<BE>
        + VecZnxBigSubNegateAssign<BE>
        + VecZnxBigSubSmallA<BE>
        + VecZnxBigSubSmallB<BE>
        + VecZnxBigSubSmallAssign<BE>
        + VecZnxBigSubSmallNegateAssign<BE>
        + VecZnxBigNegate<BE>
        + VecZnxBigNegateAssign<BE>
        + VecZnxBigAutomorphism<BE>
        + VecZnxBigAutomorphismAssign<BE>
        + GaloisElement
        + CyclotomicOrder,
{
    let n = g.usize("n", 0);
    let rs = g.usize("rs", 1);
    let p = g.i64("p");
    let limb = g.usize("limb", 0);
    let (rcols, rc) = (g.usize("rcols", 1), g.usize("rc", 0));
    let (acols, ac) = (g.usize("acols", 1), g.usize("ac", 0));
    let (bcols, bc) = (g.usize("bcols", 1), g.usize("bc", 0));
    let a = g.col("a");
    let b = g.col("b");
    let r = g.col("r");
    let nin = g.usize("nin", n);
    let nt = g.usize("nt", n.max(nin));
    if !ctx.modules.contains_key(&nt) {
        ctx.modules.insert(nt, Module::<BE>::new(nt as u64));
    }
    let Ctx { modules, scratch } = ctx;
    let module = &modules[&nt];

    if op == "gal" {
        return module.galois_element(p).to_string();
    }
    if op == "galinv" {
        return module.galois_element_inv(p).to_string();
    }
    if op == "galfn" {
        return galois_element(p, g.i64("order")).to_string();
    }

    // optional: fill the whole scratch arena with the 64-bit pattern `scr` (content of the scratch polynomial
    // the in-place forms go through)
    if let Some(v) = g.0.get("scr") {
        let pat: i64 = v.parse().unwrap();
        let sref = scratch.borrow();
        for ch in sref.data.chunks_exact_mut(8) {
            ch.copy_from_slice(&pat.to_ne_bytes());
        }
    }

    let flags = |stray: bool, mutin: bool| -> String { format!("{}{}", if stray { " stray" } else { "" }, if mutin { " mutin" } else { "" }) };

    // ---------------------------------------------------------------- split / merge
    if op == "split" {
        let a = a.unwrap_or_default();
        let nouts = g.usizes("nouts");
        let ps = g.usizes("ps");
        let mut av = mk_vec(nin, acols, a.len(), ac, Some(&a), 11);
        let a0 = snapshot(&mut av);
        let mut parts: Vec<VecZnx<Vec<u8>>> =
            nouts.iter().zip(ps.iter()).enumerate().map(|(i, (no, s))| mk_vec(*no, rcols, *s, rc, None, 100 + i as u64)).collect();
        let befores: Vec<Vec<i64>> = parts.iter_mut().map(snapshot).collect();
        module.vec_znx_split_ring(&mut parts, rc, &av, ac, scratch.borrow());
        let mut stray = false;
        let mut outs = vec![];
        for (pv, bf) in parts.iter_mut().zip(befores.iter()) {
            let (c, s) = extract(pv, rc, bf);
            stray |= s;
            outs.push(show_col(&c));
        }
        let mutin = snapshot(&mut av) != a0;
        return format!("{}{}", outs.join(";"), flags(stray, mutin));
    }
    if op == "merge" {
        let nins = g.usizes("nins");
        let parts_in: Vec<Col> = g.0.get("parts").map(|s| s.split(';').map(parse_col).collect()).unwrap_or_default();
        let mut parts: Vec<VecZnx<Vec<u8>>> =
            nins.iter().zip(parts_in.iter()).enumerate().map(|(i, (ni, c))| mk_vec(*ni, acols, c.len(), ac, Some(c), 200 + i as u64)).collect();
        let befores: Vec<Vec<i64>> = parts.iter_mut().map(snapshot).collect();
        let mut res = mk_vec(n, rcols, rs, rc, r.as_ref(), 7);
        let r0 = snapshot(&mut res);
        module.vec_znx_merge_rings(&mut res, rc, &parts, ac, scratch.borrow());
        let (c, stray) = extract(&mut res, rc, &r0);
        let mut mutin = false;
        for (pv, bf) in parts.iter_mut().zip(befores.iter()) {
            mutin |= &snapshot(pv) != bf;
        }
        return format!("{}{}", show_col(&c), flags(stray, mutin));
    }

    // ---------------------------------------------------------------- big accumulator
    if let Some(bop) = op.strip_prefix("big_") {
        let mut res = mk_big::<BE>(n, rcols, rs, rc, r.as_ref(), 7);
        let r0 = snapshot_big::<BE>(&mut res);
        let a_c = a.clone().unwrap_or_default();
        let b_c = b.clone().unwrap_or_default();
        let mut mutin = false;
        match bop {
            "add" | "sub" => {
                let mut av = mk_big::<BE>(n, acols, a_c.len(), ac, Some(&a_c), 11);
                let mut bv = mk_big::<BE>(n, bcols, b_c.len(), bc, Some(&b_c), 13);
                let (a0, b0) = (snapshot_big::<BE>(&mut av), snapshot_big::<BE>(&mut bv));
                if bop == "add" {
                    module.vec_znx_big_add_into(&mut res, rc, &av, ac, &bv, bc);
                } else {
                    module.vec_znx_big_sub(&mut res, rc, &av, ac, &bv, bc);
                }
                mutin = snapshot_big::<BE>(&mut av) != a0 || snapshot_big::<BE>(&mut bv) != b0;
            }
            "add_small" | "sub_small_b" => {
                let mut av = mk_big::<BE>(n, acols, a_c.len(), ac, Some(&a_c), 11);
                let mut bv = mk_vec(n, bcols, b_c.len(), bc, Some(&b_c), 13);
                let (a0, b0) = (snapshot_big::<BE>(&mut av), snapshot(&mut bv));
                if bop == "add_small" {
                    module.vec_znx_big_add_small_into(&mut res, rc, &av, ac, &bv, bc);
                } else {
                    module.vec_znx_big_sub_small_b(&mut res, rc, &av, ac, &bv, bc);
                }
                mutin = snapshot_big::<BE>(&mut av) != a0 || snapshot(&mut bv) != b0;
            }
            "sub_small_a" => {
                let mut av = mk_vec(n, acols, a_c.len(), ac, Some(&a_c), 11);
                let mut bv = mk_big::<BE>(n, bcols, b_c.len(), bc, Some(&b_c), 13);
                let (a0, b0) = (snapshot(&mut av), snapshot_big::<BE>(&mut bv));
                module.vec_znx_big_sub_small_a(&mut res, rc, &av, ac, &bv, bc);
                mutin = snapshot(&mut av) != a0 || snapshot_big::<BE>(&mut bv) != b0;
            }
            "add_assign" | "sub_assign" | "sub_negate_assign" | "negate" | "autom" => {
                let mut av = mk_big::<BE>(n, acols, a_c.len(), ac, Some(&a_c), 11);
                let a0 = snapshot_big::<BE>(&mut av);
                match bop {
                    "add_assign" => module.vec_znx_big_add_assign(&mut res, rc, &av, ac),
                    "sub_assign" => module.vec_znx_big_sub_assign(&mut res, rc, &av, ac),
                    "sub_negate_assign" => module.vec_znx_big_sub_negate_assign(&mut res, rc, &av, ac),
                    "negate" => module.vec_znx_big_negate(&mut res, rc, &av, ac),
                    _ => module.vec_znx_big_automorphism(p, &mut res, rc, &av, ac),
                }
                mutin = snapshot_big::<BE>(&mut av) != a0;
            }
            "add_small_assign" | "sub_small_assign" | "sub_small_negate_assign" | "from_small" => {
                let mut av = mk_vec(n, acols, a_c.len(), ac, Some(&a_c), 11);
                let a0 = snapshot(&mut av);
                match bop {
                    "add_small_assign" => module.vec_znx_big_add_small_assign(&mut res, rc, &av, ac),
                    "sub_small_assign" => module.vec_znx_big_sub_small_assign(&mut res, rc, &av, ac),
                    "sub_small_negate_assign" => module.vec_znx_big_sub_small_negate_assign(&mut res, rc, &av, ac),
                    _ => module.vec_znx_big_from_small(&mut res, rc, &av, ac),
                }
                mutin = snapshot(&mut av) != a0;
            }
            "negate_assign" => module.vec_znx_big_negate_assign(&mut res, rc),
            "autom_assign" => module.vec_znx_big_automorphism_assign(p, &mut res, rc, scratch.borrow()),
            _ => return "bad-op".to_string(),
        }
        let (c, stray) = extract_big::<BE>(&mut res, rc, &r0);
        return format!("{}{}", show_col(&c), flags(stray, mutin));
    }

    // ---------------------------------------------------------------- small vectors
    let mut res = mk_vec(n, rcols, rs, rc, r.as_ref(), 7);
    let r0 = snapshot(&mut res);
    let a_c = a.clone().unwrap_or_default();
    let b_c = b.clone().unwrap_or_default();
    let an = if op == "switch" { nin } else { a_c.first().map(|l| l.len()).unwrap_or(n) };
    let bn = b_c.first().map(|l| l.len()).unwrap_or(n);
    let mut mutin = false;
    match op {
        "zero" => module.vec_znx_zero(&mut res, rc),
        "negate_assign" => module.vec_znx_negate_assign(&mut res, rc),
        "rotate_assign" => module.vec_znx_rotate_assign(p, &mut res, rc, scratch.borrow()),
        "mulxp_assign" => module.vec_znx_mul_xp_minus_one_assign(p, &mut res, rc, scratch.borrow()),
        "autom_assign" => module.vec_znx_automorphism_assign(p, &mut res, rc, scratch.borrow()),
        "add" | "sub" => {
            let mut av = mk_vec(an, acols, a_c.len(), ac, Some(&a_c), 11);
            let mut bv = mk_vec(bn, bcols, b_c.len(), bc, Some(&b_c), 13);
            let (a0, b0) = (snapshot(&mut av), snapshot(&mut bv));
            if op == "add" {
                module.vec_znx_add_into(&mut res, rc, &av, ac, &bv, bc);
            } else {
                module.vec_znx_sub(&mut res, rc, &av, ac, &bv, bc);
            }
            mutin = snapshot(&mut av) != a0 || snapshot(&mut bv) != b0;
        }
        "add_scalar" | "sub_scalar" | "add_scalar_assign" | "sub_scalar_assign" => {
            let mut sv = ScalarZnx::alloc(an, acols);
            for (i, x) in sv.raw_mut().iter_mut().enumerate() {
                *x = garbage(i, 17);
            }
            if let Some(l) = a_c.first() {
                for (k, x) in l.iter().enumerate() {
                    sv.at_mut(ac, 0)[k] = *x as i64;
                }
            }
            let s0 = sv.raw().to_vec();
            let mut bv = mk_vec(bn, bcols, b_c.len(), bc, Some(&b_c), 13);
            let b0 = snapshot(&mut bv);
            match op {
                "add_scalar" => module.vec_znx_add_scalar_into(&mut res, rc, &sv, ac, &bv, bc, limb),
                "sub_scalar" => module.vec_znx_sub_scalar(&mut res, rc, &sv, ac, &bv, bc, limb),
                "add_scalar_assign" => module.vec_znx_add_scalar_assign(&mut res, rc, limb, &sv, ac),
                _ => module.vec_znx_sub_scalar_assign(&mut res, rc, limb, &sv, ac),
            }
            mutin = sv.raw() != &s0[..] || snapshot(&mut bv) != b0;
        }
        "copy" | "add_assign" | "sub_assign" | "sub_negate_assign" | "negate" | "rotate" | "mulxp" | "autom" | "switch" => {
            let mut av = mk_vec(an, acols, a_c.len(), ac, Some(&a_c), 11);
            let a0 = snapshot(&mut av);
            match op {
                "copy" => module.vec_znx_copy(&mut res, rc, &av, ac),
                "add_assign" => module.vec_znx_add_assign(&mut res, rc, &av, ac),
                "sub_assign" => module.vec_znx_sub_assign(&mut res, rc, &av, ac),
                "sub_negate_assign" => module.vec_znx_sub_negate_assign(&mut res, rc, &av, ac),
                "negate" => module.vec_znx_negate(&mut res, rc, &av, ac),
                "rotate" => module.vec_znx_rotate(p, &mut res, rc, &av, ac),
                "mulxp" => module.vec_znx_mul_xp_minus_one(p, &mut res, rc, &av, ac),
                "autom" => module.vec_znx_automorphism(p, &mut res, rc, &av, ac),
                _ => module.vec_znx_switch_ring(&mut res, rc, &av, ac),
            }
            mutin = snapshot(&mut av) != a0;
        }
        _ => return "bad-op".to_string(),
    }
    let (c, stray) = extract(&mut res, rc, &r0);
    format!("{}{}", show_col(&c), flags(stray, mutin))
}

fn new_ctx<BE: Backend>() -> Ctx<BE>
where
    ScratchOwned<BE>: ScratchOwnedAlloc<BE>,
{
    Ctx { modules: HashMap::new(), scratch: ScratchOwned::<BE>::alloc(1 << 20) }
}

pub fn run(_args: &[String]) {
    std::panic::set_hook(Box::new(|info| {
        let msg = if let Some(s) = info.payload().downcast_ref::<&str>() {
            s.to_string()
        } else if let Some(s) = info.payload().downcast_ref::<String>() {
            s.clone()
        } else {
            String::new()
        };
        LAST_PANIC.with(|p| *p.borrow_mut() = msg);
    }));
    let mut c_fr = new_ctx::<FFT64Ref>();
    let mut c_nr = new_ctx::<NTT120Ref>();
    let mut c_fa = new_ctx::<FFT64Avx>();
    let mut c_na = new_ctx::<NTT120Avx>();
    let stdin = std::io::stdin();
    let stdout = std::io::stdout();
    let mut out = std::io::BufWriter::new(stdout.lock());
    for line in stdin.lock().lines() {
        let line = line.unwrap();
        let t: Vec<&str> = line.split_whitespace().collect();
        if t.len() < 2 {
            continue;
        }
        // accept both `id op …` and `id ring op …`
        let (id, rest) = (t[0], if t[1] == "ring" { &t[2..] } else { &t[1..] });
        if rest.is_empty() {
            continue;
        }
        let op = rest[0];
        let g = Args::new(&rest[1..]);
        let be = g.0.get("be").copied().unwrap_or("fft64ref");
        let r = std::panic::catch_unwind(std::panic::AssertUnwindSafe(|| match be {
            "fft64ref" => run_case(&mut c_fr, op, &g),
            "ntt120ref" => run_case(&mut c_nr, op, &g),
            "fft64avx" => run_case(&mut c_fa, op, &g),
            "ntt120avx" => run_case(&mut c_na, op, &g),
            _ => "bad-be".to_string(),
        }));
        match r {
            Ok(s) => writeln!(out, "{id} {s}").unwrap(),
            Err(_) => {
                let cls = LAST_PANIC.with(|p| classify(&p.borrow()));
                writeln!(out, "{id} panic:{cls}").unwrap()
            }
        }
    }
    out.flush().unwrap();
}
