//! `pvh cmp` — seed-compressed objects versus standard encryption (property C19).
//!
//! Request:  `id <layout> be=<backend> n= b= k= kxe= rank= [rank_in=] dnum= dsize= dist= sxs= sxa= sxe= [p=] [pt=<cols>]`
//!   layouts: lwec (LWECompressed built from its wire format, `nl=` LWE dimension, `resb=`/`resk=` receiver radix/precision) | glwe | gglwe | ggsw | ksk (switching key) | atk (automorphism key) | tsk (tensor key) | g2g (GGLWE→GGSW key)
//! Answer:   `id ok cells=<c> masks=<c ok> dec=<c ok> cellenc=<c ok|-1> ser=<0|1> seedwords=<0|1> …`
//!   cells     number of ciphertext cells of the decompressed object
//!   masks     cells whose mask columns equal `vec_znx_fill_uniform` from `Source::new(stored seed)` in column order 1..rank
//!   dec       cells whose full-precision decryption equals that of the standard (uncompressed) encryption of the same key
//!             with the same error stream
//!   cellenc   (glwe, gglwe) cells byte-identical to `glwe_encrypt_sk(cell plaintext, sk, Source::new(stored seed), same error source)`
//!   ser       serialise → deserialise → serialise reproduces the bytes and the deserialised object decompresses identically
//!   seedwords every stored seed is the little-endian image of four consecutive `u64` draws of `Source::new(seed_xa)`
//!             in the routine's loop order (GLWE: the stored seed is `seed_xa` itself)
//! For glwe / gglwe / ggsw / ksk / tsk the line continues with everything the Lean model needs:
//!   `sk=… pt=… top=<u64 words> seeds=<4 words per cell, storage order> child=<words per cell; …> e=<poly per cell in loop order; …> obj=<cells in storage order: cols;…/…>`
use std::io::{BufRead, Write};

use crate::cmd_rnd::{Cell, cell_of};
use crate::cmd_rndb::dist_report;
use crate::enc_common::*;
use poulpy_core::{
    EncryptionLayout, GGLWECompressedEncryptSk, GGLWEEncryptSk, GGLWEToGGSWKeyCompressedEncryptSk, GGLWEToGGSWKeyEncryptSk,
    GGSWCompressedEncryptSk, GGSWEncryptSk, GLWEAutomorphismKeyCompressedEncryptSk, GLWEAutomorphismKeyEncryptSk,
    GLWECompressedEncryptSk, GLWEEncryptSk, GLWESwitchingKeyCompressedEncryptSk, GLWESwitchingKeyEncryptSk,
    GLWETensorKeyCompressedEncryptSk, GLWETensorKeyEncryptSk, LWEEncryptSk,
    layouts::{
        Base2K, Degree, Dnum, Dsize, GGLWE, GGLWECompressed, GGLWECompressedSeed, GGLWECompressedToRef, GGLWEDecompress, GGLWELayout,
        GGLWEToGGSWKey, GGLWEToGGSWKeyCompressed, GGLWEToGGSWKeyDecompress, GGLWEToRef, GGSW, GGSWCompressed, GGSWCompressedSeed,
        GGSWDecompress, GGSWLayout, GLWE, GLWEAutomorphismKey, GLWEAutomorphismKeyCompressed, GLWEAutomorphismKeyDecompress,
        GLWECompressed, GLWECompressedSeed, GLWEDecompress, GLWELayout, GLWEPlaintext, GLWESecret, GLWESecretPreparedFactory,
        GLWESwitchingKey, GLWESwitchingKeyCompressed, GLWESwitchingKeyDecompress, GLWETensorKey, GLWETensorKeyCompressed,
        GLWETensorKeyDecompress, GetGaloisElement, GLWEToLWEKey, GLWEToLWESwitchingKeyCompressed, GLWEToLWESwitchingKeyDecompress, LWE, LWECompressed, LWESwitchingKey,
        LWESwitchingKeyCompressed, LWESwitchingKeyDecompress, LWEToGLWEKey, LWEToGLWEKeyCompressed, LWEToGLWEKeyDecompress, LWEDecompress, LWEInfos, LWELayout, LWEPlaintext, LWESecret, Rank, TorusPrecision,
    },
};
use poulpy_cpu_avx::{FFT64Avx, NTT120Avx};
use poulpy_cpu_ref::{FFT64Ref, NTT120Ref};
use poulpy_hal::{
    api::{
        ModuleNew, ScratchOwnedAlloc, ScratchOwnedBorrow, VecZnxAddNormal, VecZnxAddScalarAssign, VecZnxAutomorphism, VecZnxFillUniform, VecZnxSwitchRing,
        VecZnxNormalizeAssign,
    },
    layouts::{GaloisElement, Module, NoiseInfos, ReaderFrom, ScalarZnx, ScratchOwned, VecZnx, WriterTo, ZnxInfos, ZnxView, ZnxViewMut},
    source::Source,
};

fn words(src: &mut Source, count: usize) -> Vec<u64> {
    (0..count).map(|_| src.next_i64() as u64).collect()
}

fn seed_of_words(w: &[u64]) -> [u8; 32] {
    let mut s = [0u8; 32];
    for i in 0..4 {
        s[8 * i..8 * i + 8].copy_from_slice(&w[i].to_le_bytes());
    }
    s
}

fn show_words(w: &[u64]) -> String {
    if w.is_empty() { "-".to_string() } else { w.iter().map(|x| x.to_string()).collect::<Vec<_>>().join(",") }
}

/// exact phase `body + sum mask_i * s_i` of one cell modulo 2^(b*size), coefficient by coefficient
/// (independent of glwe_decrypt; requires b*size <= 100)
fn phase_mod(cell: &GLWE<&[u8]>, sk: &[Vec<i64>], b: usize) -> Vec<i128> {
    let v = cell.data();
    let (n, size) = (v.n(), v.size());
    let modulus: i128 = 1i128 << (b * size);
    let mut out = vec![0i128; n];
    for j in 0..size {
        let mut acc: Vec<i128> = v.at(0, j).iter().map(|x| *x as i128).collect();
        for (i, s) in sk.iter().enumerate() {
            let a = v.at(i + 1, j);
            for (u, su) in s.iter().enumerate() {
                if *su == 0 {
                    continue;
                }
                for (w, aw) in a.iter().enumerate() {
                    let k = u + w;
                    let prod = (*su as i128) * (*aw as i128);
                    if k < n {
                        acc[k] += prod;
                    } else {
                        acc[k - n] -= prod;
                    }
                }
            }
        }
        for t in 0..n {
            out[t] = ((out[t] << b) + acc[t]).rem_euclid(modulus);
        }
    }
    out
}

fn ser<T: WriterTo>(x: &T) -> Vec<u8> {
    let mut v = Vec::new();
    x.write_to(&mut v).unwrap();
    v
}

macro_rules! cmp_backend {
    ($fname:ident, $be:ty) => {
        fn $fname(op: &str, t: &[&str]) -> String {
            type BE = $be;
            let n = kv_us(t, "n");
            let b = kv_us(t, "b");
            let k = kv_us(t, "k");
            let kxe = kv_us(t, "kxe");
            let rank = kv_us(t, "rank");
            let rank_in = if kv(t, "rank_in").is_some() { kv_us(t, "rank_in") } else { rank };
            let dnum = kv_us(t, "dnum").max(1);
            let dsize = kv_us(t, "dsize").max(1);
            let dist = parse_dist(kv(t, "dist").unwrap_or("tp:0.5"));
            let (sxs, sxa, sxe) = (kv_u64(t, "sxs"), kv_u64(t, "sxa"), kv_u64(t, "sxe"));
            let p = kv(t, "p").and_then(|v| v.parse::<i64>().ok()).unwrap_or(1);
            let module: Module<BE> = Module::<BE>::new(n as u64);
            let noise = NoiseInfos::new(kxe, 3.2, 19.2).unwrap();
            let mut scratch: ScratchOwned<BE> = ScratchOwned::alloc(1 << 22);
            let size = k.div_ceil(b);
            let (deg, bk, tk) = (Degree(n as u32), Base2K(b as u32), TorusPrecision(k as u32));

            // secrets: sk (rank), sk_in (rank_in) for the switching key
            let mut src_s = Source::new(seed32(sxs));
            let mut sk = GLWESecret::alloc(deg, Rank(rank as u32));
            fill_glwe_secret(&mut sk, dist, &mut src_s);
            let mut src_r = Source::new(seed32(sxs));
            let sk_vis = replay_secret(n, rank, dist, &mut src_r);
            let mut skp = module.glwe_secret_prepared_alloc(Rank(rank as u32));
            module.glwe_secret_prepare(&mut skp, &sk);

            // switching keys: the two secrets may live in a ring of SMALLER degree than the module (`nin=`, `nout=`, powers of two
            // dividing n; the API asserts only `<=`); the routines embed them with vec_znx_switch_ring (X -> X^(n/deg))
            let nin = if kv(t, "nin").is_some() { kv_us(t, "nin") } else { n };
            let nout = if kv(t, "nout").is_some() { kv_us(t, "nout") } else { n };
            let mut ksk_in = GLWESecret::alloc(Degree(nin as u32), Rank(rank_in as u32));
            fill_glwe_secret(&mut ksk_in, dist, &mut Source::new(seed32(sxs ^ 0x3333)));
            let ksk_in_vis = replay_secret(nin, rank_in, dist, &mut Source::new(seed32(sxs ^ 0x3333)));
            let mut ksk_out = GLWESecret::alloc(Degree(nout as u32), Rank(rank as u32));
            fill_glwe_secret(&mut ksk_out, dist, &mut Source::new(seed32(sxs ^ 0x4444)));
            let ksk_out_vis = replay_secret(nout, rank, dist, &mut Source::new(seed32(sxs ^ 0x4444)));
            let mut skp_ksk = module.glwe_secret_prepared_alloc(Rank(rank as u32));
            if nout == n {
                module.glwe_secret_prepare(&mut skp_ksk, &ksk_out);
            }
            let mut ksk_in_emb = ScalarZnx::alloc(n, rank_in.max(1));
            for i in 0..rank_in {
                module.vec_znx_switch_ring(&mut ksk_in_emb.as_vec_znx_mut(), i, &ksk_in_vis.as_vec_znx(), i);
            }
            let mut ksk_out_emb = ScalarZnx::alloc(n, rank.max(1));
            for i in 0..rank {
                module.vec_znx_switch_ring(&mut ksk_out_emb.as_vec_znx_mut(), i, &ksk_out_vis.as_vec_znx(), i);
            }

            // the secret the cells are encrypted under: sk, its image under X -> X^(p^-1) for the automorphism key, the embedded
            // output secret for the switching key
            let mut sk_dec = ScalarZnx::alloc(n, rank.max(1));
            for i in 0..rank {
                if op == "ksk" {
                    sk_dec.at_mut(i, 0).copy_from_slice(ksk_out_emb.at(i, 0));
                } else if op == "atk" {
                    module.vec_znx_automorphism(module.galois_element_inv(p), &mut sk_dec.as_vec_znx_mut(), i, &sk_vis.as_vec_znx(), i);
                } else {
                    sk_dec.at_mut(i, 0).copy_from_slice(sk_vis.at(i, 0));
                }
            }
            let sk_cols: Vec<Vec<i64>> = (0..rank).map(|i| sk_dec.at(i, 0).to_vec()).collect();

            // plaintext scalars (gglwe: rank_in columns, ggsw: 1 column)
            let pt_cols = if op == "ggsw" { 1 } else { rank_in };
            let mut pt = ScalarZnx::alloc(n, pt_cols.max(1));
            if let Some(s) = kv(t, "pt") {
                for (c, col) in s.split(';').enumerate() {
                    if c < pt.cols() && col != "-" {
                        for (i, x) in col.split(',').enumerate() {
                            if i < n {
                                pt.at_mut(c, 0)[i] = x.parse().unwrap();
                            }
                        }
                    }
                }
            }

            let glwe_layout = GLWELayout { n: deg, base2k: bk, k: tk, rank: Rank(rank as u32) };
            let gglwe_layout = GGLWELayout {
                n: deg,
                base2k: bk,
                k: tk,
                rank_in: Rank(rank_in as u32),
                rank_out: Rank(rank as u32),
                dnum: Dnum(dnum as u32),
                dsize: Dsize(dsize as u32),
            };
            let ggsw_layout = GGSWLayout { n: deg, base2k: bk, k: tk, rank: Rank(rank as u32), dnum: Dnum(dnum as u32), dsize: Dsize(dsize as u32) };

            // ---- helpers on one decompressed cell
            let mask_ok = |cell: &GLWE<&[u8]>, seed: &[u8; 32]| -> bool {
                let mut tmp = VecZnx::alloc(n, rank + 1, size);
                let mut s = Source::new(*seed);
                for i in 1..rank + 1 {
                    module.vec_znx_fill_uniform(b, &mut tmp, i, &mut s);
                }
                (1..rank + 1).all(|i| (0..size).all(|j| tmp.at(i, j) == cell.data().at(i, j)))
            };
            let show_cell = |cell: &GLWE<&[u8]>| -> String { show_vec(cell.data()) };

            let mut tail = String::new();
            let mut dcells: Vec<Cell> = Vec::new();
            let mut dseeds: Vec<[u8; 32]> = Vec::new();
            let (cells, masks, dec, cellenc, ser_ok, seedwords);

            match op {
                "glwe" => {
                    let enc = EncryptionLayout::new(glwe_layout, noise).unwrap();
                    let mut ptv = GLWEPlaintext::alloc(deg, bk, tk);
                    load_col(ptv.data_mut(), 0, kv(t, "ptv").unwrap_or("-"));
                    let mut cc = GLWECompressed::alloc_from_infos(&glwe_layout);
                    let mut xe = Source::new(seed32(sxe));
                    module.glwe_compressed_encrypt_sk(&mut cc, &ptv, &skp, seed32(sxa), &enc, &mut xe, scratch.borrow());
                    let mut d = GLWE::alloc_from_infos(&glwe_layout);
                    module.decompress_glwe(&mut d, &cc);
                    // serialisation round trip
                    let bytes = ser(&cc);
                    let mut cc2 = GLWECompressed::alloc_from_infos(&glwe_layout);
                    cc2.read_from(&mut &bytes[..]).unwrap();
                    let mut d2 = GLWE::alloc_from_infos(&glwe_layout);
                    module.decompress_glwe(&mut d2, &cc2);
                    ser_ok = (ser(&cc2) == bytes && d2 == d) as i32;
                    seedwords = (*cc.seed() == seed32(sxa)) as i32;
                    // standard encryption with Source::new(stored seed), same error source
                    let mut st = GLWE::alloc_from_infos(&glwe_layout);
                    let mut xe2 = Source::new(seed32(sxe));
                    let mut xa2 = Source::new(*cc.seed());
                    module.glwe_encrypt_sk(&mut st, &ptv, &skp, &enc, &mut xe2, &mut xa2, scratch.borrow());
                    cells = 1;
                    dcells.push(cell_of(&d.to_ref_glwe(), 0));
                    dseeds.push(*cc.seed());
                    masks = mask_ok(&d.to_ref_glwe(), cc.seed()) as i32;
                    cellenc = (st == d) as i32;
                    dec = cellenc;
                    let mut ev = VecZnx::alloc(n, 1, size);
                    module.vec_znx_add_normal(b, &mut ev, 0, noise, &mut Source::new(seed32(sxe)));
                    let child = words(&mut Source::new(*cc.seed()), rank * size * n);
                    tail = format!(
                        " sk={} ptv={} child={} e={} obj={}",
                        show_scalar(&sk_vis),
                        show_col(ptv.data(), 0),
                        show_words(&child),
                        show_vec(&ev),
                        show_vec(d.data())
                    );
                }
                "gglwe" | "ksk" | "atk" | "tsk" | "g2g" => {
                    let enc = EncryptionLayout::new(gglwe_layout, noise).unwrap();
                    // (decompressed, standard, seeds, serialisation ok, rank_in of the object) per sub-key
                    let mut subs: Vec<(GGLWE<Vec<u8>>, GGLWE<Vec<u8>>, Vec<[u8; 32]>, bool)> = Vec::new();
                    let mut xe_c = Source::new(seed32(sxe));
                    let mut xe_s = Source::new(seed32(sxe));
                    let mut xa_s = Source::new(seed32(sxa ^ 0x5555));
                    let mut wrappers = 0;
                    let mut degrees_ok = true;
                    match op {
                        "gglwe" => {
                            let mut c = GGLWECompressed::alloc_from_infos(&gglwe_layout);
                            module.gglwe_compressed_encrypt_sk(&mut c, &pt, &skp, seed32(sxa), &enc, &mut xe_c, scratch.borrow());
                            let mut d = GGLWE::alloc_from_infos(&gglwe_layout);
                            module.decompress_gglwe(&mut d, &c);
                            let mut s = GGLWE::alloc_from_infos(&gglwe_layout);
                            module.gglwe_encrypt_sk(&mut s, &pt, &skp, &enc, &mut xe_s, &mut xa_s, scratch.borrow());
                            let bytes = ser(&c);
                            let mut c2 = GGLWECompressed::alloc_from_infos(&gglwe_layout);
                            c2.read_from(&mut &bytes[..]).unwrap();
                            let mut d2 = GGLWE::alloc_from_infos(&gglwe_layout);
                            module.decompress_gglwe(&mut d2, &c2);
                            subs.push((d.clone(), s, c.seed().clone(), ser(&c2) == bytes && d2 == d));
                        }
                        "ksk" => {
                            let mut c = GLWESwitchingKeyCompressed::alloc_from_infos(&gglwe_layout);
                            module.glwe_switching_key_compressed_encrypt_sk(&mut c, &ksk_in, &ksk_out, seed32(sxa), &enc, &mut xe_c, scratch.borrow());
                            let mut d = GLWESwitchingKey::alloc_from_infos(&gglwe_layout);
                            module.decompress_glwe_switching_key(&mut d, &c);
                            let mut s = GLWESwitchingKey::alloc_from_infos(&gglwe_layout);
                            module.glwe_switching_key_encrypt_sk(&mut s, &ksk_in, &ksk_out, &enc, &mut xe_s, &mut xa_s, scratch.borrow());
                            let bytes = ser(&c);
                            let mut c2 = GLWESwitchingKeyCompressed::alloc_from_infos(&gglwe_layout);
                            c2.read_from(&mut &bytes[..]).unwrap();
                            let mut d2 = GLWESwitchingKey::alloc_from_infos(&gglwe_layout);
                            module.decompress_glwe_switching_key(&mut d2, &c2);
                            let mut ok = ser(&c2) == bytes && ser(&d2) == ser(&d);
                            // the two degree fields: recorded by the compressed and the standard routine, carried by decompression and by
                            // the serialisation round trip
                            {
                                use poulpy_core::layouts::GLWESwitchingKeyDegrees;
                                let want = (nin as u32, nout as u32);
                                let degs = |i: &Degree, o: &Degree| (i.0, o.0);
                                degrees_ok = degs(c.input_degree(), c.output_degree()) == want
                                    && degs(d.input_degree(), d.output_degree()) == want
                                    && degs(s.input_degree(), s.output_degree()) == want
                                    && degs(c2.input_degree(), c2.output_degree()) == want
                                    && degs(d2.input_degree(), d2.output_degree()) == want;
                                ok &= degrees_ok;
                            }
                            // the LWE-related wrappers (no producing routine of their own): the same bytes read into the compressed wrapper
                            // the shape admits must re-serialise identically; the wrapper's decompression trait (whose `other` bound —
                            // GLWESwitchingKeyDegrees — the compressed wrappers themselves do not implement, so it is fed the
                            // GLWESwitchingKeyCompressed) must give the same key in the standard wrapper
                            if dsize == 1 {
                                let dn = Dnum(dnum as u32);
                                if rank_in == 1 && rank == 1 {
                                    let mut w = LWESwitchingKeyCompressed::alloc(deg, bk, tk, dn);
                                    w.read_from(&mut &bytes[..]).unwrap();
                                    let mut dw = LWESwitchingKey::alloc(deg, bk, tk, dn);
                                    module.decompress_lwe_switching_key(&mut dw, &c);
                                    ok &= ser(&w) == bytes && ser(&dw) == ser(&d);
                                    wrappers += 1;
                                }
                                if rank == 1 {
                                    let mut w = GLWEToLWESwitchingKeyCompressed::alloc(deg, bk, tk, Rank(rank_in as u32), dn);
                                    w.read_from(&mut &bytes[..]).unwrap();
                                    let mut dw = GLWEToLWEKey::alloc(deg, bk, tk, Rank(rank_in as u32), dn);
                                    module.decompress_glwe_to_lwe_key(&mut dw, &c);
                                    ok &= ser(&w) == bytes && ser(&dw) == ser(&d);
                                    wrappers += 1;
                                }
                                if rank_in == 1 {
                                    let mut w = LWEToGLWEKeyCompressed::alloc(deg, bk, tk, Rank(rank as u32), dn);
                                    w.read_from(&mut &bytes[..]).unwrap();
                                    let mut dw = LWEToGLWEKey::alloc(deg, bk, tk, Rank(rank as u32), dn);
                                    module.decompress_lwe_to_glwe_key(&mut dw, &c);
                                    ok &= ser(&w) == bytes && ser(&dw) == ser(&d);
                                    wrappers += 1;
                                }
                            }
                            subs.push((own_gglwe(&d.to_ref()), own_gglwe(&s.to_ref()), c.to_ref().seed().clone(), ok));
                        }
                        "atk" => {
                            let mut c = GLWEAutomorphismKeyCompressed::alloc_from_infos(&gglwe_layout);
                            module.glwe_automorphism_key_compressed_encrypt_sk(&mut c, p, &sk, seed32(sxa), &enc, &mut xe_c, scratch.borrow());
                            let mut d = GLWEAutomorphismKey::alloc_from_infos(&gglwe_layout);
                            module.decompress_automorphism_key(&mut d, &c);
                            let mut s = GLWEAutomorphismKey::alloc_from_infos(&gglwe_layout);
                            module.glwe_automorphism_key_encrypt_sk(&mut s, p, &sk, &enc, &mut xe_s, &mut xa_s, scratch.borrow());
                            let bytes = ser(&c);
                            let mut c2 = GLWEAutomorphismKeyCompressed::alloc_from_infos(&gglwe_layout);
                            c2.read_from(&mut &bytes[..]).unwrap();
                            let mut d2 = GLWEAutomorphismKey::alloc_from_infos(&gglwe_layout);
                            module.decompress_automorphism_key(&mut d2, &c2);
                            // the Galois element is part of the object: the expanded key must carry the one the compressed key
                            // was made for (as the standard key does), before and after the serialisation round trip
                            let ok = ser(&c2) == bytes && ser(&d2) == ser(&d) && d.p() == p && s.p() == p && c.p() == p && d2.p() == p;
                            subs.push((own_gglwe(&d.to_ref()), own_gglwe(&s.to_ref()), c.to_ref().seed().clone(), ok));
                        }
                        "tsk" => {
                            let mut c = GLWETensorKeyCompressed::alloc_from_infos(&gglwe_layout);
                            module.glwe_tensor_key_compressed_encrypt_sk(&mut c, &sk, seed32(sxa), &enc, &mut xe_c, scratch.borrow());
                            let mut d = GLWETensorKey::alloc_from_infos(&gglwe_layout);
                            module.decompress_tensor_key(&mut d, &c);
                            let mut s = GLWETensorKey::alloc_from_infos(&gglwe_layout);
                            module.glwe_tensor_key_encrypt_sk(&mut s, &sk, &enc, &mut xe_s, &mut xa_s, scratch.borrow());
                            let bytes = ser(&c);
                            let mut c2 = GLWETensorKeyCompressed::alloc_from_infos(&gglwe_layout);
                            c2.read_from(&mut &bytes[..]).unwrap();
                            let mut d2 = GLWETensorKey::alloc_from_infos(&gglwe_layout);
                            module.decompress_tensor_key(&mut d2, &c2);
                            let ok = ser(&c2) == bytes && ser(&d2) == ser(&d);
                            subs.push((own_gglwe(&d.to_ref()), own_gglwe(&s.to_ref()), c.to_ref().seed().clone(), ok));
                        }
                        _ => {
                            let mut c = GGLWEToGGSWKeyCompressed::alloc_from_infos(&gglwe_layout);
                            <Module<BE> as GGLWEToGGSWKeyCompressedEncryptSk<BE>>::gglwe_to_ggsw_key_encrypt_sk(
                                &module,
                                &mut c,
                                &sk,
                                seed32(sxa),
                                &enc,
                                &mut xe_c,
                                scratch.borrow(),
                            );
                            let mut d = GGLWEToGGSWKey::alloc_from_infos(&gglwe_layout);
                            module.decompress_gglwe_to_ggsw_key(&mut d, &c);
                            let mut s = GGLWEToGGSWKey::alloc_from_infos(&gglwe_layout);
                            <Module<BE> as GGLWEToGGSWKeyEncryptSk<BE>>::gglwe_to_ggsw_key_encrypt_sk(
                                &module,
                                &mut s,
                                &sk,
                                &enc,
                                &mut xe_s,
                                &mut xa_s,
                                scratch.borrow(),
                            );
                            let bytes = ser(&c);
                            let mut c2 = GGLWEToGGSWKeyCompressed::alloc_from_infos(&gglwe_layout);
                            c2.read_from(&mut &bytes[..]).unwrap();
                            let mut d2 = GGLWEToGGSWKey::alloc_from_infos(&gglwe_layout);
                            module.decompress_gglwe_to_ggsw_key(&mut d2, &c2);
                            let ok = ser(&c2) == bytes && ser(&d2) == ser(&d);
                            for i in 0..rank {
                                subs.push((own_gglwe(&d.at(i).to_ref()), own_gglwe(&s.at(i).to_ref()), c.at(i).seed().clone(), ok));
                            }
                        }
                    }
                    let (mut nc, mut nm, mut nd, mut ne, mut sok, mut sw) = (0, 0, 0, 0, true, true);
                    let mut all_seeds: Vec<String> = Vec::new();
                    let mut all_child: Vec<String> = Vec::new();
                    let mut all_obj: Vec<String> = Vec::new();
                    let mut outer = Source::new(seed32(sxa));
                    // layouts whose cells the Lean model recomputes; `cell_pt` = the scalar the routine hands to
                    // gglwe_compressed_encrypt_sk when the harness knows it (tsk: the model derives it from sk)
                    let model_op = matches!(op, "gglwe" | "ksk" | "tsk");
                    let cell_pt: Option<&ScalarZnx<Vec<u8>>> = match op {
                        "gglwe" => Some(&pt),
                        "ksk" => Some(&ksk_in_emb),
                        _ => None,
                    };
                    // per-cell byte comparison with glwe_encrypt_sk needs the prepared secret, which only exists for degree n
                    let cellenc_ok = op != "ksk" || nout == n;
                    for (d, s, seeds, ok) in subs.iter() {
                        sok &= *ok;
                        let rin = seeds.len() / dnum.max(1);
                        // loop order of the compressed routine: col outer, row inner; one branch() per cell.
                        // g2g: sub-key i is encrypted with the i-th branch of Source::new(seed_xa) as its seed.
                        let mut top = if op == "g2g" { Source::new(seed_of_words(&words(&mut outer, 4))) } else { Source::new(seed32(sxa)) };
                        for col in 0..rin {
                            for row in 0..dnum {
                                let w = words(&mut top, 4);
                                if seed_of_words(&w) != seeds[row * rin + col] {
                                    sw = false;
                                }
                            }
                        }
                        for row in 0..dnum {
                            for col in 0..rin {
                                let seed = &seeds[row * rin + col];
                                let cd = d.at(row, col);
                                let cs = s.at(row, col);
                                nc += 1;
                                dcells.push(cell_of(&cd, row));
                                dseeds.push(*seed);
                                nm += mask_ok(&cd, seed) as i32;
                                nd += (phase_mod(&cd, &sk_cols, b) == phase_mod(&cs, &sk_cols, b)) as i32;
                                if model_op {
                                    all_seeds.push(show_words(
                                        &(0..4).map(|i| u64::from_le_bytes(seed[8 * i..8 * i + 8].try_into().unwrap())).collect::<Vec<_>>(),
                                    ));
                                    all_child.push(show_words(&words(&mut Source::new(*seed), rank * size * n)));
                                    all_obj.push(show_cell(&cd));
                                }
                            }
                        }
                        if model_op {
                            // per-cell standard encryption with the stored seed and the error source in loop order
                            let mut xe2 = Source::new(seed32(sxe));
                            let mut errs: Vec<String> = Vec::new();
                            let mut xe3 = Source::new(seed32(sxe));
                            for col in 0..rin {
                                for row in 0..dnum {
                                    if let (Some(cpt), true) = (cell_pt, cellenc_ok) {
                                        let mut tmp_pt = GLWEPlaintext::alloc(deg, bk, tk);
                                        module.vec_znx_add_scalar_assign(tmp_pt.data_mut(), 0, (dsize - 1) + row * dsize, cpt, col);
                                        module.vec_znx_normalize_assign(b, tmp_pt.data_mut(), 0, scratch.borrow());
                                        let mut st = GLWE::alloc_from_infos(&glwe_layout);
                                        let mut xa2 = Source::new(seeds[row * rin + col]);
                                        module.glwe_encrypt_sk(&mut st, &tmp_pt, if op == "ksk" { &skp_ksk } else { &skp }, &enc, &mut xe2, &mut xa2, scratch.borrow());
                                        ne += (st.data().raw() == d.at(row, col).data().raw()) as i32;
                                    }
                                    let mut ev = VecZnx::alloc(n, 1, size);
                                    module.vec_znx_add_normal(b, &mut ev, 0, noise, &mut xe3);
                                    errs.push(show_vec(&ev));
                                }
                            }
                            if cell_pt.is_none() || !cellenc_ok {
                                ne = -1;
                            }
                            tail = format!(
                                " sk={} pt={} top={} seeds={} child={} e={} obj={}",
                                if op == "ksk" { show_scalar(&ksk_out_vis) } else { show_scalar(&sk_vis) },
                                if op == "ksk" { show_scalar(&ksk_in_vis) } else { cell_pt.map(show_scalar).unwrap_or("-".to_string()) },
                                show_words(&words(&mut Source::new(seed32(sxa)), 4 * rin * dnum)),
                                all_seeds.join(";"),
                                all_child.join(";"),
                                errs.join(";"),
                                all_obj.join("/")
                            );
                        } else {
                            ne = -1;
                        }
                    }
                    tail += &format!(" wrappers={wrappers} degrees={}", degrees_ok as i32);
                    cells = nc;
                    masks = nm;
                    dec = nd;
                    cellenc = ne;
                    ser_ok = sok as i32;
                    seedwords = sw as i32;
                }
                "ggsw" => {
                    let enc = EncryptionLayout::new(ggsw_layout, noise).unwrap();
                    let mut c = GGSWCompressed::alloc_from_infos(&ggsw_layout);
                    let mut xe_c = Source::new(seed32(sxe));
                    module.ggsw_compressed_encrypt_sk(&mut c, &pt, &skp, seed32(sxa), &enc, &mut xe_c, scratch.borrow());
                    let mut d = GGSW::alloc_from_infos(&ggsw_layout);
                    module.decompress_ggsw(&mut d, &c);
                    let mut s = GGSW::alloc_from_infos(&ggsw_layout);
                    let mut xe_s = Source::new(seed32(sxe));
                    let mut xa_s = Source::new(seed32(sxa ^ 0x5555));
                    module.ggsw_encrypt_sk(&mut s, &pt, &skp, &enc, &mut xe_s, &mut xa_s, scratch.borrow());
                    let bytes = ser(&c);
                    let mut c2 = GGSWCompressed::alloc_from_infos(&ggsw_layout);
                    c2.read_from(&mut &bytes[..]).unwrap();
                    let mut d2 = GGSW::alloc_from_infos(&ggsw_layout);
                    module.decompress_ggsw(&mut d2, &c2);
                    ser_ok = (ser(&c2) == bytes && ser(&d2) == ser(&d)) as i32;
                    let seeds = c.seed().clone();
                    let cols = rank + 1;
                    let (mut nc, mut nm, mut nd, mut sw) = (0, 0, 0, true);
                    let mut top = Source::new(seed32(sxa));
                    let mut all_seeds: Vec<String> = Vec::new();
                    let mut all_child: Vec<String> = Vec::new();
                    let mut all_obj: Vec<String> = Vec::new();
                    let mut errs: Vec<String> = Vec::new();
                    let mut xe3 = Source::new(seed32(sxe));
                    for row in 0..dnum {
                        for col in 0..cols {
                            let w = words(&mut top, 4);
                            let seed = &seeds[row * cols + col];
                            if seed_of_words(&w) != *seed {
                                sw = false;
                            }
                            let cd = d.at(row, col);
                            let cs = s.at(row, col);
                            nc += 1;
                            dcells.push(cell_of(&cd, row));
                            dseeds.push(*seed);
                            nm += mask_ok(&cd, seed) as i32;
                            nd += (phase_mod(&cd, &sk_cols, b) == phase_mod(&cs, &sk_cols, b)) as i32;
                            all_seeds.push(show_words(&w));
                            all_child.push(show_words(&words(&mut Source::new(*seed), rank * size * n)));
                            all_obj.push(show_cell(&cd));
                            let mut ev = VecZnx::alloc(n, 1, size);
                            module.vec_znx_add_normal(b, &mut ev, 0, noise, &mut xe3);
                            errs.push(show_vec(&ev));
                        }
                    }
                    cells = nc;
                    masks = nm;
                    dec = nd;
                    cellenc = -1;
                    seedwords = sw as i32;
                    tail = format!(
                        " sk={} pt={} top={} seeds={} child={} e={} obj={}",
                        show_scalar(&sk_vis),
                        show_scalar(&pt),
                        show_words(&words(&mut Source::new(seed32(sxa)), 4 * cols * dnum)),
                        all_seeds.join(";"),
                        all_child.join(";"),
                        errs.join(";"),
                        all_obj.join("/")
                    );
                }
                "lwec" => {
                    // LWECompressed has no encryption routine: the object is built from its wire format (k, base2k, seed, body VecZnx)
                    // out of a standard LWE ciphertext encrypted with source_xa = Source::new(seed); `decompress_lwe` must give that
                    // ciphertext back.  `nl` = LWE dimension of the receiver.
                    let nl = kv_us(t, "nl").max(1);
                    let layout = LWELayout { n: Degree(nl as u32), k: tk, base2k: bk };
                    let enc = EncryptionLayout::new(layout, noise).unwrap();
                    let mut skl = LWESecret::alloc(Degree(nl as u32));
                    fill_lwe_secret(&mut skl, dist, &mut Source::new(seed32(sxs)));
                    let mut ptl = LWEPlaintext::alloc(bk, tk);
                    load_col(ptl.data_mut(), 0, kv(t, "ptv").unwrap_or("-"));
                    let mut ct = LWE::alloc_from_infos(&layout);
                    module.lwe_encrypt_sk(&mut ct, &ptl, &skl, &enc, &mut Source::new(seed32(sxe)), &mut Source::new(seed32(sxa)), scratch.borrow());
                    let mut bytes: Vec<u8> = Vec::new();
                    bytes.extend_from_slice(&(k as u32).to_le_bytes());
                    bytes.extend_from_slice(&(b as u32).to_le_bytes());
                    bytes.extend_from_slice(&seed32(sxa));
                    for v in [1u64, 1, size as u64, size as u64, (size * 8) as u64] {
                        bytes.extend_from_slice(&v.to_le_bytes());
                    }
                    for j in 0..size {
                        bytes.extend_from_slice(&ct.data().at(0, j)[0].to_le_bytes());
                    }
                    let mut lc = LWECompressed::alloc(bk, tk);
                    lc.read_from(&mut &bytes[..]).unwrap();
                    ser_ok = (ser(&lc) == bytes) as i32;
                    // receiver: same LWE dimension; radix / precision may be made to differ (`resb=`, `resk=`) — must be refused
                    let resb = if kv(t, "resb").is_some() { kv_us(t, "resb") } else { b };
                    let resk = if kv(t, "resk").is_some() { kv_us(t, "resk") } else { k };
                    let rlayout = LWELayout { n: Degree(nl as u32), k: TorusPrecision(resk as u32), base2k: Base2K(resb as u32) };
                    let mut d = LWE::alloc_from_infos(&rlayout);
                    let r = std::panic::catch_unwind(std::panic::AssertUnwindSafe(|| {
                        module.decompress_lwe(&mut d, &lc);
                    }));
                    cells = 1;
                    seedwords = 1;
                    cellenc = -1;
                    let body: Vec<String> = (0..size).map(|j| ct.data().at(0, j)[0].to_string()).collect();
                    let child = words(&mut Source::new(seed32(sxa)), (nl + 1) * size);
                    tail = format!(" ressize={} body={} child={} obj={}", resk.div_ceil(resb), body.join(","), show_words(&child), show_col(ct.data(), 0));
                    match r {
                        Ok(()) => {
                            dec = (d.data().raw() == ct.data().raw()) as i32;
                            masks = dec;
                        }
                        Err(e) => {
                            dec = -2;
                            masks = -2;
                            let msg: String = panic_msg(&e).chars().map(|c| if c.is_whitespace() { '_' } else { c }).take(100).collect();
                            tail += &format!(" panic={}:{msg}", panic_class(&panic_msg(&e)));
                        }
                    }
                }
                _ => return "bad-op".to_string(),
            }
            let refs: Vec<&Cell> = dcells.iter().collect();
            let sd: Vec<String> = dseeds.iter().map(|s| s.iter().map(|x| format!("{x:02x}")).collect::<String>()).collect();
            format!(
                "ok cells={cells} masks={masks} dec={dec} cellenc={cellenc} ser={ser_ok} seedwords={seedwords} {} sd={}{tail}",
                dist_report(&refs, b),
                sd.join(",")
            )
        }
    };
}

/// owned copy of a borrowed GGLWE (so that key wrappers can be handled uniformly)
fn own_gglwe(g: &GGLWE<&[u8]>) -> GGLWE<Vec<u8>> {
    use poulpy_core::layouts::GGLWEInfos;
    let mut o = GGLWE::alloc(g.n(), g.base2k(), g.max_k(), g.rank_in(), g.rank_out(), g.dnum(), g.dsize());
    o.data_mut().raw_mut().copy_from_slice(g.data().raw());
    o
}

trait ToRefGlwe {
    fn to_ref_glwe(&self) -> GLWE<&[u8]>;
}
impl ToRefGlwe for GLWE<Vec<u8>> {
    fn to_ref_glwe(&self) -> GLWE<&[u8]> {
        use poulpy_core::layouts::GLWEToRef;
        self.to_ref()
    }
}

cmp_backend!(run_fft64ref, FFT64Ref);
cmp_backend!(run_ntt120ref, NTT120Ref);
cmp_backend!(run_fft64avx, FFT64Avx);
cmp_backend!(run_ntt120avx, NTT120Avx);

pub fn run(_args: &[String]) {
    std::panic::set_hook(Box::new(|_| {}));
    let stdin = std::io::stdin();
    let stdout = std::io::stdout();
    let mut out = stdout.lock();
    for line in stdin.lock().lines() {
        let line = line.unwrap();
        let t: Vec<&str> = line.split_whitespace().collect();
        if t.len() < 2 {
            continue;
        }
        let id = t[0];
        let op = t[1];
        let be = kv(&t, "be").unwrap_or("fft64ref").to_string();
        let r = std::panic::catch_unwind(std::panic::AssertUnwindSafe(|| match be.as_str() {
            "fft64ref" => run_fft64ref(op, &t[2..]),
            "ntt120ref" => run_ntt120ref(op, &t[2..]),
            "fft64avx" => run_fft64avx(op, &t[2..]),
            "ntt120avx" => run_ntt120avx(op, &t[2..]),
            _ => "bad-be".to_string(),
        }));
        match r {
            Ok(s) => writeln!(out, "{id} {s}").unwrap(),
            Err(e) => writeln!(out, "{id} panic:{}:{}", panic_class(&panic_msg(&e)), panic_msg(&e).replace(' ', "_").chars().take(120).collect::<String>()).unwrap(),
        }
    }
    out.flush().unwrap();
}
