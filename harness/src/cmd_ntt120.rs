//! `pvh ntt120` — calls the lowest-level public functions of
//! `poulpy_cpu_ref::reference::ntt120` (and the `Ntt*` trait implementations of `NTT120Ref` /
//! `NTT120Avx`) on explicit values.  Model twin: `lean/Poulpy/Driver/Ntt120.lean`.
//!
//! Request line: `id <sub-op> k=v …`; answer line: `id <result>`; integers decimal, `,` inside an
//! element, `|` between elements; `panic:<class>` for a caught panic.
//!
//!   consts p=<29|30|31>                  every constant the model mirrors (primes, roots, CRT constants,
//!                                        Bbc/Bbb/Baa meta, reduction meta, Q_SHIFTED for p=30)
//!   bfrom  p= [be=ref|avx|fn] x=…        b_from_znx64            → 4 u64 per coefficient
//!   bfromm p= [be=] mask= x=…            b_from_znx64_masked
//!   cfrom  p= x=…                        c_from_znx64            → 8 u32 per coefficient
//!   cfromb p= [be=] x=<4m u64>           c_from_b                → 8 u32 per element
//!   bto    p= [be=] x=<4m u64>           b_to_znx128             → m i128
//!   bbc | bbcx2 | bbc2c  p= [be=] ell= x=<u32…> y=<u32…>   vec_mat{1col,1col_x2,2cols_x2}_product_bbc
//!   bbb    p= [be=] ell= x=<u64…> y=<u64…>
//!   baa    p= ell= x=<u32…> y=<u32…>
//!   add | sub | neg | addccc  [be=] p= x= y=     add_bbb_ref / NttAdd, NttSub, NttNegate / add_ccc_ref
//!   addas | subas | subneg | negas  [be=] x= y=  the in-place trait forms (res = x)
//!   ntt | intt  p= [be=] n= x=<4n u64>   ntt_ref / intt_ref with a fresh NttTable(Inv)::new(n) (be=ref|avx: NttDFTExecute)
//!   tab p= n=                            bit sizes, level metadata and the whole powomega array of both tables
//!   packl|packr|ppackl|ppackr be=ref|avx rows= stride= blk= x= [y=]   the x2-block pack kernels of the convolution
//!   spm inp= po= h= mask= | red x= h= mask= cst= | pow x= n= q=      split_precompmul, modq_red, modq_pow
//!   pipe be=<ref|avx> a= b=<i64,…>       HAL at n = 1 (transforms are the identity there):
//!                                        svp_prepare(a); dft_apply(b); svp_apply_dft_to_dft; idft_apply → i128 per b
//!   consume be=<ref|avx> x=<4m u64>      VecZnxDft (n = 1, m limbs) filled with raw residues, vec_znx_idft_apply_consume → m i128
//!
//! `be=fn` (default) calls the generic `*_ref::<P>` functions; `be=ref` / `be=avx` go through the
//! `Ntt*` traits (fixed to Primes30).
use std::io::{BufRead, Write};

use poulpy_cpu_avx::NTT120Avx;
use poulpy_cpu_ref::NTT120Ref;
use poulpy_cpu_ref::reference::ntt120::{
    NttAdd, NttAddAssign, NttCFromB, NttFromZnx64, NttMulBbb, NttMulBbc, NttMulBbc1ColX2, NttMulBbc2ColsX2, NttNegate, NttNegateAssign,
    NttPackLeft1BlkX2, NttPackRight1BlkX2, NttPairwisePackLeft1BlkX2, NttPairwisePackRight1BlkX2, NttSub, NttSubAssign, NttSubNegateAssign,
    NttToZnx128,
    arithmetic::{add_bbb_ref, add_ccc_ref, b_from_znx64_masked_ref, b_from_znx64_ref, b_to_znx128_ref, c_from_b_ref, c_from_znx64_ref},
    mat_vec::{
        BaaMeta, BbbMeta, BbcMeta, vec_mat1col_product_baa_ref, vec_mat1col_product_bbb_ref, vec_mat1col_product_bbc_ref,
        vec_mat1col_product_x2_bbc_ref, vec_mat2cols_product_x2_bbc_ref,
    },
    NttDFTExecute,
    ntt::{NttStepMeta, NttTable, NttTableInv, intt_ref, modq_pow, modq_red, ntt_ref, split_precompmul},
    primes::{PrimeSet, Primes29, Primes30, Primes31},
    types::Q_SHIFTED,
};
use poulpy_hal::{
    api::{
        ModuleNew, ScratchOwnedAlloc, ScratchOwnedBorrow, SvpApplyDftToDft, SvpPPolAlloc, SvpPrepare, VecZnxBigAlloc, VecZnxDftAlloc,
        VecZnxDftApply, VecZnxIdftApply, VecZnxIdftApplyConsume,
    },
    layouts::{Module, ScalarZnx, ScratchOwned, VecZnx, ZnxView, ZnxViewMut},
};

use crate::cmd_hal::panic_class;

fn kv<'a>(t: &'a [&'a str], k: &str) -> Option<&'a str> {
    t.iter().find_map(|s| s.split_once('=').filter(|(a, _)| *a == k).map(|(_, v)| v))
}
fn list<T: std::str::FromStr>(t: &[&str], k: &str) -> Vec<T>
where
    T::Err: std::fmt::Debug,
{
    match kv(t, k) {
        None | Some("-") | Some("") => vec![],
        Some(v) => v.split(',').map(|x| x.parse::<T>().unwrap()).collect(),
    }
}
fn num<T: std::str::FromStr>(t: &[&str], k: &str) -> T
where
    T::Err: std::fmt::Debug,
{
    kv(t, k).unwrap().parse::<T>().unwrap()
}
fn join<T: ToString>(v: &[T]) -> String {
    if v.is_empty() { "-".to_string() } else { v.iter().map(|x| x.to_string()).collect::<Vec<_>>().join(",") }
}
fn chunks<T: ToString>(v: &[T], k: usize) -> String {
    if v.is_empty() { "-".to_string() } else { v.chunks(k).map(join).collect::<Vec<_>>().join("|") }
}

fn consts<P: PrimeSet>(is30: bool) -> String {
    let bbc = BbcMeta::<P>::new();
    let bbb = BbbMeta::<P>::new();
    let baa = BaaMeta::<P>::new();
    let tab = NttTable::<P>::new(1);
    let r = &tab.reduc_metadata;
    let mut s = format!(
        "q={} omega={} crt={} logq={} bbc={}:{}:{} bbb={}:{}:{}:{}:{}:{}:{}:{} baa={}:{} red={}:{}:{}",
        join(&P::Q),
        join(&P::OMEGA),
        join(&P::CRT_CST),
        P::LOG_Q,
        bbc.h,
        join(&bbc.s2l_pow_red),
        join(&bbc.s2h_pow_red),
        bbb.h,
        bbb.s1h_pow_red,
        join(&bbb.s2l_pow_red),
        join(&bbb.s2h_pow_red),
        join(&bbb.s3l_pow_red),
        join(&bbb.s3h_pow_red),
        join(&bbb.s4l_pow_red),
        join(&bbb.s4h_pow_red),
        baa.h,
        join(&baa.h_pow_red),
        r.h,
        r.mask,
        join(&r.modulo_red_cst),
    );
    if is30 {
        s.push_str(&format!(" qshift={}", join(&Q_SHIFTED)));
    }
    s
}

fn tab<P: PrimeSet>(n: usize) -> String {
    let f = NttTable::<P>::new(n);
    let i = NttTableInv::<P>::new(n);
    let lv = |m: &Vec<NttStepMeta>| {
        if m.is_empty() {
            "-".to_string()
        } else {
            m.iter().map(|x| format!("{}:{}:{}:{}:{}", x.bs, x.half_bs, x.mask, x.reduce as u8, join(&x.q2bs))).collect::<Vec<_>>().join("|")
        }
    };
    format!(
        "fwd={}/{} {} {} inv={}/{} {} {}",
        f.input_bit_size,
        f.output_bit_size,
        lv(&f.level_metadata),
        join(&f.powomega),
        i.input_bit_size,
        i.output_bit_size,
        lv(&i.level_metadata),
        join(&i.powomega)
    )
}

fn generic<P: PrimeSet>(op: &str, t: &[&str]) -> String {
    match op {
        "ntt" => {
            let mut x: Vec<u64> = list(t, "x");
            let tb = NttTable::<P>::new(num(t, "n"));
            ntt_ref::<P>(&tb, &mut x);
            join(&x)
        }
        "intt" => {
            let mut x: Vec<u64> = list(t, "x");
            let tb = NttTableInv::<P>::new(num(t, "n"));
            intt_ref::<P>(&tb, &mut x);
            join(&x)
        }
        "bfrom" => {
            let x: Vec<i64> = list(t, "x");
            let mut r = vec![0u64; 4 * x.len()];
            b_from_znx64_ref::<P>(x.len(), &mut r, &x);
            chunks(&r, 4)
        }
        "bfromm" => {
            let x: Vec<i64> = list(t, "x");
            let mut r = vec![0u64; 4 * x.len()];
            b_from_znx64_masked_ref::<P>(x.len(), &mut r, &x, num(t, "mask"));
            chunks(&r, 4)
        }
        "cfrom" => {
            let x: Vec<i64> = list(t, "x");
            let mut r = vec![0u32; 8 * x.len()];
            c_from_znx64_ref::<P>(x.len(), &mut r, &x);
            chunks(&r, 8)
        }
        "cfromb" => {
            let x: Vec<u64> = list(t, "x");
            let m = x.len() / 4;
            let mut r = vec![0u32; 8 * m];
            c_from_b_ref::<P>(m, &mut r, &x);
            chunks(&r, 8)
        }
        "bto" => {
            let x: Vec<u64> = list(t, "x");
            let m = x.len() / 4;
            let mut r = vec![0i128; m];
            b_to_znx128_ref::<P>(m, &mut r, &x);
            join(&r)
        }
        "bbc" | "bbcx2" | "bbc2c" => {
            let meta = BbcMeta::<P>::new();
            let (x, y): (Vec<u32>, Vec<u32>) = (list(t, "x"), list(t, "y"));
            let ell: usize = num(t, "ell");
            let mut r = vec![0u64; 16];
            match op {
                "bbc" => {
                    vec_mat1col_product_bbc_ref::<P>(&meta, ell, &mut r, &x, &y);
                    join(&r[..4])
                }
                "bbcx2" => {
                    vec_mat1col_product_x2_bbc_ref::<P>(&meta, ell, &mut r, &x, &y);
                    join(&r[..8])
                }
                _ => {
                    vec_mat2cols_product_x2_bbc_ref::<P>(&meta, ell, &mut r, &x, &y);
                    join(&r[..16])
                }
            }
        }
        "bbb" => {
            let meta = BbbMeta::<P>::new();
            let (x, y): (Vec<u64>, Vec<u64>) = (list(t, "x"), list(t, "y"));
            let mut r = vec![0u64; 4];
            vec_mat1col_product_bbb_ref::<P>(&meta, num(t, "ell"), &mut r, &x, &y);
            join(&r)
        }
        "baa" => {
            let meta = BaaMeta::<P>::new();
            let (x, y): (Vec<u32>, Vec<u32>) = (list(t, "x"), list(t, "y"));
            let mut r = vec![0u64; 4];
            vec_mat1col_product_baa_ref::<P>(&meta, num(t, "ell"), &mut r, &x, &y);
            join(&r)
        }
        "add" => {
            let (x, y): (Vec<u64>, Vec<u64>) = (list(t, "x"), list(t, "y"));
            let mut r = vec![0u64; x.len()];
            add_bbb_ref::<P>(x.len() / 4, &mut r, &x, &y);
            join(&r)
        }
        "addccc" => {
            let (x, y): (Vec<u32>, Vec<u32>) = (list(t, "x"), list(t, "y"));
            let mut r = vec![0u32; x.len()];
            add_ccc_ref::<P>(x.len() / 8, &mut r, &x, &y);
            join(&r)
        }
        _ => "bad-op".to_string(),
    }
}

macro_rules! via_trait {
    ($fname:ident, $be:ty) => {
        fn $fname(op: &str, t: &[&str]) -> String {
            type BE = $be;
            match op {
                "packl" => {
                    let x: Vec<u64> = list(t, "x");
                    let rows: usize = num(t, "rows");
                    let mut r = vec![0u32; 16 * rows];
                    <BE as NttPackLeft1BlkX2>::ntt_pack_left_1blk_x2(&mut r, &x, rows, num(t, "stride"), num(t, "blk"));
                    join(&r)
                }
                "packr" => {
                    let x: Vec<u32> = list(t, "x");
                    let rows: usize = num(t, "rows");
                    let mut r = vec![0u32; 16 * rows];
                    <BE as NttPackRight1BlkX2>::ntt_pack_right_1blk_x2(&mut r, &x, rows, num(t, "stride"), num(t, "blk"));
                    join(&r)
                }
                "ppackl" => {
                    let (x, y): (Vec<u64>, Vec<u64>) = (list(t, "x"), list(t, "y"));
                    let rows: usize = num(t, "rows");
                    let mut r = vec![0u32; 16 * rows];
                    <BE as NttPairwisePackLeft1BlkX2>::ntt_pairwise_pack_left_1blk_x2(&mut r, &x, &y, rows, num(t, "stride"), num(t, "blk"));
                    join(&r)
                }
                "ppackr" => {
                    let (x, y): (Vec<u32>, Vec<u32>) = (list(t, "x"), list(t, "y"));
                    let rows: usize = num(t, "rows");
                    let mut r = vec![0u32; 16 * rows];
                    <BE as NttPairwisePackRight1BlkX2>::ntt_pairwise_pack_right_1blk_x2(&mut r, &x, &y, rows, num(t, "stride"), num(t, "blk"));
                    join(&r)
                }
                "ntt" => {
                    let mut x: Vec<u64> = list(t, "x");
                    let tb = NttTable::<Primes30>::new(num(t, "n"));
                    <BE as NttDFTExecute<NttTable<Primes30>>>::ntt_dft_execute(&tb, &mut x);
                    join(&x)
                }
                "intt" => {
                    let mut x: Vec<u64> = list(t, "x");
                    let tb = NttTableInv::<Primes30>::new(num(t, "n"));
                    <BE as NttDFTExecute<NttTableInv<Primes30>>>::ntt_dft_execute(&tb, &mut x);
                    join(&x)
                }
                "bfrom" => {
                    let x: Vec<i64> = list(t, "x");
                    let mut r = vec![0u64; 4 * x.len()];
                    <BE as NttFromZnx64>::ntt_from_znx64(&mut r, &x);
                    chunks(&r, 4)
                }
                "bfromm" => {
                    let x: Vec<i64> = list(t, "x");
                    let mut r = vec![0u64; 4 * x.len()];
                    <BE as NttFromZnx64>::ntt_from_znx64_masked(&mut r, &x, num(t, "mask"));
                    chunks(&r, 4)
                }
                "cfromb" => {
                    let x: Vec<u64> = list(t, "x");
                    let m = x.len() / 4;
                    let mut r = vec![0u32; 8 * m];
                    <BE as NttCFromB>::ntt_c_from_b(m, &mut r, &x);
                    chunks(&r, 8)
                }
                "bto" => {
                    let x: Vec<u64> = list(t, "x");
                    let m = x.len() / 4;
                    let mut r = vec![0i128; m];
                    <BE as NttToZnx128>::ntt_to_znx128(&mut r, m, &x);
                    join(&r)
                }
                "bbc" | "bbcx2" | "bbc2c" => {
                    let meta = BbcMeta::<Primes30>::new();
                    let (x, y): (Vec<u32>, Vec<u32>) = (list(t, "x"), list(t, "y"));
                    let ell: usize = num(t, "ell");
                    let mut r = vec![0u64; 16];
                    match op {
                        "bbc" => {
                            <BE as NttMulBbc>::ntt_mul_bbc(&meta, ell, &mut r[..4], &x, &y);
                            join(&r[..4])
                        }
                        "bbcx2" => {
                            <BE as NttMulBbc1ColX2>::ntt_mul_bbc_1col_x2(&meta, ell, &mut r[..8], &x, &y);
                            join(&r[..8])
                        }
                        _ => {
                            <BE as NttMulBbc2ColsX2>::ntt_mul_bbc_2cols_x2(&meta, ell, &mut r, &x, &y);
                            join(&r[..16])
                        }
                    }
                }
                "bbb" => {
                    let meta = BbbMeta::<Primes30>::new();
                    let (x, y): (Vec<u64>, Vec<u64>) = (list(t, "x"), list(t, "y"));
                    let mut r = vec![0u64; 4];
                    <BE as NttMulBbb>::ntt_mul_bbb(&meta, num(t, "ell"), &mut r, &x, &y);
                    join(&r)
                }
                "add" | "sub" | "neg" | "addas" | "subas" | "subneg" | "negas" => {
                    let (x, y): (Vec<u64>, Vec<u64>) = (list(t, "x"), list(t, "y"));
                    let mut r = vec![0u64; x.len()];
                    match op {
                        "add" => <BE as NttAdd>::ntt_add(&mut r, &x, &y),
                        "sub" => <BE as NttSub>::ntt_sub(&mut r, &x, &y),
                        "neg" => <BE as NttNegate>::ntt_negate(&mut r, &x),
                        "addas" => {
                            r.copy_from_slice(&x);
                            <BE as NttAddAssign>::ntt_add_assign(&mut r, &y)
                        }
                        "subas" => {
                            r.copy_from_slice(&x);
                            <BE as NttSubAssign>::ntt_sub_assign(&mut r, &y)
                        }
                        "subneg" => {
                            r.copy_from_slice(&x);
                            <BE as NttSubNegateAssign>::ntt_sub_negate_assign(&mut r, &y)
                        }
                        _ => {
                            r.copy_from_slice(&x);
                            <BE as NttNegateAssign>::ntt_negate_assign(&mut r)
                        }
                    }
                    join(&r)
                }
                "pipe" => {
                    let a: i64 = num(t, "a");
                    let b: Vec<i64> = list(t, "b");
                    let module: Module<BE> = Module::<BE>::new(1);
                    let mut scratch: ScratchOwned<BE> = ScratchOwned::alloc(1 << 16);
                    let mut s = ScalarZnx::alloc(1, 1);
                    s.at_mut(0, 0)[0] = a;
                    let mut v = VecZnx::alloc(1, 1, b.len());
                    for (j, bj) in b.iter().enumerate() {
                        v.at_mut(0, j)[0] = *bj;
                    }
                    let mut p = module.svp_ppol_alloc(1);
                    module.svp_prepare(&mut p, 0, &s, 0);
                    let mut d = module.vec_znx_dft_alloc(1, b.len());
                    module.vec_znx_dft_apply(1, 0, &mut d, 0, &v, 0);
                    let mut e = module.vec_znx_dft_alloc(1, b.len());
                    module.svp_apply_dft_to_dft(&mut e, 0, &p, 0, &d, 0);
                    let mut big = module.vec_znx_big_alloc(1, b.len());
                    module.vec_znx_idft_apply(&mut big, 0, &e, 0, scratch.borrow());
                    let r: Vec<i128> = (0..b.len()).map(|j| big.at(0, j)[0]).collect();
                    join(&r)
                }
                "consume" => {
                    let x: Vec<u64> = list(t, "x");
                    let m = x.len() / 4;
                    let module: Module<BE> = Module::<BE>::new(1);
                    let mut d = module.vec_znx_dft_alloc(1, m);
                    for j in 0..m {
                        d.at_mut(0, j)[0].0.copy_from_slice(&x[4 * j..4 * j + 4]);
                    }
                    let big = module.vec_znx_idft_apply_consume(d);
                    let r: Vec<i128> = (0..m).map(|j| big.at(0, j)[0]).collect();
                    join(&r)
                }
                _ => "bad-op".to_string(),
            }
        }
    };
}

via_trait!(trait_ref, NTT120Ref);
via_trait!(trait_avx, NTT120Avx);

fn dispatch(op: &str, t: &[&str]) -> String {
    match op {
        "consts" => match kv(t, "p") {
            Some("29") => consts::<Primes29>(false),
            Some("31") => consts::<Primes31>(false),
            _ => consts::<Primes30>(true),
        },
        "tab" => match kv(t, "p") {
            Some("29") => tab::<Primes29>(num(t, "n")),
            Some("31") => tab::<Primes31>(num(t, "n")),
            _ => tab::<Primes30>(num(t, "n")),
        },
        "spm" => split_precompmul(num(t, "inp"), num(t, "po"), num(t, "h"), num(t, "mask")).to_string(),
        "red" => modq_red(num(t, "x"), num(t, "h"), num(t, "mask"), num(t, "cst")).to_string(),
        "pow" => modq_pow(num(t, "x"), num(t, "n"), num(t, "q")).to_string(),
        _ => match kv(t, "be") {
            Some("ref") => trait_ref(op, t),
            Some("avx") => trait_avx(op, t),
            _ => match kv(t, "p") {
                Some("29") => generic::<Primes29>(op, t),
                Some("31") => generic::<Primes31>(op, t),
                _ => generic::<Primes30>(op, t),
            },
        },
    }
}

pub fn run(_args: &[String]) {
    let last_panic: std::sync::Arc<std::sync::Mutex<String>> = std::sync::Arc::new(std::sync::Mutex::new(String::new()));
    {
        let lp = last_panic.clone();
        std::panic::set_hook(Box::new(move |info| {
            *lp.lock().unwrap() = info.to_string();
        }));
    }
    let stdin = std::io::stdin();
    let stdout = std::io::stdout();
    let mut w = std::io::BufWriter::new(stdout.lock());
    for line in stdin.lock().lines() {
        let line = line.unwrap();
        let t: Vec<&str> = line.split_whitespace().collect();
        if t.len() < 2 {
            continue;
        }
        let id = t[0];
        let r = std::panic::catch_unwind(std::panic::AssertUnwindSafe(|| dispatch(t[1], &t[2..])));
        match r {
            Ok(s) => writeln!(w, "{id} {s}").unwrap(),
            Err(_) => {
                let msg = last_panic.lock().unwrap().clone();
                writeln!(w, "{id} panic:{}", panic_class(&msg)).unwrap()
            }
        }
    }
    w.flush().unwrap();
}
