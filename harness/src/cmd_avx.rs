//! `pvh avx` — C10 differential harness.  One request per stdin line, one answer per stdout line.
//!   `id kern …`    slice kernels through the primitive traits (avx_kern.rs)
//!   `id hal …`     one HAL operation on one back end, explicit seeded inputs (avx_hal.rs)
//!   `id scheme …`  scheme-level programs under fixed seeds (avx_scheme.rs)
//!   `id sample …`  sampling: limbs + next u64 of the Source (avx_hal.rs)
use std::io::{BufRead, Write};

use poulpy_cpu_avx::{FFT64Avx, NTT120Avx};
use poulpy_cpu_ref::{FFT64Ref, NTT120Ref};

use crate::avx_kern::{Req, kern64, kern128};

fn classify(p: &(dyn std::any::Any + Send)) -> &'static str {
    let msg = if let Some(s) = p.downcast_ref::<&str>() {
        s.to_string()
    } else if let Some(s) = p.downcast_ref::<String>() {
        s.clone()
    } else {
        String::new()
    };
    if msg.contains("overflow") {
        "overflow"
    } else if msg.contains("out of range") || msg.contains("out of bounds") || msg.contains("index") {
        "bounds"
    } else if msg.contains("assert") || msg.contains("kp must be") || msg.contains("must be") {
        "assert"
    } else if msg.contains("scratch") {
        "scratch"
    } else {
        "other"
    }
}

fn one(t: &[&str]) -> String {
    let r = Req { t: &t[1..] };
    match t[0] {
        "kern" => {
            let op = r.get("op").unwrap_or("");
            let wide = op.starts_with("nfc_") || op.starts_with("i128_");
            match (r.get("be").unwrap_or(""), wide) {
                ("fref", false) => kern64::<FFT64Ref>(&r),
                ("favx", false) => kern64::<FFT64Avx>(&r),
                ("nref", false) => kern64::<NTT120Ref>(&r),
                ("navx", false) => kern64::<NTT120Avx>(&r),
                ("nref", true) => kern128::<NTT120Ref>(&r),
                ("navx", true) => kern128::<NTT120Avx>(&r),
                _ => "bad-be".to_string(),
            }
        }
        "q120" => match r.get("be").unwrap_or("") {
            "nref" => crate::avx_kern::q120::<NTT120Ref>(&r),
            "navx" => crate::avx_kern::q120::<NTT120Avx>(&r),
            _ => "bad-be".to_string(),
        },
        "cnvk" => match r.get("be").unwrap_or("") {
            "fref" => crate::avx_kern::cnvk::<FFT64Ref>(&r),
            "favx" => crate::avx_kern::cnvk::<FFT64Avx>(&r),
            _ => "bad-be".to_string(),
        },
        "nk" => match r.get("be").unwrap_or("") {
            "nref" => crate::avx_kern::nk::<NTT120Ref>(&r),
            "navx" => crate::avx_kern::nk::<NTT120Avx>(&r),
            _ => "bad-be".to_string(),
        },
        "hal" => crate::avx_hal::hal(&r),
        "sample" => crate::avx_hal::sample(&r),
        "scheme" => crate::avx_scheme::scheme(&r),
        _ => "bad-op".to_string(),
    }
}

pub fn run(_args: &[String]) {
    std::panic::set_hook(Box::new(|_| {}));
    let stdin = std::io::stdin();
    let stdout = std::io::stdout();
    let mut out = stdout.lock();
    for line in stdin.lock().lines() {
        let line = line.unwrap();
        let t: Vec<&str> = line.split_whitespace().collect();
        if t.len() < 2 {
            continue;
        }
        let id = t[0];
        let res = std::panic::catch_unwind(std::panic::AssertUnwindSafe(|| one(&t[1..])));
        match res {
            Ok(s) => writeln!(out, "{id} {s}").unwrap(),
            Err(p) => {
                if std::env::var("PVH_PANIC_MSG").is_ok() {
                    let m = p.downcast_ref::<&str>().map(|s| s.to_string()).or(p.downcast_ref::<String>().cloned()).unwrap_or_default();
                    eprintln!("{id} panic message: {m}");
                }
                writeln!(out, "{id} panic:{}", classify(p.as_ref())).unwrap()
            }
        }
    }
    out.flush().unwrap();
}
