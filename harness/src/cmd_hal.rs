//! `pvh hal` — interpreter of small HAL programs over named buffers, on any of the four back ends.
//!
//! Request line:  `id be=<fft64ref|ntt120ref|fft64avx|ntt120avx> n=<N> ; stmt ; stmt ; …`
//! Answer line:   `id ok NAME=<cols>x<size>:v,v,… …`   (one segment per `dump`, coefficients in
//!                (column, limb, coefficient) order)   or   `id panic:<class>`.
//!
//! Value generators `G`:  `z` (zeros) | `r<bits>:<seed>` (SplitMix64, each value the low `bits`
//! bits sign-extended) | `d:<v,v,…>` (explicit, (column, limb, coefficient) order).
//!
//! Statements (buffers are created by the first group, `res`-first argument order as in the API):
//!   vec X cols size G | sca X cols G | mat X rows cols_in cols_out size G | big X cols size G |
//!   dft X cols size G            (a DFT buffer holding the transforms of the generated polynomials)
//!   svp X cols | vmp X rows cols_in cols_out size | cnvl X cols size | cnvr X cols size
//!   setsize X size
//!   dft_apply step off D dc X xc | idft B bc D dc | idft_tmpa B bc D dc | idft_consume B D
//!   dft_add D dc A ac B bc | dft_add_assign D dc A ac | dft_sub D dc A ac B bc | dft_sub_assign D dc A ac
//!   dft_sub_negate_assign D dc A ac | dft_add_scaled_assign D dc A ac scale | dft_copy step off D dc A ac | dft_zero D dc
//!   svp_prepare S sc X xc | svp_apply_dft D dc S sc X xc | svp_apply_dft_to_dft D dc S sc A ac | svp_apply_dft_to_dft_assign D dc S sc
//!   vmp_prepare P M | vmp_apply_dft D X P | vmp_apply_dft_to_dft D A P limb_offset
//!   cnv_prepare_left L X mask | cnv_prepare_right R X mask | cnv_prepare_self L R X mask
//!   cnv_apply_dft off D dc L lc R rc | cnv_pairwise off D dc L R i j | cnv_by_const off B bc X xc c,c,…
//!   big_normalize X xc res_base2k res_offset B bc a_base2k
//!   dump X | raw X            (raw: the stored `u64` words of a dft / svp / vmp / cnvl / cnvr buffer)
use std::collections::HashMap;
use std::io::{BufRead, Write};

use poulpy_hal::{
    api::{
        CnvPVecAlloc, Convolution, ModuleNew, ScratchOwnedAlloc, ScratchOwnedBorrow, SvpApplyDft, SvpApplyDftToDft,
        SvpApplyDftToDftAssign, SvpPPolAlloc, SvpPrepare, VecZnxBigAlloc, VecZnxBigNormalize, VecZnxDftAddAssign, VecZnxDftAddInto,
        VecZnxDftAddScaledAssign, VecZnxDftAlloc, VecZnxDftApply, VecZnxDftCopy, VecZnxDftSub, VecZnxDftSubAssign,
        VecZnxDftSubNegateAssign, VecZnxDftZero, VecZnxIdftApply, VecZnxIdftApplyConsume, VecZnxIdftApplyTmpA, VmpApplyDft,
        VmpApplyDftToDft, VmpPMatAlloc, VmpPrepare,
    },
    layouts::{
        CnvPVecL, CnvPVecR, DeviceBuf, MatZnx, Module, ScalarZnx, ScratchOwned, SvpPPol, VecZnx, VecZnxBig, VecZnxDft, VmpPMat, ZnxInfos,
        ZnxView, ZnxViewMut,
    },
};

pub struct Gen {
    kind: u8, // 0 zero, 1 random, 2 explicit
    bits: u32,
    state: u64,
    data: Vec<i128>,
    pos: usize,
}

impl Gen {
    pub fn parse(s: &str) -> Gen {
        if s == "z" {
            return Gen { kind: 0, bits: 0, state: 0, data: vec![], pos: 0 };
        }
        if let Some(rest) = s.strip_prefix("d:") {
            let data = if rest.is_empty() || rest == "-" { vec![] } else { rest.split(',').map(|x| x.parse::<i128>().unwrap()).collect() };
            return Gen { kind: 2, bits: 0, state: 0, data, pos: 0 };
        }
        if let Some(rest) = s.strip_prefix('r') {
            let (b, seed) = rest.split_once(':').unwrap();
            return Gen { kind: 1, bits: b.parse().unwrap(), state: seed.parse().unwrap(), data: vec![], pos: 0 };
        }
        panic!("bad generator {s}");
    }
    pub fn next(&mut self) -> i128 {
        match self.kind {
            0 => 0,
            1 => {
                self.state = self.state.wrapping_add(0x9E3779B97F4A7C15);
                let mut z = self.state;
                z = (z ^ (z >> 30)).wrapping_mul(0xBF58476D1CE4E5B9);
                z = (z ^ (z >> 27)).wrapping_mul(0x94D049BB133111EB);
                z ^= z >> 31;
                if self.bits == 0 {
                    0
                } else if self.bits >= 64 {
                    z as i64 as i128
                } else {
                    (((z << (64 - self.bits)) as i64) >> (64 - self.bits)) as i128
                }
            }
            _ => {
                let v = self.data.get(self.pos).copied().unwrap_or(0);
                self.pos += 1;
                v
            }
        }
    }
}

fn us(s: &str) -> usize {
    s.parse().unwrap()
}

pub fn panic_class(msg: &str) -> &'static str {
    let m = msg.to_ascii_lowercase();
    if m.contains("overflow") {
        "overflow"
    } else if m.contains("scratch") || m.contains("attempted to take") {
        "scratch"
    } else if m.contains("out of range") || m.contains("out of bounds") || m.contains("index") {
        "bounds"
    } else if m.contains("assert") || m.contains(">=") || m.contains("!=") || m.contains("==") {
        "assert"
    } else {
        "other"
    }
}

macro_rules! hal_backend {
    ($fname:ident, $be:ty, $big:ty) => {
        fn $fname(n: usize, stmts: &[Vec<&str>]) -> String {
            type BE = $be;
            let module: Module<BE> = Module::<BE>::new(n as u64);
            let mut scratch: ScratchOwned<BE> = ScratchOwned::alloc(1 << 22);
            let mut vecs: HashMap<String, VecZnx<Vec<u8>>> = HashMap::new();
            let mut scas: HashMap<String, ScalarZnx<Vec<u8>>> = HashMap::new();
            let mut mats: HashMap<String, MatZnx<Vec<u8>>> = HashMap::new();
            let mut bigs: HashMap<String, VecZnxBig<DeviceBuf<BE>, BE>> = HashMap::new();
            let mut dfts: HashMap<String, VecZnxDft<DeviceBuf<BE>, BE>> = HashMap::new();
            let mut svps: HashMap<String, SvpPPol<DeviceBuf<BE>, BE>> = HashMap::new();
            let mut vmps: HashMap<String, VmpPMat<DeviceBuf<BE>, BE>> = HashMap::new();
            let mut cnvls: HashMap<String, CnvPVecL<DeviceBuf<BE>, BE>> = HashMap::new();
            let mut cnvrs: HashMap<String, CnvPVecR<DeviceBuf<BE>, BE>> = HashMap::new();
            let mut out = String::from("ok");

            for st in stmts {
                if st.is_empty() {
                    continue;
                }
                match st[0] {
                    "vec" => {
                        let (cols, size) = (us(st[2]), us(st[3]));
                        let mut g = Gen::parse(st[4]);
                        let mut v = VecZnx::alloc(n, cols, size);
                        for c in 0..cols {
                            for j in 0..size {
                                for x in v.at_mut(c, j).iter_mut() {
                                    *x = g.next() as i64;
                                }
                            }
                        }
                        vecs.insert(st[1].to_string(), v);
                    }
                    "sca" => {
                        let cols = us(st[2]);
                        let mut g = Gen::parse(st[3]);
                        let mut v = ScalarZnx::alloc(n, cols);
                        for c in 0..cols {
                            for x in v.at_mut(c, 0).iter_mut() {
                                *x = g.next() as i64;
                            }
                        }
                        scas.insert(st[1].to_string(), v);
                    }
                    "mat" => {
                        let (rows, cin, cout, size) = (us(st[2]), us(st[3]), us(st[4]), us(st[5]));
                        let mut g = Gen::parse(st[6]);
                        let mut m = MatZnx::alloc(n, rows, cin, cout, size);
                        for r in 0..rows {
                            for ci in 0..cin {
                                let mut v = m.at_mut(r, ci);
                                for c in 0..cout {
                                    for j in 0..size {
                                        for x in v.at_mut(c, j).iter_mut() {
                                            *x = g.next() as i64;
                                        }
                                    }
                                }
                            }
                        }
                        mats.insert(st[1].to_string(), m);
                    }
                    "big" => {
                        let (cols, size) = (us(st[2]), us(st[3]));
                        let mut g = Gen::parse(st[4]);
                        let mut v = module.vec_znx_big_alloc(cols, size);
                        for c in 0..cols {
                            for j in 0..size {
                                for x in v.at_mut(c, j).iter_mut() {
                                    *x = g.next() as $big;
                                }
                            }
                        }
                        bigs.insert(st[1].to_string(), v);
                    }
                    "dft" => {
                        let (cols, size) = (us(st[2]), us(st[3]));
                        let mut g = Gen::parse(st[4]);
                        let mut tmp = VecZnx::alloc(n, cols, size);
                        for c in 0..cols {
                            for j in 0..size {
                                for x in tmp.at_mut(c, j).iter_mut() {
                                    *x = g.next() as i64;
                                }
                            }
                        }
                        let mut d = module.vec_znx_dft_alloc(cols, size);
                        for c in 0..cols {
                            module.vec_znx_dft_apply(1, 0, &mut d, c, &tmp, c);
                        }
                        dfts.insert(st[1].to_string(), d);
                    }
                    "svp" => {
                        svps.insert(st[1].to_string(), module.svp_ppol_alloc(us(st[2])));
                    }
                    "vmp" => {
                        vmps.insert(st[1].to_string(), module.vmp_pmat_alloc(us(st[2]), us(st[3]), us(st[4]), us(st[5])));
                    }
                    "cnvl" => {
                        cnvls.insert(st[1].to_string(), module.cnv_pvec_left_alloc(us(st[2]), us(st[3])));
                    }
                    "cnvr" => {
                        cnvrs.insert(st[1].to_string(), module.cnv_pvec_right_alloc(us(st[2]), us(st[3])));
                    }
                    "setsize" => {
                        let s = us(st[2]);
                        if let Some(v) = vecs.get_mut(st[1]) {
                            v.set_size(s);
                        } else if let Some(v) = dfts.get_mut(st[1]) {
                            v.set_size(s);
                        } else {
                            panic!("setsize: unknown buffer");
                        }
                    }
                    "dft_apply" => {
                        let x = &vecs[st[5]];
                        module.vec_znx_dft_apply(us(st[1]), us(st[2]), dfts.get_mut(st[3]).unwrap(), us(st[4]), x, us(st[6]));
                    }
                    "idft" => {
                        let d = &dfts[st[3]];
                        module.vec_znx_idft_apply(bigs.get_mut(st[1]).unwrap(), us(st[2]), d, us(st[4]), scratch.borrow());
                    }
                    "idft_tmpa" => {
                        let d = dfts.get_mut(st[3]).unwrap();
                        module.vec_znx_idft_apply_tmpa(bigs.get_mut(st[1]).unwrap(), us(st[2]), d, us(st[4]));
                    }
                    "idft_consume" => {
                        let d = dfts.remove(st[2]).unwrap();
                        let b = module.vec_znx_idft_apply_consume(d);
                        bigs.insert(st[1].to_string(), b);
                    }
                    "dft_add" | "dft_sub" => {
                        let mut r = dfts.remove(st[1]).unwrap();
                        // operands may alias the result name only in the _assign forms
                        let a = &dfts[st[3]];
                        let b = &dfts[st[5]];
                        if st[0] == "dft_add" {
                            module.vec_znx_dft_add_into(&mut r, us(st[2]), a, us(st[4]), b, us(st[6]));
                        } else {
                            module.vec_znx_dft_sub(&mut r, us(st[2]), a, us(st[4]), b, us(st[6]));
                        }
                        dfts.insert(st[1].to_string(), r);
                    }
                    "dft_add_assign" | "dft_sub_assign" | "dft_sub_negate_assign" | "dft_add_scaled_assign" => {
                        let mut r = dfts.remove(st[1]).unwrap();
                        let a = &dfts[st[3]];
                        match st[0] {
                            "dft_add_assign" => module.vec_znx_dft_add_assign(&mut r, us(st[2]), a, us(st[4])),
                            "dft_sub_assign" => module.vec_znx_dft_sub_assign(&mut r, us(st[2]), a, us(st[4])),
                            "dft_sub_negate_assign" => module.vec_znx_dft_sub_negate_assign(&mut r, us(st[2]), a, us(st[4])),
                            _ => module.vec_znx_dft_add_scaled_assign(&mut r, us(st[2]), a, us(st[4]), st[5].parse::<i64>().unwrap()),
                        }
                        dfts.insert(st[1].to_string(), r);
                    }
                    "dft_copy" => {
                        let mut r = dfts.remove(st[3]).unwrap();
                        let a = &dfts[st[5]];
                        module.vec_znx_dft_copy(us(st[1]), us(st[2]), &mut r, us(st[4]), a, us(st[6]));
                        dfts.insert(st[3].to_string(), r);
                    }
                    "dft_zero" => {
                        module.vec_znx_dft_zero(dfts.get_mut(st[1]).unwrap(), us(st[2]));
                    }
                    "svp_prepare" => {
                        module.svp_prepare(svps.get_mut(st[1]).unwrap(), us(st[2]), &scas[st[3]], us(st[4]));
                    }
                    "svp_apply_dft" => {
                        module.svp_apply_dft(dfts.get_mut(st[1]).unwrap(), us(st[2]), &svps[st[3]], us(st[4]), &vecs[st[5]], us(st[6]));
                    }
                    "svp_apply_dft_to_dft" => {
                        let mut r = dfts.remove(st[1]).unwrap();
                        module.svp_apply_dft_to_dft(&mut r, us(st[2]), &svps[st[3]], us(st[4]), &dfts[st[5]], us(st[6]));
                        dfts.insert(st[1].to_string(), r);
                    }
                    "svp_apply_dft_to_dft_assign" => {
                        module.svp_apply_dft_to_dft_assign(dfts.get_mut(st[1]).unwrap(), us(st[2]), &svps[st[3]], us(st[4]));
                    }
                    "vmp_prepare" => {
                        module.vmp_prepare(vmps.get_mut(st[1]).unwrap(), &mats[st[2]], scratch.borrow());
                    }
                    "vmp_apply_dft" => {
                        module.vmp_apply_dft(dfts.get_mut(st[1]).unwrap(), &vecs[st[2]], &vmps[st[3]], scratch.borrow());
                    }
                    "vmp_apply_dft_to_dft" => {
                        let mut r = dfts.remove(st[1]).unwrap();
                        module.vmp_apply_dft_to_dft(&mut r, &dfts[st[2]], &vmps[st[3]], us(st[4]), scratch.borrow());
                        dfts.insert(st[1].to_string(), r);
                    }
                    "cnv_prepare_left" => {
                        module.cnv_prepare_left(cnvls.get_mut(st[1]).unwrap(), &vecs[st[2]], st[3].parse::<i64>().unwrap(), scratch.borrow());
                    }
                    "cnv_prepare_right" => {
                        module.cnv_prepare_right(cnvrs.get_mut(st[1]).unwrap(), &vecs[st[2]], st[3].parse::<i64>().unwrap(), scratch.borrow());
                    }
                    "cnv_prepare_self" => {
                        module.cnv_prepare_self(
                            cnvls.get_mut(st[1]).unwrap(),
                            cnvrs.get_mut(st[2]).unwrap(),
                            &vecs[st[3]],
                            st[4].parse::<i64>().unwrap(),
                            scratch.borrow(),
                        );
                    }
                    "cnv_apply_dft" => {
                        module.cnv_apply_dft(
                            us(st[1]),
                            dfts.get_mut(st[2]).unwrap(),
                            us(st[3]),
                            &cnvls[st[4]],
                            us(st[5]),
                            &cnvrs[st[6]],
                            us(st[7]),
                            scratch.borrow(),
                        );
                    }
                    "cnv_pairwise" => {
                        module.cnv_pairwise_apply_dft(
                            us(st[1]),
                            dfts.get_mut(st[2]).unwrap(),
                            us(st[3]),
                            &cnvls[st[4]],
                            &cnvrs[st[5]],
                            us(st[6]),
                            us(st[7]),
                            scratch.borrow(),
                        );
                    }
                    "cnv_by_const" => {
                        let c: Vec<i64> = st[6].split(',').map(|x| x.parse().unwrap()).collect();
                        // the constants are the prefix of a longer vector with a non-zero guard tail: a read past
                        // the end of `b` changes the result instead of going unnoticed
                        let mut guarded: Vec<i64> = c.clone();
                        guarded.extend_from_slice(&[0x5A5A_5A5A_5A5A; 16]);
                        module.cnv_by_const_apply(
                            us(st[1]),
                            bigs.get_mut(st[2]).unwrap(),
                            us(st[3]),
                            &vecs[st[4]],
                            us(st[5]),
                            &guarded[..c.len()],
                            scratch.borrow(),
                        );
                    }
                    "big_normalize" => {
                        let b = &bigs[st[5]];
                        module.vec_znx_big_normalize(
                            vecs.get_mut(st[1]).unwrap(),
                            us(st[3]),
                            st[4].parse::<i64>().unwrap(),
                            us(st[2]),
                            b,
                            us(st[7]),
                            us(st[6]),
                            scratch.borrow(),
                        );
                    }
                    "dump" => {
                        let name = st[1];
                        let mut vals: Vec<String> = Vec::new();
                        let (cols, size);
                        if let Some(v) = vecs.get(name) {
                            cols = v.cols();
                            size = v.size();
                            for c in 0..cols {
                                for j in 0..size {
                                    vals.extend(v.at(c, j).iter().map(|x| x.to_string()));
                                }
                            }
                        } else if let Some(v) = bigs.get(name) {
                            cols = v.cols();
                            size = v.size();
                            for c in 0..cols {
                                for j in 0..size {
                                    vals.extend(v.at(c, j).iter().map(|x| x.to_string()));
                                }
                            }
                        } else if let Some(v) = dfts.get(name) {
                            cols = v.cols();
                            size = v.size();
                            let mut b = module.vec_znx_big_alloc(cols, size);
                            for c in 0..cols {
                                module.vec_znx_idft_apply(&mut b, c, v, c, scratch.borrow());
                            }
                            for c in 0..cols {
                                for j in 0..size {
                                    vals.extend(b.at(c, j).iter().map(|x| x.to_string()));
                                }
                            }
                        } else {
                            panic!("dump: unknown buffer {name}");
                        }
                        out.push_str(&format!(" {name}={cols}x{size}:{}", if vals.is_empty() { "-".to_string() } else { vals.join(",") }));
                    }
                    "raw" => {
                        // the raw `u64` words of a transform-domain buffer (NTT120: q120b residues, word `4·i + k` of a limb =
                        // prime `k`, coefficient slot `i`; FFT64: the `f64` bit patterns), limb-major as stored
                        use poulpy_hal::layouts::DataView;
                        let name = st[1];
                        let bytes: Vec<u8> = if let Some(v) = dfts.get(name) {
                            v.data().as_ref().to_vec()
                        } else if let Some(v) = svps.get(name) {
                            v.data().as_ref().to_vec()
                        } else if let Some(v) = vmps.get(name) {
                            v.data().as_ref().to_vec()
                        } else if let Some(v) = cnvls.get(name) {
                            v.data().as_ref().to_vec()
                        } else if let Some(v) = cnvrs.get(name) {
                            v.data().as_ref().to_vec()
                        } else {
                            panic!("raw: unknown buffer {name}");
                        };
                        let words: Vec<String> =
                            bytes.chunks_exact(8).map(|c| u64::from_le_bytes(c.try_into().unwrap()).to_string()).collect();
                        out.push_str(&format!(" {name}=raw:{}", if words.is_empty() { "-".to_string() } else { words.join(",") }));
                    }
                    other => panic!("unknown statement {other}"),
                }
            }
            out
        }
    };
}

hal_backend!(run_fft64ref, poulpy_cpu_ref::FFT64Ref, i64);
hal_backend!(run_ntt120ref, poulpy_cpu_ref::NTT120Ref, i128);
hal_backend!(run_fft64avx, poulpy_cpu_avx::FFT64Avx, i64);
hal_backend!(run_ntt120avx, poulpy_cpu_avx::NTT120Avx, i128);

pub fn run(_args: &[String]) {
    let last_panic: std::sync::Arc<std::sync::Mutex<String>> = std::sync::Arc::new(std::sync::Mutex::new(String::new()));
    {
        let lp = last_panic.clone();
        std::panic::set_hook(Box::new(move |info| {
            *lp.lock().unwrap() = info.to_string();
        }));
    }
    let stdin = std::io::stdin();
    let stdout = std::io::stdout();
    let mut w = std::io::BufWriter::new(stdout.lock());
    for line in stdin.lock().lines() {
        let line = line.unwrap();
        let mut parts = line.split(';');
        let head: Vec<&str> = parts.next().unwrap_or("").split_whitespace().collect();
        if head.is_empty() {
            continue;
        }
        let id = head[0];
        let mut be = "fft64ref";
        let mut n = 8usize;
        for t in &head[1..] {
            if let Some(v) = t.strip_prefix("be=") {
                be = v;
            } else if let Some(v) = t.strip_prefix("n=") {
                n = v.parse().unwrap();
            }
        }
        let stmts: Vec<Vec<&str>> = parts.map(|s| s.split_whitespace().collect()).collect();
        let r = std::panic::catch_unwind(std::panic::AssertUnwindSafe(|| match be {
            "fft64ref" => run_fft64ref(n, &stmts),
            "ntt120ref" => run_ntt120ref(n, &stmts),
            "fft64avx" => run_fft64avx(n, &stmts),
            "ntt120avx" => run_ntt120avx(n, &stmts),
            _ => "bad-backend".to_string(),
        }));
        match r {
            Ok(s) => writeln!(w, "{id} {s}").unwrap(),
            Err(_) => {
                let msg = last_panic.lock().unwrap().clone();
                writeln!(w, "{id} panic:{}", panic_class(&msg)).unwrap()
            }
        }
    }
    w.flush().unwrap();
}
