mod bddeval;
mod circuits;

fn main() {
    let args: Vec<String> = std::env::args().collect();
    if args.len() < 2 {
        eprintln!("usage: pvh <subcommand> ...");
        std::process::exit(2);
    }
    match args[1].as_str() {
        "circuits" => circuits::dump(),
        "bddeval" => bddeval::run(args.get(2).and_then(|s| s.parse().ok()).unwrap_or(1)),
        other => {
            eprintln!("unknown subcommand {other}");
            std::process::exit(2);
        }
    }
}
