//! `pvh rnd` — randomness of fresh ciphertexts (property C06): runs the *standard* encryption
//! routines of every layout and reports masks, controlled-change comparisons and error statistics.
//!
//! Request:  `id <op> layout=<glwe|pk|gglwe|ggsw|ksk|atk|tsk|g2g|lwe> be=<backend> n= b= k= kxe= rank= [rank_in=] dnum= dsize= sxs= sxa= sxe= [reps=] [sig=] [bnd=]`
//!   masks   : `id ok cells=<c> words=<raw u64 of Source::new(seed32(sxa))> masks=<cell;cell…>` (cells in the routine's
//!             loop order; each cell = its mask columns `col|col…` flattened: column-major, limb-major — exactly the
//!             order `vec_znx_fill_uniform` is called in)
//!   nonint  : `id ok det=<0|1> mask_pt=<0|1> mask_sk=<0|1> xe_masks=<0|1> xe_body=<0|1>`
//!             det: same inputs twice → identical bytes; mask_pt / mask_sk: other plaintext / other secret, same xa →
//!             identical masks; xe_masks: other error seed → identical masks; xe_body: … and different bodies
//!   keys    : `id ok cells= size= sk= skin= sklwein= sklweout= pt= words=<raw u64> e=<error limbs per cell;…> obj=<cell/cell…>` — one key of
//!             layout gglwe|ggsw|ksk|atk|tsk|g2g|lksk|g2l|l2g with everything the Lean model needs to recompute it (C01 key generation tie)
//!   stats   : `id ok m=<count> sum=<Σe> sumsq=<Σe²> maxabs=<max|e|> scale=<log2 scale> limb=<limb>` over `reps` objects, `e` = the
//!             integer error read off the exact phase (harness-side i128 arithmetic)
use std::io::{BufRead, Write};

use crate::enc_common::*;
use poulpy_core::{
    EncryptionLayout, GGLWEEncryptSk, GGLWEToGGSWKeyEncryptSk, GGSWEncryptSk, GLWEAutomorphismKeyEncryptSk, GLWEEncryptSk,
    GLWEEncryptPk, GLWEPublicKeyGenerate, GLWESwitchingKeyEncryptSk, GLWETensorKeyEncryptSk, GLWEToLWESwitchingKeyEncryptSk, LWEEncryptSk,
    LWESwitchingKeyEncrypt, LWEToGLWESwitchingKeyEncryptSk,
    layouts::{
        Base2K, Degree, Dnum, Dsize, GGLWE, GGLWELayout, GGLWEToGGSWKey, GGLWEToRef, GGSW, GGSWLayout, GLWE, GLWEAutomorphismKey,
        GLWELayout, GLWEPlaintext, GLWEPublicKey, GLWEPublicKeyPreparedFactory, GLWESecret, GLWESecretPreparedFactory, GLWESwitchingKey, GLWETensorKey,
        GLWEToLWEKey, GLWEToMut, GLWEToRef, LWESwitchingKey, LWEToGLWEKey,
        LWE, LWELayout, LWEPlaintext, LWESecret, Rank, TorusPrecision,
    },
};
use poulpy_cpu_avx::{FFT64Avx, NTT120Avx};
use poulpy_cpu_ref::{FFT64Ref, NTT120Ref};
use poulpy_hal::{
    api::{ModuleNew, ScratchOwnedAlloc, ScratchOwnedBorrow, VecZnxAddNormal, VecZnxAutomorphism},
    layouts::{GaloisElement, Module, NoiseInfos, ScalarZnx, ScratchOwned, VecZnx, ZnxInfos, ZnxView, ZnxViewMut},
    source::Source,
};

/// one ciphertext cell, copied out: `cols` columns of `size` limbs of `n` coefficients; `ptlimb` = limb carrying the
/// gadget plaintext (usize::MAX: the plaintext is zero)
static DIRTY_COUNTER: std::sync::atomic::AtomicU64 = std::sync::atomic::AtomicU64::new(1);

pub struct Cell {
    pub n: usize,
    pub cols: usize,
    pub size: usize,
    pub data: Vec<i64>, // [col][limb][coef]
    pub ptlimb: usize,
}

impl Cell {
    pub fn at(&self, c: usize, j: usize) -> &[i64] {
        let o = (c * self.size + j) * self.n;
        &self.data[o..o + self.n]
    }
}

pub fn cell_of(g: &GLWE<&[u8]>, ptlimb: usize) -> Cell {
    let v = g.data();
    let (n, cols, size) = (v.n(), v.cols(), v.size());
    let mut data = Vec::with_capacity(n * cols * size);
    for c in 0..cols {
        for j in 0..size {
            data.extend_from_slice(v.at(c, j));
        }
    }
    Cell { n, cols, size, data, ptlimb }
}

/// centred error of every coefficient: exact phase modulo the part of the torus below the plaintext limb
pub fn errors_of(cell: &Cell, sk: &[Vec<i64>], b: usize) -> Vec<i128> {
    let (n, size) = (cell.n, cell.size);
    let low_limbs = if cell.ptlimb == usize::MAX { size } else { size - 1 - cell.ptlimb };
    let modulus: i128 = 1i128 << (b * low_limbs);
    let mut out = vec![0i128; n];
    for j in (size - low_limbs)..size {
        let mut acc: Vec<i128> = cell.at(0, j).iter().map(|x| *x as i128).collect();
        for (i, s) in sk.iter().enumerate() {
            let a = cell.at(i + 1, j);
            for (u, su) in s.iter().enumerate() {
                if *su == 0 {
                    continue;
                }
                for (w, aw) in a.iter().enumerate() {
                    let k = u + w;
                    let prod = (*su as i128) * (*aw as i128);
                    if k < n {
                        acc[k] += prod;
                    } else {
                        acc[k - n] -= prod;
                    }
                }
            }
        }
        for t in 0..n {
            out[t] = ((out[t] << b) + acc[t]).rem_euclid(modulus);
        }
    }
    out.iter().map(|x| if *x >= modulus / 2 { *x - modulus } else { *x }).collect()
}

macro_rules! rnd_backend {
    ($fname:ident, $be:ty) => {
        /// standard encryption of one object; returns the cells in the routine's loop order and the secret they decrypt under
        fn $fname(lay: &str, t: &[&str], sxs: u64, sxa: u64, sxe: u64, ptvar: i64) -> (Vec<Cell>, Vec<Vec<i64>>) {
            type BE = $be;
            let n = kv_us(t, "n");
            let b = kv_us(t, "b");
            let k = kv_us(t, "k");
            let kxe = kv_us(t, "kxe");
            let rank = kv_us(t, "rank");
            let rank_in = if kv(t, "rank_in").is_some() { kv_us(t, "rank_in") } else { rank };
            let dnum = kv_us(t, "dnum").max(1);
            let dsize = kv_us(t, "dsize").max(1);
            let p = kv(t, "p").and_then(|v| v.parse::<i64>().ok()).unwrap_or(3);
            let sig = kv_f64(t, "sig", 3.2);
            let bnd = kv_f64(t, "bnd", 6.0 * sig);
            let dist = parse_dist(kv(t, "dist").unwrap_or("tp:0.5"));
            let module: Module<BE> = Module::<BE>::new(n as u64);
            let noise = NoiseInfos::new(kxe, sig, bnd).unwrap();
            let mut scratch: ScratchOwned<BE> = ScratchOwned::alloc(1 << 24);
            {
                // a scratch arena that has been used before, different on every call: a fresh ciphertext must be a function of
                // (plaintext, secret, seeds) only, never of what the arena held
                use poulpy_hal::api::TakeSlice;
                let salt = DIRTY_COUNTER.fetch_add(1, std::sync::atomic::Ordering::Relaxed).wrapping_mul(0x9E3779B97F4A7C15) | 1;
                let (sl, _) = scratch.borrow().take_slice::<u64>((1 << 24) / 8 - 64);
                for (i, x) in sl.iter_mut().enumerate() {
                    *x = salt.wrapping_add((i as u64 % 11) << 37);
                }
            }
            let (deg, bk, tk) = (Degree(n as u32), Base2K(b as u32), TorusPrecision(k as u32));
            let mut xe = Source::new(seed32(sxe));
            let mut xa = Source::new(seed32(sxa));
            if lay == "lwe" {
                let nl = kv_us(t, "nl");
                let layout = LWELayout { n: Degree(nl as u32), k: tk, base2k: bk };
                let enc = EncryptionLayout::new(layout, noise).unwrap();
                let mut sk = LWESecret::alloc(Degree(nl as u32));
                fill_lwe_secret(&mut sk, dist, &mut Source::new(seed32(sxs)));
                // a plaintext SHORTER than the ciphertext (one limb): the limbs below it are accumulated into a scratch temporary
                let mut pt = LWEPlaintext::alloc(bk, TorusPrecision((k.min(b)) as u32));
                pt.data_mut().at_mut(0, 0)[0] = ptvar;
                let mut ct = LWE::alloc_from_infos(&layout);
                module.lwe_encrypt_sk(&mut ct, &pt, &sk, &enc, &mut xe, &mut xa, scratch.borrow());
                // an LWE ciphertext as a cell: one column of n+1 coefficients; mask = coefficients 1..
                let v = ct.data();
                let size = v.size();
                let mut data = Vec::new();
                for j in 0..size {
                    data.extend_from_slice(v.at(0, j));
                }
                return (vec![Cell { n: nl + 1, cols: 1, size, data, ptlimb: usize::MAX - 1 }], vec![sk.raw().to_vec()]);
            }
            let mut src_s = Source::new(seed32(sxs));
            let mut sk = GLWESecret::alloc(deg, Rank(rank as u32));
            fill_glwe_secret(&mut sk, dist, &mut src_s);
            let mut sk_in = GLWESecret::alloc(deg, Rank(rank_in as u32));
            fill_glwe_secret(&mut sk_in, dist, &mut src_s);
            let sk_vis = replay_secret(n, rank, dist, &mut Source::new(seed32(sxs)));
            let mut skp = module.glwe_secret_prepared_alloc(Rank(rank as u32));
            module.glwe_secret_prepare(&mut skp, &sk);
            let mut sk_dec = ScalarZnx::alloc(n, rank.max(1));
            for i in 0..rank {
                if lay == "atk" {
                    module.vec_znx_automorphism(module.galois_element_inv(p), &mut sk_dec.as_vec_znx_mut(), i, &sk_vis.as_vec_znx(), i);
                } else {
                    sk_dec.at_mut(i, 0).copy_from_slice(sk_vis.at(i, 0));
                }
            }
            let sk_cols: Vec<Vec<i64>> = (0..rank).map(|i| sk_dec.at(i, 0).to_vec()).collect();
            let glwe_layout = GLWELayout { n: deg, base2k: bk, k: tk, rank: Rank(rank as u32) };
            let gglwe_layout = GGLWELayout {
                n: deg,
                base2k: bk,
                k: tk,
                rank_in: Rank(rank_in as u32),
                rank_out: Rank(rank as u32),
                dnum: Dnum(dnum as u32),
                dsize: Dsize(dsize as u32),
            };
            let ggsw_layout = GGSWLayout { n: deg, base2k: bk, k: tk, rank: Rank(rank as u32), dnum: Dnum(dnum as u32), dsize: Dsize(dsize as u32) };
            let mut cells: Vec<Cell> = Vec::new();
            let ptl = |row: usize| (dsize - 1) + row * dsize;
            // loop order of gglwe_encrypt_sk: column outer, row inner
            let push_gglwe = |cells: &mut Vec<Cell>, g: &GGLWE<&[u8]>, rin: usize| {
                for col in 0..rin {
                    for row in 0..dnum {
                        cells.push(cell_of(&g.at(row, col), ptl(row)));
                    }
                }
            };
            match lay {
                "glwe" => {
                    let enc = EncryptionLayout::new(glwe_layout, noise).unwrap();
                    let mut ct = GLWE::alloc_from_infos(&glwe_layout);
                    if ptvar == 0 {
                        module.glwe_encrypt_zero_sk(&mut ct, &skp, &enc, &mut xe, &mut xa, scratch.borrow());
                        cells.push(cell_of(&ct.to_ref(), usize::MAX));
                    } else {
                        let mut pt = GLWEPlaintext::alloc(deg, bk, tk);
                        pt.data_mut().at_mut(0, 0)[0] = ptvar;
                        module.glwe_encrypt_sk(&mut ct, &pt, &skp, &enc, &mut xe, &mut xa, scratch.borrow());
                        cells.push(cell_of(&ct.to_ref(), 0));
                    }
                }
                "pk" => {
                    let enc = EncryptionLayout::new(glwe_layout, noise).unwrap();
                    let mut pk = GLWEPublicKey::alloc_from_infos(&glwe_layout);
                    module.glwe_public_key_generate(&mut pk, &skp, &enc, &mut xe, &mut xa);
                    cells.push(cell_of(&pk.to_ref(), usize::MAX));
                }
                "pkenc" => {
                    // public-key encryption of zero under a public key whose data is all zero: every column of the
                    // ciphertext is then exactly one fresh error polynomial (u * 0 + e_j); the phase is read with a
                    // zero secret, i.e. the body column alone
                    let enc = EncryptionLayout::new(glwe_layout, noise).unwrap();
                    let mut pk = GLWEPublicKey::alloc_from_infos(&glwe_layout);
                    module.glwe_public_key_generate(&mut pk, &skp, &enc, &mut xe, &mut xa);
                    pk.to_mut().data_mut().raw_mut().iter_mut().for_each(|x| *x = 0);
                    let mut pkp = module.glwe_public_key_prepared_alloc_from_infos(&glwe_layout);
                    module.glwe_public_key_prepare(&mut pkp, &pk);
                    let mut ct = GLWE::alloc_from_infos(&glwe_layout);
                    let pt = GLWEPlaintext::alloc(deg, bk, tk);
                    let mut xu = Source::new(seed32(sxs ^ 0x5555));
                    module.glwe_encrypt_pk(&mut ct, &pt, &pkp, &enc, &mut xu, &mut xe, scratch.borrow());
                    cells.push(cell_of(&ct.to_ref(), usize::MAX));
                    return (cells, (0..rank).map(|_| vec![0i64; n]).collect());
                }
                "gglwe" => {
                    let enc = EncryptionLayout::new(gglwe_layout, noise).unwrap();
                    let mut pt = ScalarZnx::alloc(n, rank_in);
                    for c in 0..rank_in {
                        pt.at_mut(c, 0)[c % n] = ptvar;
                    }
                    let mut g = GGLWE::alloc_from_infos(&gglwe_layout);
                    module.gglwe_encrypt_sk(&mut g, &pt, &skp, &enc, &mut xe, &mut xa, scratch.borrow());
                    push_gglwe(&mut cells, &g.to_ref(), rank_in);
                }
                "ggsw" => {
                    let enc = EncryptionLayout::new(ggsw_layout, noise).unwrap();
                    let mut pt = ScalarZnx::alloc(n, 1);
                    pt.at_mut(0, 0)[0] = ptvar;
                    let mut g = GGSW::alloc_from_infos(&ggsw_layout);
                    module.ggsw_encrypt_sk(&mut g, &pt, &skp, &enc, &mut xe, &mut xa, scratch.borrow());
                    // loop order: row outer, column inner; the plaintext of columns >= 1 is folded into the mask product
                    for row in 0..dnum {
                        for col in 0..rank + 1 {
                            cells.push(cell_of(&g.at(row, col), ptl(row)));
                        }
                    }
                }
                "ksk" => {
                    let enc = EncryptionLayout::new(gglwe_layout, noise).unwrap();
                    let mut g = GLWESwitchingKey::alloc_from_infos(&gglwe_layout);
                    module.glwe_switching_key_encrypt_sk(&mut g, &sk_in, &sk, &enc, &mut xe, &mut xa, scratch.borrow());
                    push_gglwe(&mut cells, &g.to_ref(), rank_in);
                }
                "atk" => {
                    let enc = EncryptionLayout::new(gglwe_layout, noise).unwrap();
                    let mut g = GLWEAutomorphismKey::alloc_from_infos(&gglwe_layout);
                    module.glwe_automorphism_key_encrypt_sk(&mut g, p, &sk, &enc, &mut xe, &mut xa, scratch.borrow());
                    push_gglwe(&mut cells, &g.to_ref(), rank);
                }
                "tsk" => {
                    let enc = EncryptionLayout::new(gglwe_layout, noise).unwrap();
                    let mut g = GLWETensorKey::alloc_from_infos(&gglwe_layout);
                    module.glwe_tensor_key_encrypt_sk(&mut g, &sk, &enc, &mut xe, &mut xa, scratch.borrow());
                    let gr = g.to_ref();
                    let rin = { use poulpy_core::layouts::GGLWEInfos; gr.rank_in().as_usize() };
                    push_gglwe(&mut cells, &gr, rin);
                }
                "g2g" => {
                    let enc = EncryptionLayout::new(gglwe_layout, noise).unwrap();
                    let mut g = GGLWEToGGSWKey::alloc_from_infos(&gglwe_layout);
                    <Module<BE> as GGLWEToGGSWKeyEncryptSk<BE>>::gglwe_to_ggsw_key_encrypt_sk(&module, &mut g, &sk, &enc, &mut xe, &mut xa, scratch.borrow());
                    for i in 0..rank {
                        push_gglwe(&mut cells, &g.at(i).to_ref(), rank);
                    }
                }
                _ => {}
            }
            (cells, sk_cols)
        }
    };
}

rnd_backend!(std_fft64ref, FFT64Ref);
rnd_backend!(std_ntt120ref, NTT120Ref);
rnd_backend!(std_fft64avx, FFT64Avx);
rnd_backend!(std_ntt120avx, NTT120Avx);

pub fn std_cells(be: &str, lay: &str, t: &[&str], sxs: u64, sxa: u64, sxe: u64, ptvar: i64) -> (Vec<Cell>, Vec<Vec<i64>>) {
    match be {
        "ntt120ref" => std_ntt120ref(lay, t, sxs, sxa, sxe, ptvar),
        "fft64avx" => std_fft64avx(lay, t, sxs, sxa, sxe, ptvar),
        "ntt120avx" => std_ntt120avx(lay, t, sxs, sxa, sxe, ptvar),
        _ => std_fft64ref(lay, t, sxs, sxa, sxe, ptvar),
    }
}

/// the mask part of a cell in the order the words are consumed
pub fn mask_words(c: &Cell) -> Vec<i64> {
    if c.ptlimb == usize::MAX - 1 {
        // LWE: one column, every limb's n+1 coefficients are drawn; coefficient 0 is overwritten by the body
        return c.data.clone();
    }
    c.data[c.size * c.n..].to_vec()
}

fn same_masks(a: &[Cell], b: &[Cell]) -> bool {
    a.len() == b.len()
        && a.iter().zip(b.iter()).all(|(x, y)| {
            if x.ptlimb == usize::MAX - 1 {
                (0..x.size).all(|j| x.at(0, j)[1..] == y.at(0, j)[1..])
            } else {
                mask_words(x) == mask_words(y)
            }
        })
}

fn same_bodies(a: &[Cell], b: &[Cell]) -> bool {
    a.iter().zip(b.iter()).all(|(x, y)| {
        if x.ptlimb == usize::MAX - 1 {
            (0..x.size).all(|j| x.at(0, j)[0] == y.at(0, j)[0])
        } else {
            x.data[..x.size * x.n] == y.data[..y.size * y.n]
        }
    })
}

macro_rules! keys_backend {
    ($fname:ident, $be:ty) => {
        /// `keys` op: one key of the requested layout with everything the Lean model needs to recompute it bit for bit:
        /// secrets, the raw words of Source::new(seed_xa), the error polynomials of Source::new(seed_xe) in loop order, and all cells
        /// in loop order.  Layouts: gglwe ggsw ksk atk tsk g2g lksk (LWE switching) g2l (GLWE->LWE) l2g (LWE->GLWE).
        fn $fname(lay: &str, t: &[&str]) -> String {
            type BE = $be;
            let n = kv_us(t, "n");
            let b = kv_us(t, "b");
            let k = kv_us(t, "k");
            let kxe = kv_us(t, "kxe");
            let rank = kv_us(t, "rank").max(1);
            let rank_in = if kv(t, "rank_in").is_some() { kv_us(t, "rank_in") } else { rank };
            let dnum = kv_us(t, "dnum").max(1);
            let dsize = kv_us(t, "dsize").max(1);
            let p = kv(t, "p").and_then(|v| v.parse::<i64>().ok()).unwrap_or(3);
            let (nl_in, nl_out) = (kv_us(t, "nlin"), kv_us(t, "nlout"));
            let (sxs, sxa, sxe) = (kv_u64(t, "sxs"), kv_u64(t, "sxa"), kv_u64(t, "sxe"));
            let dist = parse_dist(kv(t, "dist").unwrap_or("tp:0.5"));
            let module: Module<BE> = Module::<BE>::new(n as u64);
            let noise = NoiseInfos::new(kxe, 3.2, 19.2).unwrap();
            let mut scratch: ScratchOwned<BE> = ScratchOwned::alloc(1 << 24);
            let size = k.div_ceil(b);
            let (deg, bk, tk) = (Degree(n as u32), Base2K(b as u32), TorusPrecision(k as u32));
            let mut xe = Source::new(seed32(sxe));
            let mut xa = Source::new(seed32(sxa));
            let mut src_s = Source::new(seed32(sxs));
            let mut sk = GLWESecret::alloc(deg, Rank(rank as u32));
            fill_glwe_secret(&mut sk, dist, &mut src_s);
            let mut sk_in = GLWESecret::alloc(deg, Rank(rank_in as u32));
            fill_glwe_secret(&mut sk_in, dist, &mut src_s);
            let mut src_r = Source::new(seed32(sxs));
            let sk_vis = replay_secret(n, rank, dist, &mut src_r);
            let sk_in_vis = replay_secret(n, rank_in, dist, &mut src_r);
            let mut sk_lwe_in = LWESecret::alloc(Degree(nl_in.max(1) as u32));
            fill_lwe_secret(&mut sk_lwe_in, dist, &mut Source::new(seed32(sxs ^ 0x1111)));
            let mut sk_lwe_out = LWESecret::alloc(Degree(nl_out.max(1) as u32));
            fill_lwe_secret(&mut sk_lwe_out, dist, &mut Source::new(seed32(sxs ^ 0x2222)));
            let mut skp = module.glwe_secret_prepared_alloc(Rank(rank as u32));
            module.glwe_secret_prepare(&mut skp, &sk);
            let mut pt = ScalarZnx::alloc(n, rank_in.max(1));
            if let Some(s) = kv(t, "pt") {
                for (c, col) in s.split(';').enumerate() {
                    if c < pt.cols() && col != "-" {
                        for (i, x) in col.split(',').enumerate() {
                            if i < n {
                                pt.at_mut(c, 0)[i] = x.parse().unwrap();
                            }
                        }
                    }
                }
            }
            let gl = |rin: usize, rout: usize, ds: usize| GGLWELayout {
                n: deg,
                base2k: bk,
                k: tk,
                rank_in: Rank(rin as u32),
                rank_out: Rank(rout as u32),
                dnum: Dnum(dnum as u32),
                dsize: Dsize(ds as u32),
            };
            let ggsw_layout = GGSWLayout { n: deg, base2k: bk, k: tk, rank: Rank(rank as u32), dnum: Dnum(dnum as u32), dsize: Dsize(dsize as u32) };
            let mut cells: Vec<String> = Vec::new();
            let push_gglwe = |cells: &mut Vec<String>, g: &GGLWE<&[u8]>, rin: usize| {
                for col in 0..rin {
                    for row in 0..dnum {
                        cells.push(show_vec(g.at(row, col).data()));
                    }
                }
            };
            let mut cell_rank = rank;
            let nin = if kv(t, "nin").is_some() { kv_us(t, "nin") } else { n };
            let nout = if kv(t, "nout").is_some() { kv_us(t, "nout") } else { n };
            let mut ksk_in = GLWESecret::alloc(Degree(nin as u32), Rank(rank_in as u32));
            fill_glwe_secret(&mut ksk_in, dist, &mut Source::new(seed32(sxs ^ 0x3333)));
            let ksk_in_vis = replay_secret(nin, rank_in, dist, &mut Source::new(seed32(sxs ^ 0x3333)));
            let mut ksk_out = GLWESecret::alloc(Degree(nout as u32), Rank(rank as u32));
            fill_glwe_secret(&mut ksk_out, dist, &mut Source::new(seed32(sxs ^ 0x4444)));
            let ksk_out_vis = replay_secret(nout, rank, dist, &mut Source::new(seed32(sxs ^ 0x4444)));
            let mut sk_show = show_scalar(&sk_vis);
            let mut skin_show = show_scalar(&sk_in_vis);
            match lay {
                "gglwe" => {
                    let enc = EncryptionLayout::new(gl(rank_in, rank, dsize), noise).unwrap();
                    let mut g = GGLWE::alloc_from_infos(&gl(rank_in, rank, dsize));
                    module.gglwe_encrypt_sk(&mut g, &pt, &skp, &enc, &mut xe, &mut xa, scratch.borrow());
                    push_gglwe(&mut cells, &g.to_ref(), rank_in);
                }
                "ggsw" => {
                    let enc = EncryptionLayout::new(ggsw_layout, noise).unwrap();
                    let mut g = GGSW::alloc_from_infos(&ggsw_layout);
                    module.ggsw_encrypt_sk(&mut g, &pt, &skp, &enc, &mut xe, &mut xa, scratch.borrow());
                    for row in 0..dnum {
                        for col in 0..rank + 1 {
                            cells.push(show_vec(g.at(row, col).data()));
                        }
                    }
                }
                "ksk" => {
                    // the two secrets may live in rings of smaller degree (`nin=`, `nout=`): the routine embeds them
                    let enc = EncryptionLayout::new(gl(rank_in, rank, dsize), noise).unwrap();
                    let mut g = GLWESwitchingKey::alloc_from_infos(&gl(rank_in, rank, dsize));
                    module.glwe_switching_key_encrypt_sk(&mut g, &ksk_in, &ksk_out, &enc, &mut xe, &mut xa, scratch.borrow());
                    push_gglwe(&mut cells, &g.to_ref(), rank_in);
                    sk_show = show_scalar(&ksk_out_vis);
                    skin_show = show_scalar(&ksk_in_vis);
                }
                "atk" => {
                    let enc = EncryptionLayout::new(gl(rank, rank, dsize), noise).unwrap();
                    let mut g = GLWEAutomorphismKey::alloc_from_infos(&gl(rank, rank, dsize));
                    module.glwe_automorphism_key_encrypt_sk(&mut g, p, &sk, &enc, &mut xe, &mut xa, scratch.borrow());
                    push_gglwe(&mut cells, &g.to_ref(), rank);
                }
                "tsk" => {
                    let enc = EncryptionLayout::new(gl(rank, rank, dsize), noise).unwrap();
                    let mut g = GLWETensorKey::alloc_from_infos(&gl(rank, rank, dsize));
                    module.glwe_tensor_key_encrypt_sk(&mut g, &sk, &enc, &mut xe, &mut xa, scratch.borrow());
                    let gr = g.to_ref();
                    let rin = { use poulpy_core::layouts::GGLWEInfos; gr.rank_in().as_usize() };
                    push_gglwe(&mut cells, &gr, rin);
                }
                "g2g" => {
                    let enc = EncryptionLayout::new(gl(rank, rank, dsize), noise).unwrap();
                    let mut g = GGLWEToGGSWKey::alloc_from_infos(&gl(rank, rank, dsize));
                    <Module<BE> as GGLWEToGGSWKeyEncryptSk<BE>>::gglwe_to_ggsw_key_encrypt_sk(&module, &mut g, &sk, &enc, &mut xe, &mut xa, scratch.borrow());
                    for i in 0..rank {
                        push_gglwe(&mut cells, &g.at(i).to_ref(), rank);
                    }
                }
                "lksk" => {
                    cell_rank = 1;
                    let enc = EncryptionLayout::new(gl(1, 1, 1), noise).unwrap();
                    let mut g = LWESwitchingKey::alloc(deg, bk, tk, Dnum(dnum as u32));
                    module.lwe_switching_key_encrypt_sk(&mut g, &sk_lwe_in, &sk_lwe_out, &enc, &mut xe, &mut xa, scratch.borrow());
                    push_gglwe(&mut cells, &g.to_ref(), 1);
                }
                "g2l" => {
                    cell_rank = 1;
                    let enc = EncryptionLayout::new(gl(rank_in, 1, 1), noise).unwrap();
                    let mut g = GLWEToLWEKey::alloc(deg, bk, tk, Rank(rank_in as u32), Dnum(dnum as u32));
                    module.glwe_to_lwe_key_encrypt_sk(&mut g, &sk_lwe_out, &sk_in, &enc, &mut xe, &mut xa, scratch.borrow());
                    push_gglwe(&mut cells, &g.to_ref(), rank_in);
                }
                "l2g" => {
                    let enc = EncryptionLayout::new(gl(1, rank, 1), noise).unwrap();
                    let mut g = LWEToGLWEKey::alloc(deg, bk, tk, Rank(rank as u32), Dnum(dnum as u32));
                    module.lwe_to_glwe_key_encrypt_sk(&mut g, &sk_lwe_in, &skp, &enc, &mut xe, &mut xa, scratch.borrow());
                    push_gglwe(&mut cells, &g.to_ref(), 1);
                }
                _ => return "bad-layout".to_string(),
            }
            let total = cells.len() * cell_rank * size * n;
            let mut s = Source::new(seed32(sxa));
            let words: Vec<String> = (0..total).map(|_| (s.next_i64() as u64).to_string()).collect();
            let mut xe3 = Source::new(seed32(sxe));
            let errs: Vec<String> = (0..cells.len())
                .map(|_| {
                    let mut ev = VecZnx::alloc(n, 1, size);
                    module.vec_znx_add_normal(b, &mut ev, 0, noise, &mut xe3);
                    show_vec(&ev)
                })
                .collect();
            let ints = |v: &[i64]| -> String { if v.is_empty() { "-".to_string() } else { v.iter().map(|x| x.to_string()).collect::<Vec<_>>().join(",") } };
            format!(
                "ok cells={} size={} sk={} skin={} sklwein={} sklweout={} pt={} words={} e={} obj={}",
                cells.len(),
                size,
                sk_show,
                skin_show,
                ints(sk_lwe_in.raw()),
                ints(sk_lwe_out.raw()),
                show_scalar(&pt),
                if words.is_empty() { "-".to_string() } else { words.join(",") },
                errs.join(";"),
                cells.join("/")
            )
        }
    };
}

keys_backend!(keys_fft64ref, FFT64Ref);
keys_backend!(keys_ntt120ref, NTT120Ref);
keys_backend!(keys_fft64avx, FFT64Avx);
keys_backend!(keys_ntt120avx, NTT120Avx);

fn run_case(op: &str, t: &[&str]) -> String {
    let be = kv(t, "be").unwrap_or("fft64ref").to_string();
    let lay = kv(t, "layout").unwrap_or("glwe").to_string();
    let (sxs, sxa, sxe) = (kv_u64(t, "sxs"), kv_u64(t, "sxa"), kv_u64(t, "sxe"));
    let b = kv_us(t, "b");
    match op {
        "keys" => match be.as_str() {
            "ntt120ref" => keys_ntt120ref(&lay, t),
            "fft64avx" => keys_fft64avx(&lay, t),
            "ntt120avx" => keys_ntt120avx(&lay, t),
            _ => keys_fft64ref(&lay, t),
        },
        "masks" => {
            let (cells, _) = std_cells(&be, &lay, t, sxs, sxa, sxe, 1);
            let total: usize = cells.iter().map(|c| mask_words(c).len()).sum();
            let mut s = Source::new(seed32(sxa));
            let words: Vec<String> = (0..total).map(|_| (s.next_i64() as u64).to_string()).collect();
            let masks: Vec<String> =
                cells.iter().map(|c| mask_words(c).iter().map(|x| x.to_string()).collect::<Vec<_>>().join(",")).collect();
            format!("ok cells={} words={} masks={}", cells.len(), if words.is_empty() { "-".to_string() } else { words.join(",") }, if masks.is_empty() { "-".to_string() } else { masks.join(";") })
        }
        "nonint" => {
            let (c0, _) = std_cells(&be, &lay, t, sxs, sxa, sxe, 1);
            let (c1, _) = std_cells(&be, &lay, t, sxs, sxa, sxe, 1);
            let det = c0.len() == c1.len() && c0.iter().zip(c1.iter()).all(|(x, y)| x.data == y.data);
            let (c2, _) = std_cells(&be, &lay, t, sxs, sxa, sxe, -3);
            let (c3, _) = std_cells(&be, &lay, t, sxs ^ 0xABCDEF, sxa, sxe, 1);
            let (c4, _) = std_cells(&be, &lay, t, sxs, sxa, sxe ^ 0x123457, 1);
            format!(
                "ok det={} mask_pt={} mask_sk={} xe_masks={} xe_body={}",
                det as i32,
                same_masks(&c0, &c2) as i32,
                same_masks(&c0, &c3) as i32,
                same_masks(&c0, &c4) as i32,
                (!same_bodies(&c0, &c4)) as i32
            )
        }
        "stats" => {
            let reps = kv_us(t, "reps").max(1);
            let kxe = kv_us(t, "kxe");
            let limb = kxe.div_ceil(b) - 1;
            let scale = (limb + 1) * b - kxe;
            let (mut m, mut sum, mut sumsq, mut maxabs) = (0u64, 0i128, 0i128, 0i128);
            for r in 0..reps {
                let (cells, sk) = std_cells(&be, &lay, t, sxs.wrapping_add(r as u64), sxa.wrapping_add(7 * r as u64), sxe.wrapping_add(13 * r as u64), 0);
                for c in cells.iter() {
                    if c.ptlimb == usize::MAX - 1 {
                        // LWE: phase of the single coefficient
                        let size = c.size;
                        let modulus: i128 = 1i128 << (b * size);
                        let mut ph: i128 = 0;
                        for j in 0..size {
                            let l = c.at(0, j);
                            let dot: i128 = l[1..].iter().zip(sk[0].iter()).map(|(x, y)| (*x as i128) * (*y as i128)).sum();
                            ph = ((ph << b) + l[0] as i128 + dot).rem_euclid(modulus);
                        }
                        let e = if ph >= modulus / 2 { ph - modulus } else { ph };
                        let e = e >> (b * (size - 1 - limb));
                        m += 1;
                        sum += e;
                        sumsq += e * e;
                        maxabs = maxabs.max(e.abs());
                        continue;
                    }
                    if c.ptlimb != usize::MAX && c.ptlimb >= limb {
                        continue; // the plaintext limb is not above the error limb: error not separable
                    }
                    if c.ptlimb != usize::MAX && (scale + 5) > b * (limb - c.ptlimb) - 1 {
                        continue; // the error would reach the plaintext limb
                    }
                    for e in errors_of(c, &sk, b) {
                        let e = e >> (b * (c.size - 1 - limb));
                        m += 1;
                        sum += e;
                        sumsq += e * e;
                        maxabs = maxabs.max(e.abs());
                    }
                }
            }
            format!("ok m={m} sum={sum} sumsq={sumsq} maxabs={maxabs} scale={scale} limb={limb}")
        }
        _ => "bad-op".to_string(),
    }
}

pub fn run(_args: &[String]) {
    std::panic::set_hook(Box::new(|_| {}));
    let stdin = std::io::stdin();
    let stdout = std::io::stdout();
    let mut out = stdout.lock();
    for line in stdin.lock().lines() {
        let line = line.unwrap();
        let t: Vec<&str> = line.split_whitespace().collect();
        if t.len() < 2 {
            continue;
        }
        let id = t[0];
        let op = t[1];
        let r = std::panic::catch_unwind(std::panic::AssertUnwindSafe(|| run_case(op, &t[2..])));
        match r {
            Ok(s) => writeln!(out, "{id} {s}").unwrap(),
            Err(e) => writeln!(out, "{id} panic:{}:{}", panic_class(&panic_msg(&e)), panic_msg(&e).replace(' ', "_").chars().take(100).collect::<String>()).unwrap(),
        }
    }
    out.flush().unwrap();
}
