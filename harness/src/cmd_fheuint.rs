//! C15 — encrypted integers end to end on the real code, crate test parameters
//! (`poulpy_bin_fhe::bdd_arithmetic::tests::test_suite::TestContext`: N=256, n_lwe=77, rank 2 …).
//! stdin `id <op> k=v …`, stdout `id <answer>`.
//!
//! Every operation that encrypts words accepts `inb= ink=`: radix / precision of the INPUT words (default: the crate's test layout, radix 2^13);
//! a small radix (`inb ≤ 9` at N = 256) sends `mod_switch_2n` of the circuit bootstrapping through its multi-limb branch.
//! * `word be= op=<add|sub|sll|srl|sra|slt|sltu|and|or|xor|identity> a= b= threads=`:
//!   encrypt a, b as packed `FheUint<u32>`, `prepare` both through circuit bootstrapping, apply the word
//!   operation, decrypt: `ok <word>`.
//! * `prep be= a= start= count=`: `prepare_custom`, then `FheUintPrepared::decrypt`: `ok <word>`.
//! * `reprep be= a= b= rounds=`: `x ← a; repeat: x ← add(prepare(x), prepare(b))`: `ok <w1>,<w2>,…`.
//! * `splice8 | splice16 be= a= b= dst= src=`, `sext be= a= byte=`, `getbit be= a= i=` (GLWE path),
//!   `getbitlwe be= a= i=` (key-switch to LWE, decrypted with the LWE secret; prints the phase's top 2 bits),
//!   `swap be= a= b= bit=` (`cswap` under a GGSW bit): `ok <word>[,<word>]`.
//! * `retr be= bits= rsh= idxword= data=<w,…>`: `glwe_blind_retrieval_statefull` on the encrypted table under the directly
//!   encrypted index word, all entries decrypted, then `…_statefull_rev`, all entries decrypted: `ok fwd=<…> rev=<…>`.
//! * `retr1 be= size= rsh= idxword= data=<w,…>`: `GLWEBlindRetriever::alloc(size)` + `retrieve` (offset = rsh): `ok <w>`.
//! * `sel be= bits= rsh= idxword= keys=<k,…> vals=<w,…>`: `glwe_blind_selection` on the sparse table: `ok <w>`.
//! * `hist be= size= rsh= idxword= streams=<w,…|w,…|-> modes=<0|1,…>`: ONE `GLWEBlindRetriever::alloc(size)`, the streams in order
//!   (mode 1: `retrieve`; mode 0: `add` per element then `flush`): `ok <v1>,<v2>,…`.
//! * `brot be= kind=glwe|glwe_assign|ggsw|ggsw_assign|scalar sign= rsh= mask= lsh= idxword= want=<rotation>`:
//!   `glwe_blind_rotation(_assign)` on a GLWE of a fixed small-coefficient plaintext → `ok <N decoded coefficients>`;
//!   the GGSW variants on a GGSW of the scalar `i ↦ i` → `ok margin=<max over cells of log2(noise std) − bound>` w.r.t. the
//!   scalar rotated by `want`.
//! * `cbtexp be= rank= dnum= logdomain= lgo= data= [ext=]`: circuit bootstrapping in EXPONENT mode on its own small context (N=256,
//!   n_lwe=77, radices 15/14/13/12/11 as in the crate's test): LWE of `data` (`logdomain + 1` bits), `execute_to_exponent(log_gap_out = lgo)`;
//!   every row `i` (column 0) is decrypted and decoded at `min(res_base2k·(i+1), 30)` bits: `ok r0=<pos:val,…> r1=… noise=<max log2 std>`
//!   (non-zero coefficients of each row; `noise` is the crate's GGSW noise statistic w.r.t. `X^{data << lgo}`, worst cell).
//! * `wordnoise be= op= a= b=`: a word operation with the noise measured: `ok word=<w> ein=<max key error of the prepared GGSWs> out=<max error of the
//!   packed result> fresh=<max error of a fresh encryption>` in units of `2^-64` of the torus.
//! * `noiserounds be= op= a= b= rounds=`: `x ← op(prepare(x), prepare(b))` repeated; per round `words=`, `eins=` (max key error of `prepare(x)`), `outs=`
//!   (max error of the result), units of `2^-64`.
//! * `cbt be= a=`: `FheUintPreparedDebug::prepare`, per-cell noise: `ok <max log2 std per (row,col)>…`.
use std::io::{BufRead, Write};
use std::sync::Mutex;

use poulpy_bin_fhe::bdd_arithmetic::{
    Add, And, Cswap, FheUint, GGSWBlindRotation, GLWEBlindRetrieval, GLWEBlindRetriever, GLWEBlindRotation, GLWEBlindSelection, FheUintPrepared, FheUintPreparedDebug, Identity, Or, Sll, Slt, Sltu, Sra, Srl, Sub, Xor,
    tests::test_suite::TestContext,
};
use poulpy_bin_fhe::blind_rotation::{BlindRotationKeyLayout, CGGI};
use poulpy_bin_fhe::circuit_bootstrapping::{
    CircuitBootstrappingEncryptionInfos, CircuitBootstrappingKey, CircuitBootstrappingKeyEncryptSk, CircuitBootstrappingKeyLayout,
    CircuitBootstrappingKeyPrepared,
};
use poulpy_core::{
    EncryptionLayout, GGSWEncryptSk, GLWEDecrypt, GLWEEncryptSk, LWEDecrypt,
    layouts::{
        Dnum, Dsize, GGSW, GGSWInfos, GGSWLayout, GGSWPrepared, GGSWPreparedFactory, GLWE, GLWEInfos, GLWEPlaintext, LWE, LWEInfos, LWELayout,
        LWEPlaintext, TorusPrecision,
    },
};
use poulpy_cpu_avx::FFT64Avx;
use poulpy_cpu_ref::FFT64Ref;
use poulpy_hal::{
    api::{ModuleN, ScratchOwnedAlloc, ScratchOwnedBorrow},
    layouts::{DeviceBuf, ScalarZnx, ScratchOwned, ZnxView, ZnxViewMut},
    source::Source,
};

static LAST_PANIC: Mutex<String> = Mutex::new(String::new());

fn kvs<'a>(t: &'a [&'a str], k: &str) -> Option<&'a str> {
    t.iter().find_map(|x| x.strip_prefix(k).and_then(|r| r.strip_prefix('=')))
}
fn kvn(t: &[&str], k: &str, d: u64) -> u64 {
    kvs(t, k).and_then(|s| s.parse().ok()).unwrap_or(d)
}

macro_rules! backend_impl {
    ($modname:ident, $be:ty) => {
        pub mod $modname {
            use super::*;
            type BE = $be;
            pub type Tc = TestContext<CGGI, BE>;

            pub struct CbCtx {
                pub rank: usize,
                pub dnum: usize,
                pub module: poulpy_hal::layouts::Module<BE>,
                pub sk_lwe: poulpy_core::layouts::LWESecret<Vec<u8>>,
                pub sk_glwe: poulpy_core::layouts::prepared::GLWESecretPrepared<DeviceBuf<BE>, BE>,
                pub key: CircuitBootstrappingKeyPrepared<DeviceBuf<BE>, CGGI, BE>,
                pub ggsw_infos: GGSWLayout,
                pub lwe_infos: LWELayout,
            }

            const CB_RES_B: usize = 15;
            const CB_LWE_B: usize = 14;

            fn cb_ctx(rank: usize, dnum: usize, scratch: &mut ScratchOwned<BE>) -> CbCtx {
                use poulpy_core::layouts::{GGLWEToGGSWKeyLayout, GLWEAutomorphismKeyLayout, GLWESecret, GLWESecretPreparedFactory, LWESecret};
                use poulpy_hal::api::ModuleNew;
                let module = poulpy_hal::layouts::Module::<BE>::new(256u64);
                let n_glwe = 256usize;
                let (b_brk, b_tsk, b_atk) = (13usize, 12usize, 11usize);
                let n_lwe = 77usize;
                let k_ggsw = (dnum + 1) * CB_RES_B;
                let infos = CircuitBootstrappingKeyLayout {
                    brk_layout: BlindRotationKeyLayout { n_glwe: (n_glwe as u32).into(), n_lwe: (n_lwe as u32).into(), base2k: (b_brk as u32).into(), k: ((k_ggsw + b_brk) as u32).into(), dnum: 4u32.into(), rank: (rank as u32).into() },
                    atk_layout: GLWEAutomorphismKeyLayout { n: (n_glwe as u32).into(), base2k: (b_atk as u32).into(), k: ((k_ggsw + b_tsk) as u32).into(), dnum: 4u32.into(), rank: (rank as u32).into(), dsize: Dsize(1) },
                    tsk_layout: GGLWEToGGSWKeyLayout { n: (n_glwe as u32).into(), base2k: (b_tsk as u32).into(), k: ((k_ggsw + b_atk) as u32).into(), dnum: 4u32.into(), dsize: Dsize(1), rank: (rank as u32).into() },
                };
                let ggsw_infos = GGSWLayout { n: (n_glwe as u32).into(), base2k: (CB_RES_B as u32).into(), k: (k_ggsw as u32).into(), dnum: Dnum(dnum as u32), dsize: Dsize(1), rank: (rank as u32).into() };
                let lwe_infos = LWELayout { n: (n_lwe as u32).into(), k: 22u32.into(), base2k: (CB_LWE_B as u32).into() };
                let mut xs = Source::new([1u8; 32]);
                let mut xa = Source::new([2u8; 32]);
                let mut xe = Source::new([3u8; 32]);
                let mut sk_lwe: LWESecret<Vec<u8>> = LWESecret::alloc((n_lwe as u32).into());
                sk_lwe.fill_binary_block(7, &mut xs);
                let mut sk: GLWESecret<Vec<u8>> = GLWESecret::alloc((n_glwe as u32).into(), (rank as u32).into());
                sk.fill_ternary_prob(0.5, &mut xs);
                let mut sk_glwe = module.glwe_secret_prepared_alloc((rank as u32).into());
                module.glwe_secret_prepare(&mut sk_glwe, &sk);
                let mut key: CircuitBootstrappingKey<Vec<u8>, CGGI> = CircuitBootstrappingKey::alloc_from_infos(&infos);
                let enc = CircuitBootstrappingEncryptionInfos::from_default_sigma(&infos).unwrap();
                module.circuit_bootstrapping_key_encrypt_sk(&mut key, &sk_lwe, &sk, &enc, &mut xe, &mut xa, scratch.borrow());
                let mut prepared: CircuitBootstrappingKeyPrepared<DeviceBuf<BE>, CGGI, BE> = CircuitBootstrappingKeyPrepared::alloc_from_infos(&module, &infos);
                prepared.prepare(&module, &key, scratch.borrow());
                CbCtx { rank, dnum, module, sk_lwe, sk_glwe, key: prepared, ggsw_infos, lwe_infos }
            }

            pub struct St {
                /// radix / precision of the INPUT words (`inb=`, `ink=`; 0 = the crate's test layout)
                pub inb: usize,
                pub ink: usize,
                pub cb: Option<CbCtx>,
                pub tc: Tc,
                pub xa: Source,
                pub xe: Source,
                pub scratch: ScratchOwned<BE>,
            }

            pub fn new_st() -> St {
                St { inb: 0, ink: 0, cb: None, tc: Tc::new(), xa: Source::new([42u8; 32]), xe: Source::new([43u8; 32]), scratch: ScratchOwned::alloc(1 << 24) }
            }

            fn enc(st: &mut St, v: u32) -> FheUint<Vec<u8>, u32> {
                let mut infos = st.tc.glwe_infos();
                if st.inb > 0 {
                    infos.base2k = (st.inb as u32).into();
                    infos.k = (st.ink as u32).into();
                }
                let e = EncryptionLayout::new_from_default_sigma(infos).unwrap();
                let mut c: FheUint<Vec<u8>, u32> = FheUint::alloc_from_infos(&infos);
                c.encrypt_sk(&st.tc.module, v, &st.tc.sk_glwe, &e, &mut st.xe, &mut st.xa, st.scratch.borrow());
                c
            }

            fn prep(st: &mut St, c: &FheUint<Vec<u8>, u32>, start: usize, count: usize) -> FheUintPrepared<DeviceBuf<BE>, u32, BE> {
                let ggsw = st.tc.ggsw_infos();
                let mut p: FheUintPrepared<DeviceBuf<BE>, u32, BE> = FheUintPrepared::alloc_from_infos(&st.tc.module, &ggsw);
                p.prepare_custom(&st.tc.module, c, start, count, &st.tc.bdd_key, st.scratch.borrow());
                p
            }

            fn dec(st: &mut St, c: &FheUint<Vec<u8>, u32>) -> u32 {
                c.decrypt(&st.tc.module, &st.tc.sk_glwe, st.scratch.borrow())
            }

            fn apply(st: &mut St, op: &str, threads: usize, pa: &FheUintPrepared<DeviceBuf<BE>, u32, BE>, pb: &FheUintPrepared<DeviceBuf<BE>, u32, BE>) -> Option<FheUint<Vec<u8>, u32>> {
                let infos = st.tc.glwe_infos();
                let mut res: FheUint<Vec<u8>, u32> = FheUint::alloc_from_infos(&infos);
                let m = &st.tc.module;
                let k = &st.tc.bdd_key;
                let sc = st.scratch.borrow();
                macro_rules! two {
                    ($f:ident, $fm:ident) => {
                        if threads <= 1 { res.$f(m, pa, pb, k, sc) } else { res.$fm(threads, m, pa, pb, k, sc) }
                    };
                }
                match op {
                    "add" => two!(add, add_multi_thread),
                    "sub" => two!(sub, sub_multi_thread),
                    "sll" => two!(sll, sll_multi_thread),
                    "srl" => two!(srl, srl_multi_thread),
                    "sra" => two!(sra, sra_multi_thread),
                    "slt" => two!(slt, slt_multi_thread),
                    "sltu" => two!(sltu, sltu_multi_thread),
                    "and" => two!(and, and_multi_thread),
                    "or" => two!(or, or_multi_thread),
                    "xor" => two!(xor, xor_multi_thread),
                    "identity" => {
                        if threads <= 1 { res.identity(m, pa, k, sc) } else { res.identity_multi_thread(threads, m, pa, k, sc) }
                    }
                    _ => return None,
                }
                Some(res)
            }

            pub fn handle(st: &mut St, op: &str, t: &[&str]) -> String {
                st.inb = kvn(t, "inb", 0) as usize;
                st.ink = kvn(t, "ink", 24) as usize;
                let a = kvn(t, "a", 0) as u32;
                let b = kvn(t, "b", 0) as u32;
                match op {
                    "word" => {
                        let ca = enc(st, a);
                        let cb = enc(st, b);
                        let pa = prep(st, &ca, 0, 32);
                        let pb = prep(st, &cb, 0, 32);
                        match apply(st, kvs(t, "op").unwrap_or("add"), kvn(t, "threads", 1) as usize, &pa, &pb) {
                            Some(r) => format!("ok {}", dec(st, &r)),
                            None => "bad-op".into(),
                        }
                    }
                    "prep" => {
                        let ca = enc(st, a);
                        let p = prep(st, &ca, kvn(t, "start", 0) as usize, kvn(t, "count", 32) as usize);
                        let w: u32 = p.decrypt(&st.tc.module, &st.tc.sk_glwe, &st.tc.bdd_key, st.scratch.borrow());
                        format!("ok {w}")
                    }
                    "reprep" => {
                        let mut x = enc(st, a);
                        let cb = enc(st, b);
                        let pb = prep(st, &cb, 0, 32);
                        let mut outs = Vec::new();
                        for _ in 0..kvn(t, "rounds", 2) {
                            let px = prep(st, &x, 0, 32);
                            x = apply(st, "add", 1, &px, &pb).unwrap();
                            outs.push(dec(st, &x).to_string());
                        }
                        format!("ok {}", outs.join(","))
                    }
                    "splice8" | "splice16" => {
                        let ca = enc(st, a);
                        let cb = enc(st, b);
                        let infos = st.tc.glwe_infos();
                        let mut c: FheUint<Vec<u8>, u32> = FheUint::alloc_from_infos(&infos);
                        let (dst, src) = (kvn(t, "dst", 0) as usize, kvn(t, "src", 0) as usize);
                        if op == "splice8" {
                            c.splice_u8(&st.tc.module, dst, src, &ca, &cb, &st.tc.bdd_key, st.scratch.borrow());
                        } else {
                            c.splice_u16(&st.tc.module, dst, src, &ca, &cb, &st.tc.bdd_key, st.scratch.borrow());
                        }
                        format!("ok {}", dec(st, &c))
                    }
                    "sext" => {
                        let mut ca = enc(st, a);
                        ca.sext(&st.tc.module, kvn(t, "byte", 0) as usize, &st.tc.bdd_key, st.scratch.borrow());
                        format!("ok {}", dec(st, &ca))
                    }
                    "getbit" => {
                        let ca = enc(st, a);
                        let infos = st.tc.glwe_infos();
                        let mut c: FheUint<Vec<u8>, u32> = FheUint::alloc_from_infos(&infos);
                        ca.get_bit_glwe(&st.tc.module, kvn(t, "i", 0) as usize, &mut c, &st.tc.bdd_key, st.scratch.borrow());
                        format!("ok {}", dec(st, &c))
                    }
                    "getbitlwe" => {
                        use poulpy_bin_fhe::bdd_arithmetic::BDDKeyHelper;
                        let ca = enc(st, a);
                        let (_, ks_glwe, ks_lwe) = st.tc.bdd_key.get_cbt_key();
                        let infos = st.tc.glwe_infos();
                        let lwe_infos = LWELayout { n: (st.tc.sk_lwe.n().0).into(), k: infos.k, base2k: infos.base2k };
                        let mut lwe: LWE<Vec<u8>> = LWE::alloc_from_infos(&lwe_infos);
                        ca.get_bit_lwe(&st.tc.module, kvn(t, "i", 0) as usize, &mut lwe, ks_glwe, ks_lwe, st.scratch.borrow());
                        let mut pt: LWEPlaintext<Vec<u8>> = LWEPlaintext::alloc_from_infos(&lwe_infos);
                        st.tc.module.lwe_decrypt(&lwe, &mut pt, &st.tc.sk_lwe, st.scratch.borrow());
                        // the bit sits at torus precision 2 (value bit/4): round the phase's first limb to 2 bits
                        let x0 = pt.data().at(0, 0)[0];
                        let b2k: u32 = infos.base2k.0;
                        let r = ((x0 + (1 << (b2k - 3))) >> (b2k - 2)).rem_euclid(4);
                        format!("ok {r}")
                    }
                    "swap" => {
                        let mut ca = enc(st, a);
                        let mut cb = enc(st, b);
                        let ggsw = st.tc.ggsw_infos();
                        let e = EncryptionLayout::new_from_default_sigma(ggsw).unwrap();
                        let mut s: GGSW<Vec<u8>> = GGSW::alloc_from_infos(&ggsw);
                        let mut sp: GGSWPrepared<DeviceBuf<BE>, BE> = st.tc.module.ggsw_prepared_alloc_from_infos(&ggsw);
                        let mut pt: ScalarZnx<Vec<u8>> = ScalarZnx::alloc(st.tc.module.n(), 1);
                        pt.raw_mut()[0] = kvn(t, "bit", 0) as i64;
                        st.tc.module.ggsw_encrypt_sk(&mut s, &pt, &st.tc.sk_glwe, &e, &mut st.xe, &mut st.xa, st.scratch.borrow());
                        st.tc.module.ggsw_prepare(&mut sp, &s, st.scratch.borrow());
                        st.tc.module.cswap(&mut ca, &mut cb, &sp, st.scratch.borrow());
                        format!("ok {},{}", dec(st, &ca), dec(st, &cb))
                    }
                    "retr" | "retr1" | "sel" => {
                        let list = |k: &str| -> Vec<u32> {
                            kvs(t, k).map(|s| if s == "-" { vec![] } else { s.split(',').filter_map(|x| x.parse::<u64>().ok()).map(|x| x as u32).collect() }).unwrap_or_default()
                        };
                        let rsh = kvn(t, "rsh", 0) as usize;
                        let bits = kvn(t, "bits", 3) as usize;
                        let idxword = kvn(t, "idxword", 0) as u32;
                        let ggsw = st.tc.ggsw_infos();
                        let e = EncryptionLayout::new_from_default_sigma(ggsw).unwrap();
                        let mut idx_enc: FheUintPrepared<DeviceBuf<BE>, u32, BE> = FheUintPrepared::alloc_from_infos(&st.tc.module, &ggsw);
                        idx_enc.encrypt_sk(&st.tc.module, idxword, &st.tc.sk_glwe, &e, &mut st.xe, &mut st.xa, st.scratch.borrow());
                        let words = |v: &Vec<String>| if v.is_empty() { "-".to_string() } else { v.join(",") };
                        if op == "retr" {
                            let data = list("data");
                            let mut cts: Vec<FheUint<Vec<u8>, u32>> = data.iter().map(|w| enc(st, *w)).collect();
                            st.tc.module.glwe_blind_retrieval_statefull(&mut cts, &idx_enc, rsh, bits, st.scratch.borrow());
                            let f: Vec<String> = cts.iter().map(|c| dec(st, c).to_string()).collect();
                            st.tc.module.glwe_blind_retrieval_statefull_rev(&mut cts, &idx_enc, rsh, bits, st.scratch.borrow());
                            let r: Vec<String> = cts.iter().map(|c| dec(st, c).to_string()).collect();
                            format!("ok fwd={} rev={}", words(&f), words(&r))
                        } else if op == "retr1" {
                            let data = list("data");
                            let cts: Vec<FheUint<Vec<u8>, u32>> = data.iter().map(|w| enc(st, *w)).collect();
                            let infos = st.tc.glwe_infos();
                            let mut retriever = GLWEBlindRetriever::alloc(&infos, kvn(t, "size", data.len() as u64) as usize);
                            let mut res: FheUint<Vec<u8>, u32> = FheUint::alloc_from_infos(&infos);
                            retriever.retrieve(&st.tc.module, &mut res, &cts, &idx_enc, rsh, st.scratch.borrow());
                            format!("ok {}", dec(st, &res))
                        } else {
                            let keys = list("keys");
                            let vals = list("vals");
                            let mut cts: Vec<FheUint<Vec<u8>, u32>> = vals.iter().map(|w| enc(st, *w)).collect();
                            let mut map: std::collections::HashMap<usize, &mut FheUint<Vec<u8>, u32>> = std::collections::HashMap::new();
                            for (k, c) in keys.iter().zip(cts.iter_mut()) {
                                map.insert(*k as usize, c);
                            }
                            let infos = st.tc.glwe_infos();
                            let mut res: FheUint<Vec<u8>, u32> = FheUint::alloc_from_infos(&infos);
                            GLWEBlindSelection::<u32, BE>::glwe_blind_selection(&st.tc.module, &mut res, map, &idx_enc, rsh, bits, st.scratch.borrow());
                            format!("ok {}", dec(st, &res))
                        }
                    }
                    "hist" => {
                        let rsh = kvn(t, "rsh", 0) as usize;
                        let idxword = kvn(t, "idxword", 0) as u32;
                        let ggsw = st.tc.ggsw_infos();
                        let e = EncryptionLayout::new_from_default_sigma(ggsw).unwrap();
                        let mut idx_enc: FheUintPrepared<DeviceBuf<BE>, u32, BE> = FheUintPrepared::alloc_from_infos(&st.tc.module, &ggsw);
                        idx_enc.encrypt_sk(&st.tc.module, idxword, &st.tc.sk_glwe, &e, &mut st.xe, &mut st.xa, st.scratch.borrow());
                        let streams: Vec<Vec<u32>> = kvs(t, "streams")
                            .unwrap_or("")
                            .split('|')
                            .map(|x| if x == "-" || x.is_empty() { vec![] } else { x.split(',').filter_map(|y| y.parse::<u64>().ok()).map(|y| y as u32).collect() })
                            .collect();
                        let modes: Vec<u64> = kvs(t, "modes").unwrap_or("").split(',').filter_map(|y| y.parse().ok()).collect();
                        let infos = st.tc.glwe_infos();
                        let mut retriever = GLWEBlindRetriever::alloc(&infos, kvn(t, "size", 1) as usize);
                        let mut outs: Vec<String> = Vec::new();
                        for (si, data) in streams.iter().enumerate() {
                            let cts: Vec<FheUint<Vec<u8>, u32>> = data.iter().map(|w| enc(st, *w)).collect();
                            let mut res: FheUint<Vec<u8>, u32> = FheUint::alloc_from_infos(&infos);
                            if modes.get(si).copied().unwrap_or(0) == 1 {
                                retriever.retrieve(&st.tc.module, &mut res, &cts, &idx_enc, rsh, st.scratch.borrow());
                            } else {
                                for ct in &cts {
                                    retriever.add(&st.tc.module, ct, &idx_enc, rsh, st.scratch.borrow());
                                }
                                retriever.flush(&st.tc.module, &mut res, &idx_enc, rsh, st.scratch.borrow());
                            }
                            outs.push(dec(st, &res).to_string());
                        }
                        format!("ok {}", outs.join(","))
                    }
                    "brot" => {
                        let kind = kvs(t, "kind").unwrap_or("glwe");
                        let sign = kvn(t, "sign", 0) == 1;
                        let (rsh, mask, lsh) = (kvn(t, "rsh", 0) as usize, kvn(t, "mask", 1) as usize, kvn(t, "lsh", 0) as usize);
                        let idxword = kvn(t, "idxword", 0) as u32;
                        let want: i64 = kvs(t, "want").and_then(|x| x.parse().ok()).unwrap_or(0);
                        let module = &st.tc.module;
                        let n = module.n();
                        let glwe_infos = st.tc.glwe_infos();
                        let ggsw_res_infos = GGSWLayout { n: glwe_infos.n, base2k: glwe_infos.base2k, k: TorusPrecision(39), rank: glwe_infos.rank, dnum: Dnum(2), dsize: Dsize(1) };
                        let ggsw_k_infos = GGSWLayout { n: glwe_infos.n, base2k: glwe_infos.base2k, k: TorusPrecision(52), rank: glwe_infos.rank, dnum: Dnum(3), dsize: Dsize(1) };
                        let ek = EncryptionLayout::new_from_default_sigma(ggsw_k_infos).unwrap();
                        let mut k_enc: FheUintPrepared<DeviceBuf<BE>, u32, BE> = FheUintPrepared::alloc_from_infos(module, &ggsw_k_infos);
                        k_enc.encrypt_sk(module, idxword, &st.tc.sk_glwe, &ek, &mut st.xe, &mut st.xa, st.scratch.borrow());
                        if kind == "glwe" || kind == "glwe_assign" {
                            let eg = EncryptionLayout::new_from_default_sigma(glwe_infos).unwrap();
                            let vals: Vec<i64> = (0..n).map(|j| ((j * 7 + 3) % 13) as i64 - 6).collect();
                            let mut pt: GLWEPlaintext<Vec<u8>> = GLWEPlaintext::alloc_from_infos(&glwe_infos);
                            pt.encode_vec_i64(&vals, TorusPrecision(5));
                            let mut ct: GLWE<Vec<u8>> = GLWE::alloc_from_infos(&glwe_infos);
                            module.glwe_encrypt_sk(&mut ct, &pt, &st.tc.sk_glwe, &eg, &mut st.xe, &mut st.xa, st.scratch.borrow());
                            let mut res: GLWE<Vec<u8>> = GLWE::alloc_from_infos(&glwe_infos);
                            if kind == "glwe" {
                                // garbage in the destination: it must be overwritten
                                for x in res.data_mut().raw_mut().iter_mut() {
                                    *x = 0x155;
                                }
                                module.glwe_blind_rotation(&mut res, &ct, &k_enc, sign, rsh, mask, lsh, st.scratch.borrow());
                            } else {
                                module.glwe_blind_rotation_assign(&mut ct, &k_enc, sign, rsh, mask, lsh, st.scratch.borrow());
                                res = ct;
                            }
                            let mut pt2: GLWEPlaintext<Vec<u8>> = GLWEPlaintext::alloc_from_infos(&glwe_infos);
                            module.glwe_decrypt(&res, &mut pt2, &st.tc.sk_glwe, st.scratch.borrow());
                            let mut out = vec![0i64; n];
                            pt2.decode_vec_i64(&mut out, TorusPrecision(5));
                            format!("ok {}", out.iter().map(|x| x.to_string()).collect::<Vec<_>>().join(","))
                        } else {
                            let mut scalar: ScalarZnx<Vec<u8>> = ScalarZnx::alloc(n, 1);
                            scalar.raw_mut().iter_mut().enumerate().for_each(|(i, x)| *x = i as i64);
                            let mut res: GGSW<Vec<u8>> = GGSW::alloc_from_infos(&ggsw_res_infos);
                            let er = EncryptionLayout::new_from_default_sigma(ggsw_res_infos).unwrap();
                            match kind {
                                "scalar" => GGSWBlindRotation::<u32, BE>::scalar_to_ggsw_blind_rotation(module, &mut res, &scalar, &k_enc, sign, rsh, mask, lsh, st.scratch.borrow()),
                                "ggsw" => {
                                    let mut a: GGSW<Vec<u8>> = GGSW::alloc_from_infos(&ggsw_res_infos);
                                    module.ggsw_encrypt_sk(&mut a, &scalar, &st.tc.sk_glwe, &er, &mut st.xe, &mut st.xa, st.scratch.borrow());
                                    GGSWBlindRotation::<u32, BE>::ggsw_blind_rotation(module, &mut res, &a, &k_enc, sign, rsh, mask, lsh, st.scratch.borrow());
                                }
                                _ => {
                                    module.ggsw_encrypt_sk(&mut res, &scalar, &st.tc.sk_glwe, &er, &mut st.xe, &mut st.xa, st.scratch.borrow());
                                    GGSWBlindRotation::<u32, BE>::ggsw_blind_rotation_assign(module, &mut res, &k_enc, sign, rsh, mask, lsh, st.scratch.borrow());
                                }
                            }
                            use poulpy_hal::api::VecZnxRotateAssign;
                            let mut scalar_want: ScalarZnx<Vec<u8>> = ScalarZnx::alloc(n, 1);
                            scalar_want.raw_mut().copy_from_slice(scalar.raw());
                            module.vec_znx_rotate_assign(want, &mut scalar_want.as_vec_znx_mut(), 0, st.scratch.borrow());
                            let log_n = (usize::BITS - (n - 1).leading_zeros()) as f64;
                            let mut margin = f64::NEG_INFINITY;
                            for row in 0..res.dnum().as_usize() {
                                for col in 0..res.rank().as_usize() + 1 {
                                    let noise = res.noise(module, row, col, &scalar_want, &st.tc.sk_glwe, st.scratch.borrow()).std().log2();
                                    let bound = -(ggsw_res_infos.size() as f64 * 13.0) + 1.678 + 5.0 + 0.5 * log_n + if col != 0 { 0.5 * log_n } else { 0.0 };
                                    margin = margin.max(noise - bound);
                                }
                            }
                            format!("ok margin={margin:.2}")
                        }
                    }
                    "cbtexp" => {
                        use poulpy_core::{GGSWNoise, LWEEncryptSk};
                        use poulpy_hal::api::VecZnxRotateAssign;
                        let rank = kvn(t, "rank", 1) as usize;
                        let dnum = kvn(t, "dnum", 3) as usize;
                        let ld = kvn(t, "logdomain", 4) as usize;
                        let lgo = kvn(t, "lgo", 1) as usize;
                        let data = kvn(t, "data", 1) as i64;
                        let ext = kvn(t, "ext", 1) as usize;
                        if st.cb.as_ref().map(|c| c.rank != rank || c.dnum != dnum).unwrap_or(true) {
                            st.cb = Some(cb_ctx(rank, dnum, &mut st.scratch));
                        }
                        let cx = st.cb.as_ref().unwrap();
                        let module = &cx.module;
                        let lweb = kvn(t, "lweb", CB_LWE_B as u64) as usize;
                        let mut pt_lwe: LWEPlaintext<Vec<u8>> = LWEPlaintext::alloc((lweb as u32).into(), ((ld + 1) as u32).into());
                        pt_lwe.encode_i64(data, ((ld + 1) as u32).into());
                        let mut lwe_infos = cx.lwe_infos;
                        lwe_infos.base2k = (lweb as u32).into();
                        if lweb != CB_LWE_B { lwe_infos.k = ((22usize.div_ceil(lweb)) as u32 * lweb as u32).into(); }
                        let lwe_enc = EncryptionLayout::new_from_default_sigma(lwe_infos).unwrap();
                        let mut ct_lwe: LWE<Vec<u8>> = LWE::alloc_from_infos(&lwe_infos);
                        module.lwe_encrypt_sk(&mut ct_lwe, &pt_lwe, &cx.sk_lwe, &lwe_enc, &mut st.xe, &mut st.xa, st.scratch.borrow());
                        let mut res: GGSW<Vec<u8>> = GGSW::alloc_from_infos(&cx.ggsw_infos);
                        cx.key.execute_to_exponent(module, lgo, &mut res, &ct_lwe, ld, ext, st.scratch.borrow());
                        let n = module.n();
                        let mut rows = Vec::new();
                        let glwe_infos = poulpy_core::layouts::GLWELayout { n: cx.ggsw_infos.n, base2k: cx.ggsw_infos.base2k, k: cx.ggsw_infos.k, rank: cx.ggsw_infos.rank };
                        for i in 0..dnum {
                            let mut pt: GLWEPlaintext<Vec<u8>> = GLWEPlaintext::alloc_from_infos(&glwe_infos);
                            module.glwe_decrypt(&res.at(i, 0), &mut pt, &cx.sk_glwe, st.scratch.borrow());
                            let mut out = vec![0i64; n];
                            let prec = (CB_RES_B * (i + 1)).min(30);
                            pt.decode_vec_i64(&mut out, TorusPrecision(prec as u32));
                            let modulus: i64 = 1i64 << prec;
                            let nz: Vec<String> = out.iter().enumerate().filter_map(|(p, &v)| {
                                let mut w = v % modulus;
                                if w > modulus / 2 { w -= modulus; }
                                if w < -modulus / 2 { w += modulus; }
                                if w != 0 { Some(format!("{p}:{w}")) } else { None }
                            }).collect();
                            rows.push(format!("r{i}={}", if nz.is_empty() { "-".to_string() } else { nz.join(",") }));
                        }
                        let mut pt_ggsw: ScalarZnx<Vec<u8>> = ScalarZnx::alloc(n, 1);
                        pt_ggsw.at_mut(0, 0)[0] = 1;
                        module.vec_znx_rotate_assign(data * (1i64 << lgo), &mut pt_ggsw.as_vec_znx_mut(), 0, st.scratch.borrow());
                        let mut worst = f64::NEG_INFINITY;
                        for row in 0..dnum {
                            for col in 0..rank + 1 {
                                let v = res.noise(module, row, col, &pt_ggsw, &cx.sk_glwe, st.scratch.borrow()).std().log2();
                                if v > worst { worst = v; }
                            }
                        }
                        format!("ok {} noise={worst:.2}", rows.join(" "))
                    }
                    "wordnoise" => {
                        // noise in, noise out (units of 2^-64 of the torus, max over coefficients): the key error of the circuit-bootstrapped
                        // GGSWs of both operands (every bit, row, column) and the error of the packed result w.r.t. its decrypted word
                        let ca = enc(st, a);
                        let cb = enc(st, b);
                        let ggsw = st.tc.ggsw_infos();
                        let mut worst = 0f64;
                        for (c, v) in [(&ca, a), (&cb, b)] {
                            let mut p: FheUintPreparedDebug<Vec<u8>, u32> = FheUintPreparedDebug::alloc_from_infos(&st.tc.module, &ggsw);
                            p.prepare(&st.tc.module, c, &st.tc.bdd_key, st.scratch.borrow());
                            for row in 0..p.dnum().as_usize() {
                                for col in 0..p.rank().as_usize() + 1 {
                                    for s in p.noise(&st.tc.module, row, col, v, &st.tc.sk_glwe, st.scratch.borrow()) {
                                        worst = worst.max(s.max());
                                    }
                                }
                            }
                        }
                        let pa = prep(st, &ca, 0, 32);
                        let pb = prep(st, &cb, 0, 32);
                        match apply(st, kvs(t, "op").unwrap_or("add"), 1, &pa, &pb) {
                            Some(r) => {
                                let w = dec(st, &r);
                                let out = r.noise(&st.tc.module, w, &st.tc.sk_glwe, st.scratch.borrow()).max();
                                let fresh = ca.noise(&st.tc.module, a, &st.tc.sk_glwe, st.scratch.borrow()).max();
                                let u = |x: f64| (x * 2f64.powi(64)).ceil() as u128;
                                format!("ok word={w} ein={} out={} fresh={}", u(worst), u(out), u(fresh))
                            }
                            None => "bad-op".into(),
                        }
                    }
                    "noiserounds" => {
                        // x <- op(prepare(x), prepare(b)), `rounds` times; per round the max key error of prepare(x) and the max error of the result
                        let rounds = kvn(t, "rounds", 3) as usize;
                        let opn = kvs(t, "op").unwrap_or("add");
                        let cb = enc(st, b);
                        let pb = prep(st, &cb, 0, 32);
                        let ggsw = st.tc.ggsw_infos();
                        let mut x = enc(st, a);
                        let mut xv = a;
                        let u = |v: f64| (v * 2f64.powi(64)).ceil() as u128;
                        let (mut eins, mut outs, mut words) = (Vec::new(), Vec::new(), Vec::new());
                        for _ in 0..rounds {
                            let mut p: FheUintPreparedDebug<Vec<u8>, u32> = FheUintPreparedDebug::alloc_from_infos(&st.tc.module, &ggsw);
                            p.prepare(&st.tc.module, &x, &st.tc.bdd_key, st.scratch.borrow());
                            let mut worst = 0f64;
                            for row in 0..p.dnum().as_usize() {
                                for col in 0..p.rank().as_usize() + 1 {
                                    for s in p.noise(&st.tc.module, row, col, xv, &st.tc.sk_glwe, st.scratch.borrow()) {
                                        worst = worst.max(s.max());
                                    }
                                }
                            }
                            let px = prep(st, &x, 0, 32);
                            match apply(st, opn, 1, &px, &pb) {
                                Some(r) => {
                                    xv = dec(st, &r);
                                    outs.push(u(r.noise(&st.tc.module, xv, &st.tc.sk_glwe, st.scratch.borrow()).max()).to_string());
                                    eins.push(u(worst).to_string());
                                    words.push(xv.to_string());
                                    x = r;
                                }
                                None => return "bad-op".into(),
                            }
                        }
                        format!("ok words={} eins={} outs={}", words.join(","), eins.join(","), outs.join(","))
                    }
                    "cbt" => {
                        let ca = enc(st, a);
                        let ggsw = st.tc.ggsw_infos();
                        let mut p: FheUintPreparedDebug<Vec<u8>, u32> = FheUintPreparedDebug::alloc_from_infos(&st.tc.module, &ggsw);
                        p.prepare(&st.tc.module, &ca, &st.tc.bdd_key, st.scratch.borrow());
                        let mut cells = Vec::new();
                        for row in 0..p.dnum().as_usize() {
                            for col in 0..p.rank().as_usize() + 1 {
                                let stats = p.noise(&st.tc.module, row, col, a, &st.tc.sk_glwe, st.scratch.borrow());
                                let worst = stats.iter().map(|s| s.std().log2()).fold(f64::NEG_INFINITY, f64::max);
                                cells.push(format!("{row}.{col}:{worst:.2}"));
                            }
                        }
                        format!("ok {}", cells.join(","))
                    }
                    _ => "bad-op".into(),
                }
            }
        }
    };
}

backend_impl!(fft64ref, FFT64Ref);
backend_impl!(fft64avx, FFT64Avx);

pub fn run(_args: &[String]) {
    std::panic::set_hook(Box::new(|info| {
        *LAST_PANIC.lock().unwrap() = info.to_string();
    }));
    let mut sr: Option<fft64ref::St> = None;
    let mut sa: Option<fft64avx::St> = None;
    let stdin = std::io::stdin();
    let stdout = std::io::stdout();
    let mut out = stdout.lock();
    for line in stdin.lock().lines() {
        let line = line.unwrap();
        let t: Vec<&str> = line.split_whitespace().collect();
        if t.len() < 2 {
            continue;
        }
        let (id, op) = (t[0], t[1]);
        let be = kvs(&t, "be").unwrap_or("fft64ref");
        let r = std::panic::catch_unwind(std::panic::AssertUnwindSafe(|| match be {
            "fft64ref" => fft64ref::handle(sr.get_or_insert_with(fft64ref::new_st), op, &t),
            "fft64avx" => fft64avx::handle(sa.get_or_insert_with(fft64avx::new_st), op, &t),
            _ => "bad-backend".to_string(),
        }));
        let ans = match r {
            Ok(s) => s,
            Err(_) => {
                if std::env::var("PVH_PANIC_MSG").is_ok() {
                    eprintln!("panic message: {}", LAST_PANIC.lock().unwrap());
                }
                "panic".to_string()
            }
        };
        writeln!(out, "{id} {ans}").unwrap();
        out.flush().unwrap();
    }
}
