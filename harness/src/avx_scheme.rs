use crate::avx_kern::Req;
pub fn scheme(_r: &Req) -> String { "todo".into() }
