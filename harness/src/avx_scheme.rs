//! `pvh avx` — scheme mode: one scheme-level program under fixed seeds on one back end; prints the
//! FNV-1a-64 hash of the serialised result ciphertext, its length, and every limb.
//!
//! request: `id scheme be=<fref|favx|nref|navx> op=<enc_sk|enc_pk|keyswitch|extprod|automorphism|cmux|ckks_square|ckks_mul>
//!           n= b= [rank=] [dsize=] [seed=] [p=]`
use poulpy_bin_fhe::bdd_arithmetic::Cmux;
use poulpy_ckks::{
    CKKSMeta,
    layouts::{CKKSCiphertext, CKKSPlaintextVecZnx},
    leveled::api::{CKKSAllOpsTmpBytes, CKKSEncrypt, CKKSMulOps},
};
use poulpy_core::{
    EncryptionLayout, ScratchTakeCore, GGSWEncryptSk, GLWEAutomorphism, GLWEAutomorphismKeyEncryptSk, GLWEDecrypt, GLWEEncryptPk, GLWEEncryptSk,
    GLWEExternalProduct, GLWEKeyswitch, GLWEPublicKeyGenerate, GLWESwitchingKeyEncryptSk, GLWETensorKeyEncryptSk,
    layouts::{
        GGSW, GGSWLayout, GGSWPreparedFactory, GLWE, GLWEAutomorphismKey, GLWEAutomorphismKeyLayout,
        GLWEAutomorphismKeyPreparedFactory, GLWELayout, GLWEPlaintext, GLWEPublicKey, GLWEPublicKeyPreparedFactory, GLWESecret,
        GLWESecretPreparedFactory, GLWESwitchingKey, GLWESwitchingKeyLayout, GLWESwitchingKeyPreparedFactory, GLWETensorKey,
        GLWETensorKeyLayout, GLWETensorKeyPreparedFactory, Rank,
    },
};
use poulpy_cpu_avx::{FFT64Avx, NTT120Avx};
use poulpy_cpu_ref::{FFT64Ref, NTT120Ref};
use poulpy_hal::{
    api::{ModuleNew, ScratchAvailable, ScratchOwnedAlloc, ScratchOwnedBorrow},
    layouts::{Backend, Module, ScalarZnx, Scratch, ScratchOwned, WriterTo, ZnxView, ZnxViewMut},
    source::Source,
};

use crate::avx_hal::Sm;
use crate::avx_kern::{Req, show};

fn fnv(bytes: &[u8]) -> u64 {
    let mut h: u64 = 0xcbf29ce484222325;
    for b in bytes {
        h ^= *b as u64;
        h = h.wrapping_mul(0x100000001b3);
    }
    h
}

fn seed32(s: u64, tag: u8) -> [u8; 32] {
    let mut o = [0u8; 32];
    for (i, x) in o.iter_mut().enumerate() {
        *x = ((s >> (8 * (i % 8))) as u8) ^ tag.wrapping_mul(i as u8 + 1);
    }
    o
}

fn out_glwe(ct: &GLWE<Vec<u8>>) -> String {
    let mut bytes: Vec<u8> = Vec::new();
    ct.write_to(&mut bytes).unwrap();
    format!("h={:016x} len={} limbs={}", fnv(&bytes), bytes.len(), show(ct.data().raw()))
}

pub fn scheme(r: &Req) -> String {
    match r.get("be").unwrap_or("") {
        "fref" => run::<FFT64Ref>(r),
        "favx" => run::<FFT64Avx>(r),
        "nref" => run::<NTT120Ref>(r),
        "navx" => run::<NTT120Avx>(r),
        _ => "bad-be".to_string(),
    }
}

fn run<BE: Backend + poulpy_ckks::oep::CKKSImpl<BE>>(r: &Req) -> String
where
    Module<BE>: ModuleNew<BE>
        + GLWEEncryptSk<BE>
        + GLWEEncryptPk<BE>
        + GLWEDecrypt<BE>
        + GLWEPublicKeyGenerate<BE>
        + GLWEPublicKeyPreparedFactory<BE>
        + GLWESecretPreparedFactory<BE>
        + GLWESwitchingKeyEncryptSk<BE>
        + GLWESwitchingKeyPreparedFactory<BE>
        + GLWEKeyswitch<BE>
        + GGSWEncryptSk<BE>
        + GGSWPreparedFactory<BE>
        + GLWEExternalProduct<BE>
        + GLWEAutomorphism<BE>
        + GLWEAutomorphismKeyEncryptSk<BE>
        + GLWEAutomorphismKeyPreparedFactory<BE>
        + GLWETensorKeyEncryptSk<BE>
        + GLWETensorKeyPreparedFactory<BE>
        + Cmux<BE>
        + CKKSEncrypt<BE>
        + CKKSMulOps<BE>
        + CKKSAllOpsTmpBytes<BE>
        + poulpy_core::GLWETensoring<BE>
        + poulpy_core::GLWEShift<BE>
        + poulpy_ckks::leveled::api::CKKSRescaleOps<BE>
        + poulpy_ckks::leveled::api::CKKSRotateOps<BE>,
    ScratchOwned<BE>: ScratchOwnedAlloc<BE> + ScratchOwnedBorrow<BE>,
    Scratch<BE>: ScratchAvailable + ScratchTakeCore<BE>,
{
    let op = r.get("op").unwrap_or("");
    let n = r.usize("n");
    let b = r.usize("b");
    let rank = r.usize("rank").max(1);
    let dsize = r.usize("dsize").max(1);
    let seed = r.i64("seed") as u64;
    let module: Module<BE> = Module::<BE>::new(n as u64);
    let mut scratch: ScratchOwned<BE> = ScratchOwned::alloc(1 << 24);
    let mut source_xs = Source::new(seed32(seed, 1));
    let mut source_xe = Source::new(seed32(seed, 2));
    let mut source_xa = Source::new(seed32(seed, 3));
    let mut source_xu = Source::new(seed32(seed, 4));
    let mut rng = Sm(seed ^ 0xABCDEF);

    let k_in = if r.get("kin").is_some() { r.usize("kin") } else { 3 * b + 1 };
    let k_key = k_in + b * dsize;
    let dnum = k_in.div_ceil(b * dsize);
    let glwe_infos = EncryptionLayout::new_from_default_sigma(GLWELayout {
        n: n.into(),
        base2k: b.into(),
        k: k_in.into(),
        rank: rank.into(),
    })
    .unwrap();
    let out_infos = GLWELayout {
        n: n.into(),
        base2k: b.into(),
        k: k_key.into(),
        rank: rank.into(),
    };

    let mut sk: GLWESecret<Vec<u8>> = GLWESecret::alloc(n.into(), rank.into());
    sk.fill_ternary_prob(0.5, &mut source_xs);
    let mut sk_prep = module.glwe_secret_prepared_alloc(rank.into());
    module.glwe_secret_prepare(&mut sk_prep, &sk);

    let mut pt: GLWEPlaintext<Vec<u8>> = GLWEPlaintext::alloc_from_infos(&glwe_infos);
    for x in pt.data_mut().raw_mut().iter_mut() {
        *x = rng.val("norm", b);
    }
    let mut ct: GLWE<Vec<u8>> = GLWE::alloc_from_infos(&glwe_infos);
    let mut ct_out: GLWE<Vec<u8>> = GLWE::alloc_from_infos(&out_infos);

    match op {
        "enc_sk" => {
            module.glwe_encrypt_sk(&mut ct, &pt, &sk_prep, &glwe_infos, &mut source_xe, &mut source_xa, scratch.borrow());
            format!("{} next={}", out_glwe(&ct), source_xa.next_i64() ^ source_xe.next_i64())
        }
        "enc_pk" => {
            let mut pk: GLWEPublicKey<Vec<u8>> = GLWEPublicKey::alloc_from_infos(&glwe_infos);
            module.glwe_public_key_generate(&mut pk, &sk_prep, &glwe_infos, &mut source_xe, &mut source_xa);
            let mut pk_prep = module.glwe_public_key_prepared_alloc_from_infos(&glwe_infos);
            module.glwe_public_key_prepare(&mut pk_prep, &pk);
            module.glwe_encrypt_pk(&mut ct, &pt, &pk_prep, &glwe_infos, &mut source_xu, &mut source_xe, scratch.borrow());
            format!("{} next={}", out_glwe(&ct), source_xu.next_i64() ^ source_xe.next_i64())
        }
        "keyswitch" => {
            let ksk_infos = EncryptionLayout::new_from_default_sigma(GLWESwitchingKeyLayout {
                n: n.into(),
                base2k: b.into(),
                k: k_key.into(),
                dnum: dnum.into(),
                dsize: dsize.into(),
                rank_in: rank.into(),
                rank_out: rank.into(),
            })
            .unwrap();
            let mut sk_out: GLWESecret<Vec<u8>> = GLWESecret::alloc(n.into(), rank.into());
            sk_out.fill_ternary_prob(0.5, &mut source_xs);
            let mut ksk: GLWESwitchingKey<Vec<u8>> = GLWESwitchingKey::alloc_from_infos(&ksk_infos);
            module.glwe_switching_key_encrypt_sk(&mut ksk, &sk, &sk_out, &ksk_infos, &mut source_xe, &mut source_xa, scratch.borrow());
            module.glwe_encrypt_sk(&mut ct, &pt, &sk_prep, &glwe_infos, &mut source_xe, &mut source_xa, scratch.borrow());
            let mut ksk_prep = module.glwe_switching_key_prepared_alloc_from_infos(&ksk);
            module.glwe_switching_key_prepare(&mut ksk_prep, &ksk, scratch.borrow());
            if r.get("poison").is_some() {
                let word = r.i64("poison").to_le_bytes();
                let bytes: &mut [u8] = scratch.data.as_mut();
                for (i, x) in bytes.iter_mut().enumerate() {
                    *x = word[i % 8];
                }
            }
            module.glwe_keyswitch(&mut ct_out, &ct, &ksk_prep, scratch.borrow());
            out_glwe(&ct_out)
        }
        "extprod" | "cmux" => {
            let ggsw_infos = EncryptionLayout::new_from_default_sigma(GGSWLayout {
                n: n.into(),
                base2k: b.into(),
                k: k_key.into(),
                dnum: dnum.into(),
                dsize: dsize.into(),
                rank: rank.into(),
            })
            .unwrap();
            let mut pt_ggsw: ScalarZnx<Vec<u8>> = ScalarZnx::alloc(n, 1);
            if op == "cmux" {
                pt_ggsw.raw_mut()[0] = (seed & 1) as i64; // selector bit
            } else {
                pt_ggsw.raw_mut()[1 % n] = 1; // X
            }
            let mut ggsw: GGSW<Vec<u8>> = GGSW::alloc_from_infos(&ggsw_infos);
            module.ggsw_encrypt_sk(&mut ggsw, &pt_ggsw, &sk_prep, &ggsw_infos, &mut source_xe, &mut source_xa, scratch.borrow());
            module.glwe_encrypt_sk(&mut ct, &pt, &sk_prep, &glwe_infos, &mut source_xe, &mut source_xa, scratch.borrow());
            let mut ggsw_prep = module.ggsw_prepared_alloc_from_infos(&ggsw);
            module.ggsw_prepare(&mut ggsw_prep, &ggsw, scratch.borrow());
            if op == "extprod" {
                module.glwe_external_product(&mut ct_out, &ct, &ggsw_prep, scratch.borrow());
                out_glwe(&ct_out)
            } else {
                let mut pt2: GLWEPlaintext<Vec<u8>> = GLWEPlaintext::alloc_from_infos(&glwe_infos);
                for x in pt2.data_mut().raw_mut().iter_mut() {
                    *x = rng.val("norm", b);
                }
                let mut ct_f: GLWE<Vec<u8>> = GLWE::alloc_from_infos(&glwe_infos);
                module.glwe_encrypt_sk(&mut ct_f, &pt2, &sk_prep, &glwe_infos, &mut source_xe, &mut source_xa, scratch.borrow());
                let mut res: GLWE<Vec<u8>> = GLWE::alloc_from_infos(&glwe_infos);
                if r.get("poison").is_some() {
                    let word = r.i64("poison").to_le_bytes();
                    let bytes: &mut [u8] = scratch.data.as_mut();
                    for (i, x) in bytes.iter_mut().enumerate() {
                        *x = word[i % 8];
                    }
                }
                module.cmux(&mut res, &ct, &ct_f, &ggsw_prep, scratch.borrow());
                out_glwe(&res)
            }
        }
        "automorphism" => {
            let p = if r.get("p").is_some() { r.i64("p") } else { -5 };
            let atk_infos = EncryptionLayout::new_from_default_sigma(GLWEAutomorphismKeyLayout {
                n: n.into(),
                base2k: b.into(),
                k: k_key.into(),
                rank: rank.into(),
                dnum: dnum.into(),
                dsize: dsize.into(),
            })
            .unwrap();
            let mut atk: GLWEAutomorphismKey<Vec<u8>> = GLWEAutomorphismKey::alloc_from_infos(&atk_infos);
            module.glwe_automorphism_key_encrypt_sk(&mut atk, p, &sk, &atk_infos, &mut source_xe, &mut source_xa, scratch.borrow());
            module.glwe_encrypt_sk(&mut ct, &pt, &sk_prep, &glwe_infos, &mut source_xe, &mut source_xa, scratch.borrow());
            let mut atk_prep = module.glwe_automorphism_key_prepared_alloc_from_infos(&atk_infos);
            module.glwe_automorphism_key_prepare(&mut atk_prep, &atk, scratch.borrow());
            module.glwe_automorphism(&mut ct_out, &ct, &atk_prep, scratch.borrow());
            out_glwe(&ct_out)
        }
        "tensor_relin" => {
            // core level: tensor product of two rank-1 GLWE, then relinearisation with a tensor key of digit size
            // `dsize`; `poison=` overwrites the scratch arena between the two calls
            use poulpy_core::{GLWETensoring, layouts::{GLWETensor, LWEInfos}};
            let ct_k = 5 * b;
            let layout = EncryptionLayout::new_from_default_sigma(GLWELayout {
                n: n.into(),
                base2k: b.into(),
                k: ct_k.into(),
                rank: Rank(1),
            })
            .unwrap();
            let tsk_layout = EncryptionLayout::new_from_default_sigma(GLWETensorKeyLayout {
                n: n.into(),
                base2k: b.into(),
                k: (ct_k + dsize * b).into(),
                rank: Rank(1),
                dsize: dsize.into(),
                dnum: ct_k.div_ceil(dsize * b).into(),
            })
            .unwrap();
            let mut sk1: GLWESecret<Vec<u8>> = GLWESecret::alloc_from_infos(&layout);
            sk1.fill_ternary_prob(0.5, &mut source_xs);
            let mut sk1p = module.glwe_secret_prepared_alloc_from_infos(&layout);
            module.glwe_secret_prepare(&mut sk1p, &sk1);
            let mut tsk = GLWETensorKey::alloc_from_infos(&tsk_layout);
            module.glwe_tensor_key_encrypt_sk(&mut tsk, &sk1, &tsk_layout, &mut source_xa, &mut source_xe, scratch.borrow());
            let mut tsk_prep = module.alloc_tensor_key_prepared_from_infos(&tsk_layout);
            module.prepare_tensor_key(&mut tsk_prep, &tsk, scratch.borrow());
            let mut c1: GLWE<Vec<u8>> = GLWE::alloc_from_infos(&layout);
            let mut c2: GLWE<Vec<u8>> = GLWE::alloc_from_infos(&layout);
            let mut p1: GLWEPlaintext<Vec<u8>> = GLWEPlaintext::alloc_from_infos(&layout);
            for x in p1.data_mut().raw_mut().iter_mut() {
                *x = rng.val("norm", b);
            }
            module.glwe_encrypt_sk(&mut c1, &p1, &sk1p, &layout, &mut source_xe, &mut source_xa, scratch.borrow());
            module.glwe_encrypt_sk(&mut c2, &p1, &sk1p, &layout, &mut source_xe, &mut source_xa, scratch.borrow());
            let mut tensor: GLWETensor<Vec<u8>> = GLWETensor::alloc_from_infos(&layout);
            module.glwe_tensor_apply(ct_k + r.usize("co"), &mut tensor, &c1, ct_k, &c2, ct_k, scratch.borrow());
            if r.get("poison").is_some() {
                let word = r.i64("poison").to_le_bytes();
                let bytes: &mut [u8] = scratch.data.as_mut();
                for (i, x) in bytes.iter_mut().enumerate() {
                    *x = word[i % 8];
                }
            }
            let mut res: GLWE<Vec<u8>> = GLWE::alloc_from_infos(&layout);
            module.glwe_tensor_relinearize(&mut res, &tensor, &tsk_prep, tsk_prep.size(), scratch.borrow());
            if r.usize("tensor") == 1 {
                return format!("tensor={}", show(tensor.data().raw()));
            }
            out_glwe(&res)
        }
        "ckks_prog" => {
            // CKKS program: encrypt two vectors, multiply, rescale, rotate — every intermediate ciphertext is hashed
            use poulpy_ckks::{CKKSInfos, leveled::api::{CKKSRescaleOps, CKKSRotateOps}};
            use poulpy_core::layouts::{GLWEAutomorphismKeyPrepared, LWEInfos};
            use poulpy_hal::layouts::{DeviceBuf, GaloisElement};
            use std::collections::HashMap;
            let prec = CKKSMeta {
                log_delta: (2 * b) as _,
                log_budget: b as _,
            };
            let ct_k = 6 * b;
            let layout = EncryptionLayout::new_from_default_sigma(GLWELayout {
                n: n.into(),
                base2k: b.into(),
                k: ct_k.into(),
                rank: Rank(1),
            })
            .unwrap();
            let kk = ct_k + dsize * b;
            let tsk_layout = EncryptionLayout::new_from_default_sigma(GLWETensorKeyLayout {
                n: n.into(),
                base2k: b.into(),
                k: kk.into(),
                rank: Rank(1),
                dsize: dsize.into(),
                dnum: ct_k.div_ceil(dsize * b).into(),
            })
            .unwrap();
            let atk_layout = EncryptionLayout::new_from_default_sigma(GLWEAutomorphismKeyLayout {
                n: n.into(),
                base2k: b.into(),
                k: kk.into(),
                rank: Rank(1),
                dsize: dsize.into(),
                dnum: ct_k.div_ceil(dsize * b).into(),
            })
            .unwrap();
            let mut sk1: GLWESecret<Vec<u8>> = GLWESecret::alloc_from_infos(&layout);
            sk1.fill_ternary_prob(0.5, &mut source_xs);
            let mut sk1p = module.glwe_secret_prepared_alloc_from_infos(&layout);
            module.glwe_secret_prepare(&mut sk1p, &sk1);
            let mut scr: ScratchOwned<BE> = ScratchOwned::alloc(1 << 25);
            let mut tsk = GLWETensorKey::alloc_from_infos(&tsk_layout);
            module.glwe_tensor_key_encrypt_sk(&mut tsk, &sk1, &tsk_layout, &mut source_xa, &mut source_xe, scr.borrow());
            let mut tsk_prep = module.alloc_tensor_key_prepared_from_infos(&tsk_layout);
            module.prepare_tensor_key(&mut tsk_prep, &tsk, scr.borrow());
            let rotk: i64 = if r.get("rot").is_some() { r.i64("rot") } else { 1 };
            let mut rot: HashMap<i64, GLWEAutomorphismKeyPrepared<DeviceBuf<BE>, BE>> = HashMap::new();
            {
                let gal = module.galois_element(rotk);
                let mut atk = GLWEAutomorphismKey::alloc_from_infos(&atk_layout);
                module.glwe_automorphism_key_encrypt_sk(&mut atk, gal, &sk1, &atk_layout, &mut source_xa, &mut source_xe, scr.borrow());
                let mut pk = module.glwe_automorphism_key_prepared_alloc_from_infos(&atk_layout);
                module.glwe_automorphism_key_prepare(&mut pk, &atk, scr.borrow());
                rot.insert(rotk, pk);
            }
            let mut enc = |rng: &mut Sm, sxa: &mut Source, sxe: &mut Source, scr: &mut ScratchOwned<BE>| -> CKKSCiphertext<Vec<u8>> {
                let mut ptz = CKKSPlaintextVecZnx::alloc(n.into(), b.into(), prec);
                for x in ptz.data_mut().raw_mut().iter_mut() {
                    *x = rng.val("norm", b);
                }
                let mut c = CKKSCiphertext::alloc(n.into(), ct_k.into(), b.into());
                module.ckks_encrypt_sk(&mut c, &ptz, &sk1p, &layout, sxa, sxe, scr.borrow()).unwrap();
                c
            };
            let c1 = enc(&mut rng, &mut source_xa, &mut source_xe, &mut scr);
            let c2 = enc(&mut rng, &mut source_xa, &mut source_xe, &mut scr);
            let mut out: Vec<String> = Vec::new();
            let mut hash = |tag: &str, c: &CKKSCiphertext<Vec<u8>>, out: &mut Vec<String>| {
                let g: &GLWE<Vec<u8>> = c;
                let mut bytes: Vec<u8> = Vec::new();
                g.write_to(&mut bytes).unwrap();
                out.push(format!("{tag}:{:016x}:{}:{}.{}", fnv(&bytes), g.size(), c.log_delta(), c.log_budget()));
            };
            let mut m = CKKSCiphertext::alloc(n.into(), ct_k.into(), b.into());
            if module.ckks_mul_into(&mut m, &c1, &c2, &tsk_prep, scr.borrow()).is_err() {
                return "err:mul".to_string();
            }
            hash("mul", &m, &mut out);
            let mut rs = CKKSCiphertext::alloc(n.into(), ct_k.into(), b.into());
            match module.ckks_rescale_into(&mut rs, r.usize("rs").max(1), &m, scr.borrow()) {
                Ok(()) => hash("rescale", &rs, &mut out),
                Err(_) => out.push("rescale:err".to_string()),
            }
            let mut ro = CKKSCiphertext::alloc(n.into(), ct_k.into(), b.into());
            match module.ckks_rotate_into(&mut ro, &m, rotk, &rot, scr.borrow()) {
                Ok(()) => hash("rotate", &ro, &mut out),
                Err(_) => out.push("rotate:err".to_string()),
            }
            let g: &GLWE<Vec<u8>> = &ro;
            format!("{} limbs={}", out.join(" "), show(g.data().raw()))
        }
        "ckks_square" | "ckks_mul" => {
            // rank-1 CKKS: encrypt two quantised plaintexts, multiply (tensor + relinearise + rescale)
            let prec = CKKSMeta {
                log_delta: (2 * b) as _,
                log_budget: b as _,
            };
            let ct_k = 5 * b;
            let layout = EncryptionLayout::new_from_default_sigma(GLWELayout {
                n: n.into(),
                base2k: b.into(),
                k: ct_k.into(),
                rank: Rank(1),
            })
            .unwrap();
            let tsk_layout = EncryptionLayout::new_from_default_sigma(GLWETensorKeyLayout {
                n: n.into(),
                base2k: b.into(),
                k: (ct_k + dsize * b).into(),
                rank: Rank(1),
                dsize: dsize.into(),
                dnum: ct_k.div_ceil(dsize * b).into(),
            })
            .unwrap();
            let mut sk1: GLWESecret<Vec<u8>> = GLWESecret::alloc_from_infos(&layout);
            sk1.fill_ternary_prob(0.5, &mut source_xs);
            let mut sk1p = module.glwe_secret_prepared_alloc_from_infos(&layout);
            module.glwe_secret_prepare(&mut sk1p, &sk1);
            let bytes = module.ckks_all_ops_tmp_bytes(&layout, &tsk_layout, &prec);
            let mut scr: ScratchOwned<BE> = ScratchOwned::alloc(bytes.max(1 << 22));
            let mut tsk = GLWETensorKey::alloc_from_infos(&tsk_layout);
            module.glwe_tensor_key_encrypt_sk(&mut tsk, &sk1, &tsk_layout, &mut source_xa, &mut source_xe, scr.borrow());
            let mut tsk_prep = module.alloc_tensor_key_prepared_from_infos(&tsk_layout);
            module.prepare_tensor_key(&mut tsk_prep, &tsk, scr.borrow());
            let mut enc = |rng: &mut Sm, sxa: &mut Source, sxe: &mut Source, scr: &mut ScratchOwned<BE>| -> CKKSCiphertext<Vec<u8>> {
                let mut ptz = CKKSPlaintextVecZnx::alloc(n.into(), b.into(), prec);
                for x in ptz.data_mut().raw_mut().iter_mut() {
                    *x = rng.val("norm", b);
                }
                let mut c = CKKSCiphertext::alloc(n.into(), ct_k.into(), b.into());
                module.ckks_encrypt_sk(&mut c, &ptz, &sk1p, &layout, sxa, sxe, scr.borrow()).unwrap();
                c
            };
            let c1 = enc(&mut rng, &mut source_xa, &mut source_xe, &mut scr);
            let c2 = enc(&mut rng, &mut source_xa, &mut source_xe, &mut scr);
            let mut res = CKKSCiphertext::alloc(n.into(), ct_k.into(), b.into());
            // `poison=<i64>`: overwrite the whole scratch arena with this word before the measured call —
            // the result must not depend on it (no read of stale scratch)
            if r.get("poison").is_some() {
                let word = r.i64("poison").to_le_bytes();
                let bytes: &mut [u8] = scr.data.as_mut();
                for (i, x) in bytes.iter_mut().enumerate() {
                    *x = word[i % 8];
                }
            }
            let rr = if op == "ckks_square" {
                module.ckks_square_into(&mut res, &c1, &tsk_prep, scr.borrow())
            } else {
                module.ckks_mul_into(&mut res, &c1, &c2, &tsk_prep, scr.borrow())
            };
            match rr {
                Ok(()) => {
                    let g: &GLWE<Vec<u8>> = &res;
                    out_glwe(g)
                }
                Err(_) => "err:ckks".to_string(),
            }
        }
        _ => "bad-op".to_string(),
    }
}
