//! `pvh takes` — drives the real scratch arena (`Scratch::from_bytes` + `take_slice`) with a
//! sequence of takes from a window placed at a chosen misalignment inside a larger allocation and
//! prints, per take, the offset of the returned slice from the window start, its length and the
//! length of the remainder (all from the real pointers).
//! stdin: `id mis=<0..63> len=<window bytes> seq=l1,l2,…`   stdout: `id off:len:rem …` / `id … panic`
use std::io::{BufRead, Write};

use poulpy_cpu_ref::FFT64Ref;
use poulpy_hal::api::{ScratchFromBytes, TakeSlice};
use poulpy_hal::layouts::Scratch;

type BE = FFT64Ref;

pub fn run(_args: &[String]) {
    std::panic::set_hook(Box::new(|_| {}));
    let stdin = std::io::stdin();
    let stdout = std::io::stdout();
    let mut w = std::io::BufWriter::new(stdout.lock());
    for line in stdin.lock().lines() {
        let line = line.unwrap();
        let t: Vec<&str> = line.split_whitespace().collect();
        if t.is_empty() {
            continue;
        }
        let id = t[0];
        let get = |k: &str| t.iter().find_map(|x| x.strip_prefix(&format!("{k}=")).map(|v| v.to_string()));
        let mis: usize = get("mis").and_then(|v| v.parse().ok()).unwrap_or(0);
        let len: usize = get("len").and_then(|v| v.parse().ok()).unwrap_or(0);
        let seq: Vec<usize> = get("seq").map(|v| if v == "-" { vec![] } else { v.split(',').map(|x| x.parse().unwrap()).collect() }).unwrap_or_default();
        let mut big: Vec<u8> = vec![0xC3u8; len + 256];
        let base = big.as_ptr() as usize;
        let start = (64 - base % 64) % 64 + mis; // window start: 64-aligned address + mis
        let win_addr = base + start;
        let mut outs: Vec<String> = Vec::new();
        let r = std::panic::catch_unwind(std::panic::AssertUnwindSafe(|| {
            let window: &mut [u8] = &mut big[start..start + len];
            let mut scratch: &mut Scratch<BE> = Scratch::<BE>::from_bytes(window);
            for l in &seq {
                let (s, rem): (&mut [u8], &mut Scratch<BE>) = scratch.take_slice::<u8>(*l);
                let off = s.as_ptr() as usize - win_addr;
                // write a marker through the returned slice: overlapping slices would clobber each other
                for x in s.iter_mut() {
                    *x = 0x11;
                }
                outs.push(format!("{}:{}:{}", off, s.len(), rem.data.len()));
                scratch = rem;
            }
        }));
        let mut s = if outs.is_empty() { "-".to_string() } else { outs.join(" ") };
        if r.is_err() {
            s.push_str(" panic");
        }
        // canaries around the window
        let intact = big[..start].iter().all(|x| *x == 0xC3) && big[start + len..].iter().all(|x| *x == 0xC3);
        writeln!(w, "{id} {} canary={}", s, intact as u8).unwrap();
    }
    w.flush().unwrap();
}
