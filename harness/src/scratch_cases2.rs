//! C12 harness, second table: core operations that need prepared keys (key switch, external
//! product, automorphism, trace) and the matrix encryptions.  Keys are generated with a generous
//! owned scratch; only the operation under test runs in the exact window.
macro_rules! backend_cases2 {
    ($modname:ident, $BE:ty) => {
        pub mod $modname {
            use crate::cmd_scratch::{Kv, bytes_of_i64, exec_window, fmt_outcome, glwe_layout, rand_glwe, rand_vec};
            use poulpy_core::{
                EncryptionLayout, GGLWEEncryptSk, GGSWEncryptSk, GLWEAutomorphism, GLWEAutomorphismKeyEncryptSk, GLWEExternalProduct,
                GLWEKeyswitch, GLWESwitchingKeyEncryptSk, GLWETrace,
                layouts::{
                    Base2K, Degree, Dnum, Dsize, GGLWE, GGLWELayout, GGSW, GGSWLayout, GGSWPreparedFactory, GLWE,
                    GLWEAutomorphismKey, GLWEAutomorphismKeyLayout, GLWEAutomorphismKeyPrepared,
                    GLWEAutomorphismKeyPreparedFactory, GLWESecret, GLWESecretPreparedFactory, GLWESwitchingKey,
                    GLWESwitchingKeyLayout, GLWESwitchingKeyPreparedFactory, Rank, TorusPrecision,
                    prepared::{GGSWPrepared, GLWESecretPrepared, GLWESwitchingKeyPrepared},
                },
            };
            use poulpy_hal::{
                api::*,
                layouts::{DataView, DeviceBuf, Module, ScalarZnx, Scratch, ScratchOwned, ZnxView, ZnxViewMut},
                source::Source,
            };
            use std::collections::HashMap;

            type BE = $BE;

            fn wrap(b: &mut [u8]) -> &mut Scratch<BE> {
                <Scratch<BE> as ScratchFromBytes<BE>>::from_bytes(b)
            }

            pub fn case(op: &str, kv: &Kv) -> Option<String> {
                let n = kv.g("n");
                let mis = kv.g("mis");
                let win = kv.0.get("win").and_then(|s| s.parse::<usize>().ok());
                let module: Module<BE> = Module::<BE>::new(n as u64);
                let (size, rank, b2k) = (kv.g("size"), kv.g("rank"), kv.g("b2k"));
                let (asize, arank, ab2k) = (kv.g("asize"), kv.g("arank"), kv.g("ab2k"));
                let (krin, krout, ksize, kb2k, dnum, dsize) =
                    (kv.g("krin"), kv.g("krout"), kv.g("ksize"), kv.g("kb2k"), kv.g("dnum"), kv.g("dsize"));
                let big_scratch = || -> ScratchOwned<BE> { ScratchOwned::<BE>::alloc(1 << 23) };
                let tb: usize = match crate::cmd_scratch::$modname::tb_of(&module, op, kv) {
                    Some(t) => t,
                    None => return crate::scratch_cases3::$modname::case(op, kv),
                };

                macro_rules! finish {
                    ($tb:expr, $f:expr) => {{
                        let o = exec_window::<Scratch<BE>>(tb, mis, win, wrap, $f);
                        return Some(fmt_outcome(tb, &o));
                    }};
                }
                let mk_sk = |r: usize, seed: u8| -> (GLWESecret<Vec<u8>>, GLWESecretPrepared<DeviceBuf<BE>, BE>) {
                    let mut sk = GLWESecret::alloc(Degree(n as u32), Rank(r as u32));
                    sk.fill_ternary_prob(0.5, &mut Source::new([seed; 32]));
                    let mut skp: GLWESecretPrepared<DeviceBuf<BE>, BE> = module.glwe_secret_prepared_alloc(Rank(r as u32));
                    module.glwe_secret_prepare(&mut skp, &sk);
                    (sk, skp)
                };

                match op {
                    "glwe_keyswitch" | "glwe_keyswitch_assign" => {
                        let ksk_infos = EncryptionLayout::new_from_default_sigma(GLWESwitchingKeyLayout {
                            n: Degree(n as u32),
                            base2k: Base2K(kb2k as u32),
                            k: TorusPrecision((kb2k * ksize) as u32),
                            rank_in: Rank(krin as u32),
                            rank_out: Rank(krout as u32),
                            dnum: Dnum(dnum as u32),
                            dsize: Dsize(dsize as u32),
                        })
                        .unwrap();
                        let (sk_in, _) = mk_sk(krin, 1);
                        let (sk_out, _) = mk_sk(krout, 2);
                        let mut ksk: GLWESwitchingKey<Vec<u8>> = GLWESwitchingKey::alloc_from_infos(&ksk_infos);
                        module.glwe_switching_key_encrypt_sk(
                            &mut ksk,
                            &sk_in,
                            &sk_out,
                            &ksk_infos,
                            &mut Source::new([3u8; 32]),
                            &mut Source::new([4u8; 32]),
                            big_scratch().borrow(),
                        );
                        let mut kp: GLWESwitchingKeyPrepared<DeviceBuf<BE>, BE> =
                            module.glwe_switching_key_prepared_alloc_from_infos(&ksk);
                        module.glwe_switching_key_prepare(&mut kp, &ksk, big_scratch().borrow());
                        if op == "glwe_keyswitch" {
                            let a = rand_glwe(n, ab2k, asize, arank, 5);
                            let res_infos = glwe_layout(n, b2k, size, rank);
                            finish!(tb, |s: &mut Scratch<BE>| {
                                let mut r = GLWE::alloc_from_infos(&res_infos);
                                module.glwe_keyswitch(&mut r, &a, &kp, s);
                                bytes_of_i64(r.data().raw())
                            })
                        }
                        let a = rand_glwe(n, b2k, size, rank, 5);
                        finish!(tb, |s: &mut Scratch<BE>| {
                            let mut r = a.clone();
                            module.glwe_keyswitch_assign(&mut r, &kp, s);
                            bytes_of_i64(r.data().raw())
                        })
                    }
                    "glwe_external_product" | "glwe_external_product_assign" | "ggsw_encrypt_sk" | "cmux" => {
                        let ggsw_infos = EncryptionLayout::new_from_default_sigma(GGSWLayout {
                            n: Degree(n as u32),
                            base2k: Base2K(kb2k as u32),
                            k: TorusPrecision((kb2k * ksize) as u32),
                            rank: Rank(krout as u32),
                            dnum: Dnum(dnum as u32),
                            dsize: Dsize(dsize as u32),
                        })
                        .unwrap();
                        let (_, skp) = mk_sk(krout, 1);
                        let mut pt = ScalarZnx::alloc(n, 1);
                        pt.raw_mut()[n / 2] = 1;
                        if op == "ggsw_encrypt_sk" {
                            finish!(tb, |s: &mut Scratch<BE>| {
                                let mut g: GGSW<Vec<u8>> = GGSW::alloc_from_infos(&ggsw_infos);
                                module.ggsw_encrypt_sk(
                                    &mut g,
                                    &pt,
                                    &skp,
                                    &ggsw_infos,
                                    &mut Source::new([3u8; 32]),
                                    &mut Source::new([4u8; 32]),
                                    s,
                                );
                                let mut o = Vec::new();
                                for r in 0..dnum {
                                    for c in 0..krout + 1 {
                                        o.extend(bytes_of_i64(g.at(r, c).data().raw()));
                                    }
                                }
                                o
                            })
                        }
                        let mut g: GGSW<Vec<u8>> = GGSW::alloc_from_infos(&ggsw_infos);
                        module.ggsw_encrypt_sk(
                            &mut g,
                            &pt,
                            &skp,
                            &ggsw_infos,
                            &mut Source::new([3u8; 32]),
                            &mut Source::new([4u8; 32]),
                            big_scratch().borrow(),
                        );
                        let mut gp: GGSWPrepared<DeviceBuf<BE>, BE> = module.ggsw_prepared_alloc_from_infos(&g);
                        module.ggsw_prepare(&mut gp, &g, big_scratch().borrow());
                        if op == "cmux" {
                            use poulpy_bin_fhe::bdd_arithmetic::Cmux;
                            let t = rand_glwe(n, b2k, size, rank, 5);
                            let f = rand_glwe(n, b2k, size, rank, 6);
                            finish!(tb, |s: &mut Scratch<BE>| {
                                let mut r = rand_glwe(n, b2k, size, rank, 7);
                                module.cmux(&mut r, &t, &f, &gp, s);
                                bytes_of_i64(r.data().raw())
                            })
                        }
                        if op == "glwe_external_product" {
                            let a = rand_glwe(n, ab2k, asize, arank, 5);
                            let res_infos = glwe_layout(n, b2k, size, rank);
                            finish!(tb, |s: &mut Scratch<BE>| {
                                    let mut r = GLWE::alloc_from_infos(&res_infos);
                                    module.glwe_external_product(&mut r, &a, &gp, s);
                                    bytes_of_i64(r.data().raw())
                                }
                            )
                        }
                        let a = rand_glwe(n, b2k, size, rank, 5);
                        finish!(tb, |s: &mut Scratch<BE>| {
                            let mut r = a.clone();
                            module.glwe_external_product_assign(&mut r, &gp, s);
                            bytes_of_i64(r.data().raw())
                        })
                    }
                    "execute_bdd" => {
                        use crate::cmd_bddeval::{DynCircuit, Two};
                        use poulpy_bin_fhe::bdd_arithmetic::{ExecuteBDDCircuit, FheUintPrepared, GetBitCircuitInfo, verif_hooks::u32_circuits};
                        let threads = kv.g("threads");
                        let ggsw_infos = EncryptionLayout::new_from_default_sigma(GGSWLayout {
                            n: Degree(n as u32),
                            base2k: Base2K(kb2k as u32),
                            k: TorusPrecision((kb2k * ksize) as u32),
                            rank: Rank(krout as u32),
                            dnum: Dnum(dnum as u32),
                            dsize: Dsize(dsize as u32),
                        })
                        .unwrap();
                        let (_, skp) = mk_sk(krout, 1);
                        let circuits = u32_circuits();
                        let (_, c) = circuits.iter().find(|(nm, _)| *nm == kv.s("circ"))?;
                        let circ = DynCircuit(*c);
                        if circ.max_state_size() != kv.g("state") {
                            return Some(format!("state-mismatch:{}", circ.max_state_size()));
                        }
                        let mut ap = FheUintPrepared::<DeviceBuf<BE>, u32, BE>::alloc_from_infos(&module, &ggsw_infos.layout);
                        let mut bp = FheUintPrepared::<DeviceBuf<BE>, u32, BE>::alloc_from_infos(&module, &ggsw_infos.layout);
                        ap.encrypt_sk(&module, 0x1234_5678, &skp, &ggsw_infos, &mut Source::new([3u8; 32]), &mut Source::new([4u8; 32]), big_scratch().borrow());
                        bp.encrypt_sk(&module, 0x0fed_cba9, &skp, &ggsw_infos, &mut Source::new([5u8; 32]), &mut Source::new([6u8; 32]), big_scratch().borrow());
                        let helper = Two { a: &ap, b: &bp };
                        let res_infos = glwe_layout(n, b2k, size, rank);
                        finish!(tb, |s: &mut Scratch<BE>| {
                            let mut outs: Vec<GLWE<Vec<u8>>> = (0..32).map(|_| GLWE::alloc_from_infos(&res_infos)).collect();
                            module.execute_bdd_circuit_multi_thread(threads, &mut outs, &helper, &circ, s);
                            let mut o = Vec::new();
                            for x in outs.iter() {
                                o.extend(bytes_of_i64(x.data().raw()));
                            }
                            o
                        })
                    }
                    "gglwe_encrypt_sk" => {
                        let infos = EncryptionLayout::new_from_default_sigma(GGLWELayout {
                            n: Degree(n as u32),
                            base2k: Base2K(kb2k as u32),
                            k: TorusPrecision((kb2k * ksize) as u32),
                            rank_in: Rank(krin as u32),
                            rank_out: Rank(krout as u32),
                            dnum: Dnum(dnum as u32),
                            dsize: Dsize(dsize as u32),
                        })
                        .unwrap();
                        let (_, skp) = mk_sk(krout, 1);
                        let mut pt = ScalarZnx::alloc(n, krin);
                        pt.raw_mut().iter_mut().enumerate().for_each(|(i, x)| *x = (i % 3) as i64 - 1);
                        finish!(tb, |s: &mut Scratch<BE>| {
                            let mut g: GGLWE<Vec<u8>> = GGLWE::alloc_from_infos(&infos);
                            module.gglwe_encrypt_sk(
                                &mut g,
                                &pt,
                                &skp,
                                &infos,
                                &mut Source::new([3u8; 32]),
                                &mut Source::new([4u8; 32]),
                                s,
                            );
                            bytes_of_i64(g.data().raw())
                        })
                    }
                    "glwe_automorphism"
                    | "glwe_automorphism_assign"
                    | "glwe_automorphism_add"
                    | "glwe_automorphism_add_assign"
                    | "glwe_automorphism_sub"
                    | "glwe_automorphism_sub_assign"
                    | "glwe_automorphism_sub_negate"
                    | "glwe_automorphism_sub_negate_assign"
                    | "glwe_trace"
                    | "glwe_trace_assign" => {
                        let key_infos = EncryptionLayout::new_from_default_sigma(GLWEAutomorphismKeyLayout {
                            n: Degree(n as u32),
                            base2k: Base2K(kb2k as u32),
                            k: TorusPrecision((kb2k * ksize) as u32),
                            rank: Rank(krout as u32),
                            dnum: Dnum(dnum as u32),
                            dsize: Dsize(dsize as u32),
                        })
                        .unwrap();
                        let (sk, _) = mk_sk(krout, 1);
                        let mk_key = |p: i64| -> GLWEAutomorphismKeyPrepared<DeviceBuf<BE>, BE> {
                            let mut key: GLWEAutomorphismKey<Vec<u8>> = GLWEAutomorphismKey::alloc_from_infos(&key_infos);
                            module.glwe_automorphism_key_encrypt_sk(
                                &mut key,
                                p,
                                &sk,
                                &key_infos,
                                &mut Source::new([3u8; 32]),
                                &mut Source::new([4u8; 32]),
                                big_scratch().borrow(),
                            );
                            let mut kp: GLWEAutomorphismKeyPrepared<DeviceBuf<BE>, BE> =
                                module.glwe_automorphism_key_prepared_alloc_from_infos(&key);
                            module.glwe_automorphism_key_prepare(&mut kp, &key, big_scratch().borrow());
                            kp
                        };
                        let res_infos = glwe_layout(n, b2k, size, rank);
                        if op == "glwe_trace" || op == "glwe_trace_assign" {
                            let mut keys: HashMap<i64, GLWEAutomorphismKeyPrepared<DeviceBuf<BE>, BE>> = HashMap::new();
                            for p in module.glwe_trace_galois_elements() {
                                keys.insert(p, mk_key(p));
                            }
                            let log_n = (n as f64).log2().round() as usize;
                            let skip = log_n - kv.g("iters").min(log_n);
                            if op == "glwe_trace" {
                                let a = rand_glwe(n, ab2k, asize, arank, 5);
                                finish!(tb, |s: &mut Scratch<BE>| {
                                    let mut r = GLWE::alloc_from_infos(&res_infos);
                                    module.glwe_trace(&mut r, skip, &a, &keys, s);
                                    bytes_of_i64(r.data().raw())
                                })
                            }
                            let a = rand_glwe(n, b2k, size, rank, 5);
                            finish!(tb, |s: &mut Scratch<BE>| {
                                let mut r = a.clone();
                                module.glwe_trace_assign(&mut r, skip, &keys, s);
                                bytes_of_i64(r.data().raw())
                            })
                        }
                        let kp = mk_key(-1);
                        match op {
                            "glwe_automorphism" | "glwe_automorphism_add" | "glwe_automorphism_sub" | "glwe_automorphism_sub_negate" => {
                                let a = rand_glwe(n, ab2k, asize, arank, 5);
                                finish!(tb, |s: &mut Scratch<BE>| {
                                    let mut r = rand_glwe(n, b2k, size, rank, 6);
                                    match op {
                                        "glwe_automorphism" => module.glwe_automorphism(&mut r, &a, &kp, s),
                                        "glwe_automorphism_add" => module.glwe_automorphism_add(&mut r, &a, &kp, s),
                                        "glwe_automorphism_sub" => module.glwe_automorphism_sub(&mut r, &a, &kp, s),
                                        _ => module.glwe_automorphism_sub_negate(&mut r, &a, &kp, s),
                                    }
                                    bytes_of_i64(r.data().raw())
                                })
                            }
                            _ => {
                                let a = rand_glwe(n, b2k, size, rank, 5);
                                finish!(tb, |s: &mut Scratch<BE>| {
                                    let mut r = a.clone();
                                    match op {
                                        "glwe_automorphism_assign" => module.glwe_automorphism_assign(&mut r, &kp, s),
                                        "glwe_automorphism_add_assign" => module.glwe_automorphism_add_assign(&mut r, &kp, s),
                                        "glwe_automorphism_sub_assign" => module.glwe_automorphism_sub_assign(&mut r, &kp, s),
                                        _ => module.glwe_automorphism_sub_negate_assign(&mut r, &kp, s),
                                    }
                                    bytes_of_i64(r.data().raw())
                                })
                            }
                        }
                    }
                    _ => None,
                }
            }
        }
    };
}

backend_cases2!(fft64ref, poulpy_cpu_ref::FFT64Ref);
backend_cases2!(ntt120ref, poulpy_cpu_ref::NTT120Ref);
backend_cases2!(fft64avx, poulpy_cpu_avx::FFT64Avx);
backend_cases2!(ntt120avx, poulpy_cpu_avx::NTT120Avx);
