//! Violating-argument replays for the `rel` profile (release, debug assertions OFF) — C17.
//!
//!   id mism be=<backend> op=<op> nm=<module n> nr=<res n> na=<operand n> cols=C size=S [extra=K]
//!        → id ok res=intact|broken:<off> scratch=intact|broken:<off> | panic:<class>
//!
//! The result and the scratch space are windows inside 0xA5-filled buffers (scratch window = exactly the operation's own
//! `*_tmp_bytes` query); `broken:<off>` = first modified byte relative to the END of the window (≥ 0) or its start (< 0).
//! Operands `a`, `b` are owned allocations of ring degree `na` (reads past them are visible to AddressSanitizer only).
//!
//!   id prim op=<bbc|bbc1x2|bbc2x2> ell=E res=R x=X y=Y
//!        → the safe primitive-trait methods `ntt_mul_bbc`, `ntt_mul_bbc_1col_x2`, `ntt_mul_bbc_2cols_x2` of NTT120Avx on a
//!          framed result of R u64 and owned operands of X / Y u32; same answer format (scratch unused)
use std::io::{BufRead, Write};

use poulpy_cpu_avx::{FFT64Avx, NTT120Avx};
use poulpy_cpu_ref::{FFT64Ref, NTT120Ref};
use poulpy_hal::{
    alloc_aligned,
    api::{
        ModuleNew, ScratchFromBytes, SvpApplyDftToDft, SvpPPolAlloc, SvpPrepare, VecZnxAddInto, VecZnxAutomorphism, VecZnxBigAlloc,
        VecZnxBigNormalize, VecZnxBigNormalizeTmpBytes, VecZnxDftAddInto, VecZnxDftAlloc, VecZnxDftApply, VecZnxNormalize,
        VecZnxNormalizeTmpBytes, VecZnxRotate, VecZnxSub, VmpApplyDftToDft, VmpApplyDftToDftTmpBytes, VmpPMatAlloc,
    },
    layouts::{Backend, Module, ScalarZnx, Scratch, VecZnx, VecZnxBig, VecZnxDft, ZnxViewMut},
};

use poulpy_cpu_ref::reference::ntt120::{mat_vec::BbcMeta, primes::Primes30, NttMulBbc, NttMulBbc1ColX2, NttMulBbc2ColsX2};

use crate::cmd_ser::{kv, panic_class};

const CANARY: u8 = 0xA5;
const GAP: usize = 512;

struct Framed {
    buf: Vec<u8>,
    len: usize,
}
impl Framed {
    fn new(len: usize) -> Self {
        let win = (len + 63) / 64 * 64;
        let mut buf: Vec<u8> = alloc_aligned::<u8>(2 * GAP + win);
        buf.iter_mut().for_each(|x| *x = CANARY);
        buf[GAP..GAP + len].iter_mut().for_each(|x| *x = 0);
        Self { buf, len }
    }
    fn win(&mut self) -> &mut [u8] {
        let l = self.len;
        &mut self.buf[GAP..GAP + l]
    }
    fn verdict(&self) -> String {
        for (k, x) in self.buf.iter().enumerate() {
            if (k < GAP || k >= GAP + self.len) && *x != CANARY {
                return format!("broken:{}", if k < GAP { k as isize - GAP as isize } else { (k - GAP - self.len) as isize });
            }
        }
        "intact".into()
    }
}

fn fillv(v: &mut VecZnx<Vec<u8>>, s: i64) {
    for (k, x) in v.raw_mut().iter_mut().enumerate() {
        *x = (k as i64 * 37 + s) % 97 - 48;
    }
}

fn mism<BE: Backend>(op: &str, nm: usize, nr: usize, na: usize, cols: usize, size: usize, extra: usize) -> String
where
    Module<BE>: ModuleNew<BE>
        + VecZnxAddInto
        + VecZnxSub
        + VecZnxRotate
        + VecZnxAutomorphism
        + VecZnxNormalize<BE>
        + VecZnxNormalizeTmpBytes
        + VecZnxDftAlloc<BE>
        + VecZnxDftApply<BE>
        + VecZnxDftAddInto<BE>
        + VecZnxBigAlloc<BE>
        + VecZnxBigNormalize<BE>
        + VecZnxBigNormalizeTmpBytes
        + SvpPPolAlloc<BE>
        + SvpPrepare<BE>
        + SvpApplyDftToDft<BE>
        + VmpPMatAlloc<BE>
        + VmpApplyDftToDft<BE>
        + VmpApplyDftToDftTmpBytes,
    Scratch<BE>: ScratchFromBytes<BE>,
{
    let module: Module<BE> = Module::<BE>::new(nm as u64);
    let mut a = VecZnx::alloc(na, cols, size);
    let mut b = VecZnx::alloc(na, cols, size);
    fillv(&mut a, 5);
    fillv(&mut b, 9);
    let wp = std::mem::size_of::<BE::ScalarPrep>();
    let wb = std::mem::size_of::<BE::ScalarBig>();
    let mut sframe = Framed::new(match op {
        "normalize" => module.vec_znx_normalize_tmp_bytes(),
        "bignormalize" => module.vec_znx_big_normalize_tmp_bytes(),
        "vmp" => module.vmp_apply_dft_to_dft_tmp_bytes(size, if extra > 0 { 1 } else { size }, size, cols, cols, size),
        _ => 64,
    });
    let res_bytes = match op {
        "dft" | "dftadd" | "svp" | "vmp" => nr * cols * size * wp,
        _ => nr * cols * size * 8,
    };
    let mut rframe = Framed::new(res_bytes);
    {
        let scratch: &mut Scratch<BE> = <Scratch<BE> as ScratchFromBytes<BE>>::from_bytes(sframe.win());
        let w = rframe.win();
        match op {
            "add" => {
                let mut res: VecZnx<&mut [u8]> = VecZnx::from_data(w, nr, cols, size);
                for c in 0..cols {
                    module.vec_znx_add_into(&mut res, c, &a, c, &b, c);
                }
            }
            "sub" => {
                let mut res: VecZnx<&mut [u8]> = VecZnx::from_data(w, nr, cols, size);
                for c in 0..cols {
                    module.vec_znx_sub(&mut res, c, &a, c, &b, c);
                }
            }
            "rotate" => {
                let mut res: VecZnx<&mut [u8]> = VecZnx::from_data(w, nr, cols, size);
                for c in 0..cols {
                    module.vec_znx_rotate(3, &mut res, c, &a, c);
                }
            }
            "automorphism" => {
                let mut res: VecZnx<&mut [u8]> = VecZnx::from_data(w, nr, cols, size);
                for c in 0..cols {
                    module.vec_znx_automorphism(5, &mut res, c, &a, c);
                }
            }
            "normalize" => {
                let mut res: VecZnx<&mut [u8]> = VecZnx::from_data(w, nr, cols, size);
                for c in 0..cols {
                    // extra = 0: same radix; 1: cross radix; 2: negative offset
                    let (rb, ab, off) = match extra {
                        0 => (7, 7, 0i64),
                        1 => (7, 9, 0i64),
                        _ => (7, 7, -10i64),
                    };
                    module.vec_znx_normalize(&mut res, rb, off, c, &a, ab, c, scratch);
                }
            }
            "bignormalize" => {
                let mut res: VecZnx<&mut [u8]> = VecZnx::from_data(w, nr, cols, size);
                let mut big: VecZnxBig<Vec<u8>, BE> = VecZnxBig::from_data(alloc_aligned::<u8>(na * cols * size * wb), na, cols, size);
                big.data.iter_mut().enumerate().for_each(|(k, x)| *x = (k % 7) as u8);
                for c in 0..cols {
                    let (rb, ab) = if extra == 1 { (7, 9) } else { (7, 7) };
                    module.vec_znx_big_normalize(&mut res, rb, 0, c, &big, ab, c, scratch);
                }
            }
            "dft" => {
                let mut res: VecZnxDft<&mut [u8], BE> = VecZnxDft::from_data(w, nr, cols, size);
                for c in 0..cols {
                    module.vec_znx_dft_apply(1, 0, &mut res, c, &a, c);
                }
            }
            "dftadd" => {
                let mut res: VecZnxDft<&mut [u8], BE> = VecZnxDft::from_data(w, nr, cols, size);
                let x: VecZnxDft<Vec<u8>, BE> = VecZnxDft::from_data(alloc_aligned::<u8>(na * cols * size * wp), na, cols, size);
                let y: VecZnxDft<Vec<u8>, BE> = VecZnxDft::from_data(alloc_aligned::<u8>(na * cols * size * wp), na, cols, size);
                for c in 0..cols {
                    module.vec_znx_dft_add_into(&mut res, c, &x, c, &y, c);
                }
            }
            "svp" => {
                let mut res: VecZnxDft<&mut [u8], BE> = VecZnxDft::from_data(w, nr, cols, size);
                let x: VecZnxDft<Vec<u8>, BE> = VecZnxDft::from_data(alloc_aligned::<u8>(na * cols * size * wp), na, cols, size);
                let mut sc = ScalarZnx::alloc(nm, 1);
                sc.raw_mut().iter_mut().enumerate().for_each(|(k, v)| *v = (k % 3) as i64 - 1);
                let mut pp = module.svp_ppol_alloc(1);
                module.svp_prepare(&mut pp, 0, &sc, 0);
                for c in 0..cols {
                    module.svp_apply_dft_to_dft(&mut res, c, &pp, 0, &x, c);
                }
            }
            // the operand `a` has `cols + extra` columns while the prepared matrix has `cols` input columns
            "vmp" => {
                let pm = module.vmp_pmat_alloc(size, cols, cols, size);
                let acols = cols + extra;
                // with extra > 0 the operand also has fewer limbs than the matrix has rows (a.size = 1): then
                // row_max = min(cols_in*rows, a.cols*a.size) exceeds the cols_in*min(a.size, rows) rows the temporary holds
                let asize = if extra > 0 { 1 } else { size };
                let x: VecZnxDft<Vec<u8>, BE> = VecZnxDft::from_data(alloc_aligned::<u8>(na * acols * asize * wp), na, acols, asize);
                let mut res: VecZnxDft<&mut [u8], BE> = VecZnxDft::from_data(w, nr, cols, size);
                module.vmp_apply_dft_to_dft(&mut res, &x, &pm, 0, scratch);
            }
            _ => return "bad-op".into(),
        }
    }
    format!("ok res={} scratch={}", rframe.verdict(), sframe.verdict())
}

fn prim(op: &str, ell: usize, r: usize, x: usize, y: usize) -> String {
    let meta = BbcMeta::<Primes30>::new();
    let xs: Vec<u32> = (0..x as u32).map(|k| k.wrapping_mul(2654435761) >> 3).collect();
    let ys: Vec<u32> = (0..y as u32).map(|k| k.wrapping_mul(40503) >> 2).collect();
    let mut rframe = Framed::new(8 * r);
    {
        let w: &mut [u64] = poulpy_hal::cast_mut::<u8, u64>(rframe.win());
        match op {
            "bbc" => <NTT120Avx as NttMulBbc>::ntt_mul_bbc(&meta, ell, w, &xs, &ys),
            "bbc1x2" => <NTT120Avx as NttMulBbc1ColX2>::ntt_mul_bbc_1col_x2(&meta, ell, w, &xs, &ys),
            "bbc2x2" => <NTT120Avx as NttMulBbc2ColsX2>::ntt_mul_bbc_2cols_x2(&meta, ell, w, &xs, &ys),
            _ => return "bad-op".into(),
        }
    }
    format!("ok res={} scratch=intact", rframe.verdict())
}

pub fn run(_args: &[String]) {
    std::panic::set_hook(Box::new(|_| {}));
    let stdin = std::io::stdin();
    let stdout = std::io::stdout();
    let mut out = stdout.lock();
    for line in stdin.lock().lines() {
        let line = line.unwrap();
        let t: Vec<&str> = line.split_whitespace().collect();
        if t.len() < 2 {
            continue;
        }
        let id = t[0];
        let g = |k: &str, d: usize| kv(&t, k).and_then(|x| x.parse().ok()).unwrap_or(d);
        let be = kv(&t, "be").unwrap_or("fft64avx").to_string();
        let op = kv(&t, "op").unwrap_or("").to_string();
        let (nm, nr, na, cols, size, extra) = (g("nm", 8), g("nr", 8), g("na", 8), g("cols", 1), g("size", 1), g("extra", 0));
        if t[1] == "prim" {
            let (ell, rr, x, y) = (g("ell", 1), g("res", 8), g("x", 16), g("y", 16));
            let r = std::panic::catch_unwind(|| prim(&op, ell, rr, x, y));
            let ans = r.unwrap_or_else(|e| format!("panic:{}", panic_class(&e)));
            writeln!(out, "{id} {ans}").unwrap();
            continue;
        }
        let r = std::panic::catch_unwind(|| match be.as_str() {
            "fft64ref" => mism::<FFT64Ref>(&op, nm, nr, na, cols, size, extra),
            "ntt120ref" => mism::<NTT120Ref>(&op, nm, nr, na, cols, size, extra),
            "fft64avx" => mism::<FFT64Avx>(&op, nm, nr, na, cols, size, extra),
            "ntt120avx" => mism::<NTT120Avx>(&op, nm, nr, na, cols, size, extra),
            _ => "bad-be".into(),
        });
        let ans = r.unwrap_or_else(|e| format!("panic:{}", panic_class(&e)));
        writeln!(out, "{id} {ans}").unwrap();
    }
    out.flush().unwrap();
}
