//! Helpers shared by the encryption-family harness commands (`enc`, `cmp`, `rnd`).
use poulpy_core::{Distribution, layouts::{GLWESecret, LWESecret}};
use poulpy_hal::{
    layouts::{ScalarZnx, VecZnx, ZnxInfos, ZnxView, ZnxViewMut},
    source::Source,
};

/// 32-byte seed from a 64-bit case seed (SplitMix64 expansion, fixed forever).
pub fn seed32(x: u64) -> [u8; 32] {
    let mut s = x;
    let mut out = [0u8; 32];
    for i in 0..4 {
        s = s.wrapping_add(0x9E3779B97F4A7C15);
        let mut z = s;
        z = (z ^ (z >> 30)).wrapping_mul(0xBF58476D1CE4E5B9);
        z = (z ^ (z >> 27)).wrapping_mul(0x94D049BB133111EB);
        z ^= z >> 31;
        out[8 * i..8 * i + 8].copy_from_slice(&z.to_le_bytes());
    }
    out
}

pub fn kv<'a>(toks: &'a [&'a str], key: &str) -> Option<&'a str> {
    toks.iter().find_map(|t| t.split_once('=').and_then(|(k, v)| if k == key { Some(v) } else { None }))
}
pub fn kv_us(toks: &[&str], key: &str) -> usize {
    kv(toks, key).and_then(|v| v.parse().ok()).unwrap_or(0)
}
pub fn kv_u64(toks: &[&str], key: &str) -> u64 {
    kv(toks, key).and_then(|v| v.parse().ok()).unwrap_or(0)
}
pub fn kv_f64(toks: &[&str], key: &str, dflt: f64) -> f64 {
    kv(toks, key).and_then(|v| v.parse().ok()).unwrap_or(dflt)
}

/// one column of a VecZnx: limbs separated by `|`, coefficients by `,`
pub fn show_col<D: poulpy_hal::layouts::DataRef>(v: &VecZnx<D>, col: usize) -> String {
    let mut s = String::new();
    for j in 0..v.size() {
        if j > 0 {
            s.push('|');
        }
        let l = v.at(col, j);
        for (i, x) in l.iter().enumerate() {
            if i > 0 {
                s.push(',');
            }
            s.push_str(&x.to_string());
        }
    }
    if s.is_empty() { "-".to_string() } else { s }
}

/// all columns, `;` between columns
pub fn show_vec<D: poulpy_hal::layouts::DataRef>(v: &VecZnx<D>) -> String {
    let cols: Vec<String> = (0..v.cols()).map(|c| show_col(v, c)).collect();
    if cols.is_empty() { "-".to_string() } else { cols.join(";") }
}

pub fn show_scalar(v: &ScalarZnx<Vec<u8>>) -> String {
    let cols: Vec<String> = (0..v.cols())
        .map(|c| v.at(c, 0).iter().map(|x| x.to_string()).collect::<Vec<_>>().join(","))
        .collect();
    if cols.is_empty() { "-".to_string() } else { cols.join(";") }
}

/// parse `a,b|c,d` into a column of a VecZnx (missing entries stay zero)
pub fn load_col(v: &mut VecZnx<Vec<u8>>, col: usize, s: &str) {
    if s == "-" || s.is_empty() {
        return;
    }
    for (j, limb) in s.split('|').enumerate() {
        if j >= v.size() {
            break;
        }
        let dst = v.at_mut(col, j);
        for (i, x) in limb.split(',').enumerate() {
            if i < dst.len() {
                dst[i] = x.parse::<i64>().unwrap();
            }
        }
    }
}

#[derive(Clone, Copy, Debug)]
pub enum Dist {
    TernaryProb(f64),
    TernaryHw(usize),
    BinaryProb(f64),
    BinaryHw(usize),
    BinaryBlock(usize),
    Zero,
}

/// `tp:0.5 | th:4 | bp:0.5 | bh:3 | bb:4 | z`
pub fn parse_dist(s: &str) -> Dist {
    let (k, p) = s.split_once(':').unwrap_or((s, "0"));
    match k {
        "tp" => Dist::TernaryProb(p.parse().unwrap()),
        "th" => Dist::TernaryHw(p.parse().unwrap()),
        "bp" => Dist::BinaryProb(p.parse().unwrap()),
        "bh" => Dist::BinaryHw(p.parse().unwrap()),
        "bb" => Dist::BinaryBlock(p.parse().unwrap()),
        _ => Dist::Zero,
    }
}

pub fn fill_glwe_secret(sk: &mut GLWESecret<Vec<u8>>, d: Dist, src: &mut Source) {
    match d {
        Dist::TernaryProb(p) => sk.fill_ternary_prob(p, src),
        Dist::TernaryHw(h) => sk.fill_ternary_hw(h, src),
        Dist::BinaryProb(p) => sk.fill_binary_prob(p, src),
        Dist::BinaryHw(h) => sk.fill_binary_hw(h, src),
        Dist::BinaryBlock(b) => sk.fill_binary_block(b, src),
        Dist::Zero => sk.fill_zero(),
    }
}

pub fn fill_lwe_secret(sk: &mut LWESecret<Vec<u8>>, d: Dist, src: &mut Source) {
    match d {
        Dist::TernaryProb(p) => sk.fill_ternary_prob(p, src),
        Dist::TernaryHw(h) => sk.fill_ternary_hw(h, src),
        Dist::BinaryProb(p) => sk.fill_binary_prob(p, src),
        Dist::BinaryHw(h) => sk.fill_binary_hw(h, src),
        Dist::BinaryBlock(b) => sk.fill_binary_block(b, src),
        Dist::Zero => sk.fill_zero(),
    }
}

/// The same public sampling calls `GLWESecret::fill_*` makes, on a plain `ScalarZnx` we can read
/// (the secret's own buffer is crate-private): column order 0..rank, one call per column.
pub fn replay_secret(n: usize, cols: usize, d: Dist, src: &mut Source) -> ScalarZnx<Vec<u8>> {
    let mut s = ScalarZnx::alloc(n, cols);
    for i in 0..cols {
        match d {
            Dist::TernaryProb(p) => s.fill_ternary_prob(i, p, src),
            Dist::TernaryHw(h) => s.fill_ternary_hw(i, h, src),
            Dist::BinaryProb(p) => s.fill_binary_prob(i, p, src),
            Dist::BinaryHw(h) => s.fill_binary_hw(i, h, src),
            Dist::BinaryBlock(b) => s.fill_binary_block(i, b, src),
            Dist::Zero => {}
        }
    }
    s
}

/// what `glwe_encrypt_pk` draws for `u` given the key's recorded distribution
pub fn replay_pk_u(n: usize, d: &Distribution, src: &mut Source) -> ScalarZnx<Vec<u8>> {
    let mut u = ScalarZnx::alloc(n, 1);
    match d {
        Distribution::TernaryFixed(hw) => u.fill_ternary_hw(0, *hw, src),
        Distribution::TernaryProb(p) => u.fill_ternary_prob(0, *p, src),
        Distribution::BinaryFixed(hw) => u.fill_binary_hw(0, *hw, src),
        Distribution::BinaryProb(p) => u.fill_binary_prob(0, *p, src),
        Distribution::BinaryBlock(b) => u.fill_binary_block(0, *b, src),
        Distribution::ZERO | Distribution::NONE => {}
    }
    u
}

pub fn panic_class(msg: &str) -> &'static str {
    let m = msg.to_ascii_lowercase();
    if m.contains("overflow") {
        "overflow"
    } else if m.contains("scratch") || m.contains("attempted to take") {
        "scratch"
    } else if m.contains("out of range") || m.contains("out of bounds") || m.contains("index") {
        "bounds"
    } else if m.contains("assert") || m.contains(">=") || m.contains("!=") || m.contains("==") {
        "assert"
    } else {
        "other"
    }
}

pub fn panic_msg(e: &Box<dyn std::any::Any + Send>) -> String {
    if let Some(s) = e.downcast_ref::<String>() {
        s.clone()
    } else if let Some(s) = e.downcast_ref::<&str>() {
        s.to_string()
    } else {
        String::new()
    }
}
