//! `pvh rndb` — randomness of key bundles and matrix-shaped keys (property C06, second part).
//!
//! Layouts: the core ones of `pvh rnd` (gglwe ggsw ksk atk tsk g2g, standard encryption) and the poulpy-bin-fhe bundles
//!   brk  : BlindRotationKey<CGGI>            (one GGSW per LWE coefficient)
//!   brkc : BlindRotationKeyCompressed<CGGI>  (decompressed GGSW by GGSW; stored seeds reported)
//!   cbt  : CircuitBootstrappingKey<CGGI>     sub-keys atk[p] (one per trace Galois element), brk, tsk — each with its OWN k
//!   bdd  : BDDKey<CGGI>                      sub-keys ks_glwe (optional), ks_lwe, cbt.atk[p], cbt.brk, cbt.tsk — each with its own k
//! The bundles' fields are crate-private: the sub-keys are read back from the canonical serialisation
//! (`WriterTo`, whose field order is public) into stand-alone objects allocated with the sub-key's layout.
//!
//! Request:  `id <op> layout=… be=… n= nl= bs= rank= b= kbrk= katk= ktsk= kksg= kksl= ksg=<0|1> sxs= sxa= sxe= [reps=] [sig=]`
//!           `nzt=<k>` (self-test of the check only): the tsk sub-key is encrypted with NoiseInfos of precision k instead of ktsk
//!           (core layouts: the keys of `pvh rnd`)
//!   brk_keys   : C01 key-generation tie of the standard blind-rotation key (secrets, mask words, errors, all cells in loop order)
//!   brkc_check : C19 tie of the compressed blind-rotation key (same answer fields as `pvh cmp`)
//!   bstats : per sub-key group `g=<name>:<k>:<scale>:<limb>:<m>:<sum>:<sumsq>:<maxabs>` pooled over `reps` bundles — integer errors
//!            read off the exact phase of every cell under the clear secret of that sub-key (i128 arithmetic)
//!   bmasks : `words=<raw u64 of Source::new(seed32(sxa))>` and per group in consumption order
//!            `g=<name>:<b>:<n>:<size>:<rank>:<cells>:<mask coefficients …>` (standard bundles only)
//!   dist   : per object `cols=<mask columns> dup=<-|i:j first pair of equal mask columns> mh=<64-bit hash per mask column>
//!            sd=<stored seeds, hex, compressed objects> hist=<16 bucket counts of the top 4 bits of every mask digit> b=<radix>`
use std::io::{BufRead, Read, Write};

use crate::cmd_rnd::{Cell, cell_of, errors_of, mask_words, std_cells};
use crate::enc_common::*;
use poulpy_bin_fhe::{
    bdd_arithmetic::{BDDEncryptionInfos, BDDKey, BDDKeyEncryptSk, BDDKeyLayout},
    blind_rotation::{
        BlindRotationKey, BlindRotationKeyCompressed, BlindRotationKeyCompressedEncryptSk, BlindRotationKeyEncryptSk, BlindRotationKeyLayout,
        CGGI,
    },
    circuit_bootstrapping::{
        CircuitBootstrappingEncryptionInfos, CircuitBootstrappingKey, CircuitBootstrappingKeyEncryptSk, CircuitBootstrappingKeyLayout,
    },
};
use poulpy_core::layouts::{
    Base2K, Degree, Dnum, Dsize, GGLWE, GGLWEInfos, GGLWEToGGSWKey, GGLWEToGGSWKeyLayout, GGLWEToRef, GGSW, GGSWCompressed, GGSWCompressedSeed,
    GGSWDecompress, GLWEAutomorphismKey, GLWEAutomorphismKeyLayout, GLWESecret, GLWESecretPreparedFactory, GLWESwitchingKey,
    GLWESwitchingKeyLayout, GLWEToLWEKey, GLWEToLWEKeyLayout, LWESecret, Rank, TorusPrecision,
};
use poulpy_cpu_avx::{FFT64Avx, NTT120Avx};
use poulpy_cpu_ref::{FFT64Ref, NTT120Ref};
use poulpy_hal::{
    api::{ModuleNew, ScratchOwnedAlloc, ScratchOwnedBorrow, VecZnxAutomorphism},
    layouts::{GaloisElement, Module, NoiseInfos, ReaderFrom, ScalarZnx, ScratchOwned, WriterTo, ZnxInfos, ZnxView, ZnxViewMut},
    source::Source,
};

/// the cells of one sub-key, with what is needed to decrypt them and to replay their masks
pub struct Group {
    pub name: String,
    pub b: usize,
    pub k: usize,
    pub rank: usize,
    pub cells: Vec<Cell>,
    pub sk: Vec<Vec<i64>>,
    pub seeds: Vec<[u8; 32]>,
}

fn read_u64<R: Read>(r: &mut R) -> u64 {
    let mut b = [0u8; 8];
    r.read_exact(&mut b).unwrap();
    u64::from_le_bytes(b)
}

fn gglwe_cells(g: &GGLWE<&[u8]>) -> Vec<Cell> {
    let rin = g.rank_in().as_usize();
    let dnum = g.dnum().as_usize();
    let dsize = g.dsize().as_usize();
    let mut v = Vec::new();
    for col in 0..rin {
        for row in 0..dnum {
            v.push(cell_of(&g.at(row, col), (dsize - 1) + row * dsize));
        }
    }
    v
}

fn ggsw_cells<D: poulpy_hal::layouts::DataRef>(g: &GGSW<D>, rank: usize, dnum: usize) -> Vec<Cell> {
    let mut v = Vec::new();
    for row in 0..dnum {
        for col in 0..rank + 1 {
            v.push(cell_of(&g.at(row, col), row));
        }
    }
    v
}

macro_rules! bundle_backend {
    ($fname:ident, $be:ty) => {
        fn $fname(lay: &str, t: &[&str], sxs: u64, sxa: u64, sxe: u64) -> Vec<Group> {
            type BE = $be;
            let n = kv_us(t, "n");
            let nl = kv_us(t, "nl").max(1);
            let bs = kv_us(t, "bs").max(1);
            let rank = kv_us(t, "rank").max(1);
            let b = kv_us(t, "b");
            let sig = kv_f64(t, "sig", 3.2);
            let (kbrk, katk, ktsk, kksg, kksl) = (kv_us(t, "kbrk"), kv_us(t, "katk"), kv_us(t, "ktsk"), kv_us(t, "kksg"), kv_us(t, "kksl"));
            let ksg = kv_us(t, "ksg") == 1;
            let rank_ks = kv_us(t, "rankks").max(1);
            let dn = |k: usize| (k.div_ceil(b) - 1).max(1);
            let module: Module<BE> = Module::<BE>::new(n as u64);
            let mut scratch: ScratchOwned<BE> = ScratchOwned::alloc(1 << 25);
            let (deg, bk) = (Degree(n as u32), Base2K(b as u32));
            let noise = |k: usize| NoiseInfos::new(k, sig, 6.0 * sig).unwrap();
            // self-test hook of the check: encrypt the tensor-switching key with another precision's noise (`nzt=<k>`)
            let ktsk_noise = if kv(t, "nzt").is_some() { kv_us(t, "nzt") } else { ktsk };

            // secrets (each from its own source so that they can be replayed)
            let mut sk_glwe = GLWESecret::alloc(deg, Rank(rank as u32));
            sk_glwe.fill_ternary_prob(0.5, &mut Source::new(seed32(sxs)));
            let sk_glwe_vis = replay_secret(n, rank, Dist::TernaryProb(0.5), &mut Source::new(seed32(sxs)));
            let mut sk_lwe = LWESecret::alloc(Degree(nl as u32));
            sk_lwe.fill_binary_block(bs, &mut Source::new(seed32(sxs ^ 0x1111)));
            let mut skp = module.glwe_secret_prepared_alloc(Rank(rank as u32));
            module.glwe_secret_prepare(&mut skp, &sk_glwe);
            let cols_of = |s: &ScalarZnx<Vec<u8>>| -> Vec<Vec<i64>> { (0..s.cols()).map(|i| s.at(i, 0).to_vec()).collect() };
            let sk_cols = cols_of(&sk_glwe_vis);
            let auto_cols = |p: i64, src: &ScalarZnx<Vec<u8>>| -> Vec<Vec<i64>> {
                let mut o = ScalarZnx::alloc(n, src.cols());
                for i in 0..src.cols() {
                    module.vec_znx_automorphism(p, &mut o.as_vec_znx_mut(), i, &src.as_vec_znx(), i);
                }
                cols_of(&o)
            };

            let brk_layout = BlindRotationKeyLayout {
                n_glwe: deg,
                n_lwe: Degree(nl as u32),
                base2k: bk,
                k: TorusPrecision(kbrk as u32),
                dnum: Dnum(dn(kbrk) as u32),
                rank: Rank(rank as u32),
            };
            let atk_layout = GLWEAutomorphismKeyLayout {
                n: deg,
                base2k: bk,
                k: TorusPrecision(katk as u32),
                dnum: Dnum(dn(katk) as u32),
                dsize: Dsize(1),
                rank: Rank(rank as u32),
            };
            let tsk_layout = GGLWEToGGSWKeyLayout {
                n: deg,
                base2k: bk,
                k: TorusPrecision(ktsk as u32),
                dnum: Dnum(dn(ktsk) as u32),
                dsize: Dsize(1),
                rank: Rank(rank as u32),
            };
            let cbt_layout = CircuitBootstrappingKeyLayout { brk_layout, atk_layout, tsk_layout };
            let mut xe = Source::new(seed32(sxe));
            let mut xa = Source::new(seed32(sxa));
            let mut groups: Vec<Group> = Vec::new();

            // reads a serialised CircuitBootstrappingKey (brk, atk map sorted by Galois element, tsk) into groups in ENCRYPTION order
            let read_cbt = |r: &mut &[u8], groups: &mut Vec<Group>| {
                let _dist = read_u64(r);
                let len = read_u64(r) as usize;
                let mut brk_cells = Vec::new();
                for _ in 0..len {
                    let mut g = GGSW::alloc_from_infos(&brk_layout);
                    g.read_from(r).unwrap();
                    brk_cells.extend(ggsw_cells(&g, rank, dn(kbrk)));
                }
                let natk = read_u64(r) as usize;
                for _ in 0..natk {
                    let p = read_u64(r) as i64;
                    let mut a = GLWEAutomorphismKey::alloc_from_infos(&atk_layout);
                    a.read_from(r).unwrap();
                    groups.push(Group {
                        name: format!("atk[{p}]"),
                        b,
                        k: katk,
                        rank,
                        cells: gglwe_cells(&a.to_ref()),
                        sk: auto_cols(module.galois_element_inv(p), &sk_glwe_vis),
                        seeds: vec![],
                    });
                }
                groups.push(Group { name: "brk".into(), b, k: kbrk, rank, cells: brk_cells, sk: sk_cols.clone(), seeds: vec![] });
                let mut tk = GGLWEToGGSWKey::alloc_from_infos(&tsk_layout);
                tk.read_from(r).unwrap();
                let mut tc = Vec::new();
                for i in 0..rank {
                    tc.extend(gglwe_cells(&tk.at(i).to_ref()));
                }
                groups.push(Group { name: "tsk".into(), b, k: ktsk, rank, cells: tc, sk: sk_cols.clone(), seeds: vec![] });
            };

            match lay {
                "brk" => {
                    let mut key = BlindRotationKey::<Vec<u8>, CGGI>::alloc(&brk_layout);
                    module.blind_rotation_key_encrypt_sk(&mut key, &skp, &sk_lwe, &noise(kbrk), &mut xe, &mut xa, scratch.borrow());
                    let mut bytes = Vec::new();
                    key.write_to(&mut bytes).unwrap();
                    let mut r: &[u8] = &bytes;
                    let _ = read_u64(&mut r);
                    let len = read_u64(&mut r) as usize;
                    let mut cells = Vec::new();
                    for _ in 0..len {
                        let mut g = GGSW::alloc_from_infos(&brk_layout);
                        g.read_from(&mut r).unwrap();
                        cells.extend(ggsw_cells(&g, rank, dn(kbrk)));
                    }
                    assert!(r.is_empty());
                    groups.push(Group { name: "brk".into(), b, k: kbrk, rank, cells, sk: sk_cols.clone(), seeds: vec![] });
                }
                "brkc" => {
                    let mut key = BlindRotationKeyCompressed::<Vec<u8>, CGGI>::alloc(&brk_layout);
                    module.blind_rotation_key_compressed_encrypt_sk(&mut key, &skp, &sk_lwe, seed32(sxa), &noise(kbrk), &mut xe, scratch.borrow());
                    let mut bytes = Vec::new();
                    key.write_to(&mut bytes).unwrap();
                    let mut r: &[u8] = &bytes;
                    let _ = read_u64(&mut r);
                    let len = read_u64(&mut r) as usize;
                    let mut cells = Vec::new();
                    let mut seeds = Vec::new();
                    for _ in 0..len {
                        let mut c = GGSWCompressed::alloc_from_infos(&brk_layout);
                        c.read_from(&mut r).unwrap();
                        seeds.extend(c.seed().iter().copied());
                        let mut g = GGSW::alloc_from_infos(&brk_layout);
                        module.decompress_ggsw(&mut g, &c);
                        cells.extend(ggsw_cells(&g, rank, dn(kbrk)));
                    }
                    assert!(r.is_empty());
                    groups.push(Group { name: "brkc".into(), b, k: kbrk, rank, cells, sk: sk_cols.clone(), seeds });
                }
                "cbt" => {
                    let enc = CircuitBootstrappingEncryptionInfos { brk: noise(kbrk), atk: noise(katk), tsk: noise(ktsk_noise) };
                    let mut key = CircuitBootstrappingKey::<Vec<u8>, CGGI>::alloc_from_infos(&cbt_layout);
                    module.circuit_bootstrapping_key_encrypt_sk(&mut key, &sk_lwe, &sk_glwe, &enc, &mut xe, &mut xa, scratch.borrow());
                    let mut bytes = Vec::new();
                    key.write_to(&mut bytes).unwrap();
                    let mut r: &[u8] = &bytes;
                    read_cbt(&mut r, &mut groups);
                    assert!(r.is_empty());
                }
                "bdd" => {
                    let ks_glwe_layout = if ksg {
                        Some(GLWESwitchingKeyLayout {
                            n: deg,
                            base2k: bk,
                            k: TorusPrecision(kksg as u32),
                            rank_in: Rank(rank as u32),
                            rank_out: Rank(rank_ks as u32),
                            dnum: Dnum(dn(kksg) as u32),
                            dsize: Dsize(1),
                        })
                    } else {
                        None
                    };
                    let rin_lwe = if ksg { rank_ks } else { rank };
                    let ks_lwe_layout = GLWEToLWEKeyLayout {
                        n: deg,
                        base2k: bk,
                        k: TorusPrecision(kksl as u32),
                        rank_in: Rank(rin_lwe as u32),
                        dnum: Dnum(dn(kksl) as u32),
                    };
                    let layout = BDDKeyLayout { cbt_layout, ks_glwe_layout, ks_lwe_layout };
                    let enc = BDDEncryptionInfos {
                        cbt: CircuitBootstrappingEncryptionInfos { brk: noise(kbrk), atk: noise(katk), tsk: noise(ktsk_noise) },
                        ks_glwe: if ksg { Some(noise(kksg)) } else { None },
                        ks_lwe: noise(kksl),
                    };
                    let mut key = BDDKey::<Vec<u8>, CGGI>::alloc_from_infos(&layout);
                    module.bdd_key_encrypt_sk(&mut key, &sk_lwe, &sk_glwe, &enc, &mut xe, &mut xa, scratch.borrow());
                    // clear secrets of the two switching keys
                    let sk_out_vis = if ksg { replay_secret(n, rank_ks, Dist::TernaryProb(0.5), &mut Source::new(seed32(sxe))) } else { ScalarZnx::alloc(n, 1) };
                    let mut lwe_pad = ScalarZnx::alloc(n, 1);
                    lwe_pad.at_mut(0, 0)[..nl].copy_from_slice(sk_lwe.raw());
                    let sk_lwe_as_glwe = auto_cols(-1, &lwe_pad);
                    let mut bytes = Vec::new();
                    key.write_to(&mut bytes).unwrap();
                    let mut r: &[u8] = &bytes;
                    let mut cbt_groups = Vec::new();
                    read_cbt(&mut r, &mut cbt_groups);
                    let mut tag = [0u8; 1];
                    r.read_exact(&mut tag).unwrap();
                    if tag[0] == 1 {
                        let mut ks = GLWESwitchingKey::alloc_from_infos(ks_glwe_layout.as_ref().unwrap());
                        ks.read_from(&mut r).unwrap();
                        groups.push(Group { name: "ks_glwe".into(), b, k: kksg, rank: rank_ks, cells: gglwe_cells(&ks.to_ref()), sk: cols_of(&sk_out_vis), seeds: vec![] });
                    }
                    let mut kl = GLWEToLWEKey::alloc_from_infos(&ks_lwe_layout);
                    kl.read_from(&mut r).unwrap();
                    assert!(r.is_empty());
                    groups.push(Group { name: "ks_lwe".into(), b, k: kksl, rank: 1, cells: gglwe_cells(&kl.to_ref()), sk: sk_lwe_as_glwe, seeds: vec![] });
                    groups.extend(cbt_groups);
                }
                _ => {}
            }
            groups
        }
    };
}

bundle_backend!(bundle_fft64ref, FFT64Ref);
bundle_backend!(bundle_ntt120ref, NTT120Ref);
bundle_backend!(bundle_fft64avx, FFT64Avx);
bundle_backend!(bundle_ntt120avx, NTT120Avx);


/// C19 tie for the compressed blind-rotation key: decompression = standard encryption, GGSW by GGSW, cell by cell
macro_rules! brkc_backend {
    ($fname:ident, $be:ty) => {
        fn $fname(t: &[&str]) -> String {
            type BE = $be;
            let n = kv_us(t, "n");
            let nl = kv_us(t, "nl").max(1);
            let bs = kv_us(t, "bs").max(1);
            let rank = kv_us(t, "rank").max(1);
            let b = kv_us(t, "b");
            let kbrk = kv_us(t, "kbrk");
            let (sxs, sxa, sxe) = (kv_u64(t, "sxs"), kv_u64(t, "sxa"), kv_u64(t, "sxe"));
            let dnum = (kbrk.div_ceil(b) - 1).max(1);
            let size = kbrk.div_ceil(b);
            let module: Module<BE> = Module::<BE>::new(n as u64);
            let mut scratch: ScratchOwned<BE> = ScratchOwned::alloc(1 << 24);
            let deg = Degree(n as u32);
            let noise = NoiseInfos::new(kbrk, 3.2, 19.2).unwrap();
            let mut sk_glwe = GLWESecret::alloc(deg, Rank(rank as u32));
            sk_glwe.fill_ternary_prob(0.5, &mut Source::new(seed32(sxs)));
            let sk_vis = replay_secret(n, rank, Dist::TernaryProb(0.5), &mut Source::new(seed32(sxs)));
            let sk_cols: Vec<Vec<i64>> = (0..rank).map(|i| sk_vis.at(i, 0).to_vec()).collect();
            let mut sk_lwe = LWESecret::alloc(Degree(nl as u32));
            sk_lwe.fill_binary_block(bs, &mut Source::new(seed32(sxs ^ 0x1111)));
            let mut skp = module.glwe_secret_prepared_alloc(Rank(rank as u32));
            module.glwe_secret_prepare(&mut skp, &sk_glwe);
            let layout = BlindRotationKeyLayout {
                n_glwe: deg,
                n_lwe: Degree(nl as u32),
                base2k: Base2K(b as u32),
                k: TorusPrecision(kbrk as u32),
                dnum: Dnum(dnum as u32),
                rank: Rank(rank as u32),
            };
            // compressed key, its serialisation, a deserialised copy
            let mut kc = BlindRotationKeyCompressed::<Vec<u8>, CGGI>::alloc(&layout);
            module.blind_rotation_key_compressed_encrypt_sk(&mut kc, &skp, &sk_lwe, seed32(sxa), &noise, &mut Source::new(seed32(sxe)), scratch.borrow());
            let mut bytes = Vec::new();
            kc.write_to(&mut bytes).unwrap();
            let mut kc2 = BlindRotationKeyCompressed::<Vec<u8>, CGGI>::alloc(&layout);
            kc2.read_from(&mut &bytes[..]).unwrap();
            let mut bytes2 = Vec::new();
            kc2.write_to(&mut bytes2).unwrap();
            let mut ser_ok = bytes2 == bytes && kc2 == kc;
            // standard key with the same error stream
            let mut ks = BlindRotationKey::<Vec<u8>, CGGI>::alloc(&layout);
            module.blind_rotation_key_encrypt_sk(&mut ks, &skp, &sk_lwe, &noise, &mut Source::new(seed32(sxe)), &mut Source::new(seed32(sxa ^ 0x77)), scratch.borrow());
            let mut sb = Vec::new();
            ks.write_to(&mut sb).unwrap();
            let (mut r, mut r2, mut rs): (&[u8], &[u8], &[u8]) = (&bytes, &bytes2, &sb);
            for rr in [&mut r, &mut r2, &mut rs] {
                let _ = read_u64(rr);
                let _ = read_u64(rr);
            }
            let cols = rank + 1;
            let mut top = Source::new(seed32(sxa));
            let (mut nc, mut nm, mut nd, mut sw) = (0, 0, 0, true);
            // data for the Lean model (pdriver enc cmp_brk)
            let wstr = |w: &[u64]| -> String { w.iter().map(|x| x.to_string()).collect::<Vec<_>>().join(",") };
            let wof = |seed: [u8; 32], count: usize| -> Vec<u64> {
                let mut s = Source::new(seed);
                (0..count).map(|_| s.next_i64() as u64).collect()
            };
            let (mut m_gseeds, mut m_sub, mut m_seeds, mut m_child, mut m_e, mut m_obj): (Vec<String>, Vec<String>, Vec<String>, Vec<String>, Vec<String>, Vec<String>) =
                (vec![], vec![], vec![], vec![], vec![], vec![]);
            let mut xe_m = Source::new(seed32(sxe));
            for _ in 0..nl {
                let mut c = GGSWCompressed::alloc_from_infos(&layout);
                c.read_from(&mut r).unwrap();
                let mut c2 = GGSWCompressed::alloc_from_infos(&layout);
                c2.read_from(&mut r2).unwrap();
                let mut gs = GGSW::alloc_from_infos(&layout);
                gs.read_from(&mut rs).unwrap();
                let mut g = GGSW::alloc_from_infos(&layout);
                module.decompress_ggsw(&mut g, &c);
                let mut g2 = GGSW::alloc_from_infos(&layout);
                module.decompress_ggsw(&mut g2, &c2);
                ser_ok &= g == g2;
                // seed of GGSW i = i-th new_seed of Source::new(seed_xa); its cells branch Source::new(seed_i) row-major
                let mut w = [0u8; 32];
                for q in 0..4 {
                    w[8 * q..8 * q + 8].copy_from_slice(&(top.next_i64() as u64).to_le_bytes());
                }
                let mut inner = Source::new(w);
                m_gseeds.push(wstr(&(0..4).map(|q| u64::from_le_bytes(w[8 * q..8 * q + 8].try_into().unwrap())).collect::<Vec<_>>()));
                m_sub.push(wstr(&wof(w, 4 * dnum * cols)));
                for row in 0..dnum {
                    for col in 0..cols {
                        let mut sd = [0u8; 32];
                        for q in 0..4 {
                            sd[8 * q..8 * q + 8].copy_from_slice(&(inner.next_i64() as u64).to_le_bytes());
                        }
                        let stored = c.seed()[row * cols + col];
                        if stored != sd {
                            sw = false;
                        }
                        let cd = g.at(row, col);
                        let cs = gs.at(row, col);
                        nc += 1;
                        // masks from the stored seed, column order 1..rank
                        let mut tmp = poulpy_hal::layouts::VecZnx::alloc(n, cols, size);
                        let mut s = Source::new(stored);
                        for i in 1..cols {
                            poulpy_hal::api::VecZnxFillUniform::vec_znx_fill_uniform(&module, b, &mut tmp, i, &mut s);
                        }
                        let ok = (1..cols).all(|i| (0..size).all(|j| tmp.at(i, j) == cd.data().at(i, j)));
                        nm += ok as i32;
                        let e1 = errors_of(&cell_of(&cd, usize::MAX), &sk_cols, b);
                        let e2 = errors_of(&cell_of(&cs, usize::MAX), &sk_cols, b);
                        nd += (e1 == e2) as i32;
                        m_seeds.push(wstr(&(0..4).map(|q| u64::from_le_bytes(stored[8 * q..8 * q + 8].try_into().unwrap())).collect::<Vec<_>>()));
                        m_child.push(wstr(&wof(stored, rank * size * n)));
                        let mut ev = poulpy_hal::layouts::VecZnx::alloc(n, 1, size);
                        poulpy_hal::api::VecZnxAddNormal::vec_znx_add_normal(&module, b, &mut ev, 0, noise, &mut xe_m);
                        m_e.push(show_vec(&ev));
                        m_obj.push(show_vec(cd.data()));
                    }
                }
            }
            let sklwe: Vec<String> = sk_lwe.data().at(0, 0).iter().map(|x| x.to_string()).collect();
            format!(
                "ok cells={nc} masks={nm} dec={nd} cellenc=-1 ser={} seedwords={} dnum={dnum} size={size} sk={} sklwe={} top={} gseeds={} sub={} seeds={} child={} e={} obj={}",
                ser_ok as i32,
                sw as i32,
                show_scalar(&sk_vis),
                sklwe.join(","),
                wstr(&wof(seed32(sxa), 4 * nl)),
                m_gseeds.join(";"),
                m_sub.join(";"),
                m_seeds.join(";"),
                m_child.join(";"),
                m_e.join(";"),
                m_obj.join("/")
            )
        }
    };
}

brkc_backend!(brkc_fft64ref, FFT64Ref);
brkc_backend!(brkc_ntt120ref, NTT120Ref);
brkc_backend!(brkc_fft64avx, FFT64Avx);
brkc_backend!(brkc_ntt120avx, NTT120Avx);

/// C01 key-generation tie for the standard blind-rotation key: everything the Lean model needs to recompute it bit for bit
macro_rules! brkkeys_backend {
    ($fname:ident, $be:ty) => {
        fn $fname(t: &[&str]) -> String {
            type BE = $be;
            let n = kv_us(t, "n");
            let nl = kv_us(t, "nl").max(1);
            let bs = kv_us(t, "bs").max(1);
            let rank = kv_us(t, "rank").max(1);
            let b = kv_us(t, "b");
            let kbrk = kv_us(t, "kbrk");
            let (sxs, sxa, sxe) = (kv_u64(t, "sxs"), kv_u64(t, "sxa"), kv_u64(t, "sxe"));
            let dnum = (kbrk.div_ceil(b) - 1).max(1);
            let size = kbrk.div_ceil(b);
            let module: Module<BE> = Module::<BE>::new(n as u64);
            let mut scratch: ScratchOwned<BE> = ScratchOwned::alloc(1 << 24);
            let deg = Degree(n as u32);
            let noise = NoiseInfos::new(kbrk, 3.2, 19.2).unwrap();
            let mut sk_glwe = GLWESecret::alloc(deg, Rank(rank as u32));
            sk_glwe.fill_ternary_prob(0.5, &mut Source::new(seed32(sxs)));
            let sk_vis = replay_secret(n, rank, Dist::TernaryProb(0.5), &mut Source::new(seed32(sxs)));
            let mut sk_lwe = LWESecret::alloc(Degree(nl as u32));
            sk_lwe.fill_binary_block(bs, &mut Source::new(seed32(sxs ^ 0x1111)));
            let mut skp = module.glwe_secret_prepared_alloc(Rank(rank as u32));
            module.glwe_secret_prepare(&mut skp, &sk_glwe);
            let layout = BlindRotationKeyLayout {
                n_glwe: deg,
                n_lwe: Degree(nl as u32),
                base2k: Base2K(b as u32),
                k: TorusPrecision(kbrk as u32),
                dnum: Dnum(dnum as u32),
                rank: Rank(rank as u32),
            };
            let mut key = BlindRotationKey::<Vec<u8>, CGGI>::alloc(&layout);
            module.blind_rotation_key_encrypt_sk(&mut key, &skp, &sk_lwe, &noise, &mut Source::new(seed32(sxe)), &mut Source::new(seed32(sxa)), scratch.borrow());
            let mut bytes = Vec::new();
            key.write_to(&mut bytes).unwrap();
            let mut r: &[u8] = &bytes;
            let _ = read_u64(&mut r);
            let len = read_u64(&mut r) as usize;
            let cols = rank + 1;
            let mut cells: Vec<String> = Vec::new();
            for _ in 0..len {
                let mut g = GGSW::alloc_from_infos(&layout);
                g.read_from(&mut r).unwrap();
                for row in 0..dnum {
                    for col in 0..cols {
                        cells.push(show_vec(g.at(row, col).data()));
                    }
                }
            }
            let total = cells.len() * rank * size * n;
            let mut s = Source::new(seed32(sxa));
            let words: Vec<String> = (0..total).map(|_| (s.next_i64() as u64).to_string()).collect();
            let mut xe3 = Source::new(seed32(sxe));
            let errs: Vec<String> = (0..cells.len())
                .map(|_| {
                    let mut ev = poulpy_hal::layouts::VecZnx::alloc(n, 1, size);
                    poulpy_hal::api::VecZnxAddNormal::vec_znx_add_normal(&module, b, &mut ev, 0, noise, &mut xe3);
                    show_vec(&ev)
                })
                .collect();
            let sklwe: Vec<String> = sk_lwe.data().at(0, 0).iter().map(|x| x.to_string()).collect();
            format!(
                "ok cells={} size={size} dnum={dnum} sk={} sklwein={} words={} e={} obj={}",
                cells.len(),
                show_scalar(&sk_vis),
                sklwe.join(","),
                words.join(","),
                errs.join(";"),
                cells.join("/")
            )
        }
    };
}

brkkeys_backend!(brkkeys_fft64ref, FFT64Ref);
brkkeys_backend!(brkkeys_ntt120ref, NTT120Ref);
brkkeys_backend!(brkkeys_fft64avx, FFT64Avx);
brkkeys_backend!(brkkeys_ntt120avx, NTT120Avx);

fn groups_of(be: &str, lay: &str, t: &[&str], sxs: u64, sxa: u64, sxe: u64) -> Vec<Group> {
    if matches!(lay, "brk" | "brkc" | "cbt" | "bdd") {
        return match be {
            "ntt120ref" => bundle_ntt120ref(lay, t, sxs, sxa, sxe),
            "fft64avx" => bundle_fft64avx(lay, t, sxs, sxa, sxe),
            "ntt120avx" => bundle_ntt120avx(lay, t, sxs, sxa, sxe),
            _ => bundle_fft64ref(lay, t, sxs, sxa, sxe),
        };
    }
    // core layouts, standard encryption (pvh rnd)
    let (cells, sk) = std_cells(be, lay, t, sxs, sxa, sxe, 1);
    vec![Group { name: lay.to_string(), b: kv_us(t, "b"), k: kv_us(t, "kxe"), rank: kv_us(t, "rank"), cells, sk, seeds: vec![] }]
}

pub fn fnv(xs: &[i64]) -> u64 {
    let mut h: u64 = 0xcbf29ce484222325;
    for x in xs {
        for byte in x.to_le_bytes() {
            h ^= byte as u64;
            h = h.wrapping_mul(0x100000001b3);
        }
    }
    h
}

/// mask columns of a cell (each: all limbs), hashes, first exact duplicate, histogram of the top 4 bits of every digit
pub fn dist_report(cells: &[&Cell], b: usize) -> String {
    let mut cols: Vec<Vec<i64>> = Vec::new();
    for c in cells {
        for i in 1..c.cols {
            let mut v = Vec::with_capacity(c.size * c.n);
            for j in 0..c.size {
                v.extend_from_slice(c.at(i, j));
            }
            cols.push(v);
        }
    }
    let hashes: Vec<u64> = cols.iter().map(|c| fnv(c)).collect();
    let mut order: Vec<usize> = (0..cols.len()).collect();
    order.sort_by_key(|&i| hashes[i]);
    let mut dup = "-".to_string();
    for w in order.windows(2) {
        if hashes[w[0]] == hashes[w[1]] && cols[w[0]] == cols[w[1]] {
            dup = format!("{}:{}", w[0].min(w[1]), w[0].max(w[1]));
            break;
        }
    }
    let shift = if b > 4 { b - 4 } else { 0 };
    let buckets = 1usize << b.min(4);
    let mut hist = vec![0u64; buckets];
    let half = 1i64 << (b - 1);
    let mut out_of_range = 0u64;
    for c in cols.iter() {
        for x in c {
            let u = x + half;
            if u < 0 || u >= (1i64 << b) {
                out_of_range += 1;
            } else {
                hist[(u >> shift) as usize] += 1;
            }
        }
    }
    format!(
        "cols={} dup={} oor={} mh={} hist={}",
        cols.len(),
        dup,
        out_of_range,
        if hashes.is_empty() { "-".to_string() } else { hashes.iter().map(|h| h.to_string()).collect::<Vec<_>>().join(",") },
        hist.iter().map(|h| h.to_string()).collect::<Vec<_>>().join(",")
    )
}

fn run_case(op: &str, t: &[&str]) -> String {
    let be = kv(t, "be").unwrap_or("fft64ref").to_string();
    let lay = kv(t, "layout").unwrap_or("cbt").to_string();
    let (sxs, sxa, sxe) = (kv_u64(t, "sxs"), kv_u64(t, "sxa"), kv_u64(t, "sxe"));
    match op {
        "brk_keys" => match be.as_str() {
            "ntt120ref" => brkkeys_ntt120ref(t),
            "fft64avx" => brkkeys_fft64avx(t),
            "ntt120avx" => brkkeys_ntt120avx(t),
            _ => brkkeys_fft64ref(t),
        },
        "brkc_check" => match be.as_str() {
            "ntt120ref" => brkc_ntt120ref(t),
            "fft64avx" => brkc_fft64avx(t),
            "ntt120avx" => brkc_ntt120avx(t),
            _ => brkc_fft64ref(t),
        },
        "bstats" => {
            let reps = kv_us(t, "reps").max(1);
            // name -> (k, b, m, sum, sumsq, maxabs), in first-seen order
            let mut acc: Vec<(String, usize, usize, u64, i128, i128, i128)> = Vec::new();
            for r in 0..reps as u64 {
                let groups = groups_of(&be, &lay, t, sxs.wrapping_add(r), sxa.wrapping_add(7 * r), sxe.wrapping_add(13 * r));
                for g in groups.iter() {
                    // automorphism keys are pooled into one sub-key "atk"
                    let name = if g.name.starts_with("atk[") { "atk".to_string() } else { g.name.clone() };
                    let limb = g.k.div_ceil(g.b) - 1;
                    let idx = match acc.iter().position(|a| a.0 == name) {
                        Some(i) => i,
                        None => {
                            acc.push((name.clone(), g.k, g.b, 0, 0, 0, 0));
                            acc.len() - 1
                        }
                    };
                    for c in g.cells.iter() {
                        if c.ptlimb != usize::MAX && c.ptlimb >= limb {
                            continue;
                        }
                        // the error must stay below half a unit of the plaintext limb to be separable from it
                        let scale = (limb + 1) * g.b - g.k;
                        if c.ptlimb != usize::MAX && (scale + 5) > g.b * (limb - c.ptlimb) - 1 {
                            continue;
                        }
                        for e in errors_of(c, &g.sk, g.b) {
                            let e = e >> (g.b * (c.size - 1 - limb));
                            acc[idx].3 += 1;
                            acc[idx].4 += e;
                            acc[idx].5 += e * e;
                            acc[idx].6 = acc[idx].6.max(e.abs());
                        }
                    }
                }
            }
            let parts: Vec<String> = acc
                .iter()
                .map(|(name, k, b, m, s1, s2, mx)| {
                    let limb = k.div_ceil(*b) - 1;
                    format!("g={name}:{k}:{}:{limb}:{m}:{s1}:{s2}:{mx}", (limb + 1) * b - k)
                })
                .collect();
            format!("ok {}", parts.join(" "))
        }
        "bmasks" => {
            let groups = groups_of(&be, &lay, t, sxs, sxa, sxe);
            let total: usize = groups.iter().map(|g| g.cells.iter().map(|c| mask_words(c).len()).sum::<usize>()).sum();
            let mut s = Source::new(seed32(sxa));
            let words: Vec<String> = (0..total).map(|_| (s.next_i64() as u64).to_string()).collect();
            let parts: Vec<String> = groups
                .iter()
                .map(|g| {
                    let c0 = &g.cells[0];
                    let m: Vec<String> = g.cells.iter().flat_map(|c| mask_words(c)).map(|x| x.to_string()).collect();
                    format!("g={}:{}:{}:{}:{}:{}:{}", g.name, g.b, c0.n, c0.size, g.rank, g.cells.len(), m.join(","))
                })
                .collect();
            format!("ok words={} {}", words.join(","), parts.join(" "))
        }
        "dist" => {
            let groups = groups_of(&be, &lay, t, sxs, sxa, sxe);
            let cells: Vec<&Cell> = groups.iter().flat_map(|g| g.cells.iter()).collect();
            let seeds: Vec<String> =
                groups.iter().flat_map(|g| g.seeds.iter()).map(|s| s.iter().map(|b| format!("{b:02x}")).collect::<String>()).collect();
            let b = groups.first().map(|g| g.b).unwrap_or(1);
            format!("ok cells={} {} sd={} b={}", cells.len(), dist_report(&cells, b), if seeds.is_empty() { "-".to_string() } else { seeds.join(",") }, b)
        }
        _ => "bad-op".to_string(),
    }
}

pub fn run(_args: &[String]) {
    std::panic::set_hook(Box::new(|_| {}));
    let stdin = std::io::stdin();
    let stdout = std::io::stdout();
    let mut out = stdout.lock();
    for line in stdin.lock().lines() {
        let line = line.unwrap();
        let t: Vec<&str> = line.split_whitespace().collect();
        if t.len() < 2 {
            continue;
        }
        let id = t[0];
        let op = t[1];
        let r = std::panic::catch_unwind(std::panic::AssertUnwindSafe(|| run_case(op, &t[2..])));
        match r {
            Ok(s) => writeln!(out, "{id} {s}").unwrap(),
            Err(e) => writeln!(out, "{id} panic:{}:{}", panic_class(&panic_msg(&e)), panic_msg(&e).replace(' ', "_").chars().take(140).collect::<String>()).unwrap(),
        }
    }
    out.flush().unwrap();
}
