//! Runs the real homomorphic BDD evaluator (`execute_bdd_circuit`, real `Cmux`, the compiled
//! tables from the hook accessor) at toy parameters on inputs encrypted directly as prepared GGSW
//! bits, and prints the decrypted output word.  stdin: `id op a b`; stdout: `id word`.
use std::io::{BufRead, Write};

use poulpy_bin_fhe::bdd_arithmetic::{
    BitSize, ExecuteBDDCircuit, FheUintPrepared, GetBitCircuitInfo, GetGGSWBit, Node, verif_hooks::u32_circuits,
};
use poulpy_core::{
    EncryptionLayout, GLWEDecrypt,
    layouts::{
        Base2K, Degree, Dnum, Dsize, GGSWLayout, GGSWPrepared, GLWE, GLWELayout, GLWEPlaintext, GLWEPlaintextLayout, GLWESecret,
        GLWESecretPreparedFactory, Rank, TorusPrecision,
    },
};
use poulpy_cpu_ref::FFT64Ref;
use poulpy_hal::{
    api::{ModuleNew, ScratchOwnedAlloc, ScratchOwnedBorrow},
    layouts::{Backend, DeviceBuf, Module, ScratchOwned, ZnxViewMut},
    source::Source,
};

type BE = FFT64Ref;

pub struct Two<'a, BE: Backend> {
    pub a: &'a FheUintPrepared<DeviceBuf<BE>, u32, BE>,
    pub b: &'a FheUintPrepared<DeviceBuf<BE>, u32, BE>,
}
impl<'a, BE: Backend> GetGGSWBit<BE> for Two<'a, BE> {
    fn get_bit(&self, bit: usize) -> GGSWPrepared<&[u8], BE> {
        if bit / 32 == 0 { self.a.get_bit(bit % 32) } else { self.b.get_bit(bit % 32) }
    }
}
impl<'a, BE: Backend> BitSize for Two<'a, BE> {
    fn bit_size(&self) -> usize {
        64
    }
}

pub struct DynCircuit(pub &'static dyn GetBitCircuitInfo);
impl GetBitCircuitInfo for DynCircuit {
    fn input_size(&self) -> usize {
        self.0.input_size()
    }
    fn output_size(&self) -> usize {
        self.0.output_size()
    }
    fn get_circuit(&self, bit: usize) -> (&[Node], usize) {
        self.0.get_circuit(bit)
    }
}

pub const N: u32 = 32;
pub const BASE2K: u32 = 13;
pub const K_GLWE: u32 = 26;
pub const K_GGSW: u32 = 39;

pub fn glwe_infos() -> GLWELayout {
    GLWELayout { n: Degree(N), base2k: Base2K(BASE2K), k: TorusPrecision(K_GLWE), rank: Rank(1) }
}
pub fn ggsw_infos() -> GGSWLayout {
    GGSWLayout { n: Degree(N), base2k: Base2K(BASE2K), k: TorusPrecision(K_GGSW), rank: Rank(1), dnum: Dnum(2), dsize: Dsize(1) }
}

pub fn run(args: &[String]) {
    let threads: usize = args.first().and_then(|s| s.parse().ok()).unwrap_or(1);
    let module: Module<BE> = Module::<BE>::new(N as u64);
    let mut source_xs = Source::new([1u8; 32]);
    let mut source_xa = Source::new([2u8; 32]);
    let mut source_xe = Source::new([3u8; 32]);
    let mut scratch: ScratchOwned<BE> = ScratchOwned::alloc(1 << 22);
    let mut sk = GLWESecret::alloc(Degree(N), Rank(1));
    sk.fill_ternary_prob(0.5, &mut source_xs);
    let mut sk_prep = module.glwe_secret_prepared_alloc(Rank(1));
    module.glwe_secret_prepare(&mut sk_prep, &sk);
    let ggsw_enc = EncryptionLayout::new_from_default_sigma(ggsw_infos()).unwrap();
    let circuits = u32_circuits();

    let stdin = std::io::stdin();
    let stdout = std::io::stdout();
    let mut out = stdout.lock();
    for line in stdin.lock().lines() {
        let line = line.unwrap();
        let t: Vec<&str> = line.split_whitespace().collect();
        if t.len() < 4 {
            continue;
        }
        let (id, op) = (t[0], t[1]);
        let a: u32 = t[2].parse::<u64>().unwrap() as u32;
        let b: u32 = t[3].parse::<u64>().unwrap() as u32;
        let Some((_, c)) = circuits.iter().find(|(n, _)| *n == op) else {
            writeln!(out, "{id} bad-op").unwrap();
            continue;
        };
        let r = std::panic::catch_unwind(std::panic::AssertUnwindSafe(|| {
            let mut ap = FheUintPrepared::<DeviceBuf<BE>, u32, BE>::alloc_from_infos(&module, &ggsw_infos());
            let mut bp = FheUintPrepared::<DeviceBuf<BE>, u32, BE>::alloc_from_infos(&module, &ggsw_infos());
            ap.encrypt_sk(&module, a, &sk_prep, &ggsw_enc, &mut source_xe, &mut source_xa, scratch.borrow());
            bp.encrypt_sk(&module, b, &sk_prep, &ggsw_enc, &mut source_xe, &mut source_xa, scratch.borrow());
            let helper = Two { a: &ap, b: &bp };
            let mut outs: Vec<GLWE<Vec<u8>>> = (0..32).map(|_| GLWE::alloc_from_infos(&glwe_infos())).collect();
            // garbage in the outputs: the evaluator must overwrite / zero all 32
            for (i, o) in outs.iter_mut().enumerate() {
                for x in o.data_mut().raw_mut().iter_mut() {
                    *x = 0x1234 + i as i64;
                }
            }
            let circ = DynCircuit(*c);
            if threads <= 1 {
                module.execute_bdd_circuit(&mut outs, &helper, &circ, scratch.borrow());
            } else {
                module.execute_bdd_circuit_multi_thread(threads, &mut outs, &helper, &circ, scratch.borrow());
            }
            let pt_infos = GLWEPlaintextLayout { n: Degree(N), base2k: Base2K(BASE2K), k: TorusPrecision(2) };
            let mut word: u64 = 0;
            let mut bad = false;
            for (i, o) in outs.iter().enumerate() {
                let mut pt = GLWEPlaintext::alloc_from_infos(&pt_infos);
                module.glwe_decrypt(o, &mut pt, &sk_prep, scratch.borrow());
                let mut v = vec![0i64; N as usize];
                pt.decode_vec_i64(&mut v, TorusPrecision(2));
                // a Boolean is 0 or 1 at the constant coefficient and 0 elsewhere
                let c0 = v[0].rem_euclid(4);
                if c0 > 1 || v[1..].iter().any(|x| x.rem_euclid(4) != 0) {
                    bad = true;
                }
                word |= ((c0 & 1) as u64) << i;
            }
            (word, bad)
        }));
        match r {
            Ok((w, false)) => writeln!(out, "{id} {w}").unwrap(),
            Ok((w, true)) => writeln!(out, "{id} nonbool:{w}").unwrap(),
            Err(_) => writeln!(out, "{id} panic").unwrap(),
        }
    }
    out.flush().unwrap();
}
