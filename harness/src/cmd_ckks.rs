//! C16 — program interpreter over the real CKKS leveled API (`poulpy_ckks::leveled::api` on
//! `Module<BE>`).
//!
//! stdin : `id be=<ntt120ref|fft64ref|ntt120avx|fft64avx> n=N base2k=B keys=k1,k2,… pool=size:delta:budget/… \
//!          ops=op;op;… [vals=1] [mag=M] [cstexp=E]`      (op syntax: lean/Poulpy/Driver/Ckks.lean)
//!         `id roundtrip n=N base2k=B delta=D budget=L mag=M`   (encode → to_znx → decode identity)
//!         `id toznx float=f64|f128 form=vec|cst base2k=B delta=D budget=L [k=K] vals=m:e[+m:e…];…|nan|inf|-inf|-`
//!                                                              (the float → integer conversion of to_znx / to_znx_at_k on exact inputs)
//! stdout: `id step|step|… [value-diagnostics]`, a step being `ok@POOL`, `err:<Variant:fields>@POOL`
//!         or `panic:<class>` (execution stops), POOL = `delta.budget.size` per slot joined by `/`.
//!         With `vals=1` a second token lists, per step, `-` or `log2(max slot error):log_delta`
//!         of the destination after decrypt+decode against the same program on complex numbers.
//!
//! The pool entries `size:delta:budget` allocate ciphertexts of `size` limbs; a non-zero
//! `delta+budget` is installed with `set_meta_checked` (used by corpus/replay lines to start from a
//! given metadata state; data is then a zero ciphertext).
use std::collections::HashMap;
use std::io::{BufRead, Write};

use poulpy_ckks::{
    CKKSCompositionError, CKKSInfos, CKKSMeta,
    encoding::Encoder,
    layouts::{
        CKKSCiphertext, CKKSConstPlaintextConversion, CKKSMaintainOps, CKKSPlaintextConversion, CKKSPlaintextCstRnx,
        CKKSPlaintextCstZnx, CKKSPlaintextVecRnx, CKKSPlaintextVecZnx,
    },
    leveled::api::{
        CKKSAddManyOps, CKKSAddOps, CKKSConjugateOps, CKKSDecrypt, CKKSDotProductOps, CKKSEncrypt, CKKSMulAddOps, CKKSMulManyOps,
        CKKSMulOps, CKKSMulSubOps, CKKSNegOps,
        CKKSPow2Ops, CKKSRescaleOps, CKKSRotateOps, CKKSSubOps,
    },
};
use poulpy_core::{
    EncryptionLayout, GLWEAutomorphismKeyEncryptSk, GLWETensorKeyEncryptSk,
    layouts::{
        Base2K, Degree, GGLWEToRef, GLWEAutomorphismKey, GLWEAutomorphismKeyLayout, GLWEAutomorphismKeyPrepared,
        GLWEAutomorphismKeyPreparedFactory, GLWELayout, GLWESecret, GLWESecretPreparedFactory, GLWETensorKey,
        GLWETensorKeyLayout, GLWETensorKeyPrepared, GLWETensorKeyPreparedFactory, LWEInfos, Rank,
        prepared::GLWESecretPrepared,
    },
};
use poulpy_hal::{
    api::{ModuleNew, ScratchOwnedAlloc, ScratchOwnedBorrow},
    layouts::{DeviceBuf, GaloisElement, Module, ScratchOwned, ZnxInfos, ZnxView, ZnxViewMut},
    source::Source,
};

pub fn panic_class(msg: &str) -> &'static str {
    if msg.contains("overflow") {
        "overflow"
    } else if msg.contains("scratch") || msg.contains("Scratch") {
        "scratch"
    } else if msg.contains("out of range") || msg.contains("out of bounds") || msg.contains("range end index") {
        "bounds"
    } else if msg.contains("assertion")
        || msg.contains("size:")
        || msg.contains("cols:")
        || msg.contains("invalid argument")
        || msg.contains("effective_k:")
    {
        "assert"
    } else {
        "other"
    }
}

thread_local! {
    /// `dump=1`: (active, generator state, limbs of the last ZNX plaintext operand built)
    static DUMP_PT: std::cell::RefCell<(bool, u64, String)> = std::cell::RefCell::new((false, 0, String::new()));
    static LAST_PANIC: std::cell::RefCell<String> = std::cell::RefCell::new(String::new());
    static CST_EXP: std::cell::Cell<i32> = std::cell::Cell::new(0);
}

fn kv<'a>(t: &'a [&'a str], k: &str) -> Option<&'a str> {
    t.iter().find_map(|x| x.strip_prefix(k).and_then(|r| r.strip_prefix('=')))
}
fn kvu(t: &[&str], k: &str, d: usize) -> usize {
    kv(t, k).and_then(|s| s.parse().ok()).unwrap_or(d)
}

fn err_string(e: &anyhow::Error) -> String {
    match e.downcast_ref::<CKKSCompositionError>() {
        Some(CKKSCompositionError::InsufficientHomomorphicCapacity { available_log_budget, required_bits, .. }) => {
            format!("InsufficientHomomorphicCapacity:{available_log_budget}:{required_bits}")
        }
        Some(CKKSCompositionError::PlaintextBase2KMismatch { ct_base2k, pt_base2k, .. }) => {
            format!("PlaintextBase2KMismatch:{ct_base2k}:{pt_base2k}")
        }
        Some(CKKSCompositionError::MissingAutomorphismKey { rotation, .. }) => format!("MissingAutomorphismKey:{rotation}"),
        Some(CKKSCompositionError::PlaintextAlignmentImpossible { ct_log_budget, pt_log_delta, pt_max_k, .. }) => {
            format!("PlaintextAlignmentImpossible:{ct_log_budget}:{pt_log_delta}:{pt_max_k}")
        }
        Some(CKKSCompositionError::MultiplicationPrecisionUnderflow {
            lhs_log_budget,
            rhs_log_budget,
            lhs_log_delta,
            rhs_log_delta,
            ..
        }) => format!("MultiplicationPrecisionUnderflow:{lhs_log_budget}:{rhs_log_budget}:{lhs_log_delta}:{rhs_log_delta}"),
        Some(CKKSCompositionError::LimbReallocationShrinksBelowMetadata { max_k, log_delta, base2k, requested_limbs }) => {
            format!("LimbReallocationShrinksBelowMetadata:{max_k}:{log_delta}:{base2k}:{requested_limbs}")
        }
        None => "other".to_string(),
    }
}

/// complex slot vector mirrored in f64 (None = not tracked any more)
type Slots = Option<(Vec<f64>, Vec<f64>)>;

fn lcg(state: &mut u64) -> f64 {
    *state = state.wrapping_mul(6364136223846793005).wrapping_add(1442695040888963407);
    ((*state >> 11) as f64) / ((1u64 << 53) as f64) * 2.0 - 1.0
}

fn gen_slots(seed: u64, m: usize, mag: f64) -> (Vec<f64>, Vec<f64>) {
    let mut s = seed.wrapping_mul(0x9E3779B97F4A7C15) ^ 0xD1B54A32D192ED03;
    let re = (0..m).map(|_| lcg(&mut s) * mag).collect();
    let im = (0..m).map(|_| lcg(&mut s) * mag).collect();
    (re, im)
}

fn cst_vals(seed: u64, re: bool, im: bool) -> (Option<f64>, Option<f64>) {
    let mut s = seed.wrapping_mul(0x2545F4914F6CDD1D) ^ 0x9E3779B97F4A7C15;
    // |c| < 0.5: a constant of precision {log_delta, 0} with log_delta a multiple of base2k holds only (-0.5, 0.5)
    // `cstexp=E` (replays of the float → integer conversion limit only): constants scaled by 2^E
    let sc = (CST_EXP.with(|c| c.get()) as f64).exp2();
    let r = lcg(&mut s) * 0.45 * sc;
    let i = lcg(&mut s) * 0.45 * sc;
    (if re { Some(r) } else { None }, if im { Some(i) } else { None })
}

fn zip2(a: &Slots, b: &Slots, f: impl Fn((f64, f64), (f64, f64)) -> (f64, f64)) -> Slots {
    match (a, b) {
        (Some((ar, ai)), Some((br, bi))) => {
            let mut re = Vec::with_capacity(ar.len());
            let mut im = Vec::with_capacity(ar.len());
            for j in 0..ar.len() {
                let (x, y) = f((ar[j], ai[j]), (br[j], bi[j]));
                re.push(x);
                im.push(y);
            }
            Some((re, im))
        }
        _ => None,
    }
}
fn map1(a: &Slots, f: impl Fn((f64, f64)) -> (f64, f64)) -> Slots {
    a.as_ref().map(|(ar, ai)| {
        let mut re = Vec::with_capacity(ar.len());
        let mut im = Vec::with_capacity(ar.len());
        for j in 0..ar.len() {
            let (x, y) = f((ar[j], ai[j]));
            re.push(x);
            im.push(y);
        }
        (re, im)
    })
}
fn cmul(a: (f64, f64), b: (f64, f64)) -> (f64, f64) {
    (a.0 * b.0 - a.1 * b.1, a.0 * b.1 + a.1 * b.0)
}

macro_rules! backend_impl {
    ($modname:ident, $be:ty, $f:ty, $maxprec:expr) => {
        mod $modname {
            use super::*;
            type BE = $be;
            type F = $f;
            const MAXPREC: usize = $maxprec;
            fn to_f(x: f64) -> F {
                <F as num_traits::NumCast>::from(x).unwrap()
            }
            fn of_f(x: F) -> f64 {
                num_traits::ToPrimitive::to_f64(&x).unwrap_or(f64::NAN)
            }
            fn to_fv(v: &[f64]) -> Vec<F> {
                v.iter().map(|&x| to_f(x)).collect()
            }
            type Ct = CKKSCiphertext<Vec<u8>>;

            pub struct Ctx {
                pub n: usize,
                pub base2k: usize,
                pub module: Module<BE>,
                pub encoder: Encoder<F>,
                pub sk: GLWESecretPrepared<DeviceBuf<BE>, BE>,
                pub tsk: GLWETensorKeyPrepared<DeviceBuf<BE>, BE>,
                /// the raw tensor key as `base2k,colsIn,colsOut,dsize,dnum,size:ints` (cells in (row, input column) order), for `dump=1`
                pub tsk_dump: String,
                /// raw automorphism keys: rotation index -> (Galois element, dump); the conjugation key (Galois element -1)
                pub rot_dump: HashMap<i64, (i64, String)>,
                pub conj_dump: String,
                pub rot: HashMap<i64, GLWEAutomorphismKeyPrepared<DeviceBuf<BE>, BE>>,
                pub conj: GLWEAutomorphismKeyPrepared<DeviceBuf<BE>, BE>,
                pub scratch: ScratchOwned<BE>,
                pub xa: Source,
                pub xe: Source,
            }

            pub fn new_ctx(n: usize, base2k: usize, kmax: usize, keys: &[i64]) -> Ctx {
                let module = Module::<BE>::new(n as u64);
                let glwe = GLWELayout { n: Degree(n as u32), base2k: Base2K(base2k as u32), k: (kmax).into(), rank: Rank(1) };
                let kk = kmax + base2k;
                let dnum = kk.div_ceil(base2k);
                let tsk_l = EncryptionLayout::new_from_default_sigma(GLWETensorKeyLayout {
                    n: Degree(n as u32),
                    base2k: Base2K(base2k as u32),
                    k: kk.into(),
                    rank: Rank(1),
                    dsize: 1usize.into(),
                    dnum: dnum.into(),
                })
                .unwrap();
                let atk_l = EncryptionLayout::new_from_default_sigma(GLWEAutomorphismKeyLayout {
                    n: Degree(n as u32),
                    base2k: Base2K(base2k as u32),
                    k: kk.into(),
                    rank: Rank(1),
                    dsize: 1usize.into(),
                    dnum: dnum.into(),
                })
                .unwrap();
                let mut xs = Source::new([7u8; 32]);
                let mut xa = Source::new([8u8; 32]);
                let mut xe = Source::new([9u8; 32]);
                let mut sk_raw = GLWESecret::alloc_from_infos(&glwe);
                sk_raw.fill_ternary_prob(0.5, &mut xs);
                let mut sk = module.glwe_secret_prepared_alloc_from_infos(&glwe);
                module.glwe_secret_prepare(&mut sk, &sk_raw);
                let mut scratch = ScratchOwned::<BE>::alloc(1 << 25);
                let mut tsk = GLWETensorKey::alloc_from_infos(&tsk_l);
                module.glwe_tensor_key_encrypt_sk(&mut tsk, &sk_raw, &tsk_l, &mut xa, &mut xe, scratch.borrow());
                let mut tskp = module.alloc_tensor_key_prepared_from_infos(&tsk_l);
                module.prepare_tensor_key(&mut tskp, &tsk, scratch.borrow());
                let tsk_dump = {
                    let kr = GGLWEToRef::to_ref(&tsk);
                    let gsize = kk.div_ceil(base2k);
                    let mut v: Vec<String> = Vec::new();
                    for r in 0..dnum {
                        let cell = kr.at(r, 0);
                        let d = cell.data();
                        for co in 0..d.cols() {
                            for j in 0..d.size() {
                                v.extend(d.at(co, j).iter().map(|x| x.to_string()));
                            }
                        }
                    }
                    format!("{base2k},1,2,1,{dnum},{gsize}:{}", v.join("."))
                };
                let mut mk = |gal: i64, xa: &mut Source, xe: &mut Source, scratch: &mut ScratchOwned<BE>| {
                    let mut atk = GLWEAutomorphismKey::alloc_from_infos(&atk_l);
                    module.glwe_automorphism_key_encrypt_sk(&mut atk, gal, &sk_raw, &atk_l, xa, xe, scratch.borrow());
                    let mut p = module.glwe_automorphism_key_prepared_alloc_from_infos(&atk_l);
                    module.glwe_automorphism_key_prepare(&mut p, &atk, scratch.borrow());
                    let dump = {
                        let kr = GGLWEToRef::to_ref(&atk);
                        let gsize = kk.div_ceil(base2k);
                        let mut v: Vec<String> = Vec::new();
                        for r in 0..dnum {
                            let cell = kr.at(r, 0);
                            let d = cell.data();
                            for co in 0..d.cols() {
                                for j in 0..d.size() {
                                    v.extend(d.at(co, j).iter().map(|x| x.to_string()));
                                }
                            }
                        }
                        format!("{base2k},1,2,1,{dnum},{gsize}:{}", v.join("."))
                    };
                    (p, dump)
                };
                let mut rot = HashMap::new();
                let mut rot_dump = HashMap::new();
                for &k in keys {
                    let g = module.galois_element(k);
                    let (p, d) = mk(g, &mut xa, &mut xe, &mut scratch);
                    rot.insert(k, p);
                    rot_dump.insert(k, (g, d));
                }
                let (conj, conj_dump) = mk(-1, &mut xa, &mut xe, &mut scratch);
                let encoder = Encoder::<F>::new(n / 2).unwrap();
                Ctx { n, base2k, module, encoder, sk, tsk: tskp, tsk_dump, rot_dump, conj_dump, rot, conj, scratch, xa, xe }
            }

            fn show_pool(pool: &[Ct]) -> String {
                pool.iter()
                    .map(|c| format!("{}.{}.{}", c.log_delta(), c.log_budget(), c.size()))
                    .collect::<Vec<_>>()
                    .join("/")
            }

            /// `dump=1`: the limbs of one ciphertext, column by column, limb by limb, coefficient by coefficient
            fn dump_ct(c: &Ct) -> String {
                let d = c.data();
                let mut v: Vec<String> = Vec::new();
                for col in 0..d.cols() {
                    for j in 0..d.size() {
                        v.extend(d.at(col, j).iter().map(|x| x.to_string()));
                    }
                }
                if v.is_empty() { "-".to_string() } else { v.join(".") }
            }

            /// `dump=1`: fill every limb with pseudo-random balanced digits (`-2^(b-1) ≤ x < 2^(b-1)`); the data
            /// tie compares limbs, it does not need a valid encryption
            fn fill_ct(c: &mut Ct, base2k: usize, state: &mut u64) {
                let cols = c.data().cols();
                let size = c.data().size();
                let half: i64 = 1i64 << (base2k - 1);
                for col in 0..cols {
                    for j in 0..size {
                        for x in c.data_mut().at_mut(col, j).iter_mut() {
                            *state = state.wrapping_mul(6364136223846793005).wrapping_add(1442695040888963407);
                            let r = (*state >> 11) as i64 & ((1i64 << base2k) - 1);
                            *x = r - half;
                        }
                    }
                }
            }

            fn pt_znx(ctx: &Ctx, meta: CKKSMeta, base2k: usize, vals: &(Vec<f64>, Vec<f64>)) -> anyhow::Result<CKKSPlaintextVecZnx<Vec<u8>>> {
                let mut rnx = CKKSPlaintextVecRnx::<F>::alloc(ctx.n)?;
                ctx.encoder.encode_reim(&mut rnx, &to_fv(&vals.0), &to_fv(&vals.1))?;
                let mut z = CKKSPlaintextVecZnx::alloc(Degree(ctx.n as u32), Base2K(base2k as u32), meta);
                rnx.to_znx(&mut z)?;
                // `dump=1`: the data tie compares limbs; the plaintext limbs are replaced by pseudo-random balanced digits
                // and handed to the model with the answer
                DUMP_PT.with(|d| {
                    let mut d = d.borrow_mut();
                    if d.0 && base2k >= 1 && base2k < 63 {
                        let half: i64 = 1i64 << (base2k - 1);
                        let size = z.data().size();
                        let mut v: Vec<String> = Vec::new();
                        for j in 0..size {
                            for x in z.data_mut().at_mut(0, j).iter_mut() {
                                d.1 = d.1.wrapping_mul(6364136223846793005).wrapping_add(1442695040888963407);
                                *x = ((d.1 >> 11) as i64 & ((1i64 << base2k) - 1)) - half;
                                v.push(x.to_string());
                            }
                        }
                        let one = if v.is_empty() { "-".to_string() } else { v.join(".") };
                        // several plaintext operands of one call (`dot_pt_znx`) are joined by `_`
                        d.2 = if d.2.is_empty() { one } else { format!("{}_{}", d.2, one) };
                    }
                });
                Ok(z)
            }
            fn pt_rnx(ctx: &Ctx, vals: &(Vec<f64>, Vec<f64>)) -> CKKSPlaintextVecRnx<F> {
                let mut rnx = CKKSPlaintextVecRnx::<F>::alloc(ctx.n).unwrap();
                ctx.encoder.encode_reim(&mut rnx, &to_fv(&vals.0), &to_fv(&vals.1)).unwrap();
                rnx
            }

            /// decrypt + decode `ct`; None if the plaintext cannot be extracted / decoded
            fn dec_slots(ctx: &mut Ctx, ct: &Ct) -> Option<(Vec<f64>, Vec<f64>)> {
                let ld = ct.log_delta();
                if ld == 0 || ld > MAXPREC {
                    return None;
                }
                let lb = ct.log_budget().min(30).min(120 - ld.min(120));
                let meta = CKKSMeta { log_delta: ld, log_budget: lb };
                let mut z = CKKSPlaintextVecZnx::alloc(Degree(ctx.n as u32), ct.base2k(), meta);
                let r = std::panic::catch_unwind(std::panic::AssertUnwindSafe(|| {
                    ctx.module.ckks_decrypt(&mut z, ct, &ctx.sk, ctx.scratch.borrow())
                }));
                match r {
                    Ok(Ok(())) => {}
                    _ => return None,
                }
                // decoding runs under overflow checks here: a plaintext whose integer does not fit the
                // i64/i128 path wraps in the library (documented limb behaviour) and would abort the harness
                let n = ctx.n;
                let enc = &ctx.encoder;
                std::panic::catch_unwind(std::panic::AssertUnwindSafe(|| {
                    let mut rnx = CKKSPlaintextVecRnx::<F>::alloc(n).ok()?;
                    rnx.decode_from_znx(&z).ok()?;
                    let m = n / 2;
                    let mut re = vec![to_f(0.0); m];
                    let mut im = vec![to_f(0.0); m];
                    enc.decode_reim(&rnx, &mut re, &mut im).ok()?;
                    Some((re.iter().map(|&x| of_f(x)).collect(), im.iter().map(|&x| of_f(x)).collect()))
                }))
                .ok()
                .flatten()
            }

            fn nat(s: &str) -> usize {
                s.parse().unwrap_or(0)
            }
            fn meta(d: &str, b: &str) -> CKKSMeta {
                CKKSMeta { log_delta: nat(d), log_budget: nat(b) }
            }

            /// Executes one op. Returns Ok(dst slot whose value changed, new value) / Err(error string).
            #[allow(clippy::too_many_lines)]
            fn exec(ctx: &mut Ctx, pool: &mut Vec<Ct>, vals: &mut Vec<Slots>, f: &[&str], step: u64, mag: f64) -> Result<Option<usize>, String> {
                let m = ctx.n / 2;
                let np = pool.len();
                let slot = |s: &str| -> Result<usize, String> {
                    let i = nat(s);
                    if i < np { Ok(i) } else { Err("bad-slot".to_string()) }
                };
                let e2s = |r: anyhow::Result<()>| r.map_err(|e| err_string(&e));
                let name = f[0];
                // destination and source may not alias (checked before any operand is built, as in the model)
                if matches!(
                    name,
                    "add_pt_znx" | "sub_pt_znx" | "mul_pt_znx" | "mul_add_pt_znx" | "mul_sub_pt_znx" | "add_cst_znx" | "sub_cst_znx"
                ) && f.len() > 2
                {
                    let (d, a) = (slot(f[1])?, slot(f[2])?);
                    if d == a {
                        return Err("bad-slot".to_string());
                    }
                }
                let sub = name.starts_with("sub") || name.starts_with("mul_sub");
                let sgn = if sub { -1.0 } else { 1.0 };
                // operand plaintext / constant values derived from the step number
                // small enough for a plaintext of log_budget 0 whose log_delta is a multiple of base2k
                let pvals = gen_slots(1000 + step, m, 0.2);
                match (name, f.len()) {
                    ("enc", 6) => {
                        let d = slot(f[1])?;
                        let k = nat(f[2]);
                        let pm = meta(f[3], f[4]);
                        let pb = nat(f[5]);
                        // keep the slot values inside what a plaintext of this precision can hold: the limbs of the
                        // container, and the integer path `to_znx` selects from the declared metadata (`i64` when
                        // log_delta + log_budget <= 63, `i128` otherwise: `(x * 2^log_delta).to_i64().unwrap()` panics
                        // for f64 and wraps silently for f128 beyond it — the caller's overflow, see ctx.assumptions)
                        let int_bits: i64 = if pm.log_delta + pm.log_budget <= 63 { 63 } else { 127 };
                        let cap_bits = (pm.min_k(Base2K(pb.max(1) as u32)).as_usize() as i64 - pm.log_delta as i64 - 2)
                            .min(int_bits - pm.log_delta as i64 - 2)
                            .clamp(-8, 40);
                        let v = gen_slots(step, m, mag.min((cap_bits as f64).exp2()));
                        let z = pt_znx(ctx, pm, pb, &v).map_err(|e| err_string(&e))?;
                        let lay = EncryptionLayout::new_from_default_sigma(GLWELayout {
                            n: Degree(ctx.n as u32),
                            base2k: Base2K(ctx.base2k as u32),
                            k: k.into(),
                            rank: Rank(1),
                        })
                        .map_err(|_| "other".to_string())?;
                        let r = ctx.module.ckks_encrypt_sk(&mut pool[d], &z, &ctx.sk, &lay, &mut ctx.xa, &mut ctx.xe, ctx.scratch.borrow());
                        vals[d] = if r.is_ok() { Some(v) } else { None };
                        e2s(r)?;
                        Ok(Some(d))
                    }
                    ("add" | "sub", 4) => {
                        let (d, a, b) = (slot(f[1])?, slot(f[2])?, slot(f[3])?);
                        let (pd, ca, cb) = dst_src2(pool, d, a, b)?;
                        let r = if sub {
                            ctx.module.ckks_sub_into(pd, ca, cb, ctx.scratch.borrow())
                        } else {
                            ctx.module.ckks_add_into(pd, ca, cb, ctx.scratch.borrow())
                        };
                        let nv = zip2(&vals[a], &vals[b], |x, y| (x.0 + sgn * y.0, x.1 + sgn * y.1));
                        vals[d] = if r.is_ok() { nv } else { None };
                        e2s(r)?;
                        Ok(Some(d))
                    }
                    ("add_assign" | "sub_assign", 3) => {
                        let (d, a) = (slot(f[1])?, slot(f[2])?);
                        let (pd, ca) = dst_src(pool, d, a)?;
                        let r = if sub {
                            ctx.module.ckks_sub_assign(pd, ca, ctx.scratch.borrow())
                        } else {
                            ctx.module.ckks_add_assign(pd, ca, ctx.scratch.borrow())
                        };
                        let nv = zip2(&vals[d], &vals[a], |x, y| (x.0 + sgn * y.0, x.1 + sgn * y.1));
                        vals[d] = if r.is_ok() { nv } else { None };
                        e2s(r)?;
                        Ok(Some(d))
                    }
                    ("add_pt_znx" | "sub_pt_znx", 6) => {
                        let (d, a) = (slot(f[1])?, slot(f[2])?);
                        let z = pt_znx(ctx, meta(f[3], f[4]), nat(f[5]), &pvals).map_err(|e| err_string(&e))?;
                        let (pd, ca) = dst_src(pool, d, a)?;
                        let r = if sub {
                            ctx.module.ckks_sub_pt_vec_znx_into(pd, ca, &z, ctx.scratch.borrow())
                        } else {
                            ctx.module.ckks_add_pt_vec_znx_into(pd, ca, &z, ctx.scratch.borrow())
                        };
                        let nv = zip2(&vals[a], &Some(pvals), |x, y| (x.0 + sgn * y.0, x.1 + sgn * y.1));
                        vals[d] = if r.is_ok() { nv } else { None };
                        e2s(r)?;
                        Ok(Some(d))
                    }
                    ("add_pt_znx_assign" | "sub_pt_znx_assign", 5) => {
                        let d = slot(f[1])?;
                        let z = pt_znx(ctx, meta(f[2], f[3]), nat(f[4]), &pvals).map_err(|e| err_string(&e))?;
                        let r = if sub {
                            ctx.module.ckks_sub_pt_vec_znx_assign(&mut pool[d], &z, ctx.scratch.borrow())
                        } else {
                            ctx.module.ckks_add_pt_vec_znx_assign(&mut pool[d], &z, ctx.scratch.borrow())
                        };
                        let nv = zip2(&vals[d], &Some(pvals), |x, y| (x.0 + sgn * y.0, x.1 + sgn * y.1));
                        vals[d] = if r.is_ok() { nv } else { None };
                        e2s(r)?;
                        Ok(Some(d))
                    }
                    ("add_pt_rnx" | "sub_pt_rnx", 5) => {
                        let (d, a) = (slot(f[1])?, slot(f[2])?);
                        let rnx = pt_rnx(ctx, &pvals);
                        let (pd, ca) = dst_src(pool, d, a)?;
                        let pm = meta(f[3], f[4]);
                        let r = if sub {
                            ctx.module.ckks_sub_pt_vec_rnx_into(pd, ca, &rnx, pm, ctx.scratch.borrow())
                        } else {
                            ctx.module.ckks_add_pt_vec_rnx_into(pd, ca, &rnx, pm, ctx.scratch.borrow())
                        };
                        let nv = zip2(&vals[a], &Some(pvals), |x, y| (x.0 + sgn * y.0, x.1 + sgn * y.1));
                        vals[d] = if r.is_ok() { nv } else { None };
                        e2s(r)?;
                        Ok(Some(d))
                    }
                    ("add_pt_rnx_assign" | "sub_pt_rnx_assign", 4) => {
                        let d = slot(f[1])?;
                        let rnx = pt_rnx(ctx, &pvals);
                        let pm = meta(f[2], f[3]);
                        let r = if sub {
                            ctx.module.ckks_sub_pt_vec_rnx_assign(&mut pool[d], &rnx, pm, ctx.scratch.borrow())
                        } else {
                            ctx.module.ckks_add_pt_vec_rnx_assign(&mut pool[d], &rnx, pm, ctx.scratch.borrow())
                        };
                        let nv = zip2(&vals[d], &Some(pvals), |x, y| (x.0 + sgn * y.0, x.1 + sgn * y.1));
                        vals[d] = if r.is_ok() { nv } else { None };
                        e2s(r)?;
                        Ok(Some(d))
                    }
                    ("add_cst_rnx" | "sub_cst_rnx", 7) => {
                        let (d, a) = (slot(f[1])?, slot(f[2])?);
                        let (cr, ci) = cst_vals(step, f[5] == "1", f[6] == "1");
                        let c = CKKSPlaintextCstRnx::<F>::new(cr.map(to_f), ci.map(to_f));
                        let (pd, ca) = dst_src(pool, d, a)?;
                        let pm = meta(f[3], f[4]);
                        let r = if sub {
                            ctx.module.ckks_sub_pt_const_rnx_into(pd, ca, &c, pm, ctx.scratch.borrow())
                        } else {
                            ctx.module.ckks_add_pt_const_rnx_into(pd, ca, &c, pm, ctx.scratch.borrow())
                        };
                        let (x0, y0) = (cr.unwrap_or(0.0), ci.unwrap_or(0.0));
                        let nv = map1(&vals[a], |x| (x.0 + sgn * x0, x.1 + sgn * y0));
                        vals[d] = if r.is_ok() { nv } else { None };
                        e2s(r)?;
                        Ok(Some(d))
                    }
                    ("add_cst_rnx_assign" | "sub_cst_rnx_assign", 6) => {
                        let d = slot(f[1])?;
                        let (cr, ci) = cst_vals(step, f[4] == "1", f[5] == "1");
                        let c = CKKSPlaintextCstRnx::<F>::new(cr.map(to_f), ci.map(to_f));
                        let pm = meta(f[2], f[3]);
                        let r = if sub {
                            ctx.module.ckks_sub_pt_const_rnx_assign(&mut pool[d], &c, pm, ctx.scratch.borrow())
                        } else {
                            ctx.module.ckks_add_pt_const_rnx_assign(&mut pool[d], &c, pm, ctx.scratch.borrow())
                        };
                        let (x0, y0) = (cr.unwrap_or(0.0), ci.unwrap_or(0.0));
                        let nv = map1(&vals[d], |x| (x.0 + sgn * x0, x.1 + sgn * y0));
                        vals[d] = if r.is_ok() { nv } else { None };
                        e2s(r)?;
                        Ok(Some(d))
                    }
                    ("add_cst_znx" | "sub_cst_znx", 7) => {
                        let (d, a) = (slot(f[1])?, slot(f[2])?);
                        let (cr, ci) = cst_vals(step, f[5] == "1", f[6] == "1");
                        let c = CKKSPlaintextCstRnx::<F>::new(cr.map(to_f), ci.map(to_f));
                        let z: CKKSPlaintextCstZnx =
                            c.to_znx_at_k(Base2K(ctx.base2k as u32), nat(f[3]), nat(f[4])).map_err(|e| err_string(&e))?;
                        let (pd, ca) = dst_src(pool, d, a)?;
                        let r = if sub {
                            ctx.module.ckks_sub_pt_const_znx_into(pd, ca, &z, ctx.scratch.borrow())
                        } else {
                            ctx.module.ckks_add_pt_const_znx_into(pd, ca, &z, ctx.scratch.borrow())
                        };
                        vals[d] = None;
                        e2s(r)?;
                        Ok(Some(d))
                    }
                    ("add_cst_znx_assign" | "sub_cst_znx_assign", 6) => {
                        let d = slot(f[1])?;
                        let (cr, ci) = cst_vals(step, f[4] == "1", f[5] == "1");
                        let c = CKKSPlaintextCstRnx::<F>::new(cr.map(to_f), ci.map(to_f));
                        let z: CKKSPlaintextCstZnx =
                            c.to_znx_at_k(Base2K(ctx.base2k as u32), nat(f[2]), nat(f[3])).map_err(|e| err_string(&e))?;
                        let r = if sub {
                            ctx.module.ckks_sub_pt_const_znx_assign(&mut pool[d], &z, ctx.scratch.borrow())
                        } else {
                            ctx.module.ckks_add_pt_const_znx_assign(&mut pool[d], &z, ctx.scratch.borrow())
                        };
                        vals[d] = None;
                        e2s(r)?;
                        Ok(Some(d))
                    }
                    ("neg", 3) => {
                        let (d, a) = (slot(f[1])?, slot(f[2])?);
                        let (pd, ca) = dst_src(pool, d, a)?;
                        let r = ctx.module.ckks_neg_into(pd, ca, ctx.scratch.borrow());
                        let nv = map1(&vals[a], |x| (-x.0, -x.1));
                        vals[d] = if r.is_ok() { nv } else { None };
                        e2s(r)?;
                        Ok(Some(d))
                    }
                    ("neg_assign", 2) => {
                        let d = slot(f[1])?;
                        let r = ctx.module.ckks_neg_assign(&mut pool[d]);
                        let nv = map1(&vals[d], |x| (-x.0, -x.1));
                        vals[d] = if r.is_ok() { nv } else { None };
                        e2s(r)?;
                        Ok(Some(d))
                    }
                    ("mul", 4) => {
                        let (d, a, b) = (slot(f[1])?, slot(f[2])?, slot(f[3])?);
                        let (pd, ca, cb) = dst_src2(pool, d, a, b)?;
                        let nv = zip2(&vals[a], &vals[b], cmul);
                        vals[d] = None;
                        let r = ctx.module.ckks_mul_into(pd, ca, cb, &ctx.tsk, ctx.scratch.borrow());
                        if r.is_ok() {
                            vals[d] = nv;
                        }
                        e2s(r)?;
                        Ok(Some(d))
                    }
                    ("mul_assign", 3) => {
                        let (d, a) = (slot(f[1])?, slot(f[2])?);
                        let (pd, ca) = dst_src(pool, d, a)?;
                        let nv = zip2(&vals[d], &vals[a], cmul);
                        vals[d] = None;
                        let r = ctx.module.ckks_mul_assign(pd, ca, &ctx.tsk, ctx.scratch.borrow());
                        if r.is_ok() {
                            vals[d] = nv;
                        }
                        e2s(r)?;
                        Ok(Some(d))
                    }
                    ("square", 3) => {
                        let (d, a) = (slot(f[1])?, slot(f[2])?);
                        let (pd, ca) = dst_src(pool, d, a)?;
                        let nv = zip2(&vals[a], &vals[a], cmul);
                        vals[d] = None;
                        let r = ctx.module.ckks_square_into(pd, ca, &ctx.tsk, ctx.scratch.borrow());
                        if r.is_ok() {
                            vals[d] = nv;
                        }
                        e2s(r)?;
                        Ok(Some(d))
                    }
                    ("square_assign", 2) => {
                        let d = slot(f[1])?;
                        let nv = zip2(&vals[d], &vals[d], cmul);
                        vals[d] = None;
                        let r = ctx.module.ckks_square_assign(&mut pool[d], &ctx.tsk, ctx.scratch.borrow());
                        if r.is_ok() {
                            vals[d] = nv;
                        }
                        e2s(r)?;
                        Ok(Some(d))
                    }
                    ("mul_pt_znx", 6) => {
                        let (d, a) = (slot(f[1])?, slot(f[2])?);
                        let z = pt_znx(ctx, meta(f[3], f[4]), nat(f[5]), &pvals).map_err(|e| err_string(&e))?;
                        let (pd, ca) = dst_src(pool, d, a)?;
                        let nv = zip2(&vals[a], &Some(pvals), cmul);
                        vals[d] = None;
                        let r = ctx.module.ckks_mul_pt_vec_znx_into(pd, ca, &z, ctx.scratch.borrow());
                        if r.is_ok() {
                            vals[d] = nv;
                        }
                        e2s(r)?;
                        Ok(Some(d))
                    }
                    ("mul_pt_znx_assign", 5) => {
                        let d = slot(f[1])?;
                        let z = pt_znx(ctx, meta(f[2], f[3]), nat(f[4]), &pvals).map_err(|e| err_string(&e))?;
                        let nv = zip2(&vals[d], &Some(pvals), cmul);
                        vals[d] = None;
                        let r = ctx.module.ckks_mul_pt_vec_znx_assign(&mut pool[d], &z, ctx.scratch.borrow());
                        if r.is_ok() {
                            vals[d] = nv;
                        }
                        e2s(r)?;
                        Ok(Some(d))
                    }
                    ("mul_pt_rnx", 5) => {
                        let (d, a) = (slot(f[1])?, slot(f[2])?);
                        let rnx = pt_rnx(ctx, &pvals);
                        let (pd, ca) = dst_src(pool, d, a)?;
                        let nv = zip2(&vals[a], &Some(pvals), cmul);
                        vals[d] = None;
                        let r = ctx.module.ckks_mul_pt_vec_rnx_into(pd, ca, &rnx, meta(f[3], f[4]), ctx.scratch.borrow());
                        if r.is_ok() {
                            vals[d] = nv;
                        }
                        e2s(r)?;
                        Ok(Some(d))
                    }
                    ("mul_pt_rnx_assign", 4) => {
                        let d = slot(f[1])?;
                        let rnx = pt_rnx(ctx, &pvals);
                        let nv = zip2(&vals[d], &Some(pvals), cmul);
                        vals[d] = None;
                        let r = ctx.module.ckks_mul_pt_vec_rnx_assign(&mut pool[d], &rnx, meta(f[2], f[3]), ctx.scratch.borrow());
                        if r.is_ok() {
                            vals[d] = nv;
                        }
                        e2s(r)?;
                        Ok(Some(d))
                    }
                    ("mul_cst_rnx", 7) => {
                        let (d, a) = (slot(f[1])?, slot(f[2])?);
                        let (cr, ci) = cst_vals(step, f[5] == "1", f[6] == "1");
                        let c = CKKSPlaintextCstRnx::<F>::new(cr.map(to_f), ci.map(to_f));
                        let (pd, ca) = dst_src(pool, d, a)?;
                        let cc = (cr.unwrap_or(0.0), ci.unwrap_or(0.0));
                        let nv = map1(&vals[a], |x| cmul(x, cc));
                        vals[d] = None;
                        let r = ctx.module.ckks_mul_pt_const_rnx_into(pd, ca, &c, meta(f[3], f[4]), ctx.scratch.borrow());
                        if r.is_ok() {
                            vals[d] = nv;
                        }
                        e2s(r)?;
                        Ok(Some(d))
                    }
                    ("mul_cst_rnx_assign", 6) => {
                        let d = slot(f[1])?;
                        let (cr, ci) = cst_vals(step, f[4] == "1", f[5] == "1");
                        let c = CKKSPlaintextCstRnx::<F>::new(cr.map(to_f), ci.map(to_f));
                        let cc = (cr.unwrap_or(0.0), ci.unwrap_or(0.0));
                        let nv = map1(&vals[d], |x| cmul(x, cc));
                        vals[d] = None;
                        let r = ctx.module.ckks_mul_pt_const_rnx_assign(&mut pool[d], &c, meta(f[2], f[3]), ctx.scratch.borrow());
                        if r.is_ok() {
                            vals[d] = nv;
                        }
                        e2s(r)?;
                        Ok(Some(d))
                    }
                    ("mul_add_ct" | "mul_sub_ct", 4) => {
                        let (d, a, b) = (slot(f[1])?, slot(f[2])?, slot(f[3])?);
                        let (pd, ca, cb) = dst_src2(pool, d, a, b)?;
                        let prod = zip2(&vals[a], &vals[b], cmul);
                        let nv = zip2(&vals[d], &prod, |x, y| (x.0 + sgn * y.0, x.1 + sgn * y.1));
                        let old = vals[d].take();
                        let r = if sub {
                            ctx.module.ckks_mul_sub_ct_into(pd, ca, cb, &ctx.tsk, ctx.scratch.borrow())
                        } else {
                            ctx.module.ckks_mul_add_ct_into(pd, ca, cb, &ctx.tsk, ctx.scratch.borrow())
                        };
                        vals[d] = if r.is_ok() { nv } else { old };
                        e2s(r)?;
                        Ok(Some(d))
                    }
                    ("mul_add_pt_znx" | "mul_sub_pt_znx", 6) => {
                        let (d, a) = (slot(f[1])?, slot(f[2])?);
                        let z = pt_znx(ctx, meta(f[3], f[4]), nat(f[5]), &pvals).map_err(|e| err_string(&e))?;
                        let (pd, ca) = dst_src(pool, d, a)?;
                        let prod = zip2(&vals[a], &Some(pvals), cmul);
                        let nv = zip2(&vals[d], &prod, |x, y| (x.0 + sgn * y.0, x.1 + sgn * y.1));
                        let old = vals[d].take();
                        let r = if sub {
                            ctx.module.ckks_mul_sub_pt_vec_znx_into(pd, ca, &z, ctx.scratch.borrow())
                        } else {
                            ctx.module.ckks_mul_add_pt_vec_znx_into(pd, ca, &z, ctx.scratch.borrow())
                        };
                        vals[d] = if r.is_ok() { nv } else { old };
                        e2s(r)?;
                        Ok(Some(d))
                    }
                    ("mul_add_pt_rnx" | "mul_sub_pt_rnx", 5) => {
                        let (d, a) = (slot(f[1])?, slot(f[2])?);
                        let rnx = pt_rnx(ctx, &pvals);
                        let (pd, ca) = dst_src(pool, d, a)?;
                        let prod = zip2(&vals[a], &Some(pvals), cmul);
                        let nv = zip2(&vals[d], &prod, |x, y| (x.0 + sgn * y.0, x.1 + sgn * y.1));
                        let old = vals[d].take();
                        let pm = meta(f[3], f[4]);
                        let r = if sub {
                            ctx.module.ckks_mul_sub_pt_vec_rnx_into(pd, ca, &rnx, pm, ctx.scratch.borrow())
                        } else {
                            ctx.module.ckks_mul_add_pt_vec_rnx_into(pd, ca, &rnx, pm, ctx.scratch.borrow())
                        };
                        vals[d] = if r.is_ok() { nv } else { old };
                        e2s(r)?;
                        Ok(Some(d))
                    }
                    ("mul_add_cst_rnx" | "mul_sub_cst_rnx", 7) => {
                        let (d, a) = (slot(f[1])?, slot(f[2])?);
                        let (cr, ci) = cst_vals(step, f[5] == "1", f[6] == "1");
                        let c = CKKSPlaintextCstRnx::<F>::new(cr.map(to_f), ci.map(to_f));
                        let (pd, ca) = dst_src(pool, d, a)?;
                        let cc = (cr.unwrap_or(0.0), ci.unwrap_or(0.0));
                        let prod = map1(&vals[a], |x| cmul(x, cc));
                        let nv = zip2(&vals[d], &prod, |x, y| (x.0 + sgn * y.0, x.1 + sgn * y.1));
                        let old = vals[d].take();
                        let pm = meta(f[3], f[4]);
                        let r = if sub {
                            ctx.module.ckks_mul_sub_pt_const_rnx_into(pd, ca, &c, pm, ctx.scratch.borrow())
                        } else {
                            ctx.module.ckks_mul_add_pt_const_rnx_into(pd, ca, &c, pm, ctx.scratch.borrow())
                        };
                        vals[d] = if r.is_ok() { nv } else { old };
                        e2s(r)?;
                        Ok(Some(d))
                    }
                    ("mul_pow2", 4) => {
                        let (d, a) = (slot(f[1])?, slot(f[2])?);
                        let bits = nat(f[3]);
                        let (pd, ca) = dst_src(pool, d, a)?;
                        let sc = (bits as f64).exp2();
                        let nv = map1(&vals[a], |x| (x.0 * sc, x.1 * sc));
                        let r = ctx.module.ckks_mul_pow2_into(pd, ca, bits, ctx.scratch.borrow());
                        vals[d] = if r.is_ok() { nv } else { None };
                        e2s(r)?;
                        Ok(Some(d))
                    }
                    ("mul_pow2_assign", 3) => {
                        let d = slot(f[1])?;
                        let bits = nat(f[2]);
                        let sc = (bits as f64).exp2();
                        let nv = map1(&vals[d], |x| (x.0 * sc, x.1 * sc));
                        let r = ctx.module.ckks_mul_pow2_assign(&mut pool[d], bits, ctx.scratch.borrow());
                        vals[d] = if r.is_ok() { nv } else { None };
                        e2s(r)?;
                        Ok(Some(d))
                    }
                    ("div_pow2", 4) => {
                        let (d, a) = (slot(f[1])?, slot(f[2])?);
                        let bits = nat(f[3]);
                        let (pd, ca) = dst_src(pool, d, a)?;
                        let sc = (-(bits as f64)).exp2();
                        let nv = map1(&vals[a], |x| (x.0 * sc, x.1 * sc));
                        let r = ctx.module.ckks_div_pow2_into(pd, ca, bits, ctx.scratch.borrow());
                        vals[d] = if r.is_ok() { nv } else { None };
                        e2s(r)?;
                        Ok(Some(d))
                    }
                    ("div_pow2_assign", 3) => {
                        let d = slot(f[1])?;
                        let bits = nat(f[2]);
                        let sc = (-(bits as f64)).exp2();
                        let nv = map1(&vals[d], |x| (x.0 * sc, x.1 * sc));
                        let r = ctx.module.ckks_div_pow2_assign(&mut pool[d], bits);
                        if r.is_ok() {
                            vals[d] = nv;
                        }
                        e2s(r)?;
                        Ok(Some(d))
                    }
                    ("rot", 4) => {
                        let (d, a) = (slot(f[1])?, slot(f[2])?);
                        let k: i64 = f[3].parse().unwrap_or(0);
                        let (pd, ca) = dst_src(pool, d, a)?;
                        let nv = rot_slots(&vals[a], k);
                        let r = ctx.module.ckks_rotate_into(pd, ca, k, &ctx.rot, ctx.scratch.borrow());
                        if let Err(e) = &r {
                            if !err_string(e).starts_with("Missing") {
                                vals[d] = None;
                            }
                        } else {
                            vals[d] = nv;
                        }
                        e2s(r)?;
                        Ok(Some(d))
                    }
                    ("rot_assign", 3) => {
                        let d = slot(f[1])?;
                        let k: i64 = f[2].parse().unwrap_or(0);
                        let nv = rot_slots(&vals[d], k);
                        let r = ctx.module.ckks_rotate_assign(&mut pool[d], k, &ctx.rot, ctx.scratch.borrow());
                        if r.is_ok() {
                            vals[d] = nv;
                        }
                        e2s(r)?;
                        Ok(Some(d))
                    }
                    ("conj", 3) => {
                        let (d, a) = (slot(f[1])?, slot(f[2])?);
                        let (pd, ca) = dst_src(pool, d, a)?;
                        let nv = map1(&vals[a], |x| (x.0, -x.1));
                        let r = ctx.module.ckks_conjugate_into(pd, ca, &ctx.conj, ctx.scratch.borrow());
                        vals[d] = if r.is_ok() { nv } else { None };
                        e2s(r)?;
                        Ok(Some(d))
                    }
                    ("conj_assign", 2) => {
                        let d = slot(f[1])?;
                        let nv = map1(&vals[d], |x| (x.0, -x.1));
                        let r = ctx.module.ckks_conjugate_assign(&mut pool[d], &ctx.conj, ctx.scratch.borrow());
                        vals[d] = if r.is_ok() { nv } else { None };
                        e2s(r)?;
                        Ok(Some(d))
                    }
                    ("rescale", 4) => {
                        let (d, a) = (slot(f[1])?, slot(f[3])?);
                        let k = nat(f[2]);
                        let (pd, ca) = dst_src(pool, d, a)?;
                        let nv = vals[a].clone();
                        let r = ctx.module.ckks_rescale_into(pd, k, ca, ctx.scratch.borrow());
                        if r.is_ok() {
                            vals[d] = nv;
                        }
                        e2s(r)?;
                        Ok(Some(d))
                    }
                    ("rescale_assign", 3) => {
                        let d = slot(f[1])?;
                        let r = ctx.module.ckks_rescale_assign(&mut pool[d], nat(f[2]), ctx.scratch.borrow());
                        e2s(r)?;
                        Ok(Some(d))
                    }
                    ("align", 3) => {
                        let (a, b) = (slot(f[1])?, slot(f[2])?);
                        if a == b {
                            return Err("bad-slot".to_string());
                        }
                        let (lo, hi) = if a < b { (a, b) } else { (b, a) };
                        let (l, r_) = pool.split_at_mut(hi);
                        let (x, y) = (&mut l[lo], &mut r_[0]);
                        let r = if a < b {
                            ctx.module.ckks_align_assign(x, y, ctx.scratch.borrow())
                        } else {
                            ctx.module.ckks_align_assign(y, x, ctx.scratch.borrow())
                        };
                        e2s(r)?;
                        Ok(None)
                    }
                    ("compact", 2) => {
                        let d = slot(f[1])?;
                        let r = ctx.module.ckks_compact_limbs(&mut pool[d]);
                        e2s(r)?;
                        Ok(Some(d))
                    }
                    ("realloc", 3) => {
                        let d = slot(f[1])?;
                        let r = ctx.module.ckks_reallocate_limbs_checked(&mut pool[d], nat(f[2]));
                        e2s(r)?;
                        Ok(Some(d))
                    }
                    ("compact_copy", 3) => {
                        let (d, a) = (slot(f[1])?, slot(f[2])?);
                        if d == a {
                            return Err("bad-slot".to_string());
                        }
                        let c = ctx.module.ckks_compact_limbs_copy(&pool[a]).map_err(|e| err_string(&e))?;
                        pool[d] = c;
                        vals[d] = vals[a].clone();
                        Ok(Some(d))
                    }
                    ("set_meta", 4) => {
                        let d = slot(f[1])?;
                        let r = pool[d].set_meta_checked(meta(f[2], f[3]));
                        if r.is_ok() {
                            vals[d] = None;
                        }
                        e2s(r)?;
                        Ok(None)
                    }
                    ("dec", 5) => {
                        let a = slot(f[1])?;
                        let mut z = CKKSPlaintextVecZnx::alloc(Degree(ctx.n as u32), Base2K(nat(f[4]) as u32), meta(f[2], f[3]));
                        let r = ctx.module.ckks_decrypt(&mut z, &pool[a], &ctx.sk, ctx.scratch.borrow());
                        e2s(r)?;
                        Ok(None)
                    }
                    ("add_many" | "mul_many", _) if f.len() >= 2 => {
                        let d = slot(f[1])?;
                        let idx: Vec<usize> = f[2..].iter().map(|x| nat(x)).collect();
                        let (pd, cs) = dst_srcs(pool, d, &idx)?;
                        let mut nv: Slots = idx.first().and_then(|&a| vals[a].clone());
                        for &a in idx.iter().skip(1) {
                            nv = if name == "add_many" { zip2(&nv, &vals[a], |x, y| (x.0 + y.0, x.1 + y.1)) } else { zip2(&nv, &vals[a], cmul) };
                        }
                        let r = if name == "add_many" {
                            ctx.module.ckks_add_many(pd, &cs, ctx.scratch.borrow())
                        } else {
                            ctx.module.ckks_mul_many(pd, &cs, &ctx.tsk, ctx.scratch.borrow())
                        };
                        vals[d] = if r.is_ok() { nv } else { None };
                        e2s(r)?;
                        Ok(Some(d))
                    }
                    ("dot_ct" | "dot_pt_znx" | "dot_pt_rnx" | "dot_cst_rnx", _) if f.len() >= 3 => {
                        let d = slot(f[1])?;
                        let n = nat(f[2]);
                        if f.len() < 3 + n {
                            return Err("bad-op".to_string());
                        }
                        let ia: Vec<usize> = f[3..3 + n].iter().map(|x| nat(x)).collect();
                        let rest = &f[3 + n..];
                        let sum = |terms: Vec<Slots>| -> Slots {
                            let mut acc: Slots = terms.first().cloned().flatten();
                            for t in terms.iter().skip(1) {
                                acc = zip2(&acc, t, |x, y| (x.0 + y.0, x.1 + y.1));
                            }
                            acc
                        };
                        match name {
                            "dot_ct" => {
                                if rest.len() != n {
                                    return Err("bad-op".to_string());
                                }
                                let ib: Vec<usize> = rest.iter().map(|x| nat(x)).collect();
                                let mut all = ia.clone();
                                all.extend(ib.iter());
                                let nv = sum((0..n).map(|i| zip2(&vals[ia[i]], &vals[ib[i]], cmul)).collect());
                                let (pd, cs) = dst_srcs(pool, d, &all)?;
                                let r = ctx.module.ckks_dot_product_ct(pd, &cs[..n], &cs[n..], &ctx.tsk, ctx.scratch.borrow());
                                vals[d] = if r.is_ok() { nv } else { None };
                                e2s(r)?;
                            }
                            "dot_pt_znx" => {
                                if rest.len() != 3 {
                                    return Err("bad-op".to_string());
                                }
                                if ia.iter().any(|&a| a == d) {
                                    return Err("bad-slot".to_string());
                                }
                                let pv: Vec<(Vec<f64>, Vec<f64>)> = (0..n).map(|i| gen_slots(5000 + step * 16 + i as u64, m, 0.2)).collect();
                                let mut zs = Vec::new();
                                for v in pv.iter() {
                                    zs.push(pt_znx(ctx, meta(rest[0], rest[1]), nat(rest[2]), v).map_err(|e| err_string(&e))?);
                                }
                                let zr: Vec<&CKKSPlaintextVecZnx<Vec<u8>>> = zs.iter().collect();
                                let nv = sum((0..n).map(|i| zip2(&vals[ia[i]], &Some(pv[i].clone()), cmul)).collect());
                                let (pd, cs) = dst_srcs(pool, d, &ia)?;
                                let r = ctx.module.ckks_dot_product_pt_vec_znx(pd, &cs, &zr, ctx.scratch.borrow());
                                vals[d] = if r.is_ok() { nv } else { None };
                                e2s(r)?;
                            }
                            "dot_pt_rnx" => {
                                if rest.len() != 2 {
                                    return Err("bad-op".to_string());
                                }
                                let pv: Vec<(Vec<f64>, Vec<f64>)> = (0..n).map(|i| gen_slots(5000 + step * 16 + i as u64, m, 0.2)).collect();
                                let rs: Vec<CKKSPlaintextVecRnx<F>> = pv.iter().map(|v| pt_rnx(ctx, v)).collect();
                                let rr: Vec<&CKKSPlaintextVecRnx<F>> = rs.iter().collect();
                                let nv = sum((0..n).map(|i| zip2(&vals[ia[i]], &Some(pv[i].clone()), cmul)).collect());
                                let (pd, cs) = dst_srcs(pool, d, &ia)?;
                                let r = ctx.module.ckks_dot_product_pt_vec_rnx(pd, &cs, &rr, meta(rest[0], rest[1]), ctx.scratch.borrow());
                                vals[d] = if r.is_ok() { nv } else { None };
                                e2s(r)?;
                            }
                            _ => {
                                if rest.len() != 4 {
                                    return Err("bad-op".to_string());
                                }
                                let cv: Vec<(Option<f64>, Option<f64>)> =
                                    (0..n).map(|i| cst_vals(step * 16 + i as u64, rest[2] == "1", rest[3] == "1")).collect();
                                let cs_: Vec<CKKSPlaintextCstRnx<F>> = cv.iter().map(|c| CKKSPlaintextCstRnx::<F>::new(c.0.map(to_f), c.1.map(to_f))).collect();
                                let cr: Vec<&CKKSPlaintextCstRnx<F>> = cs_.iter().collect();
                                let nv = sum((0..n)
                                    .map(|i| {
                                        let cc = (cv[i].0.unwrap_or(0.0), cv[i].1.unwrap_or(0.0));
                                        map1(&vals[ia[i]], |x| cmul(x, cc))
                                    })
                                    .collect());
                                let (pd, cs) = dst_srcs(pool, d, &ia)?;
                                let r = ctx.module.ckks_dot_product_pt_const_rnx(pd, &cs, &cr, meta(rest[0], rest[1]), ctx.scratch.borrow());
                                vals[d] = if r.is_ok() { nv } else { None };
                                e2s(r)?;
                            }
                        }
                        Ok(Some(d))
                    }
                    _ => Err("bad-op".to_string()),
                }
            }

            fn rot_slots(a: &Slots, k: i64) -> Slots {
                a.as_ref().map(|(re, im)| {
                    let m = re.len() as i64;
                    let idx = |j: usize| ((j as i64 + k).rem_euclid(m)) as usize;
                    ((0..re.len()).map(|j| re[idx(j)]).collect(), (0..re.len()).map(|j| im[idx(j)]).collect())
                })
            }

            fn dst_src<'a>(pool: &'a mut [Ct], d: usize, a: usize) -> Result<(&'a mut Ct, &'a Ct), String> {
                if d == a {
                    return Err("bad-slot".to_string());
                }
                let p = pool.as_mut_ptr();
                unsafe { Ok((&mut *p.add(d), &*p.add(a))) }
            }
            fn dst_srcs<'a>(pool: &'a mut [Ct], d: usize, srcs: &[usize]) -> Result<(&'a mut Ct, Vec<&'a Ct>), String> {
                if d >= pool.len() || srcs.iter().any(|&a| a == d || a >= pool.len()) {
                    return Err("bad-slot".to_string());
                }
                let p = pool.as_mut_ptr();
                unsafe { Ok((&mut *p.add(d), srcs.iter().map(|&a| &*p.add(a)).collect())) }
            }
            fn dst_src2<'a>(pool: &'a mut [Ct], d: usize, a: usize, b: usize) -> Result<(&'a mut Ct, &'a Ct, &'a Ct), String> {
                if d == a || d == b {
                    return Err("bad-slot".to_string());
                }
                let p = pool.as_mut_ptr();
                unsafe { Ok((&mut *p.add(d), &*p.add(a), &*p.add(b))) }
            }

            /// precision floor (bits after the binary point that can be trusted) of the value in the
            /// destination after a successful op: min over everything that flowed into it
            fn prec_after(f: &[&str], vp: &mut Vec<i64>) {
                let name = f[0];
                let g = |i: usize| -> i64 { f.get(i).and_then(|x| x.parse::<i64>().ok()).unwrap_or(0) };
                let at = |vp: &Vec<i64>, i: i64| -> i64 { vp.get(i as usize).copied().unwrap_or(0) };
                let d = g(1) as usize;
                if d >= vp.len() {
                    return;
                }
                let v = match name {
                    "enc" => g(3),
                    "add" | "sub" | "mul" => at(vp, g(2)).min(at(vp, g(3))),
                    "mul_add_ct" | "mul_sub_ct" => at(vp, g(2)).min(at(vp, g(3))).min(vp[d]),
                    "add_assign" | "sub_assign" | "mul_assign" => vp[d].min(at(vp, g(2))),
                    "add_pt_znx" | "sub_pt_znx" | "mul_pt_znx" | "add_pt_rnx" | "sub_pt_rnx" | "mul_pt_rnx" | "add_cst_rnx"
                    | "sub_cst_rnx" | "mul_cst_rnx" => at(vp, g(2)).min(g(3)),
                    "mul_add_pt_znx" | "mul_sub_pt_znx" | "mul_add_pt_rnx" | "mul_sub_pt_rnx" | "mul_add_cst_rnx"
                    | "mul_sub_cst_rnx" => at(vp, g(2)).min(g(3)).min(vp[d]),
                    "add_pt_znx_assign" | "sub_pt_znx_assign" | "mul_pt_znx_assign" | "add_pt_rnx_assign" | "sub_pt_rnx_assign"
                    | "mul_pt_rnx_assign" | "add_cst_rnx_assign" | "sub_cst_rnx_assign" | "mul_cst_rnx_assign" => vp[d].min(g(2)),
                    "neg" | "square" | "conj" | "compact_copy" => at(vp, g(2)),
                    "rot" => at(vp, g(2)),
                    "mul_pow2" => at(vp, g(2)) - g(3),
                    "mul_pow2_assign" => vp[d] - g(2),
                    "div_pow2" => at(vp, g(2)),
                    "rescale" => at(vp, g(3)),
                    "add_many" | "mul_many" => (2..f.len()).map(|i| at(vp, g(i))).min().unwrap_or(0),
                    "dot_ct" => (3..f.len()).map(|i| at(vp, g(i))).min().unwrap_or(0),
                    "dot_pt_znx" | "dot_pt_rnx" | "dot_cst_rnx" => {
                        let n = g(2) as usize;
                        (3..3 + n).map(|i| at(vp, g(i))).min().unwrap_or(0).min(g(3 + n))
                    }
                    _ => vp[d],
                };
                vp[d] = v;
            }

            pub fn run_line(cache: &mut HashMap<String, Ctx>, t: &[&str]) -> String {
                let n = kvu(t, "n", 16);
                let base2k = kvu(t, "base2k", 52);
                let keys: Vec<i64> = kv(t, "keys")
                    .map(|s| if s == "-" { vec![] } else { s.split(',').filter_map(|x| x.parse().ok()).collect() })
                    .unwrap_or_default();
                let pool_s = kv(t, "pool").unwrap_or("");
                let want_vals = kvu(t, "vals", 0) == 1;
                let mag = kv(t, "mag").and_then(|s| s.parse::<f64>().ok()).unwrap_or(1.0);
                CST_EXP.with(|c| c.set(kv(t, "cstexp").and_then(|s| s.parse::<i32>().ok()).unwrap_or(0)));
                let specs: Vec<(usize, usize, usize)> = pool_s
                    .split('/')
                    .filter(|s| !s.is_empty() && *s != "-")
                    .map(|e| {
                        let v: Vec<usize> = e.split(':').map(|x| x.parse().unwrap_or(0)).collect();
                        (v[0], *v.get(1).unwrap_or(&0), *v.get(2).unwrap_or(&0))
                    })
                    .collect();
                let kmax = specs.iter().map(|s| s.0).max().unwrap_or(1).max(6) * base2k;
                let key = format!("{n}/{base2k}/{kmax}/{:?}", keys);
                if !cache.contains_key(&key) {
                    cache.insert(key.clone(), new_ctx(n, base2k, kmax, &keys));
                }
                let ctx = cache.get_mut(&key).unwrap();
                let mut pool: Vec<Ct> = specs
                    .iter()
                    .map(|&(sz, d, b)| {
                        let mut c = CKKSCiphertext::alloc(Degree(n as u32), (sz * base2k).into(), Base2K(base2k as u32));
                        if d + b > 0 {
                            let _ = c.set_meta_checked(CKKSMeta { log_delta: d, log_budget: b });
                        }
                        c
                    })
                    .collect();
                let mut vals: Vec<Slots> = vec![None; pool.len()];
                let mut vprec: Vec<i64> = vec![0; pool.len()];
                let ops: Vec<&str> = kv(t, "ops").unwrap_or("").split(';').filter(|s| !s.is_empty()).collect();
                let mut out: Vec<String> = Vec::new();
                let mut diag: Vec<String> = Vec::new();
                let dump = kvu(t, "dump", 0) == 1;
                if dump {
                    let mut st: u64 = kvu(t, "seed", 1) as u64 ^ 0x9E3779B97F4A7C15;
                    for c in pool.iter_mut() {
                        fill_ct(c, base2k, &mut st);
                    }
                    out.push(format!("init#{}", pool.iter().map(dump_ct).collect::<Vec<_>>().join("/")));
                    if kvu(t, "needkey", 0) == 1 {
                        out.push(format!("key#{}", ctx.tsk_dump));
                    }
                    if kvu(t, "needatk", 0) == 1 {
                        let mut ks: Vec<&i64> = ctx.rot_dump.keys().collect();
                        ks.sort();
                        let a: Vec<String> = ks.iter().map(|k| format!("{}~{}~{}", k, ctx.rot_dump[k].0, ctx.rot_dump[k].1)).collect();
                        out.push(format!("atk#{}", if a.is_empty() { "-".to_string() } else { a.join(";") }));
                        out.push(format!("ctk#-1~{}", ctx.conj_dump));
                    }
                    DUMP_PT.with(|d| *d.borrow_mut() = (true, st ^ 0x5DEECE66D, String::new()));
                } else {
                    DUMP_PT.with(|d| d.borrow_mut().0 = false);
                }
                let dump_of = |pool: &Vec<Ct>, f: &[&str]| -> String {
                    if !dump {
                        return String::new();
                    }
                    let slot = |i: usize| match f.get(i).and_then(|x| x.parse::<usize>().ok()) {
                        Some(d) if d < pool.len() => dump_ct(&pool[d]),
                        _ => "-".to_string(),
                    };
                    let pt = DUMP_PT.with(|d| std::mem::take(&mut d.borrow_mut().2));
                    let pt = if pt.is_empty() { String::new() } else { format!("%{pt}") };
                    if f[0] == "align" { format!("#{}/{}{}", slot(1), slot(2), pt) } else { format!("#{}{}", slot(1), pt) }
                };
                for (i, op) in ops.iter().enumerate() {
                    let f: Vec<&str> = op.split(',').collect();
                    let r = std::panic::catch_unwind(std::panic::AssertUnwindSafe(|| exec(ctx, &mut pool, &mut vals, &f, i as u64, mag)));
                    match r {
                        Ok(Ok(dst)) => {
                            out.push(format!("ok@{}{}", show_pool(&pool), dump_of(&pool, &f)));
                            prec_after(&f, &mut vprec);
                            let mut dg = "-".to_string();
                            if want_vals {
                                if let Some(d) = dst {
                                    if let Some((wr, wi)) = vals[d].clone() {
                                        if let Some((gr, gi)) = dec_slots(ctx, &pool[d]) {
                                            let mut e: f64 = 0.0;
                                            let mut mx: f64 = 0.0;
                                            for j in 0..wr.len() {
                                                e = e.max((gr[j] - wr[j]).abs()).max((gi[j] - wi[j]).abs());
                                                mx = mx.max(wr[j].abs()).max(wi[j].abs());
                                            }
                                            let l = if e == 0.0 { -1074.0 } else { e.log2() };
                                            let lb = pool[d].log_budget().min(30).min(120 - pool[d].log_delta().min(120));
                                            dg = format!(
                                                "{:.1}:{}:{:.1}:{}",
                                                l,
                                                vprec[d].min(pool[d].log_delta() as i64).min(46), // the complex-number mirror is f64
                                                if mx == 0.0 { -1074.0 } else { mx.log2() },
                                                lb
                                            );
                                        }
                                    }
                                }
                            }
                            diag.push(dg);
                        }
                        Ok(Err(e)) => {
                            if e == "bad-op" {
                                out.push("bad-op".to_string());
                                break;
                            }
                            out.push(format!("err:{}@{}{}", e, show_pool(&pool), dump_of(&pool, &f)));
                            diag.push("-".to_string());
                        }
                        Err(_) => {
                            let msg = LAST_PANIC.with(|m| m.borrow().clone());
                            out.push(format!("panic:{}", panic_class(&msg)));
                            break;
                        }
                    }
                }
                if want_vals { format!("{} {}", out.join("|"), diag.join("|")) } else { out.join("|") }
            }

            /// `toznx float=… form=vec|cst base2k= delta= budget= [k=] vals=m:e;…|nan|inf|-inf`:
            /// the float → integer conversion of `CKKSPlaintextVecRnx::to_znx` (one coefficient per value, `n` =
            /// number of values) and of `CKKSPlaintextCstRnx::to_znx_at_k` (`vals` = re[;im], `k` explicit) on
            /// exactly given inputs `m·2^e`.  Answer: `ok <digits>` (limbs most significant first, `.`-joined;
            /// coefficients `,`-joined; cst: `re/im`, `-` = absent), `err:other`, `panic:unwrap-none` / `panic:<class>`.
            pub fn toznx(t: &[&str]) -> String {
                let base2k = kvu(t, "base2k", 52);
                let meta = CKKSMeta { log_delta: kvu(t, "delta", 40), log_budget: kvu(t, "budget", 10) };
                let k = kvu(t, "k", 0);
                let form = kv(t, "form").unwrap_or("vec").to_string();
                fn mk(s: &str) -> Option<F> {
                    match s {
                        "nan" => return Some(<F as num_traits::Float>::nan()),
                        "inf" => return Some(<F as num_traits::Float>::infinity()),
                        "-inf" => return Some(<F as num_traits::Float>::neg_infinity()),
                        "-" => return None,
                        _ => {}
                    }
                    // a sum of exactly representable terms `m:e` = m·2^e (`+`-separated; the caller keeps the sum exact)
                    let mut acc = to_f(0.0);
                    for term in s.split('+') {
                        let (m, e) = term.split_once(':')?;
                        let (m, e): (i64, i32) = (m.parse().ok()?, e.parse().ok()?);
                        let mut x = <F as num_traits::FromPrimitive>::from_i64(m)?;
                        let f = if e > 0 { to_f(2.0) } else { to_f(0.5) };
                        for _ in 0..e.unsigned_abs() {
                            x = x * f;
                        }
                        acc = acc + x;
                    }
                    Some(acc)
                }
                let raw: Vec<&str> = kv(t, "vals").unwrap_or("").split(';').filter(|x| !x.is_empty()).collect();
                let vals: Vec<Option<F>> = raw.iter().map(|s| mk(s)).collect();
                let r = std::panic::catch_unwind(|| -> anyhow::Result<String> {
                    if form == "cst" {
                        let c = CKKSPlaintextCstRnx::<F>::new(vals.first().copied().flatten(), vals.get(1).copied().flatten());
                        let z = c.to_znx_at_k(Base2K(base2k as u32), k, meta.log_delta)?;
                        let show = |d: Option<&[i64]>| match d {
                            None => "-".to_string(),
                            Some(v) => v.iter().map(|x| x.to_string()).collect::<Vec<_>>().join("."),
                        };
                        Ok(format!("ok {}/{} meta={}.{}", show(z.re()), show(z.im()), z.log_delta(), z.log_budget()))
                    } else {
                        let n = vals.len();
                        let mut rnx = CKKSPlaintextVecRnx::<F>::alloc(n)?;
                        for (dst, v) in rnx.data_mut().iter_mut().zip(vals.iter()) {
                            *dst = v.unwrap_or(to_f(0.0));
                        }
                        let mut z = CKKSPlaintextVecZnx::alloc(Degree(n as u32), Base2K(base2k as u32), meta);
                        rnx.to_znx(&mut z)?;
                        let size = z.size();
                        let mut out = Vec::new();
                        for i in 0..n {
                            out.push((0..size).map(|j| z.data().at(0, j)[i].to_string()).collect::<Vec<_>>().join("."));
                        }
                        Ok(format!("ok {}", out.join(",")))
                    }
                });
                match r {
                    Ok(Ok(s)) => s,
                    Ok(Err(_)) => "err:other".to_string(),
                    Err(_) => {
                        let msg = LAST_PANIC.with(|m| m.borrow().clone());
                        if msg.contains("`None` value") { "panic:unwrap-none".to_string() } else { format!("panic:{}", panic_class(&msg)) }
                    }
                }
            }

            /// encode → to_znx → decode_from_znx → decode: max slot error and the encoder-only error
            pub fn roundtrip(t: &[&str]) -> String {
                let n = kvu(t, "n", 16);
                let base2k = kvu(t, "base2k", 52);
                let meta = CKKSMeta { log_delta: kvu(t, "delta", 40), log_budget: kvu(t, "budget", 10) };
                let mag = kv(t, "mag").and_then(|s| s.parse::<f64>().ok()).unwrap_or(1.0);
                let seed = kvu(t, "seed", 1) as u64;
                let m = n / 2;
                let r = std::panic::catch_unwind(|| -> anyhow::Result<String> {
                    let enc = Encoder::<F>::new(m)?;
                    let v = gen_slots(seed, m, mag);
                    let mut rnx = CKKSPlaintextVecRnx::<F>::alloc(n)?;
                    enc.encode_reim(&mut rnx, &to_fv(&v.0), &to_fv(&v.1))?;
                    let mut re0f = vec![to_f(0.0); m];
                    let mut im0f = vec![to_f(0.0); m];
                    enc.decode_reim(&rnx, &mut re0f, &mut im0f)?;
                    let re0: Vec<f64> = re0f.iter().map(|&x| of_f(x)).collect();
                    let im0: Vec<f64> = im0f.iter().map(|&x| of_f(x)).collect();
                    let mut e0: f64 = 0.0;
                    for j in 0..m {
                        e0 = e0.max((re0[j] - v.0[j]).abs()).max((im0[j] - v.1[j]).abs());
                    }
                    let mut z = CKKSPlaintextVecZnx::alloc(Degree(n as u32), Base2K(base2k as u32), meta);
                    rnx.to_znx(&mut z)?;
                    let mut back = CKKSPlaintextVecRnx::<F>::alloc(n)?;
                    back.decode_from_znx(&z)?;
                    let mut ref_ = vec![to_f(0.0); m];
                    let mut imf = vec![to_f(0.0); m];
                    enc.decode_reim(&back, &mut ref_, &mut imf)?;
                    let re: Vec<f64> = ref_.iter().map(|&x| of_f(x)).collect();
                    let im: Vec<f64> = imf.iter().map(|&x| of_f(x)).collect();
                    let mut e: f64 = 0.0;
                    for j in 0..m {
                        e = e.max((re[j] - v.0[j]).abs()).max((im[j] - v.1[j]).abs());
                    }
                    let l = |x: f64| if x == 0.0 { -1074.0 } else { x.log2() };
                    Ok(format!("ok enc={:.1} full={:.1}", l(e0), l(e)))
                });
                match r {
                    Ok(Ok(s)) => s,
                    Ok(Err(_)) => "err:other".to_string(),
                    Err(_) => format!("panic:{}", panic_class(&LAST_PANIC.with(|m| m.borrow().clone()))),
                }
            }
        }
    };
}

backend_impl!(ntt120ref, poulpy_cpu_ref::NTT120Ref, f64, 53);
backend_impl!(ntt120ref128, poulpy_cpu_ref::NTT120Ref, f128::f128, 113);
backend_impl!(fft64ref, poulpy_cpu_ref::FFT64Ref, f64, 53);
backend_impl!(ntt120avx, poulpy_cpu_avx::NTT120Avx, f64, 53);
backend_impl!(fft64avx, poulpy_cpu_avx::FFT64Avx, f64, 53);

pub fn run(_args: &[String]) {
    std::panic::set_hook(Box::new(|info| {
        let mut msg = String::new();
        if let Some(s) = info.payload().downcast_ref::<&str>() {
            msg.push_str(s);
        } else if let Some(s) = info.payload().downcast_ref::<String>() {
            msg.push_str(s);
        }
        if let Some(l) = info.location() {
            msg.push_str(&format!(" @{}:{}", l.file(), l.line()));
        }
        LAST_PANIC.with(|m| *m.borrow_mut() = msg);
    }));
    let mut c1: HashMap<String, ntt120ref::Ctx> = HashMap::new();
    let mut c2: HashMap<String, fft64ref::Ctx> = HashMap::new();
    let mut c3: HashMap<String, ntt120avx::Ctx> = HashMap::new();
    let mut c4: HashMap<String, fft64avx::Ctx> = HashMap::new();
    let mut c5: HashMap<String, ntt120ref128::Ctx> = HashMap::new();
    let stdin = std::io::stdin();
    let stdout = std::io::stdout();
    let mut out = stdout.lock();
    let verbose = std::env::var("PVH_CKKS_VERBOSE").is_ok();
    for line in stdin.lock().lines() {
        let line = line.unwrap();
        let mut t: Vec<&str> = line.split_whitespace().collect();
        if t.len() >= 2 && t[1] == "ckks" {
            t.remove(1);
        }
        if t.len() < 2 {
            continue;
        }
        let id = t[0];
        let ans = if t[1] == "toznx" {
            if kv(&t[2..], "float") == Some("f128") { ntt120ref128::toznx(&t[2..]) } else { ntt120ref::toznx(&t[2..]) }
        } else if t[1] == "roundtrip" {
            if kv(&t[2..], "float") == Some("f128") { ntt120ref128::roundtrip(&t[2..]) } else { ntt120ref::roundtrip(&t[2..]) }
        } else {
            let be = kv(&t[1..], "be").unwrap_or("ntt120ref");
            let r = std::panic::catch_unwind(std::panic::AssertUnwindSafe(|| match be {
                "ntt120ref" => ntt120ref::run_line(&mut c1, &t[1..]),
                "fft64ref" => fft64ref::run_line(&mut c2, &t[1..]),
                "ntt120avx" => ntt120avx::run_line(&mut c3, &t[1..]),
                "fft64avx" => fft64avx::run_line(&mut c4, &t[1..]),
                "ntt120ref128" => ntt120ref128::run_line(&mut c5, &t[1..]),
                _ => "bad-backend".to_string(),
            }));
            match r {
                Ok(s) => s,
                Err(_) => format!("harness-panic:{}", LAST_PANIC.with(|m| m.borrow().clone()).replace(' ', "_")),
            }
        };
        if verbose {
            let msg = LAST_PANIC.with(|m| m.borrow().clone());
            if !msg.is_empty() {
                eprintln!("{id} last panic: {msg}");
            }
        }
        writeln!(out, "{id} {ans}").unwrap();
    }
    out.flush().unwrap();
}
