//! C12 harness: runs scratch-taking operations of the real code inside an exact-size scratch
//! window carved out of a canary-filled allocation, with the take-trace hook recording.
//!
//! stdin : `id <op> be=fft64ref|ntt120ref|fft64avx|ntt120avx n=.. k=v … mis=<0..63> [win=<bytes>]`
//! stdout: `id tb=<tmp_bytes> run=<ok|take|need|other> peak=<p> ev=<o:l:r,…> same=<0|1> canary=<0|1> out=<fnv64 of the result bytes>`
//!   * `tb`   : what the operation's companion `*_tmp_bytes` query returns for this shape;
//!   * window : starts at an address ≡ mis (mod 64); length `align_offset + tb` unless `win=` is given,
//!              so that `scratch.available() == tb` exactly;
//!   * `run`  : `take` = `take_slice_aligned` panicked, `need` = an `available() >= tmp_bytes` assertion
//!              failed, `other` = any other panic (class only, never message text);
//!   * `ev`   : the takes seen by the hook on the calling thread (window offset : window length : requested)
//!              relative to the window start; `peak` = highest end of a taken slice;
//!   * `same` : result bytes equal under scratch pre-filled with 0x00 and with 0xA5;
//!   * `canary`: every byte of the allocation outside the window still holds its canary.
//! Unknown op → `id bad-op`;  shape the op cannot be built for → `id skip`.
use std::cell::RefCell;
use std::collections::HashMap;
use std::io::{BufRead, Write};

pub struct Kv(pub HashMap<String, String>);
impl Kv {
    pub fn parse(toks: &[&str]) -> Kv {
        let mut m = HashMap::new();
        for t in toks {
            if let Some((k, v)) = t.split_once('=') {
                m.insert(k.to_string(), v.to_string());
            }
        }
        Kv(m)
    }
    pub fn g(&self, k: &str) -> usize {
        self.0.get(k).and_then(|s| s.parse().ok()).unwrap_or(0)
    }
    pub fn s(&self, k: &str) -> &str {
        self.0.get(k).map(|s| s.as_str()).unwrap_or("")
    }
}

thread_local! {
    static LAST_PANIC: RefCell<String> = const { RefCell::new(String::new()) };
}

pub fn install_hook() {
    std::panic::set_hook(Box::new(|info| {
        let msg = if let Some(s) = info.payload().downcast_ref::<&str>() {
            s.to_string()
        } else if let Some(s) = info.payload().downcast_ref::<String>() {
            s.clone()
        } else {
            String::new()
        };
        // a panic on a worker thread surfaces on the caller as "a scoped thread panicked": keep the original message too
        if msg != "a scoped thread panicked" {
            *LAST_ANY_PANIC.lock().unwrap() = msg.clone();
        }
        LAST_PANIC.with(|p| *p.borrow_mut() = msg);
    }));
}

static LAST_ANY_PANIC: std::sync::Mutex<String> = std::sync::Mutex::new(String::new());

fn classify() -> &'static str {
    LAST_PANIC.with(|p| {
        let own = p.borrow();
        let any = LAST_ANY_PANIC.lock().unwrap().clone();
        let m: &String = if *own == "a scoped thread panicked" { &any } else { &*own };
        if std::env::var("VERIF_DEBUG").is_ok() {
            eprintln!("panic message: {}", *m);
        }
        if m.starts_with("Attempted to take") {
            "take"
        } else if m.contains("scratch.available()") || m.contains("self.available() >= n * len") || m.contains("tmp_bytes") {
            "need"
        } else {
            "other"
        }
    })
}

pub fn fnv(b: &[u8]) -> u64 {
    let mut h: u64 = 0xcbf29ce484222325;
    for x in b {
        h ^= *x as u64;
        h = h.wrapping_mul(0x100000001b3);
    }
    h
}

pub struct Outcome {
    pub run: &'static str,
    pub peak: usize,
    pub ev: Vec<(usize, usize, usize)>,
    pub same: bool,
    pub canary: bool,
    pub out: u64,
}

const CANARY: u8 = 0xC3;
const GUARD: usize = 4096;

/// Runs `f` twice (scratch filled with 0xA5, then with a position-dependent non-zero pattern) inside a window with `available() == tb`
/// (or of `win` bytes) placed at misalignment `mis` inside a canary-filled allocation.
pub fn exec_window<S: ?Sized>(
    tb: usize,
    mis: usize,
    win: Option<usize>,
    wrap: impl Fn(&mut [u8]) -> &mut S,
    mut f: impl FnMut(&mut S) -> Vec<u8>,
) -> Outcome {
    let ao = (64 - mis % 64) % 64;
    let len = win.unwrap_or(ao + tb);
    let mut big = vec![CANARY; len + 2 * GUARD + 128];
    let base = big.as_ptr() as usize;
    let mut off = GUARD;
    while (base + off) % 64 != mis % 64 {
        off += 1;
    }
    let mut outs: Vec<Vec<u8>> = Vec::new();
    let mut run = "ok";
    let mut ev = Vec::new();
    let mut canary = true;
    // two different non-zero pre-fills: a constant pattern and a position-dependent one (an operation that relies on
    // zeroed scratch, or reads a cell before writing it, gives two different results)
    for round in 0..2usize {
        for (i, b) in big[off..off + len].iter_mut().enumerate() {
            *b = if round == 0 { 0xA5 } else { ((i.wrapping_mul(131).wrapping_add(89) ^ (i >> 7)) as u8) | 0x11 };
        }
        poulpy_cpu_ref::hal_defaults::scratch::verif_hooks::trace_start();
        let r = {
            let window = &mut big[off..off + len];
            let s = wrap(window);
            std::panic::catch_unwind(std::panic::AssertUnwindSafe(|| f(s)))
        };
        let tr = poulpy_cpu_ref::hal_defaults::scratch::verif_hooks::trace_stop();
        if round == 0 {
            // takes made on other arenas (a helper scratch used to observe the result) are not part of the trace
            ev = tr
                .iter()
                .filter(|(a, _, _)| *a >= base + off && *a <= base + off + len)
                .map(|(a, l, t)| (a.wrapping_sub(base + off), *l, *t))
                .collect();
        }
        match r {
            Ok(o) => outs.push(o),
            Err(_) => {
                run = classify();
            }
        }
        if big[..off].iter().any(|b| *b != CANARY) || big[off + len..].iter().any(|b| *b != CANARY) {
            canary = false;
        }
    }
    let peak = ev
        .iter()
        .map(|(o, _, t)| {
            let a = base + off + o;
            o + (64 - a % 64) % 64 + t
        })
        .max()
        .unwrap_or(0);
    let same = outs.len() == 2 && outs[0] == outs[1];
    let out = outs.first().map(|o| fnv(o)).unwrap_or(0);
    Outcome { run, peak, ev, same: same || run != "ok", canary, out }
}

pub fn fmt_outcome(tb: usize, o: &Outcome) -> String {
    let ev = if o.ev.is_empty() {
        "-".to_string()
    } else {
        o.ev.iter().map(|(a, l, t)| format!("{a}:{l}:{t}")).collect::<Vec<_>>().join(",")
    };
    format!(
        "tb={} run={} peak={} ev={} same={} canary={} out={}",
        tb, o.run, o.peak, ev, o.same as u8, o.canary as u8, o.out
    )
}


use poulpy_core::layouts::{Base2K, Degree, GLWE, GLWELayout, Rank, TorusPrecision};
use poulpy_hal::{layouts::{VecZnx, ZnxView, ZnxViewMut}, source::Source};

pub fn rand_vec(n: usize, cols: usize, size: usize, base2k: usize, seed: u8) -> VecZnx<Vec<u8>> {
    let mut v = VecZnx::alloc(n, cols, size);
    let mut src = Source::new([seed; 32]);
    let mask: i64 = (1i64 << (base2k.min(40) + 2)) - 1;
    for x in v.raw_mut().iter_mut() {
        *x = (src.next_i64() & mask) - (mask >> 1);
    }
    v
}

pub fn glwe_layout(n: usize, b2k: usize, size: usize, rank: usize) -> GLWELayout {
    GLWELayout {
        n: Degree(n as u32),
        base2k: Base2K(b2k as u32),
        k: TorusPrecision((b2k * size) as u32),
        rank: Rank(rank as u32),
    }
}

pub fn rand_glwe(n: usize, b2k: usize, size: usize, rank: usize, seed: u8) -> GLWE<Vec<u8>> {
    let mut ct = GLWE::alloc_from_infos(&glwe_layout(n, b2k, size, rank));
    let v = rand_vec(n, rank + 1, size, b2k.saturating_sub(3).max(1), seed);
    ct.data_mut().raw_mut().copy_from_slice(v.raw());
    ct
}

pub fn bytes_of_i64(x: &[i64]) -> Vec<u8> {
    x.iter().flat_map(|v| v.to_le_bytes()).collect()
}


/// CKKS queries are only implemented for the reference back ends in the pinned tree
pub trait CkksTb: poulpy_hal::layouts::Backend {
    fn shift_norm(_m: &poulpy_hal::layouts::Module<Self>) -> Option<usize> {
        None
    }
    fn shift(_m: &poulpy_hal::layouts::Module<Self>) -> Option<usize> {
        None
    }
}
macro_rules! ckks_tb_impl {
    ($BE:ty) => {
        impl CkksTb for $BE {
            fn shift_norm(module: &poulpy_hal::layouts::Module<Self>) -> Option<usize> {
                use poulpy_ckks::leveled::{CKKSAddOps, CKKSNegOps, CKKSPow2Ops, CKKSRescaleOps, CKKSSubOps};
                let t = module.ckks_add_tmp_bytes();
                // the whole shift/normalize family must return the same number
                let all = [module.ckks_sub_tmp_bytes(), module.ckks_add_pt_const_tmp_bytes(), module.ckks_sub_pt_const_tmp_bytes()];
                Some(if all.iter().any(|x| *x != t) { usize::MAX } else { t })
            }
            fn shift(module: &poulpy_hal::layouts::Module<Self>) -> Option<usize> {
                use poulpy_ckks::leveled::{CKKSNegOps, CKKSPow2Ops, CKKSRescaleOps};
                let t = module.ckks_neg_tmp_bytes();
                let all = [
                    module.ckks_mul_pow2_tmp_bytes(),
                    module.ckks_div_pow2_tmp_bytes(),
                    module.ckks_rescale_tmp_bytes(),
                    module.ckks_align_tmp_bytes(),
                ];
                Some(if all.iter().any(|x| *x != t) { usize::MAX } else { t })
            }
        }
    };
}
ckks_tb_impl!(poulpy_cpu_ref::FFT64Ref);
ckks_tb_impl!(poulpy_cpu_ref::NTT120Ref);
impl CkksTb for poulpy_cpu_avx::FFT64Avx {}
impl CkksTb for poulpy_cpu_avx::NTT120Avx {}

macro_rules! backend_cases {
    ($modname:ident, $BE:ty) => {
        pub mod $modname {
            use super::{Kv, bytes_of_i64, exec_window, fmt_outcome, glwe_layout, rand_glwe, rand_vec};
            use poulpy_core::{
                EncryptionLayout, GGLWEEncryptSk, GGSWEncryptSk, GLWEAutomorphism, GLWEAutomorphismKeyEncryptSk, GLWEDecrypt,
                GLWEEncryptPk, GLWEEncryptSk, GLWEExternalProduct, GLWEKeyswitch, GLWEMulXpMinusOne, GLWENormalize,
                GLWEPublicKeyGenerate, GLWERotate, GLWEShift, GLWESwitchingKeyEncryptSk, GLWETrace, LWEDecrypt, LWEEncryptSk,
                layouts::{
                    Base2K, Degree, Dnum, Dsize, GGLWE, GGLWELayout, GGSW, GGSWLayout, GGSWPreparedFactory, GLWE,
                    GLWEAutomorphismKey, GLWEAutomorphismKeyLayout, GLWEAutomorphismKeyPrepared,
                    GLWEAutomorphismKeyPreparedFactory, GLWELayout, GLWEPlaintext, GLWEPlaintextLayout, GLWEPublicKey,
                    GLWEPublicKeyPreparedFactory, GLWESecret, GLWESecretPreparedFactory, GLWESwitchingKey,
                    GLWESwitchingKeyLayout, GLWESwitchingKeyPreparedFactory, LWE, LWELayout, LWEPlaintext, LWEPlaintextLayout,
                    LWESecret, Rank, TorusPrecision,
                    prepared::{GGSWPrepared, GLWEPublicKeyPrepared, GLWESecretPrepared, GLWESwitchingKeyPrepared},
                },
            };
            use poulpy_hal::{
                api::*,
                layouts::{
                    Backend, DataView, DataViewMut, DeviceBuf, MatZnx, Module, ScalarZnx, Scratch, ScratchOwned, VecZnx, VecZnxBig, VecZnxDft,
                    VmpPMat, ZnxInfos, ZnxView, ZnxViewMut,
                },
                source::Source,
            };
            use std::collections::HashMap;

            type BE = $BE;

            fn wrap(b: &mut [u8]) -> &mut Scratch<BE> {
                <Scratch<BE> as ScratchFromBytes<BE>>::from_bytes(b)
            }


            fn lay_glwe(n: usize, b2k: usize, size: usize, rank: usize) -> GLWELayout {
                glwe_layout(n, b2k.max(1), size, rank)
            }

            /// the companion `*_tmp_bytes` query of every operation of both tables
            pub fn tb_of(module: &Module<BE>, op: &str, kv: &Kv) -> Option<usize> {
                let n = module.n();
                let size = kv.g("size");
                let rank = kv.g("rank");
                let b2k = if kv.g("b2k") == 0 { 17 } else { kv.g("b2k") };
                let (asize, arank, ab2k) = (kv.g("asize"), kv.g("arank"), kv.g("ab2k"));
                let (krin, krout, ksize, kb2k, dnum, dsize) =
                    (kv.g("krin"), kv.g("krout"), kv.g("ksize"), kv.g("kb2k"), kv.g("dnum"), kv.g("dsize"));
                let res = lay_glwe(n, b2k, size, rank);
                let a = lay_glwe(n, ab2k, asize, arank);
                let gglwe = GGLWELayout {
                    n: Degree(n as u32),
                    base2k: Base2K(kb2k.max(1) as u32),
                    k: TorusPrecision((kb2k * ksize) as u32),
                    rank_in: Rank(krin as u32),
                    rank_out: Rank(krout as u32),
                    dnum: Dnum(dnum as u32),
                    dsize: Dsize(dsize.max(1) as u32),
                };
                let ggsw = GGSWLayout {
                    n: Degree(n as u32),
                    base2k: Base2K(kb2k.max(1) as u32),
                    k: TorusPrecision((kb2k * ksize) as u32),
                    rank: Rank(krout as u32),
                    dnum: Dnum(dnum as u32),
                    dsize: Dsize(dsize.max(1) as u32),
                };
                let lwe = LWELayout {
                    n: Degree(if kv.g("nlwe") == 0 { 5 } else { kv.g("nlwe") } as u32),
                    base2k: Base2K(b2k as u32),
                    k: TorusPrecision((b2k * size) as u32),
                };
                Some(match op {
                    // the documented requirement of split_mut: every region but the last is padded to the alignment
                    "split_mut" => {
                        let (cnt, len) = (kv.g("cnt"), kv.g("len"));
                        if cnt == 0 { 0 } else { (cnt - 1) * len.next_multiple_of(poulpy_hal::DEFAULTALIGN) + len }
                    }
                    "vec_znx_normalize" | "vec_znx_normalize_assign" => module.vec_znx_normalize_tmp_bytes(),
                    "vec_znx_lsh" | "vec_znx_lsh_assign" | "vec_znx_lsh_add_into" | "vec_znx_lsh_sub" => module.vec_znx_lsh_tmp_bytes(),
                    "vec_znx_rsh" | "vec_znx_rsh_assign" | "vec_znx_rsh_add_into" | "vec_znx_rsh_sub" => module.vec_znx_rsh_tmp_bytes(),
                    "vec_znx_rotate_assign" => module.vec_znx_rotate_assign_tmp_bytes(),
                    "vec_znx_automorphism_assign" => module.vec_znx_automorphism_assign_tmp_bytes(),
                    "vec_znx_mul_xp_minus_one_assign" => module.vec_znx_mul_xp_minus_one_assign_tmp_bytes(),
                    "vec_znx_split_ring" => module.vec_znx_split_ring_tmp_bytes(),
                    "vec_znx_merge_rings" => module.vec_znx_merge_rings_tmp_bytes(),
                    "vec_znx_big_normalize" | "vec_znx_big_normalize_add_assign" | "vec_znx_big_normalize_sub_assign" => {
                        module.vec_znx_big_normalize_tmp_bytes()
                    }
                    "vec_znx_big_automorphism_assign" => module.vec_znx_big_automorphism_assign_tmp_bytes(),
                    "vec_znx_idft_apply" => module.vec_znx_idft_apply_tmp_bytes(),
                    "vmp_prepare" => module.vmp_prepare_tmp_bytes(kv.g("rows"), kv.g("colsin"), kv.g("colsout").max(1), size),
                    "vmp_apply_dft" => {
                        module.vmp_apply_dft_tmp_bytes(size, asize, kv.g("rows"), kv.g("colsin"), kv.g("colsout").max(1), size)
                    }
                    "vmp_apply_dft_to_dft" => {
                        module.vmp_apply_dft_to_dft_tmp_bytes(size, asize, kv.g("rows"), kv.g("colsin"), kv.g("colsout").max(1), size)
                    }
                    "cnv_prepare_left" => module.cnv_prepare_left_tmp_bytes(size, asize),
                    "cnv_prepare_right" => module.cnv_prepare_right_tmp_bytes(size, asize),
                    "cnv_prepare_self" => module.cnv_prepare_self_tmp_bytes(size, asize),
                    "cnv_apply_dft" => module.cnv_apply_dft_tmp_bytes(kv.g("off"), size, asize, kv.g("bsize")),
                    "cnv_by_const_apply" => module.cnv_by_const_apply_tmp_bytes(kv.g("off"), size, asize, kv.g("bsize")),
                    "cnv_pairwise_apply_dft" => module.cnv_pairwise_apply_dft_tmp_bytes(kv.g("off"), size, asize, kv.g("bsize")),
                    "lwe_encrypt_sk" => module.lwe_encrypt_sk_tmp_bytes(&lwe),
                    "lwe_decrypt" => module.lwe_decrypt_tmp_bytes(&lwe),
                    "glwe_encrypt_sk" | "glwe_encrypt_zero_sk" => module.glwe_encrypt_sk_tmp_bytes(&res),
                    "glwe_encrypt_pk" | "glwe_encrypt_zero_pk" => module.glwe_encrypt_pk_tmp_bytes(&res),
                    "glwe_decrypt" => module.glwe_decrypt_tmp_bytes(&res),
                    "glwe_normalize" | "glwe_normalize_assign" => module.glwe_normalize_tmp_bytes(),
                    "glwe_rsh" | "glwe_lsh" | "glwe_lsh_assign" | "glwe_lsh_add" | "glwe_lsh_sub" => module.glwe_shift_tmp_bytes(),
                    "glwe_rotate_assign" | "glwe_mul_xp_minus_one_assign" => module.glwe_rotate_tmp_bytes(),
                    "glwe_keyswitch" => module.glwe_keyswitch_tmp_bytes(&res, &a, &gglwe),
                    "glwe_keyswitch_assign" => module.glwe_keyswitch_tmp_bytes(&res, &res, &gglwe),
                    "glwe_external_product" => module.glwe_external_product_tmp_bytes(&res, &a, &ggsw),
                    "glwe_external_product_assign" => module.glwe_external_product_tmp_bytes(&res, &res, &ggsw),
                    "glwe_automorphism" | "glwe_automorphism_add" | "glwe_automorphism_sub" | "glwe_automorphism_sub_negate" => module.glwe_automorphism_tmp_bytes(&res, &a, &gglwe),
                    "glwe_automorphism_assign"
                    | "glwe_automorphism_add_assign"
                    | "glwe_automorphism_sub_assign"
                    | "glwe_automorphism_sub_negate_assign" => {
                        module.glwe_automorphism_tmp_bytes(&res, &res, &gglwe)
                    }
                    "glwe_trace" => module.glwe_trace_tmp_bytes(&res, &a, &gglwe),
                    "glwe_trace_assign" => module.glwe_trace_tmp_bytes(&res, &res, &gglwe),
                    "cmux" => {
                        use poulpy_bin_fhe::bdd_arithmetic::Cmux;
                        module.cmux_tmp_bytes(&res, &res, &ggsw)
                    }
                    "execute_bdd" => {
                        use poulpy_bin_fhe::bdd_arithmetic::ExecuteBDDCircuit;
                        kv.g("threads") * module.execute_bdd_circuit_tmp_bytes(&res, kv.g("state"), &ggsw)
                    }
                    "ckks_shift_norm" => <BE as super::CkksTb>::shift_norm(module)?,
                    "ckks_shift" => <BE as super::CkksTb>::shift(module)?,
                    "gglwe_encrypt_sk" => module.gglwe_encrypt_sk_tmp_bytes(&gglwe),
                    "ggsw_encrypt_sk" => module.ggsw_encrypt_sk_tmp_bytes(&ggsw),
                    _ => return None,
                })
            }

            /// Some(answer) or None = unknown op
            pub fn case(op: &str, kv: &Kv) -> Option<String> {
                let n = kv.g("n");
                let mis = kv.g("mis");
                let win = kv.0.get("win").and_then(|s| s.parse::<usize>().ok());
                let module: Module<BE> = Module::<BE>::new(n as u64);
                let size = kv.g("size");
                let rank = kv.g("rank");
                let b2k = if kv.g("b2k") == 0 { 17 } else { kv.g("b2k") };
                let big_scratch = || -> ScratchOwned<BE> { ScratchOwned::<BE>::alloc(1 << 22) };
                let tb: usize = match tb_of(&module, op, kv) {
                    Some(t) => t,
                    None => return crate::scratch_cases3::$modname::case(op, kv),
                };
                if kv.g("tbonly") == 1 {
                    return Some(format!("tb={tb}"));
                }
                if op.starts_with("ckks_") {
                    return Some(<BE as crate::scratch_cases7::CkksRun>::run(op, kv, tb).unwrap_or_else(|| format!("tb={tb}")));
                }

                macro_rules! finish {
                    ($tb:expr, $f:expr) => {{
                        let o = exec_window::<Scratch<BE>>(tb, mis, win, wrap, $f);
                        return Some(fmt_outcome(tb, &o));
                    }};
                }

                match op {
                    // ------------------------------------------------------------------ arena
                    "split_mut" => {
                        let (cnt, len) = (kv.g("cnt"), kv.g("len"));
                        finish!(tb, |s: &mut Scratch<BE>| {
                            let (ws, _rem) = s.split_mut(cnt, len);
                            // every window must be writable over its whole length
                            let mut o = Vec::new();
                            for (i, w) in ws.into_iter().enumerate() {
                                o.extend((w.available() as u64).to_le_bytes());
                                for b in w.data.iter_mut() {
                                    *b = i as u8 + 1;
                                }
                            }
                            o
                        })
                    }
                    // ------------------------------------------------------------------ HAL
                    // shift / normalise family: `size` = destination limbs, `asize` = operand limbs (0: same), `sh` = shift in
                    // bits (absent: one limb + 3 bits), `roff` / `rneg` = |res_offset| and its sign, `ab2k` = operand radix
                    "vec_znx_normalize" => {
                        let asz = if kv.g("asize") == 0 { size } else { kv.g("asize") };
                        let ab = if kv.g("ab2k") == 0 { b2k } else { kv.g("ab2k") };
                        let a = rand_vec(n, 1, asz, 40, 1);
                        let off: i64 = if kv.g("rneg") == 1 { -(kv.g("roff") as i64) } else { kv.g("roff") as i64 };
                        let r0 = rand_vec(n, 1, size, b2k, 9);
                        finish!(tb, |s: &mut Scratch<BE>| {
                            let mut r = r0.clone();
                            module.vec_znx_normalize(&mut r, b2k, off, 0, &a, ab, 0, s);
                            bytes_of_i64(r.raw())
                        })
                    }
                    "vec_znx_normalize_assign" | "vec_znx_lsh_assign" | "vec_znx_rsh_assign" => {
                        let a = rand_vec(n, 1, size, if op == "vec_znx_normalize_assign" { 40 } else { b2k }, 2);
                        let sh = match kv.0.get("sh") {
                            Some(v) => v.parse::<usize>().unwrap_or(0),
                            None => if size >= 2 { b2k + 3 } else { b2k / 2 },
                        };
                        finish!(tb, |s: &mut Scratch<BE>| {
                            let mut r = a.clone();
                            match op {
                                "vec_znx_normalize_assign" => module.vec_znx_normalize_assign(b2k, &mut r, 0, s),
                                "vec_znx_lsh_assign" => module.vec_znx_lsh_assign(b2k, sh, &mut r, 0, s),
                                _ => module.vec_znx_rsh_assign(b2k, sh, &mut r, 0, s),
                            }
                            bytes_of_i64(r.raw())
                        })
                    }
                    "vec_znx_lsh" | "vec_znx_rsh" | "vec_znx_lsh_add_into" | "vec_znx_lsh_sub" | "vec_znx_rsh_add_into" | "vec_znx_rsh_sub" => {
                        let asz = if kv.g("asize") == 0 { size } else { kv.g("asize") };
                        let a = rand_vec(n, 1, asz, b2k, 2);
                        let r0 = rand_vec(n, 1, size, b2k, 3);
                        let sh = match kv.0.get("sh") {
                            Some(v) => v.parse::<usize>().unwrap_or(0),
                            None => if size >= 2 { b2k + 3 } else { b2k / 2 },
                        };
                        finish!(tb, |s: &mut Scratch<BE>| {
                            let mut r = r0.clone();
                            match op {
                                "vec_znx_lsh" => module.vec_znx_lsh(b2k, sh, &mut r, 0, &a, 0, s),
                                "vec_znx_rsh" => module.vec_znx_rsh(b2k, sh, &mut r, 0, &a, 0, s),
                                "vec_znx_lsh_add_into" => module.vec_znx_lsh_add_into(b2k, sh, &mut r, 0, &a, 0, s),
                                "vec_znx_lsh_sub" => module.vec_znx_lsh_sub(b2k, sh, &mut r, 0, &a, 0, s),
                                "vec_znx_rsh_add_into" => module.vec_znx_rsh_add_into(b2k, sh, &mut r, 0, &a, 0, s),
                                _ => module.vec_znx_rsh_sub(b2k, sh, &mut r, 0, &a, 0, s),
                            }
                            bytes_of_i64(r.raw())
                        })
                    }
                    "vec_znx_rotate_assign" | "vec_znx_automorphism_assign" | "vec_znx_mul_xp_minus_one_assign" => {
                        let a = rand_vec(n, 1, size, b2k, 3);
                        finish!(tb, |s: &mut Scratch<BE>| {
                            let mut r = a.clone();
                            match op {
                                "vec_znx_rotate_assign" => module.vec_znx_rotate_assign(3, &mut r, 0, s),
                                "vec_znx_automorphism_assign" => module.vec_znx_automorphism_assign(-1, &mut r, 0, s),
                                _ => module.vec_znx_mul_xp_minus_one_assign(5, &mut r, 0, s),
                            }
                            bytes_of_i64(r.raw())
                        })
                    }
                    "vec_znx_split_ring" => {
                        if n < 2 {
                            return Some("skip".into());
                        }
                        let a = rand_vec(n, 1, size, b2k, 4);
                        finish!(tb, |s: &mut Scratch<BE>| {
                            let mut r = vec![VecZnx::alloc(n / 2, 1, size), VecZnx::alloc(n / 2, 1, size)];
                            module.vec_znx_split_ring(&mut r, 0, &a, 0, s);
                            let mut o = bytes_of_i64(r[0].raw());
                            o.extend(bytes_of_i64(r[1].raw()));
                            o
                        })
                    }
                    "vec_znx_merge_rings" => {
                        if n < 2 {
                            return Some("skip".into());
                        }
                        let a = vec![rand_vec(n / 2, 1, size, b2k, 5), rand_vec(n / 2, 1, size, b2k, 6)];
                        finish!(tb, |s: &mut Scratch<BE>| {
                            let mut r = VecZnx::alloc(n, 1, size);
                            module.vec_znx_merge_rings(&mut r, 0, &a, 0, s);
                            bytes_of_i64(r.raw())
                        })
                    }
                    "vec_znx_big_normalize" | "vec_znx_big_normalize_add_assign" | "vec_znx_big_normalize_sub_assign"
                    | "vec_znx_big_automorphism_assign" | "vec_znx_idft_apply" => {
                        let big_norm = op.starts_with("vec_znx_big_normalize");
                        let asz = if big_norm && kv.g("asize") != 0 { kv.g("asize") } else { size };
                        let ab = if big_norm && kv.g("ab2k") != 0 { kv.g("ab2k") } else { b2k };
                        let a = rand_vec(n, 1, asz, ab, 7);
                        let mut a_dft = module.vec_znx_dft_alloc(1, asz);
                        module.vec_znx_dft_apply(1, 0, &mut a_dft, 0, &a, 0);
                        let mut sc = big_scratch();
                        let mut a_big = module.vec_znx_big_alloc(1, asz);
                        module.vec_znx_idft_apply(&mut a_big, 0, &a_dft, 0, sc.borrow());
                        let off: i64 = if kv.g("rneg") == 1 { -(kv.g("roff") as i64) } else { kv.g("roff") as i64 };
                        let r0 = rand_vec(n, 1, size, b2k, 9);
                        match op {
                            "vec_znx_big_normalize" | "vec_znx_big_normalize_add_assign" | "vec_znx_big_normalize_sub_assign" => {
                                finish!(tb, |s: &mut Scratch<BE>| {
                                    let mut r = r0.clone();
                                    match op {
                                        "vec_znx_big_normalize" => module.vec_znx_big_normalize(&mut r, b2k, off, 0, &a_big, ab, 0, s),
                                        "vec_znx_big_normalize_add_assign" => {
                                            module.vec_znx_big_normalize_add_assign(&mut r, b2k, off, 0, &a_big, ab, 0, s)
                                        }
                                        _ => module.vec_znx_big_normalize_sub_assign(&mut r, b2k, off, 0, &a_big, ab, 0, s),
                                    }
                                    bytes_of_i64(r.raw())
                                })
                            }
                            "vec_znx_big_automorphism_assign" => {
                                finish!(tb, |s: &mut Scratch<BE>| {
                                    let mut r = module.vec_znx_big_alloc(1, size);
                                    r.data_mut().as_mut().copy_from_slice(a_big.data().as_ref());
                                    module.vec_znx_big_automorphism_assign(-1, &mut r, 0, s);
                                    r.data().as_ref().to_vec()
                                })
                            }
                            _ => finish!(tb, |s: &mut Scratch<BE>| {
                                let mut r = module.vec_znx_big_alloc(1, size);
                                module.vec_znx_idft_apply(&mut r, 0, &a_dft, 0, s);
                                r.data().as_ref().to_vec()
                            }),
                        }
                    }
                    "vmp_prepare" | "vmp_apply_dft_to_dft" | "vmp_apply_dft" => {
                        let (rows, colsin, colsout, asize) = (kv.g("rows"), kv.g("colsin"), kv.g("colsout").max(1), kv.g("asize"));
                        let mut mat = MatZnx::alloc(n, rows, colsin, colsout, size);
                        let v = rand_vec(n, rows * colsin * colsout, size, 10, 8);
                        mat.raw_mut().copy_from_slice(v.raw());
                        if op == "vmp_prepare" {
                            finish!(tb, |s: &mut Scratch<BE>| {
                                let mut pm = module.vmp_pmat_alloc(rows, colsin, colsout, size);
                                module.vmp_prepare(&mut pm, &mat, s);
                                pm.data().as_ref().to_vec()
                            })
                        }
                        let mut pm = module.vmp_pmat_alloc(rows, colsin, colsout, size);
                        module.vmp_prepare(&mut pm, &mat, big_scratch().borrow());
                        let a = rand_vec(n, colsin, asize, 10, 9);
                        if op == "vmp_apply_dft" {
                            finish!(tb, |s: &mut Scratch<BE>| {
                                    let mut r = module.vec_znx_dft_alloc(colsout, size);
                                    module.vmp_apply_dft(&mut r, &a, &pm, s);
                                    r.data().as_ref().to_vec()
                                }
                            )
                        }
                        let mut a_dft = module.vec_znx_dft_alloc(colsin, asize);
                        for j in 0..colsin {
                            module.vec_znx_dft_apply(1, 0, &mut a_dft, j, &a, j);
                        }
                        finish!(tb, |s: &mut Scratch<BE>| {
                                let mut r = module.vec_znx_dft_alloc(colsout, size);
                                module.vmp_apply_dft_to_dft(&mut r, &a_dft, &pm, 0, s);
                                r.data().as_ref().to_vec()
                            }
                        )
                    }
                    // ------------------------------------------------------------------ HAL: bivariate convolution
                    // `size` = limbs of the destination, `asize` / `bsize` = limbs of the operands, `off` = cnv_offset (limbs)
                    "cnv_prepare_left" | "cnv_prepare_right" | "cnv_prepare_self" | "cnv_apply_dft" | "cnv_by_const_apply"
                    | "cnv_pairwise_apply_dft" => {
                        let (asize, bsize, off) = (kv.g("asize"), kv.g("bsize"), kv.g("off"));
                        let a = rand_vec(n, 2, asize, 10, 8);
                        let b = rand_vec(n, 2, bsize, 10, 9);
                        match op {
                            "cnv_prepare_left" => finish!(tb, |s: &mut Scratch<BE>| {
                                let mut l = module.cnv_pvec_left_alloc(2, size);
                                module.cnv_prepare_left(&mut l, &a, !0i64, s);
                                l.data().as_ref().to_vec()
                            }),
                            "cnv_prepare_right" => finish!(tb, |s: &mut Scratch<BE>| {
                                let mut r = module.cnv_pvec_right_alloc(2, size);
                                module.cnv_prepare_right(&mut r, &a, !0i64, s);
                                r.data().as_ref().to_vec()
                            }),
                            "cnv_prepare_self" => finish!(tb, |s: &mut Scratch<BE>| {
                                let mut l = module.cnv_pvec_left_alloc(2, size);
                                let mut r = module.cnv_pvec_right_alloc(2, size);
                                module.cnv_prepare_self(&mut l, &mut r, &a, !0i64, s);
                                let mut o = l.data().as_ref().to_vec();
                                o.extend_from_slice(r.data().as_ref());
                                o
                            }),
                            "cnv_by_const_apply" => {
                                let c: Vec<i64> = (0..bsize).map(|i| 1000 + 37 * i as i64).collect();
                                finish!(tb, |s: &mut Scratch<BE>| {
                                    let mut r = module.vec_znx_big_alloc(1, size);
                                    module.cnv_by_const_apply(off, &mut r, 0, &a, 1, &c, s);
                                    r.data().as_ref().to_vec()
                                })
                            }
                            _ => {
                                let mut l = module.cnv_pvec_left_alloc(2, asize);
                                let mut r = module.cnv_pvec_right_alloc(2, bsize);
                                module.cnv_prepare_left(&mut l, &a, !0i64, big_scratch().borrow());
                                module.cnv_prepare_right(&mut r, &b, !0i64, big_scratch().borrow());
                                finish!(tb, |s: &mut Scratch<BE>| {
                                    let mut d = module.vec_znx_dft_alloc(1, size);
                                    if op == "cnv_apply_dft" {
                                        module.cnv_apply_dft(off, &mut d, 0, &l, 0, &r, 1, s);
                                    } else {
                                        module.cnv_pairwise_apply_dft(off, &mut d, 0, &l, &r, 0, 1, s);
                                    }
                                    d.data().as_ref().to_vec()
                                })
                            }
                        }
                    }
                    // ------------------------------------------------------------------ core: LWE
                    "lwe_encrypt_sk" | "lwe_decrypt" => {
                        let nl = if kv.g("nlwe") == 0 { 5 } else { kv.g("nlwe") };
                        let infos = LWELayout {
                            n: Degree(nl as u32),
                            base2k: Base2K(b2k as u32),
                            k: TorusPrecision((b2k * size) as u32),
                        };
                        let enc = EncryptionLayout::new_from_default_sigma(infos).unwrap();
                        let mut sk = LWESecret::alloc(Degree(nl as u32));
                        sk.fill_ternary_prob(0.5, &mut Source::new([1u8; 32]));
                        let mut pt = LWEPlaintext::alloc(Base2K(b2k as u32), TorusPrecision((b2k * size) as u32));
                        pt.data_mut().raw_mut().iter_mut().enumerate().for_each(|(i, x)| *x = 3 + i as i64);
                        if op == "lwe_encrypt_sk" {
                            finish!(tb, |s: &mut Scratch<BE>| {
                                let mut ct = LWE::alloc_from_infos(&infos);
                                module.lwe_encrypt_sk(
                                    &mut ct,
                                    &pt,
                                    &sk,
                                    &enc,
                                    &mut Source::new([2u8; 32]),
                                    &mut Source::new([3u8; 32]),
                                    s,
                                );
                                bytes_of_i64(ct.data().raw())
                            })
                        }
                        let mut ct = LWE::alloc_from_infos(&infos);
                        module.lwe_encrypt_sk(
                            &mut ct,
                            &pt,
                            &sk,
                            &enc,
                            &mut Source::new([2u8; 32]),
                            &mut Source::new([3u8; 32]),
                            big_scratch().borrow(),
                        );
                        finish!(tb, |s: &mut Scratch<BE>| {
                            let mut p2 = LWEPlaintext::alloc(Base2K(b2k as u32), TorusPrecision((b2k * size) as u32));
                            module.lwe_decrypt(&ct, &mut p2, &sk, s);
                            bytes_of_i64(p2.data().raw())
                        })
                    }
                    // ------------------------------------------------------------------ core: GLWE enc/dec
                    "glwe_encrypt_sk" | "glwe_decrypt" | "glwe_encrypt_pk" | "glwe_encrypt_zero_sk" | "glwe_encrypt_zero_pk" => {
                        let infos = glwe_layout(n, b2k, size, rank);
                        let enc = EncryptionLayout::new_from_default_sigma(infos).unwrap();
                        let mut sk = GLWESecret::alloc(Degree(n as u32), Rank(rank as u32));
                        sk.fill_ternary_prob(0.5, &mut Source::new([1u8; 32]));
                        let mut skp: GLWESecretPrepared<DeviceBuf<BE>, BE> = module.glwe_secret_prepared_alloc(Rank(rank as u32));
                        module.glwe_secret_prepare(&mut skp, &sk);
                        let mut pt = GLWEPlaintext::alloc_from_infos(&infos);
                        let v = rand_vec(n, 1, size, b2k.saturating_sub(2).max(1), 11);
                        pt.data_mut().raw_mut().copy_from_slice(v.raw());
                        if op == "glwe_encrypt_zero_sk" {
                            finish!(tb, |s: &mut Scratch<BE>| {
                                let mut ct = GLWE::alloc_from_infos(&infos);
                                module.glwe_encrypt_zero_sk(&mut ct, &skp, &enc, &mut Source::new([2u8; 32]), &mut Source::new([3u8; 32]), s);
                                bytes_of_i64(ct.data().raw())
                            })
                        }
                        if op == "glwe_encrypt_sk" {
                            finish!(tb, |s: &mut Scratch<BE>| {
                                let mut ct = GLWE::alloc_from_infos(&infos);
                                module.glwe_encrypt_sk(
                                    &mut ct,
                                    &pt,
                                    &skp,
                                    &enc,
                                    &mut Source::new([2u8; 32]),
                                    &mut Source::new([3u8; 32]),
                                    s,
                                );
                                bytes_of_i64(ct.data().raw())
                            })
                        }
                        if op == "glwe_encrypt_pk" || op == "glwe_encrypt_zero_pk" {
                            let pksize = if kv.g("pksize") == 0 { size } else { kv.g("pksize") };
                            let pk_infos = glwe_layout(n, b2k, pksize, rank);
                            let pk_enc = EncryptionLayout::new_from_default_sigma(pk_infos).unwrap();
                            let mut pk = GLWEPublicKey::alloc_from_infos(&pk_infos);
                            module.glwe_public_key_generate(
                                &mut pk,
                                &skp,
                                &pk_enc,
                                &mut Source::new([4u8; 32]),
                                &mut Source::new([5u8; 32]),
                            );
                            let mut pkp: GLWEPublicKeyPrepared<DeviceBuf<BE>, BE> =
                                module.glwe_public_key_prepared_alloc_from_infos(&pk);
                            module.glwe_public_key_prepare(&mut pkp, &pk);
                            finish!(tb, |s: &mut Scratch<BE>| {
                                let mut ct = GLWE::alloc_from_infos(&infos);
                                if op == "glwe_encrypt_zero_pk" {
                                    module.glwe_encrypt_zero_pk(&mut ct, &pkp, &enc, &mut Source::new([2u8; 32]), &mut Source::new([3u8; 32]), s);
                                } else {
                                    module.glwe_encrypt_pk(
                                        &mut ct,
                                        &pt,
                                        &pkp,
                                        &enc,
                                        &mut Source::new([2u8; 32]),
                                        &mut Source::new([3u8; 32]),
                                        s,
                                    );
                                }
                                bytes_of_i64(ct.data().raw())
                            })
                        }
                        let mut ct = GLWE::alloc_from_infos(&infos);
                        module.glwe_encrypt_sk(
                            &mut ct,
                            &pt,
                            &skp,
                            &enc,
                            &mut Source::new([2u8; 32]),
                            &mut Source::new([3u8; 32]),
                            big_scratch().borrow(),
                        );
                        finish!(tb, |s: &mut Scratch<BE>| {
                            let mut p2 = GLWEPlaintext::alloc_from_infos(&infos);
                            module.glwe_decrypt(&ct, &mut p2, &skp, s);
                            bytes_of_i64(p2.data().raw())
                        })
                    }
                    // ------------------------------------------------------------------ core: GLWE unary
                    "glwe_normalize" | "glwe_normalize_assign" | "glwe_rsh" | "glwe_lsh" | "glwe_lsh_assign" | "glwe_lsh_add"
                    | "glwe_lsh_sub" | "glwe_rotate_assign" | "glwe_mul_xp_minus_one_assign" => {
                        let ab2k = if kv.g("ab2k") == 0 { b2k } else { kv.g("ab2k") };
                        let sh = match kv.0.get("sh") {
                            Some(v) => v.parse::<usize>().unwrap_or(0),
                            None => if size >= 2 { b2k + 2 } else { b2k / 2 },
                        };
                        // `asize` = limbs of the operand of the two-operand shifts (0: same as the destination)
                        let asz = if kv.g("asize") == 0 || !op.starts_with("glwe_lsh") || op == "glwe_lsh_assign" { size } else { kv.g("asize") };
                        let a = rand_glwe(n, b2k, asz, rank, 12);
                        let r0 = rand_glwe(n, b2k, size, rank, 13);
                        finish!(tb, |s: &mut Scratch<BE>| {
                            let mut r = if asz == size && !matches!(op, "glwe_lsh" | "glwe_lsh_add" | "glwe_lsh_sub") { a.clone() } else { r0.clone() };
                            match op {
                                "glwe_normalize" => {
                                    let rs = (b2k * size).div_ceil(ab2k);
                                    let mut r2 = GLWE::alloc_from_infos(&glwe_layout(n, ab2k, rs, rank));
                                    module.glwe_normalize(&mut r2, &a, s);
                                    return bytes_of_i64(r2.data().raw());
                                }
                                "glwe_normalize_assign" => module.glwe_normalize_assign(&mut r, s),
                                "glwe_rsh" => module.glwe_rsh(sh, &mut r, s),
                                "glwe_lsh" => module.glwe_lsh(&mut r, &a, sh, s),
                                "glwe_lsh_add" => module.glwe_lsh_add(&mut r, &a, sh, s),
                                "glwe_lsh_sub" => module.glwe_lsh_sub(&mut r, &a, sh, s),
                                "glwe_lsh_assign" => module.glwe_lsh_assign(&mut r, sh, s),
                                "glwe_rotate_assign" => module.glwe_rotate_assign(3, &mut r, s),
                                _ => module.glwe_mul_xp_minus_one_assign(3, &mut r, s),
                            }
                            bytes_of_i64(r.data().raw())
                        })
                    }
                    _ => return super::cases2::$modname::case(op, kv),
                }
            }
        }
    };
}

backend_cases!(fft64ref, poulpy_cpu_ref::FFT64Ref);
backend_cases!(ntt120ref, poulpy_cpu_ref::NTT120Ref);
backend_cases!(fft64avx, poulpy_cpu_avx::FFT64Avx);
backend_cases!(ntt120avx, poulpy_cpu_avx::NTT120Avx);

pub mod cases2 {
    pub use crate::scratch_cases2::*;
}

pub fn run(_args: &[String]) {
    install_hook();
    let stdin = std::io::stdin();
    let stdout = std::io::stdout();
    let mut out = stdout.lock();
    for line in stdin.lock().lines() {
        let line = line.unwrap();
        let t: Vec<&str> = line.split_whitespace().collect();
        if t.len() < 2 {
            continue;
        }
        let (id, op) = (t[0], t[1]);
        let kv = Kv::parse(&t[2..]);
        let r = std::panic::catch_unwind(std::panic::AssertUnwindSafe(|| match kv.s("be") {
            "fft64ref" => fft64ref::case(op, &kv),
            "ntt120ref" => ntt120ref::case(op, &kv),
            "fft64avx" => fft64avx::case(op, &kv),
            "ntt120avx" => ntt120avx::case(op, &kv),
            _ => None,
        }));
        match r {
            Ok(Some(s)) => writeln!(out, "{id} {s}").unwrap(),
            Ok(None) => writeln!(out, "{id} bad-op").unwrap(),
            Err(_) => {
                if std::env::var("VERIF_DEBUG").is_ok() {
                    LAST_PANIC.with(|p| eprintln!("setup panic: {}", p.borrow()));
                }
                writeln!(out, "{id} setup-panic").unwrap()
            }
        }
    }
    out.flush().unwrap();
}
