//! C14 — lookup tables and blind rotation.  stdin `id <op> k=v …`, stdout `id <answer>`.
//!
//! * `set be= n= ext= b= klut= k= f=<ints>`: `LookupTable::alloc` + `set`;
//!   `ok drift=<d> data=<poly0>;<poly1>;…` with a polynomial printed as `limb0|limb1|…`, a limb as
//!   comma separated coefficients; `panic:<class>`.
//! * `rot … rot=<k1,k2,…>`: `set`, then the listed clear rotations one after another (hook
//!   `lookup_table_rotate`); prints like `set`.
//! * `rotall … lo= hi= sign=`: for every `t` in `[lo, hi)`: fresh `set`, rotate by `sign*t`,
//!   FNV-1a hash of all limbs; `ok h=<h_lo>,…` (bulk, exhaustive tiers).
//! * `modswitch n= b= left=0|1 limbs=<l0>|<l1>|…`: `mod_switch_2n` on an LWE holding exactly these limbs;
//!   `ok <ints>`.
//! * `blind be= nglwe= nlwe= block= ext= b= klwe= kbrk= rows= klut= kres= p= msg= left=0|1 dist= flen= seed=`: real
//!   key generation + `blind_rotation_execute`, decrypts; prints
//!   `ok lwe=<l0>|<l1>… sk=<bits> f=<ints> klutset=<k> pt=<limb0>|<limb1>…` (decrypted plaintext limbs).
//! * `blindct` (same keys as `blind`, plus `resb=` the radix of `res`): the same run dumped at CIPHERTEXT level for the executed
//!   model `Core.Blind.execute`: `ok lweb= lwe=<l0>|<l1>… dist=<block|binary|other> block= gp=<base2k>,<rank>,<dsize>,<dnum>,<size>
//!   g=<key0>;<key1>;… lut=<poly0>;<poly1>;… skl=<ints> skg=<ints> res=<C>x<S>:<ints> pt=<limbs>` — the blind rotation key is read
//!   back from its serialisation (`WriterTo`), one GGSW per LWE coefficient, integers in (row, input column, output column, limb,
//!   coefficient) order; `res` is the raw content of the output accumulator.
use std::io::{BufRead, Write};
use std::sync::Mutex;

use poulpy_bin_fhe::blind_rotation::{
    BlindRotationKey, BlindRotationKeyEncryptSk, BlindRotationKeyLayout, BlindRotationKeyPrepared, CGGI, LookUpTableLayout,
    LookUpTableRotationDirection, LookupTable, mod_switch_2n,
    verif_hooks::{lookup_table_parts, lookup_table_rotate},
};
use poulpy_core::{
    EncryptionLayout, GLWEDecrypt, LWEEncryptSk,
    layouts::{
        GLWE, GLWELayout, GLWEPlaintext, GLWESecret, GLWESecretPrepared, GLWESecretPreparedFactory, LWE, LWEInfos, LWELayout,
        LWEPlaintext, LWESecret, LWEToRef,
    },
};
use poulpy_cpu_avx::{FFT64Avx, NTT120Avx};
use poulpy_cpu_ref::{FFT64Ref, NTT120Ref};
use poulpy_hal::{
    api::{ModuleNew, ScratchOwnedAlloc, ScratchOwnedBorrow},
    layouts::{DeviceBuf, Module, ScratchOwned, ZnxInfos, ZnxView, ZnxViewMut},
    source::Source,
};

static LAST_PANIC: Mutex<String> = Mutex::new(String::new());

fn panic_class() -> &'static str {
    let m = LAST_PANIC.lock().unwrap().clone();
    if std::env::var("PVH_PANIC_MSG").is_ok() {
        eprintln!("panic message: {m}");
    }
    if m.contains("overflow: max(") {
        "assert"
    } else if m.contains("divide by zero") || m.contains("overflow") {
        "overflow"
    } else if m.contains("out of bounds") || m.contains("out of range") || m.contains("range end index") || m.contains("range start index") {
        "bounds"
    } else if m.contains("assertion") || m.contains("extension_factor must be") || m.contains("requires a BinaryBlock key distribution") || m.contains(">= self.size()") {
        "assert"
    } else {
        "other"
    }
}

fn kvs<'a>(t: &'a [&'a str], k: &str) -> Option<&'a str> {
    t.iter().find_map(|x| x.strip_prefix(k).and_then(|r| r.strip_prefix('=')))
}
fn kvn(t: &[&str], k: &str, d: i64) -> i64 {
    kvs(t, k).and_then(|s| s.parse().ok()).unwrap_or(d)
}
fn kvints(t: &[&str], k: &str) -> Vec<i64> {
    kvs(t, k).map(|s| if s == "-" { vec![] } else { s.split(',').filter_map(|x| x.parse().ok()).collect() }).unwrap_or_default()
}
fn ints(v: &[i64]) -> String {
    if v.is_empty() { "-".into() } else { v.iter().map(|x| x.to_string()).collect::<Vec<_>>().join(",") }
}

fn show_lut(lut: &LookupTable) -> String {
    let (data, drift) = lookup_table_parts(lut);
    let polys: Vec<String> = data
        .iter()
        .map(|p| (0..p.size()).map(|j| ints(p.at(0, j))).collect::<Vec<_>>().join("|"))
        .collect();
    format!("ok drift={drift} data={}", polys.join(";"))
}

fn hash_lut(lut: &LookupTable) -> u64 {
    let (data, drift) = lookup_table_parts(lut);
    let mut h: u64 = 0xcbf29ce484222325;
    let mut eat = |x: i64| {
        for b in x.to_le_bytes() {
            h ^= b as u64;
            h = h.wrapping_mul(0x100000001b3);
        }
    };
    eat(drift as i64);
    for p in data {
        for j in 0..p.size() {
            for x in p.at(0, j) {
                eat(*x);
            }
        }
    }
    h
}

fn modswitch(t: &[&str]) -> String {
    let n = kvn(t, "n", 64) as usize;
    let b = kvn(t, "b", 12) as usize;
    let left = kvn(t, "left", 1) == 1;
    let limbs: Vec<Vec<i64>> = kvs(t, "limbs")
        .unwrap_or("")
        .split('|')
        .map(|l| l.split(',').filter_map(|x| x.parse().ok()).collect())
        .collect();
    let r = std::panic::catch_unwind(std::panic::AssertUnwindSafe(|| {
        let nl = limbs[0].len() - 1;
        let mut lwe: LWE<Vec<u8>> = LWE::alloc_from_infos(&LWELayout { n: (nl as u32).into(), k: ((b * limbs.len()) as u32).into(), base2k: (b as u32).into() });
        for (i, l) in limbs.iter().enumerate() {
            lwe.data_mut().at_mut(0, i).copy_from_slice(l);
        }
        let mut res = vec![0i64; nl + 1];
        let dir = if left { LookUpTableRotationDirection::Left } else { LookUpTableRotationDirection::Right };
        mod_switch_2n(n, &mut res, &lwe.to_ref(), dir);
        res
    }));
    match r {
        Ok(v) => format!("ok {}", ints(&v)),
        Err(_) => format!("panic:{}", panic_class()),
    }
}

macro_rules! backend_impl {
    ($modname:ident, $be:ty) => {
        pub mod $modname {
            use super::*;
            type BE = $be;

            fn make(t: &[&str]) -> (Module<BE>, LookupTable) {
                let n = kvn(t, "n", 32) as u64;
                let module: Module<BE> = Module::<BE>::new(n);
                let infos = LookUpTableLayout {
                    n: (n as u32).into(),
                    extension_factor: kvn(t, "ext", 1) as usize,
                    k: (kvn(t, "klut", 20) as u32).into(),
                    base2k: (kvn(t, "b", 20) as u32).into(),
                };
                let mut lut = LookupTable::alloc(&infos);
                lut.set(&module, &kvints(t, "f"), kvn(t, "k", 1) as usize);
                (module, lut)
            }

            pub fn set(t: &[&str]) -> String {
                match std::panic::catch_unwind(std::panic::AssertUnwindSafe(|| {
                    let (module, mut lut) = make(t);
                    for k in kvints(t, "rot") {
                        lookup_table_rotate(&module, &mut lut, k);
                    }
                    show_lut(&lut)
                })) {
                    Ok(s) => s,
                    Err(_) => format!("panic:{}", panic_class()),
                }
            }

            pub fn rotall(t: &[&str]) -> String {
                match std::panic::catch_unwind(std::panic::AssertUnwindSafe(|| {
                    let (lo, hi, sign) = (kvn(t, "lo", 0), kvn(t, "hi", 0), kvn(t, "sign", 1));
                    let hs: Vec<String> = (lo..hi)
                        .map(|k| {
                            let (module, mut lut) = make(t);
                            lookup_table_rotate(&module, &mut lut, sign * k);
                            hash_lut(&lut).to_string()
                        })
                        .collect();
                    format!("ok h={}", hs.join(","))
                })) {
                    Ok(s) => s,
                    Err(_) => format!("panic:{}", panic_class()),
                }
            }

            pub fn blind(t: &[&str]) -> String {
                blind_impl(t, false)
            }

            pub fn blindct(t: &[&str]) -> String {
                blind_impl(t, true)
            }

            fn blind_impl(t: &[&str], ct: bool) -> String {
                match std::panic::catch_unwind(std::panic::AssertUnwindSafe(|| {
                    let n_glwe = kvn(t, "nglwe", 64) as usize;
                    let n_lwe = kvn(t, "nlwe", 8) as usize;
                    let block = kvn(t, "block", 1) as usize;
                    let ext = kvn(t, "ext", 1) as usize;
                    let base2k = kvn(t, "b", 19) as usize;
                    let lwe_b = kvn(t, "lweb", base2k as i64) as usize;
                    let k_lwe = kvn(t, "klwe", 24) as usize;
                    let k_brk = kvn(t, "kbrk", 3 * base2k as i64) as usize;
                    let rows = kvn(t, "rows", 2) as usize;
                    let k_lut = kvn(t, "klut", base2k as i64) as usize;
                    let k_res = kvn(t, "kres", 2 * base2k as i64) as usize;
                    let p = kvn(t, "p", 4) as usize;
                    let msg = kvn(t, "msg", 0);
                    let left = kvn(t, "left", 1) == 1;
                    let dist = kvs(t, "dist").unwrap_or("block");
                    let flen = kvn(t, "flen", 1 << p) as usize;
                    let seed = kvn(t, "seed", 1) as u8;
                    let rank = kvn(t, "rank", 1) as usize;
                    let module: Module<BE> = Module::<BE>::new(n_glwe as u64);
                    let mut xs = Source::new([seed; 32]);
                    let mut xe = Source::new([seed.wrapping_add(1); 32]);
                    let mut xa = Source::new([seed.wrapping_add(2); 32]);
                    let brk_infos = EncryptionLayout::new_from_default_sigma(BlindRotationKeyLayout {
                        n_glwe: (n_glwe as u32).into(),
                        n_lwe: (n_lwe as u32).into(),
                        base2k: (base2k as u32).into(),
                        k: (k_brk as u32).into(),
                        dnum: (rows as u32).into(),
                        rank: (rank as u32).into(),
                    })
                    .unwrap();
                    let res_b = kvn(t, "resb", base2k as i64) as usize;
                    let glwe_infos = EncryptionLayout::new_from_default_sigma(GLWELayout {
                        n: (n_glwe as u32).into(),
                        base2k: (res_b as u32).into(),
                        k: (k_res as u32).into(),
                        rank: (rank as u32).into(),
                    })
                    .unwrap();
                    let lwe_infos = EncryptionLayout::new_from_default_sigma(LWELayout {
                        n: (n_lwe as u32).into(),
                        k: (k_lwe as u32).into(),
                        base2k: (lwe_b as u32).into(),
                    })
                    .unwrap();
                    let mut scratch: ScratchOwned<BE> =
                        ScratchOwned::<BE>::alloc(BlindRotationKey::encrypt_sk_tmp_bytes(&module, &brk_infos).max(1 << 20));
                    let mut sk_glwe: GLWESecret<Vec<u8>> = GLWESecret::alloc_from_infos(&glwe_infos);
                    sk_glwe.fill_ternary_prob(0.5, &mut xs);
                    let mut sk_glwe_dft: GLWESecretPrepared<DeviceBuf<BE>, BE> = module.glwe_secret_prepared_alloc_from_infos(&glwe_infos);
                    module.glwe_secret_prepare(&mut sk_glwe_dft, &sk_glwe);
                    let mut sk_lwe: LWESecret<Vec<u8>> = LWESecret::alloc((n_lwe as u32).into());
                    match dist {
                        "block" => sk_lwe.fill_binary_block(block, &mut xs),
                        "hw" => sk_lwe.fill_binary_hw(n_lwe / 2, &mut xs),
                        "prob" => sk_lwe.fill_binary_prob(0.5, &mut xs),
                        "zero" => sk_lwe.fill_zero(),
                        _ => sk_lwe.fill_ternary_prob(0.5, &mut xs),
                    }
                    let mut scratch_br: ScratchOwned<BE> = ScratchOwned::<BE>::alloc(
                        BlindRotationKeyPrepared::execute_tmp_bytes(&module, block, ext, &glwe_infos, &brk_infos).max(1 << 20),
                    );
                    let mut brk: BlindRotationKey<Vec<u8>, CGGI> = BlindRotationKey::<Vec<u8>, CGGI>::alloc(&brk_infos);
                    module.blind_rotation_key_encrypt_sk(&mut brk, &sk_glwe_dft, &sk_lwe, &brk_infos, &mut xe, &mut xa, scratch.borrow());
                    let mut lwe: LWE<Vec<u8>> = LWE::alloc_from_infos(&lwe_infos);
                    let mut pt_lwe: LWEPlaintext<Vec<u8>> = LWEPlaintext::alloc_from_infos(&lwe_infos);
                    pt_lwe.encode_i64(msg, ((p + 1) as u32).into());
                    module.lwe_encrypt_sk(&mut lwe, &pt_lwe, &sk_lwe, &lwe_infos, &mut xe, &mut xa, scratch.borrow());
                    let f: Vec<i64> = (0..flen).map(|i| (2 * i as i64 + 1) * if i % 3 == 2 { -1 } else { 1 }).collect();
                    let lut_infos = LookUpTableLayout {
                        n: (n_glwe as u32).into(),
                        extension_factor: ext,
                        k: (k_lut as u32).into(),
                        base2k: (base2k as u32).into(),
                    };
                    let mut lut: LookupTable = LookupTable::alloc(&lut_infos);
                    let kset = kvn(t, "kset", p as i64 + 2) as usize;
                    lut.set(&module, &f, kset);
                    if !left {
                        lut.set_rotation_direction(LookUpTableRotationDirection::Right);
                    }
                    let mut res: GLWE<Vec<u8>> = GLWE::alloc_from_infos(&glwe_infos);
                    let mut brk_prepared: BlindRotationKeyPrepared<DeviceBuf<BE>, CGGI, BE> = BlindRotationKeyPrepared::alloc(&module, &brk);
                    brk_prepared.prepare(&module, &brk, scratch_br.borrow());
                    brk_prepared.execute(&module, &mut res, &lwe, &lut, scratch_br.borrow());
                    let mut pt: GLWEPlaintext<Vec<u8>> = GLWEPlaintext::alloc_from_infos(&glwe_infos);
                    module.glwe_decrypt(&res, &mut pt, &sk_glwe_dft, scratch.borrow());
                    let lwe_limbs: Vec<String> = (0..lwe.size()).map(|j| ints(lwe.data().at(0, j))).collect();
                    let pt_limbs: Vec<String> = (0..pt.data().size()).map(|j| ints(pt.data().at(0, j))).collect();
                    if ct {
                        use poulpy_core::layouts::{GGSW, GGSWInfos, GLWEInfos};
                        use poulpy_hal::layouts::{ReaderFrom, WriterTo};
                        let mut bytes: Vec<u8> = Vec::new();
                        brk.write_to(&mut bytes).unwrap();
                        let (dist_s, blk) = match poulpy_core::Distribution::read_from(&mut &bytes[0..8]).unwrap() {
                            poulpy_core::Distribution::BinaryBlock(v) => ("block", v),
                            poulpy_core::Distribution::BinaryFixed(_)
                            | poulpy_core::Distribution::BinaryProb(_)
                            | poulpy_core::Distribution::ZERO => ("binary", 1),
                            _ => ("other", 1),
                        };
                        let len = u64::from_le_bytes(bytes[8..16].try_into().unwrap()) as usize;
                        let mut cur = std::io::Cursor::new(&bytes[16..]);
                        let mut keys: Vec<String> = Vec::new();
                        let mut gp = String::new();
                        for _ in 0..len {
                            let mut g: GGSW<Vec<u8>> = GGSW::alloc_from_infos(&brk_infos);
                            g.read_from(&mut cur).unwrap();
                            gp = format!(
                                "{},{},{},{},{}",
                                g.base2k().as_usize(),
                                g.rank().as_usize(),
                                g.dsize().as_usize(),
                                g.dnum().as_usize(),
                                g.size()
                            );
                            keys.push(crate::cmd_ep::fmt_ggsw_flat(&g, g.dnum().as_usize(), g.rank().as_usize() + 1));
                        }
                        let (polys, _) = lookup_table_parts(&lut);
                        let lut_s: Vec<String> = polys
                            .iter()
                            .map(|p| (0..p.size()).map(|j| ints(p.at(0, j))).collect::<Vec<_>>().join("|"))
                            .collect();
                        // the GLWE secret, replayed from its seed (`GLWESecret::fill_ternary_prob` fills column by column)
                        let mut skg: Vec<i64> = Vec::new();
                        let mut xs2 = Source::new([seed; 32]);
                        let mut sk_copy = poulpy_hal::layouts::ScalarZnx::alloc(n_glwe, rank);
                        for i in 0..rank {
                            sk_copy.fill_ternary_prob(i, 0.5, &mut xs2);
                            skg.extend_from_slice(sk_copy.at(i, 0));
                        }
                        return format!(
                            "ok lweb={} lwe={} dist={} block={} gp={} g={} lut={} skl={} skg={} res={} pt={}",
                            lwe_b,
                            lwe_limbs.join("|"),
                            dist_s,
                            blk,
                            gp,
                            keys.join(";"),
                            lut_s.join(";"),
                            ints(sk_lwe.raw()),
                            ints(&skg),
                            crate::cmd_ep::fmt_glwe(&res),
                            pt_limbs.join("|")
                        );
                    }
                    format!(
                        "ok lwe={} sk={} f={} kset={} pt={}",
                        lwe_limbs.join("|"),
                        ints(sk_lwe.raw()),
                        ints(&f),
                        kset,
                        pt_limbs.join("|")
                    )
                })) {
                    Ok(s) => s,
                    Err(_) => format!("panic:{}", panic_class()),
                }
            }
        }
    };
}

backend_impl!(fft64ref, FFT64Ref);
backend_impl!(ntt120ref, NTT120Ref);
backend_impl!(fft64avx, FFT64Avx);
backend_impl!(ntt120avx, NTT120Avx);

pub fn run(_args: &[String]) {
    std::panic::set_hook(Box::new(|info| {
        *LAST_PANIC.lock().unwrap() = info.to_string();
    }));
    let stdin = std::io::stdin();
    let stdout = std::io::stdout();
    let mut out = stdout.lock();
    for line in stdin.lock().lines() {
        let line = line.unwrap();
        let t: Vec<&str> = line.split_whitespace().collect();
        if t.len() < 2 {
            continue;
        }
        let (id, op) = (t[0], t[1]);
        let be = kvs(&t, "be").unwrap_or("fft64ref");
        LAST_PANIC.lock().unwrap().clear();
        macro_rules! dispatch {
            ($f:ident) => {
                match be {
                    "fft64ref" => fft64ref::$f(&t),
                    "ntt120ref" => ntt120ref::$f(&t),
                    "fft64avx" => fft64avx::$f(&t),
                    "ntt120avx" => ntt120avx::$f(&t),
                    _ => "bad-backend".to_string(),
                }
            };
        }
        let ans = match op {
            "set" | "rot" => dispatch!(set),
            "rotall" => dispatch!(rotall),
            "blind" => dispatch!(blind),
            "blindct" => dispatch!(blindct),
            "modswitch" => modswitch(&t),
            _ => "bad-op".to_string(),
        };
        writeln!(out, "{id} {ans}").unwrap();
    }
    out.flush().unwrap();
}
