//! `pvh ep` — external products and CMux of the real code, on all four back ends, with fully
//! explicit inputs (C04).
//!
//! Request line (tokens `k=v`, any order):
//!   `id op=<glwe|glwe_assign|cmux|cmux_assign|cmux_assign_neg|cswap|ggsw|ggsw_assign|gglwe|gglwe_assign> [rin=<rank_in of the GGLWE operand>] n=<N> rank=<r>
//!       dsize= dnum= bg=<ggsw base2k> kg=<ggsw k> bi=<input base2k> ki=<input k> bo=<res base2k> ko=<res k>
//!       [kf=<k of the second CMux operand>] [dnuma=<rows of the left GGSW> dnumr=<rows of the result GGSW>] m2=<zero|one|mone|mono:k|dense:seed>
//!       m1=<rand|ext|raw> seed=<u64> [dirty=<u64>] [stale=<bits>]`
//! `stale` > 0: the transforms of random `bits`-bit polynomials (printed as `r0=`) are left in the
//! scratch slot that the operation's `res_dft` will occupy (exactly representable stale content).
//! `dirty` ≠ 0: the scratch arena is filled with that 64-bit pattern (varied per word) before the
//! call instead of zeros.
//!
//! Answer line: `id ok sk=<ints> g=<ints> a=<C>x<S>:<ints> [f=<C>x<S>:<ints>] [am=<cell>;<cell>…] m1=<ints>
//!               m2=<ints> be0=<R> be1=<R> be2=<R> be3=<R>`
//! with `<R>` = `<C>x<S>:<ints>` (cells joined by `;` for the GGSW forms) or `panic:<class>`; back
//! ends in the order FFT64Ref, NTT120Ref, FFT64Avx, NTT120Avx.  Integer lists in (cell,) column,
//! limb, coefficient order.  `sk`: `rank` polynomials; `g`: GGSW cells in (row, input column) order.
//!
//! The secret, the GGSW (`ggsw_encrypt_sk`) and the input ciphertexts (`glwe_encrypt_sk`) are
//! produced once by the real code on `NTT120Ref`; the same raw `i64` containers are then prepared
//! (`ggsw_prepare`) and multiplied on each back end.
use std::collections::HashMap;
use std::io::{BufRead, Write};

use poulpy_bin_fhe::bdd_arithmetic::{Cmux, Cswap};
use poulpy_core::{
    EncryptionLayout, GGLWEEncryptSk, GGLWEExternalProduct, GGSWEncryptSk, GGSWExternalProduct, GLWEEncryptSk, GLWEExternalProduct,
    layouts::{
        Base2K, Degree, Dnum, Dsize, GGLWE, GGLWELayout, GGSW, GGSWLayout, GGSWPreparedFactory, GLWE, GLWELayout, GLWEPlaintext, GLWESecret,
        GLWESecretPreparedFactory, Rank, TorusPrecision,
        prepared::{GGSWPrepared, GLWESecretPrepared},
    },
};
use poulpy_cpu_avx::{FFT64Avx, NTT120Avx};
use poulpy_cpu_ref::{FFT64Ref, NTT120Ref};
use poulpy_hal::{
    api::{ModuleNew, ScratchOwnedAlloc, ScratchOwnedBorrow, ScratchTakeBasic, TakeSlice, VecZnxDftApply, VecZnxFillUniform},
    layouts::{DeviceBuf, Module, ScalarZnx, ScratchOwned, VecZnx, ZnxInfos, ZnxView, ZnxViewMut},
    source::Source,
};

use crate::cmd_hal::panic_class;

pub const SCRATCH: usize = 1 << 22;

pub struct Case {
    pub op: String,
    pub n: usize,
    pub rank: usize,
    pub dsize: usize,
    pub dnum: usize,
    pub bg: usize,
    pub kg: usize,
    pub bi: usize,
    pub ki: usize,
    pub bo: usize,
    pub ko: usize,
    pub kf: usize,
    pub dnuma: usize,
    pub dnumr: usize,
    pub rin: usize,
    pub dirty: u64,
    /// integer polynomials whose transforms are left in the scratch slot that `res_dft` will occupy
    pub stale: Vec<i64>,
}

pub fn kvs<'a>(t: &[&'a str]) -> HashMap<&'a str, &'a str> {
    t.iter().filter_map(|x| x.split_once('=')).collect()
}

pub fn fmt_vec(v: &VecZnx<Vec<u8>>) -> String {
    let mut s = format!("{}x{}:", v.cols(), v.size());
    let mut first = true;
    for c in 0..v.cols() {
        for j in 0..v.size() {
            for x in v.at(c, j) {
                if !first {
                    s.push(',');
                }
                first = false;
                s.push_str(&x.to_string());
            }
        }
    }
    s
}

pub fn fmt_glwe<D: poulpy_hal::layouts::DataRef>(g: &GLWE<D>) -> String {
    let v = g.data();
    let mut s = format!("{}x{}:", v.cols(), v.size());
    let mut first = true;
    for c in 0..v.cols() {
        for j in 0..v.size() {
            for x in v.at(c, j) {
                if !first {
                    s.push(',');
                }
                first = false;
                s.push_str(&x.to_string());
            }
        }
    }
    s
}

pub fn fmt_ggsw_cells(g: &GGSW<Vec<u8>>, rows: usize, cols_in: usize) -> String {
    let mut parts = Vec::new();
    for r in 0..rows {
        for c in 0..cols_in {
            parts.push(fmt_glwe(&g.at(r, c)));
        }
    }
    parts.join(";")
}

/// all integers of a GGSW, (row, input column, output column, limb, coefficient) order
pub fn fmt_ggsw_flat(g: &GGSW<Vec<u8>>, rows: usize, cols_in: usize) -> String {
    let mut s = String::new();
    let mut first = true;
    for r in 0..rows {
        for c in 0..cols_in {
            let cell = g.at(r, c);
            let v = cell.data();
            for co in 0..v.cols() {
                for j in 0..v.size() {
                    for x in v.at(co, j) {
                        if !first {
                            s.push(',');
                        }
                        first = false;
                        s.push_str(&x.to_string());
                    }
                }
            }
        }
    }
    s
}

pub fn fmt_ints(v: &[i64]) -> String {
    v.iter().map(|x| x.to_string()).collect::<Vec<_>>().join(",")
}

pub struct Sm(pub u64);
impl Sm {
    pub fn next(&mut self) -> u64 {
        self.0 = self.0.wrapping_add(0x9E3779B97F4A7C15);
        let mut z = self.0;
        z = (z ^ (z >> 30)).wrapping_mul(0xBF58476D1CE4E5B9);
        z = (z ^ (z >> 27)).wrapping_mul(0x94D049BB133111EB);
        z ^ (z >> 31)
    }
}

pub fn seed32(seed: u64, tag: u8) -> [u8; 32] {
    let mut s = [tag; 32];
    s[..8].copy_from_slice(&seed.to_le_bytes());
    s
}

/// the GGSW plaintext
pub fn make_m2(n: usize, spec: &str) -> Vec<i64> {
    let mut v = vec![0i64; n];
    let (k, p) = spec.split_once(':').unwrap_or((spec, "0"));
    match k {
        "one" => v[0] = 1,
        "mone" => v[0] = -1,
        "mono" => v[p.parse::<usize>().unwrap() % n] = 1,
        "dense" => {
            let mut r = Sm(p.parse().unwrap());
            for x in v.iter_mut() {
                *x = (r.next() % 5) as i64 - 2;
            }
        }
        _ => {}
    }
    v
}

/// plaintext limbs of a GLWE message: `rand` = uniform digits (real `vec_znx_fill_uniform`),
/// `ext` = every digit at ±2^(b-1) (−2^(b−1) or 2^(b−1)−1, alternating pseudo-randomly)
pub fn fill_pt(module: &Module<NTT120Ref>, pt: &mut GLWEPlaintext<Vec<u8>>, base2k: usize, class: &str, src: &mut Source, r: &mut Sm) {
    match class {
        "ext" => {
            let size = pt.data.size();
            for j in 0..size {
                for x in pt.data.at_mut(0, j).iter_mut() {
                    *x = if r.next() & 1 == 0 { -(1i64 << (base2k - 1)) } else { (1i64 << (base2k - 1)) - 1 };
                }
            }
        }
        _ => module.vec_znx_fill_uniform(base2k, &mut pt.data, 0, src),
    }
}

macro_rules! ep_backend {
    ($fname:ident, $be:ty) => {
        /// runs the operation on one back end from raw containers; returns the canonical result
        fn $fname(
            c: &Case,
            ggsw: &GGSW<Vec<u8>>,
            a: &GLWE<Vec<u8>>,
            f: Option<&GLWE<Vec<u8>>>,
            am: Option<&GGSW<Vec<u8>>>,
            agl: Option<&GGLWE<Vec<u8>>>,
        ) -> String {
            type BE = $be;
            let r = std::panic::catch_unwind(std::panic::AssertUnwindSafe(|| {
                let module: Module<BE> = Module::<BE>::new(c.n as u64);
                let mut scratch: ScratchOwned<BE> = ScratchOwned::alloc(SCRATCH);
                let mut prep: GGSWPrepared<DeviceBuf<BE>, BE> = module.ggsw_prepared_alloc_from_infos(ggsw);
                module.ggsw_prepare(&mut prep, ggsw, scratch.borrow());
                if c.dirty != 0 {
                    let (sl, _) = scratch.borrow().take_slice::<u64>(SCRATCH / 8 - 64);
                    for (i, x) in sl.iter_mut().enumerate() {
                        *x = c.dirty.wrapping_add((i as u64 % 7) << 40);
                    }
                } else {
                    let (sl, _) = scratch.borrow().take_slice::<u64>(SCRATCH / 8 - 64);
                    for x in sl.iter_mut() {
                        *x = 0;
                    }
                }
                if !c.stale.is_empty() {
                    // leave the transforms of known polynomials where the operation's first
                    // `take_vec_znx_dft(cols, ggsw.size())` will land
                    let cols = c.rank + 1;
                    let size_g = c.kg.div_ceil(c.bg);
                    let mut v: VecZnx<Vec<u8>> = VecZnx::alloc(c.n, cols, size_g);
                    v.raw_mut().copy_from_slice(&c.stale);
                    let (mut d, _) = scratch.borrow().take_vec_znx_dft(&module, cols, size_g);
                    for j in 0..cols {
                        module.vec_znx_dft_apply(1, 0, &mut d, j, &v, j);
                    }
                }
                let out_infos = GLWELayout {
                    n: Degree(c.n as u32),
                    base2k: Base2K(c.bo as u32),
                    k: TorusPrecision(c.ko as u32),
                    rank: Rank(c.rank as u32),
                };
                match c.op.as_str() {
                    "glwe" => {
                        let mut res: GLWE<Vec<u8>> = GLWE::alloc_from_infos(&out_infos);
                        for (i, x) in res.data_mut().raw_mut().iter_mut().enumerate() {
                            *x = crate::fillpat::pat(0x5555, i);
                        }
                        module.glwe_external_product(&mut res, a, &prep, scratch.borrow());
                        fmt_glwe(&res)
                    }
                    "glwe_assign" => {
                        let mut res: GLWE<Vec<u8>> = GLWE::alloc_from_infos(a);
                        res.data_mut().raw_mut().copy_from_slice(a.data().raw());
                        module.glwe_external_product_assign(&mut res, &prep, scratch.borrow());
                        fmt_glwe(&res)
                    }
                    "cmux" => {
                        let mut res: GLWE<Vec<u8>> = GLWE::alloc_from_infos(&out_infos);
                        for (i, x) in res.data_mut().raw_mut().iter_mut().enumerate() {
                            *x = crate::fillpat::pat(0x5555, i);
                        }
                        module.cmux(&mut res, a, f.unwrap(), &prep, scratch.borrow());
                        fmt_glwe(&res)
                    }
                    "cmux_assign" => {
                        let mut res: GLWE<Vec<u8>> = GLWE::alloc_from_infos(a);
                        res.data_mut().raw_mut().copy_from_slice(a.data().raw());
                        module.cmux_assign(&mut res, f.unwrap(), &prep, scratch.borrow());
                        fmt_glwe(&res)
                    }
                    "cmux_assign_neg" => {
                        let mut res: GLWE<Vec<u8>> = GLWE::alloc_from_infos(a);
                        res.data_mut().raw_mut().copy_from_slice(a.data().raw());
                        module.cmux_assign_neg(&mut res, f.unwrap(), &prep, scratch.borrow());
                        fmt_glwe(&res)
                    }
                    "cswap" => {
                        let fb = f.unwrap();
                        let mut ra: GLWE<Vec<u8>> = GLWE::alloc_from_infos(a);
                        ra.data_mut().raw_mut().copy_from_slice(a.data().raw());
                        let mut rb: GLWE<Vec<u8>> = GLWE::alloc_from_infos(fb);
                        rb.data_mut().raw_mut().copy_from_slice(fb.data().raw());
                        module.cswap(&mut ra, &mut rb, &prep, scratch.borrow());
                        format!("{};{}", fmt_glwe(&ra), fmt_glwe(&rb))
                    }
                    "gglwe" | "gglwe_assign" => {
                        let ag = agl.unwrap();
                        let rin = c.rin;
                        if c.op == "gglwe" {
                            let res_infos = GGLWELayout {
                                n: Degree(c.n as u32),
                                base2k: Base2K(c.bo as u32),
                                k: TorusPrecision(c.ko as u32),
                                rank_in: Rank(rin as u32),
                                rank_out: Rank(c.rank as u32),
                                dnum: Dnum(c.dnumr as u32),
                                dsize: Dsize(1),
                            };
                            let mut res: GGLWE<Vec<u8>> = GGLWE::alloc_from_infos(&res_infos);
                            for r in 0..c.dnumr {
                                for ci in 0..rin {
                                    for (i, x) in res.at_mut(r, ci).data_mut().raw_mut().iter_mut().enumerate() {
                                        *x = crate::fillpat::pat(0x5555, i + 977 * (r * 16 + ci));
                                    }
                                }
                            }
                            module.gglwe_external_product(&mut res, ag, &prep, scratch.borrow());
                            (0..c.dnumr).flat_map(|r| (0..rin).map(move |ci| (r, ci))).map(|(r, ci)| fmt_glwe(&res.at(r, ci))).collect::<Vec<_>>().join(";")
                        } else {
                            let mut res: GGLWE<Vec<u8>> = GGLWE::alloc_from_infos(ag);
                            for r in 0..c.dnuma {
                                for ci in 0..rin {
                                    res.at_mut(r, ci).data_mut().raw_mut().copy_from_slice(ag.at(r, ci).data().raw());
                                }
                            }
                            module.gglwe_external_product_assign(&mut res, &prep, scratch.borrow());
                            (0..c.dnuma).flat_map(|r| (0..rin).map(move |ci| (r, ci))).map(|(r, ci)| fmt_glwe(&res.at(r, ci))).collect::<Vec<_>>().join(";")
                        }
                    }
                    "ggsw" => {
                        let am = am.unwrap();
                        let res_infos = GGSWLayout {
                            n: Degree(c.n as u32),
                            base2k: Base2K(c.bo as u32),
                            k: TorusPrecision(c.ko as u32),
                            rank: Rank(c.rank as u32),
                            dnum: Dnum(c.dnumr as u32),
                            dsize: Dsize(1),
                        };
                        let mut res: GGSW<Vec<u8>> = GGSW::alloc_from_infos(&res_infos);
                        for r in 0..c.dnumr {
                            for ci in 0..c.rank + 1 {
                                for (i, x) in res.at_mut(r, ci).data_mut().raw_mut().iter_mut().enumerate() {
                                    *x = crate::fillpat::pat(0x5555, i + 977 * (r * 16 + ci));
                                }
                            }
                        }
                        module.ggsw_external_product(&mut res, am, &prep, scratch.borrow());
                        fmt_ggsw_cells(&res, c.dnumr, c.rank + 1)
                    }
                    "ggsw_assign" => {
                        let am = am.unwrap();
                        let mut res: GGSW<Vec<u8>> = GGSW::alloc_from_infos(am);
                        for r in 0..c.dnuma {
                            for ci in 0..c.rank + 1 {
                                res.at_mut(r, ci).data_mut().raw_mut().copy_from_slice(am.at(r, ci).data().raw());
                            }
                        }
                        module.ggsw_external_product_assign(&mut res, &prep, scratch.borrow());
                        fmt_ggsw_cells(&res, c.dnuma, c.rank + 1)
                    }
                    _ => "bad-op".to_string(),
                }
            }));
            match r {
                Ok(s) => s,
                Err(e) => {
                    let msg = e.downcast_ref::<String>().cloned().or_else(|| e.downcast_ref::<&str>().map(|s| s.to_string())).unwrap_or_default();
                    format!("panic:{}", panic_class(&msg))
                }
            }
        }
    };
}

ep_backend!(run_fft64ref, FFT64Ref);
ep_backend!(run_ntt120ref, NTT120Ref);
ep_backend!(run_fft64avx, FFT64Avx);
ep_backend!(run_ntt120avx, NTT120Avx);

pub fn one_case(t: &[&str]) -> String {
    let kv = kvs(t);
    let us = |k: &str| kv.get(k).map(|s| s.parse::<usize>().unwrap()).unwrap_or(0);
    let c = Case {
        op: kv.get("op").unwrap_or(&"glwe").to_string(),
        n: us("n"),
        rank: us("rank"),
        dsize: us("dsize"),
        dnum: us("dnum"),
        bg: us("bg"),
        kg: us("kg"),
        bi: us("bi"),
        ki: us("ki"),
        bo: us("bo"),
        ko: us("ko"),
        kf: us("kf"),
        dnuma: us("dnuma"),
        dnumr: us("dnumr"),
        rin: us("rin").max(1),
        dirty: kv.get("dirty").map(|s| s.parse::<u64>().unwrap()).unwrap_or(0),
        stale: Vec::new(),
    };
    let mut c = c;
    let seed: u64 = kv.get("seed").map(|s| s.parse().unwrap()).unwrap_or(1);
    let m1class = kv.get("m1").copied().unwrap_or("rand");
    let m2 = make_m2(c.n, kv.get("m2").copied().unwrap_or("one"));

    type G = NTT120Ref;
    let module: Module<G> = Module::<G>::new(c.n as u64);
    let mut scratch: ScratchOwned<G> = ScratchOwned::alloc(SCRATCH);
    let mut source_xs = Source::new(seed32(seed, 1));
    let mut source_xs2 = Source::new(seed32(seed, 1));
    let mut source_xe = Source::new(seed32(seed, 2));
    let mut source_xa = Source::new(seed32(seed, 3));
    let mut rnd = Sm(seed ^ 0xABCD);

    let mut sk = GLWESecret::alloc(Degree(c.n as u32), Rank(c.rank as u32));
    sk.fill_ternary_prob(0.5, &mut source_xs);
    // same public sampling calls on a buffer we can read
    let mut sk_copy = ScalarZnx::alloc(c.n, c.rank);
    for i in 0..c.rank {
        sk_copy.fill_ternary_prob(i, 0.5, &mut source_xs2);
    }
    let mut sk_prep: GLWESecretPrepared<DeviceBuf<G>, G> = module.glwe_secret_prepared_alloc(Rank(c.rank as u32));
    module.glwe_secret_prepare(&mut sk_prep, &sk);

    let ggsw_infos = GGSWLayout {
        n: Degree(c.n as u32),
        base2k: Base2K(c.bg as u32),
        k: TorusPrecision(c.kg as u32),
        rank: Rank(c.rank as u32),
        dnum: Dnum(c.dnum as u32),
        dsize: Dsize(c.dsize as u32),
    };
    let ggsw_enc = EncryptionLayout::new_from_default_sigma(ggsw_infos).unwrap();
    let mut ggsw: GGSW<Vec<u8>> = GGSW::alloc_from_infos(&ggsw_infos);
    let mut pt2 = ScalarZnx::alloc(c.n, 1);
    pt2.raw_mut().copy_from_slice(&m2);
    module.ggsw_encrypt_sk(&mut ggsw, &pt2, &sk_prep, &ggsw_enc, &mut source_xe, &mut source_xa, scratch.borrow());

    let mut out = String::from("ok");
    let mut sk_ints: Vec<i64> = Vec::new();
    for i in 0..c.rank {
        sk_ints.extend_from_slice(sk_copy.at(i, 0));
    }
    out.push_str(&format!(" sk={}", fmt_ints(&sk_ints)));
    out.push_str(&format!(" g={}", fmt_ggsw_flat(&ggsw, c.dnum, c.rank + 1)));
    out.push_str(&format!(" m2={}", fmt_ints(&m2)));

    let mut enc_glwe = |k: usize, base2k: usize, class: &str| -> (GLWE<Vec<u8>>, Vec<i64>) {
        let infos = GLWELayout {
            n: Degree(c.n as u32),
            base2k: Base2K(base2k as u32),
            k: TorusPrecision(k as u32),
            rank: Rank(c.rank as u32),
        };
        let mut ct: GLWE<Vec<u8>> = GLWE::alloc_from_infos(&infos);
        let mut pt: GLWEPlaintext<Vec<u8>> = GLWEPlaintext::alloc_from_infos(&infos);
        if class == "raw" {
            // not an encryption: arbitrary extreme digits in every column
            for x in ct.data_mut().raw_mut().iter_mut() {
                *x = if rnd.next() & 1 == 0 { -(1i64 << (base2k - 1)) } else { (1i64 << (base2k - 1)) - 1 };
            }
            return (ct, vec![]);
        }
        fill_pt(&module, &mut pt, base2k, class, &mut source_xa, &mut rnd);
        let enc = EncryptionLayout::new_from_default_sigma(infos).unwrap();
        module.glwe_encrypt_sk(&mut ct, &pt, &sk_prep, &enc, &mut source_xe, &mut source_xa, scratch.borrow());
        let mut m = Vec::new();
        for j in 0..pt.data.size() {
            m.extend_from_slice(pt.data.at(0, j));
        }
        (ct, m)
    };

    let (a, m1) = enc_glwe(c.ki, c.bi, m1class);
    let mut f: Option<GLWE<Vec<u8>>> = None;
    let mut am: Option<GGSW<Vec<u8>>> = None;
    let mut agl: Option<GGLWE<Vec<u8>>> = None;
    match c.op.as_str() {
        "gglwe" | "gglwe_assign" => {
            let a_infos = GGLWELayout {
                n: Degree(c.n as u32),
                base2k: Base2K(c.bi as u32),
                k: TorusPrecision(c.ki as u32),
                rank_in: Rank(c.rin as u32),
                rank_out: Rank(c.rank as u32),
                dnum: Dnum(c.dnuma as u32),
                dsize: Dsize(1),
            };
            let a_enc = EncryptionLayout::new_from_default_sigma(a_infos).unwrap();
            let mut ag: GGLWE<Vec<u8>> = GGLWE::alloc_from_infos(&a_infos);
            let mut pta = ScalarZnx::alloc(c.n, c.rin);
            let m1s: Vec<i64> = (0..c.n * c.rin).map(|_| (rnd.next() % 3) as i64 - 1).collect();
            pta.raw_mut().copy_from_slice(&m1s);
            module.gglwe_encrypt_sk(&mut ag, &pta, &sk_prep, &a_enc, &mut source_xe, &mut source_xa, scratch.borrow());
            let cells: Vec<String> = (0..c.dnuma).flat_map(|r| (0..c.rin).map(move |ci| (r, ci))).map(|(r, ci)| fmt_glwe(&ag.at(r, ci))).collect();
            out.push_str(&format!(" am={} m1={}", cells.join(";"), fmt_ints(&m1s)));
            agl = Some(ag);
        }
        "cmux" | "cmux_assign" | "cmux_assign_neg" | "cswap" => {
            let (ff, mf) = enc_glwe(c.kf, c.bi, m1class);
            out.push_str(&format!(" a={} f={} m1={} mf={}", fmt_glwe(&a), fmt_glwe(&ff), fmt_ints(&m1), fmt_ints(&mf)));
            f = Some(ff);
        }
        "ggsw" | "ggsw_assign" => {
            // left operand: a real GGSW (dsize 1) encrypting the small polynomial m1 = X + 1 … or random small
            let a_infos = GGSWLayout {
                n: Degree(c.n as u32),
                base2k: Base2K(c.bi as u32),
                k: TorusPrecision(c.ki as u32),
                rank: Rank(c.rank as u32),
                dnum: Dnum(c.dnuma as u32),
                dsize: Dsize(1),
            };
            let a_enc = EncryptionLayout::new_from_default_sigma(a_infos).unwrap();
            let mut ag: GGSW<Vec<u8>> = GGSW::alloc_from_infos(&a_infos);
            let mut pta = ScalarZnx::alloc(c.n, 1);
            let m1s: Vec<i64> = (0..c.n).map(|_| (rnd.next() % 3) as i64 - 1).collect();
            pta.raw_mut().copy_from_slice(&m1s);
            module.ggsw_encrypt_sk(&mut ag, &pta, &sk_prep, &a_enc, &mut source_xe, &mut source_xa, scratch.borrow());
            out.push_str(&format!(" am={} m1={}", fmt_ggsw_cells(&ag, c.dnuma, c.rank + 1), fmt_ints(&m1s)));
            am = Some(ag);
        }
        _ => {
            out.push_str(&format!(" a={} m1={}", fmt_glwe(&a), fmt_ints(&m1)));
        }
    }

    let stale_bits = us("stale");
    if stale_bits > 0 {
        let cols = c.rank + 1;
        let size_g = c.kg.div_ceil(c.bg);
        let mut r = Sm(seed ^ 0x57A1E);
        // VecZnx raw order is limb-major; we print (column, limb, coefficient)
        let mut v: VecZnx<Vec<u8>> = VecZnx::alloc(c.n, cols, size_g);
        for x in v.raw_mut().iter_mut() {
            *x = ((r.next() << (64 - stale_bits)) as i64) >> (64 - stale_bits);
        }
        c.stale = v.raw().to_vec();
        out.push_str(&format!(" r0={}", fmt_vec(&v)));
    }
    out.push_str(&format!(" be0={}", run_fft64ref(&c, &ggsw, &a, f.as_ref(), am.as_ref(), agl.as_ref())));
    out.push_str(&format!(" be1={}", run_ntt120ref(&c, &ggsw, &a, f.as_ref(), am.as_ref(), agl.as_ref())));
    out.push_str(&format!(" be2={}", run_fft64avx(&c, &ggsw, &a, f.as_ref(), am.as_ref(), agl.as_ref())));
    out.push_str(&format!(" be3={}", run_ntt120avx(&c, &ggsw, &a, f.as_ref(), am.as_ref(), agl.as_ref())));
    out
}

pub fn run(_args: &[String]) {
    std::panic::set_hook(Box::new(|_| {}));
    let stdin = std::io::stdin();
    let stdout = std::io::stdout();
    let mut out = stdout.lock();
    for line in stdin.lock().lines() {
        let line = line.unwrap();
        crate::fillpat::set_from_line(&line);
        let t: Vec<&str> = line.split_whitespace().collect();
        if t.is_empty() {
            continue;
        }
        let id = t[0];
        let r = std::panic::catch_unwind(std::panic::AssertUnwindSafe(|| one_case(&t[1..])));
        match r {
            Ok(s) => writeln!(out, "{id} {s}").unwrap(),
            Err(e) => {
                let msg = e.downcast_ref::<String>().cloned().or_else(|| e.downcast_ref::<&str>().map(|s| s.to_string())).unwrap_or_default();
                writeln!(out, "{id} gen-panic:{}", panic_class(&msg)).unwrap()
            }
        }
    }
    out.flush().unwrap();
}
