//! `pvh fft64` — the floating-point half of C07: the reference FFT64 arithmetic of
//! `poulpy_cpu_ref::reference::fft64::reim` on explicit bit patterns.  Model twin:
//! `lean/Poulpy/Driver/Fft64.lean` (exact IEEE-754 binary64 model `lean/Poulpy/Model/F64.lean`).
//!
//! Request line: `id <op> k=v …`; answer `id <result>`.  Every `f64` travels as its 64-bit pattern in decimal;
//! vectors are flat reim layouts (`re…,im…`), `;` between vectors; `k = log2 m`, `m = n/2` complex points.
//!
//!   tab k=                         `ReimFFTTable::<f64>::new(m).omg()` and `ReimIFFTTable` → `fwd=<2m patterns> inv=<2m patterns>`
//!   fadd|fsub|fmul a= b= | fneg a=  the hardware `+ - *` and unary `-` element-wise
//!   from x=<i64…>                  reim_from_znx_i64_ref
//!   to k= x=<patterns>             reim_to_znx_i64_ref(divisor = m)
//!   fft|ifft k= x=                 fft_ref / ifft_ref with the crate's own table (`omg=`/`iomg=` fields are ignored)
//!   mul a= b= | addmul r= a= b=    reim_mul_ref / reim_addmul_ref
//!   pipe [be=ref|avx] k= a= b=     HAL on Module<FFT64Ref|FFT64Avx>(n = 2m): svp_prepare(a); svp_apply_dft(b); vec_znx_idft_apply → n i64
//!   vmp  [be=ref|avx] k= a=v;v;… b=v;v;…   vmp_prepare(rows b_j); vmp_apply_dft(a, limb j = a_j); vec_znx_idft_apply, one column
//!
//!   ffma a= b= c=                  `f64::mul_add` (hardware FMA: one rounding)
//!   be=avx on from|to|fft|ifft|mul|addmul   the `ReimArith` / `ReimFFTExecute` implementations of FFT64Avx
//!   vmp2 [be=] k= a= b= b2= [off=1]  matrix with two output limbs (2-column kernels) → `limb0|limb1`; `off=1`:
//!                                  vec_znx_dft_apply + vmp_apply_dft_to_dft(limb_offset = 1) → the second limb only
//!
//!   cnv [be=] k= rs= off= sl= sr= ml= mr= a=l;l;… b=l;l;…    cnv_prepare_left/right + cnv_apply_dft + idft of every limb (one column)
//!   cnvp … a0= a1= b0= b1=           cnv_pairwise_apply_dft(i = 0, j = 1) on two-column operands
//!   cnvc [be=] k= rs= off= a=l;l;… c=<i64,…>   cnv_by_const_apply (coefficient domain, i64)
//!
//! A result vector containing a non-finite value is printed as `err:nonfinite` (the model does not
//! follow NaN/inf propagation).
use std::io::{BufRead, Write};

use poulpy_cpu_avx::FFT64Avx;
use poulpy_cpu_ref::FFT64Ref;
use poulpy_cpu_ref::reference::fft64::reim::{
    ReimArith, ReimFFTExecute, ReimFFTTable, ReimIFFTTable, fft_ref, ifft_ref, reim_addmul_ref, reim_from_znx_i64_ref, reim_mul_ref,
    reim_to_znx_i64_ref,
};
use poulpy_hal::{
    api::{
        ModuleNew, ScratchOwnedAlloc, ScratchOwnedBorrow, SvpApplyDft, SvpPPolAlloc, SvpPrepare, VecZnxBigAlloc, VecZnxDftAlloc,
        CnvPVecAlloc, Convolution, VecZnxDftApply, VecZnxIdftApply, VmpApplyDft, VmpApplyDftToDft, VmpPMatAlloc, VmpPrepare,
    },
    layouts::{MatZnx, Module, ScalarZnx, ScratchOwned, VecZnx, ZnxView, ZnxViewMut},
};

use crate::cmd_hal::panic_class;

fn kv<'a>(t: &'a [&'a str], k: &str) -> Option<&'a str> {
    t.iter().find_map(|s| s.split_once('=').filter(|(a, _)| *a == k).map(|(_, v)| v))
}
fn parse_list<T: std::str::FromStr>(v: &str) -> Vec<T>
where
    T::Err: std::fmt::Debug,
{
    if v == "-" || v.is_empty() { vec![] } else { v.split(',').map(|x| x.parse::<T>().unwrap()).collect() }
}
fn list<T: std::str::FromStr>(t: &[&str], k: &str) -> Vec<T>
where
    T::Err: std::fmt::Debug,
{
    match kv(t, k) {
        None => vec![],
        Some(v) => parse_list(v),
    }
}
fn vecs(t: &[&str], k: &str) -> Vec<Vec<i64>> {
    match kv(t, k) {
        None => vec![],
        Some(v) => v.split(';').map(parse_list::<i64>).collect(),
    }
}
fn floats(t: &[&str], k: &str) -> Vec<f64> {
    list::<u64>(t, k).into_iter().map(f64::from_bits).collect()
}
fn join<T: ToString>(v: &[T]) -> String {
    if v.is_empty() { "-".to_string() } else { v.iter().map(|x| x.to_string()).collect::<Vec<_>>().join(",") }
}
fn bits(v: &[f64]) -> String {
    join(&v.iter().map(|x| x.to_bits()).collect::<Vec<u64>>())
}
fn finite_bits(v: &[f64]) -> String {
    if v.iter().all(|x| x.is_finite()) { bits(v) } else { "err:nonfinite".to_string() }
}

macro_rules! hal_pipes {
    ($fname:ident, $be:ty) => {
        fn $fname(op: &str, k: usize, a: &[Vec<i64>], b: &[Vec<i64>], b2: &[Vec<i64>], off: usize) -> String {
            type BE = $be;
            let n: usize = 2 << k;
            if a.len() != b.len() || a.iter().chain(b.iter()).chain(b2.iter()).any(|v| v.len() != n) || (op == "vmp2" && b2.len() != a.len()) {
                return "err:shape".to_string();
            }
            let module: Module<BE> = Module::<BE>::new(n as u64);
            let mut scratch: ScratchOwned<BE> = ScratchOwned::alloc(1 << 24);
            let mut big = module.vec_znx_big_alloc(1, 1);
            match op {
                "pipe" => {
                    let mut s = ScalarZnx::alloc(n, 1);
                    s.at_mut(0, 0).copy_from_slice(&a[0]);
                    let mut v = VecZnx::alloc(n, 1, 1);
                    v.at_mut(0, 0).copy_from_slice(&b[0]);
                    let mut p = module.svp_ppol_alloc(1);
                    module.svp_prepare(&mut p, 0, &s, 0);
                    let mut d = module.vec_znx_dft_alloc(1, 1);
                    module.svp_apply_dft(&mut d, 0, &p, 0, &v, 0);
                    module.vec_znx_idft_apply(&mut big, 0, &d, 0, scratch.borrow());
                }
                "vmp2" => {
                    let rows = a.len();
                    let mut v = VecZnx::alloc(n, 1, rows);
                    let mut m = MatZnx::alloc(n, rows, 1, 1, 2);
                    for j in 0..rows {
                        v.at_mut(0, j).copy_from_slice(&a[j]);
                        m.at_mut(j, 0).at_mut(0, 0).copy_from_slice(&b[j]);
                        m.at_mut(j, 0).at_mut(0, 1).copy_from_slice(&b2[j]);
                    }
                    let mut pm = module.vmp_pmat_alloc(rows, 1, 1, 2);
                    module.vmp_prepare(&mut pm, &m, scratch.borrow());
                    if off == 1 {
                        let mut ad = module.vec_znx_dft_alloc(1, rows);
                        for j in 0..rows {
                            let _ = j;
                        }
                        module.vec_znx_dft_apply(1, 0, &mut ad, 0, &v, 0);
                        let mut d = module.vec_znx_dft_alloc(1, 1);
                        module.vmp_apply_dft_to_dft(&mut d, &ad, &pm, 1, scratch.borrow());
                        module.vec_znx_idft_apply(&mut big, 0, &d, 0, scratch.borrow());
                        return join(big.at(0, 0));
                    }
                    let mut d = module.vec_znx_dft_alloc(1, 2);
                    module.vmp_apply_dft(&mut d, &v, &pm, scratch.borrow());
                    let mut big2 = module.vec_znx_big_alloc(1, 2);
                    module.vec_znx_idft_apply(&mut big2, 0, &d, 0, scratch.borrow());
                    return format!("{}|{}", join(big2.at(0, 0)), join(big2.at(0, 1)));
                }
                _ => {
                    let rows = a.len();
                    let mut v = VecZnx::alloc(n, 1, rows);
                    let mut m = MatZnx::alloc(n, rows, 1, 1, 1);
                    for j in 0..rows {
                        v.at_mut(0, j).copy_from_slice(&a[j]);
                        m.at_mut(j, 0).at_mut(0, 0).copy_from_slice(&b[j]);
                    }
                    let mut pm = module.vmp_pmat_alloc(rows, 1, 1, 1);
                    module.vmp_prepare(&mut pm, &m, scratch.borrow());
                    let mut d = module.vec_znx_dft_alloc(1, 1);
                    module.vmp_apply_dft(&mut d, &v, &pm, scratch.borrow());
                    module.vec_znx_idft_apply(&mut big, 0, &d, 0, scratch.borrow());
                }
            }
            join(big.at(0, 0))
        }
    };
}

macro_rules! hal_cnv {
    ($fname:ident, $be:ty) => {
        fn $fname(op: &str, t: &[&str]) -> String {
            type BE = $be;
            let k: usize = kv(t, "k").map(|v| v.parse().unwrap()).unwrap_or(0);
            let n: usize = 2 << k;
            let g = |name: &str| -> usize { kv(t, name).map(|v| v.parse().unwrap()).unwrap_or(0) };
            let gi = |name: &str| -> i64 { kv(t, name).map(|v| v.parse().unwrap()).unwrap_or(-1) };
            let (rs, off, sl, sr) = (g("rs"), g("off"), g("sl"), g("sr"));
            let (ml, mr) = (gi("ml"), gi("mr"));
            let module: Module<BE> = Module::<BE>::new(n as u64);
            let mut scratch: ScratchOwned<BE> = ScratchOwned::alloc(1 << 24);
            let fill = |cols: usize, limbs: &[Vec<Vec<i64>>]| -> VecZnx<Vec<u8>> {
                let size = limbs[0].len();
                let mut v = VecZnx::alloc(n, cols, size.max(1));
                for (c, col) in limbs.iter().enumerate() {
                    for (j, l) in col.iter().enumerate() {
                        v.at_mut(c, j).copy_from_slice(l);
                    }
                }
                v
            };
            let show = |big: &poulpy_hal::layouts::VecZnxBig<_, BE>, size: usize| -> String {
                (0..size).map(|j| join(big.at(0, j))).collect::<Vec<_>>().join(";")
            };
            match op {
                "cnvc" => {
                    let a = vecs(t, "a");
                    if a.iter().any(|v| v.len() != n) {
                        return "err:shape".to_string();
                    }
                    let c: Vec<i64> = list(t, "c");
                    let va = fill(1, &[a]);
                    let mut big = module.vec_znx_big_alloc(1, rs);
                    module.cnv_by_const_apply(off, &mut big, 0, &va, 0, &c, scratch.borrow());
                    show(&big, rs)
                }
                _ => {
                    let cols: Vec<(Vec<Vec<i64>>, Vec<Vec<i64>>)> = if op == "cnv" {
                        vec![(vecs(t, "a"), vecs(t, "b"))]
                    } else {
                        vec![(vecs(t, "a0"), vecs(t, "b0")), (vecs(t, "a1"), vecs(t, "b1"))]
                    };
                    if cols.iter().any(|(a, b)| a.iter().chain(b.iter()).any(|v| v.len() != n)) {
                        return "err:shape".to_string();
                    }
                    let nc = cols.len();
                    let va = fill(nc, &cols.iter().map(|c| c.0.clone()).collect::<Vec<_>>());
                    let vb = fill(nc, &cols.iter().map(|c| c.1.clone()).collect::<Vec<_>>());
                    let mut l = module.cnv_pvec_left_alloc(nc, sl);
                    let mut r = module.cnv_pvec_right_alloc(nc, sr);
                    module.cnv_prepare_left(&mut l, &va, ml, scratch.borrow());
                    module.cnv_prepare_right(&mut r, &vb, mr, scratch.borrow());
                    let mut d = module.vec_znx_dft_alloc(1, rs);
                    if op == "cnv" {
                        module.cnv_apply_dft(off, &mut d, 0, &l, 0, &r, 0, scratch.borrow());
                    } else {
                        module.cnv_pairwise_apply_dft(off, &mut d, 0, &l, &r, 0, 1, scratch.borrow());
                    }
                    let mut big = module.vec_znx_big_alloc(1, rs);
                    module.vec_znx_idft_apply(&mut big, 0, &d, 0, scratch.borrow());
                    show(&big, rs)
                }
            }
        }
    };
}

hal_cnv!(cnv_ref, FFT64Ref);
hal_cnv!(cnv_avx, FFT64Avx);

hal_pipes!(pipes_ref, FFT64Ref);
hal_pipes!(pipes_avx, FFT64Avx);

fn answer_avx(t: &[&str]) -> Option<String> {
    let op = t[0];
    let k: usize = kv(t, "k").map(|v| v.parse().unwrap()).unwrap_or(0);
    let m: usize = 1 << k;
    Some(match op {
        "from" => {
            let x: Vec<i64> = list(t, "x");
            let mut r = vec![0f64; x.len()];
            <FFT64Avx as ReimArith>::reim_from_znx(&mut r, &x);
            bits(&r)
        }
        "to" => {
            let x = floats(t, "x");
            let mut r = vec![0i64; x.len()];
            <FFT64Avx as ReimArith>::reim_to_znx(&mut r, m as f64, &x);
            join(&r)
        }
        "fft" => {
            let mut x = floats(t, "x");
            assert!(x.len() == 2 * m);
            let tab = ReimFFTTable::<f64>::new(m);
            <FFT64Avx as ReimFFTExecute<ReimFFTTable<f64>, f64>>::reim_dft_execute(&tab, &mut x);
            finite_bits(&x)
        }
        "ifft" => {
            let mut x = floats(t, "x");
            assert!(x.len() == 2 * m);
            let tab = ReimIFFTTable::<f64>::new(m);
            <FFT64Avx as ReimFFTExecute<ReimIFFTTable<f64>, f64>>::reim_dft_execute(&tab, &mut x);
            finite_bits(&x)
        }
        "mul" => {
            let (a, b) = (floats(t, "a"), floats(t, "b"));
            assert!(a.len() == b.len() && a.len() == 2 * m);
            let mut r = vec![0f64; a.len()];
            <FFT64Avx as ReimArith>::reim_mul(&mut r, &a, &b);
            finite_bits(&r)
        }
        "addmul" => {
            let (a, b) = (floats(t, "a"), floats(t, "b"));
            let mut r = floats(t, "r");
            assert!(a.len() == b.len() && a.len() == r.len() && a.len() == 2 * m);
            <FFT64Avx as ReimArith>::reim_addmul(&mut r, &a, &b);
            finite_bits(&r)
        }
        _ => return None,
    })
}

fn answer(t: &[&str]) -> String {
    let op = t[0];
    let k: usize = kv(t, "k").map(|v| v.parse().unwrap()).unwrap_or(0);
    let m: usize = 1 << k;
    if kv(t, "be") == Some("avx") {
        if let Some(r) = answer_avx(t) {
            return r;
        }
    }
    match op {
        "tab" => {
            let f = ReimFFTTable::<f64>::new(m);
            let i = ReimIFFTTable::<f64>::new(m);
            format!("fwd={} inv={}", bits(f.omg()), bits(i.omg()))
        }
        "fadd" | "fsub" | "fmul" => {
            let (a, b) = (floats(t, "a"), floats(t, "b"));
            let r: Vec<f64> = a
                .iter()
                .zip(b.iter())
                .map(|(x, y)| match op {
                    "fadd" => std::hint::black_box(*x) + std::hint::black_box(*y),
                    "fsub" => std::hint::black_box(*x) - std::hint::black_box(*y),
                    _ => std::hint::black_box(*x) * std::hint::black_box(*y),
                })
                .collect();
            bits(&r)
        }
        "fneg" => bits(&floats(t, "a").iter().map(|x| -std::hint::black_box(*x)).collect::<Vec<f64>>()),
        "from" => {
            let x: Vec<i64> = list(t, "x");
            let mut r = vec![0f64; x.len()];
            reim_from_znx_i64_ref(&mut r, &x);
            bits(&r)
        }
        "to" => {
            let x = floats(t, "x");
            let mut r = vec![0i64; x.len()];
            reim_to_znx_i64_ref(&mut r, m as f64, &x);
            join(&r)
        }
        "fft" | "ifft" => {
            let mut x = floats(t, "x");
            if op == "fft" {
                let tab = ReimFFTTable::<f64>::new(m);
                fft_ref(m, tab.omg(), &mut x);
            } else {
                let tab = ReimIFFTTable::<f64>::new(m);
                ifft_ref(m, tab.omg(), &mut x);
            }
            finite_bits(&x)
        }
        "mul" => {
            let (a, b) = (floats(t, "a"), floats(t, "b"));
            let mut r = vec![0f64; a.len()];
            reim_mul_ref(&mut r, &a, &b);
            finite_bits(&r)
        }
        "addmul" => {
            let (a, b) = (floats(t, "a"), floats(t, "b"));
            let mut r = floats(t, "r");
            reim_addmul_ref(&mut r, &a, &b);
            finite_bits(&r)
        }
        "pipe" | "vmp" | "vmp2" => {
            let (a, b, b2) = (vecs(t, "a"), vecs(t, "b"), vecs(t, "b2"));
            let off: usize = kv(t, "off").map(|v| v.parse().unwrap()).unwrap_or(0);
            match kv(t, "be") {
                Some("avx") => pipes_avx(op, k, &a, &b, &b2, off),
                _ => pipes_ref(op, k, &a, &b, &b2, off),
            }
        }
        "cnv" | "cnvp" | "cnvc" => match kv(t, "be") {
            Some("avx") => cnv_avx(op, t),
            _ => cnv_ref(op, t),
        },
        "ffma" => {
            let (a, b, c) = (floats(t, "a"), floats(t, "b"), floats(t, "c"));
            let r: Vec<f64> = a
                .iter()
                .zip(b.iter())
                .zip(c.iter())
                .map(|((x, y), z)| std::hint::black_box(*x).mul_add(std::hint::black_box(*y), std::hint::black_box(*z)))
                .collect();
            bits(&r)
        }
        _ => "bad-op".to_string(),
    }
}

pub fn run(_args: &[String]) {
    std::panic::set_hook(Box::new(|_| {}));
    let stdin = std::io::stdin();
    let stdout = std::io::stdout();
    let mut out = std::io::BufWriter::new(stdout.lock());
    for line in stdin.lock().lines() {
        let line = line.unwrap();
        let toks: Vec<&str> = line.split_whitespace().collect();
        if toks.len() < 2 {
            continue;
        }
        let id = toks[0];
        let t = &toks[1..];
        let r = std::panic::catch_unwind(|| answer(t));
        let ans = match r {
            Ok(s) => s,
            Err(e) => {
                let msg = e.downcast_ref::<String>().cloned().or_else(|| e.downcast_ref::<&str>().map(|s| s.to_string())).unwrap_or_default();
                format!("panic:{}", panic_class(&msg))
            }
        };
        writeln!(out, "{id} {ans}").unwrap();
    }
    out.flush().unwrap();
}
