//! `pvh norm` — runs the real normalisation / shift / encoding code of /repo through the public
//! HAL API (`Module<BE>` for the four back ends) and the public `VecZnx` encode / decode methods.
//!
//! stdin : `id norm <op> be=<fft64ref|ntt120ref|fft64avx|ntt120avx> n=.. key=value …`
//!         (same request lines as the Lean driver; see lean/Poulpy/Driver/Norm.lean)
//! stdout: `id <column>`  limbs separated by `|`, coefficients by `,`; containers: columns by `;`
//!         `id panic:<class>`; `id frame:<what>` if a limb/column outside the write set changed.
//!
//! Every operand lives in a 2-column container; the inactive column and the scratch area are
//! filled with sentinels and the inactive column is checked after the call.
use std::io::{BufRead, Write};
use std::sync::Mutex;

use poulpy_cpu_avx::{FFT64Avx, NTT120Avx};
use poulpy_cpu_ref::{FFT64Ref, NTT120Ref};
use poulpy_hal::{
    api::{
        ModuleNew, ScratchOwnedAlloc, ScratchOwnedBorrow, VecZnxBigAlloc, VecZnxBigNormalize, VecZnxLsh, VecZnxLshAddInto,
        VecZnxLshAssign, VecZnxLshSub, VecZnxNormalize, VecZnxNormalizeAssign, VecZnxRsh, VecZnxRshAddInto, VecZnxRshAssign,
        VecZnxRshSub,
    },
    layouts::{Backend, Module, ScratchOwned, VecZnx, VecZnxBigOwned, ZnxView, ZnxViewMut},
};

static LAST_PANIC: Mutex<String> = Mutex::new(String::new());

pub trait BigScalar: Copy {
    fn from_i128(x: i128) -> Self;
}
impl BigScalar for i64 {
    fn from_i128(x: i128) -> Self {
        x as i64
    }
}
impl BigScalar for i128 {
    fn from_i128(x: i128) -> Self {
        x
    }
}

fn kv<'a>(t: &'a [&'a str], k: &str) -> Option<&'a str> {
    t.iter().find_map(|s| s.split_once('=').filter(|(a, _)| *a == k).map(|(_, v)| v))
}
fn kv_usize(t: &[&str], k: &str) -> usize {
    kv(t, k).and_then(|v| v.parse().ok()).unwrap_or(0)
}
fn kv_i64(t: &[&str], k: &str) -> i64 {
    kv(t, k).and_then(|v| v.parse().ok()).unwrap_or(0)
}
fn ints(s: &str) -> Vec<i128> {
    if s == "-" || s.is_empty() { vec![] } else { s.split(',').map(|x| x.parse::<i128>().unwrap()).collect() }
}
/// column = limbs × coefficients
fn parse_col(s: &str) -> Vec<Vec<i128>> {
    if s == "-" || s.is_empty() { vec![] } else { s.split('|').map(ints).collect() }
}
fn kv_col(t: &[&str], k: &str) -> Vec<Vec<i128>> {
    kv(t, k).map(parse_col).unwrap_or_default()
}
fn show_col(c: &[Vec<i64>]) -> String {
    if c.is_empty() {
        return "-".into();
    }
    c.iter()
        .map(|l| l.iter().map(|x| x.to_string()).collect::<Vec<_>>().join(","))
        .collect::<Vec<_>>()
        .join("|")
}

const SENT: i64 = 0x0123_4567_89AB_CDEF;
const GARB: i64 = 0x5A5A_5A5A_5A5A_5A5Au64 as i64;

/// 2-column VecZnx with `col` = data (or garbage if `data` is None) and the other column = sentinel
fn mk_vz(n: usize, size: usize, col: usize, data: Option<&[Vec<i128>]>) -> VecZnx<Vec<u8>> {
    let mut v: VecZnx<Vec<u8>> = VecZnx::alloc(n, 2, size);
    for j in 0..size {
        v.at_mut(1 - col, j).fill(SENT);
        match data {
            Some(d) => {
                for (x, y) in v.at_mut(col, j).iter_mut().zip(d[j].iter()) {
                    *x = *y as i64;
                }
            }
            None => v.at_mut(col, j).fill(GARB),
        }
    }
    v
}
fn read_col(v: &VecZnx<Vec<u8>>, col: usize) -> Vec<Vec<i64>> {
    (0..v.size).map(|j| v.at(col, j).to_vec()).collect()
}
fn frame_ok(v: &VecZnx<Vec<u8>>, col: usize) -> bool {
    (0..v.size).all(|j| v.at(1 - col, j).iter().all(|x| *x == SENT))
}

fn run_case<BE>(module: &Module<BE>, scratch: &mut ScratchOwned<BE>, op: &str, t: &[&str]) -> String
where
    BE: Backend,
    BE::ScalarBig: BigScalar,
    ScratchOwned<BE>: ScratchOwnedBorrow<BE>,
    Module<BE>: VecZnxNormalize<BE>
        + VecZnxNormalizeAssign<BE>
        + VecZnxLsh<BE>
        + VecZnxLshAddInto<BE>
        + VecZnxLshSub<BE>
        + VecZnxLshAssign<BE>
        + VecZnxRsh<BE>
        + VecZnxRshAddInto<BE>
        + VecZnxRshSub<BE>
        + VecZnxRshAssign<BE>
        + VecZnxBigAlloc<BE>
        + VecZnxBigNormalize<BE>,
{
    let n = kv_usize(t, "n");
    let b = kv_usize(t, "b");
    let k = kv_usize(t, "k");
    let rb = kv_usize(t, "rb");
    let ab = kv_usize(t, "ab");
    let rs = kv_usize(t, "rs");
    let off = kv_i64(t, "off");
    let a = kv_col(t, "a");
    let res = kv_col(t, "res");
    let scr = kv_i64(t, "scr");
    // scratch content = `scr` repeated
    {
        let s = scratch.borrow();
        for ch in s.data.chunks_exact_mut(8) {
            ch.copy_from_slice(&scr.to_ne_bytes());
        }
    }
    let (rc, ac) = (1usize, 0usize); // active columns of res / a
    match op {
        "normalize" => {
            let av = mk_vz(n, a.len(), ac, Some(&a));
            let mut rv = mk_vz(n, rs, rc, None);
            module.vec_znx_normalize(&mut rv, rb, off, rc, &av, ab, ac, scratch.borrow());
            if !frame_ok(&rv, rc) {
                return "frame:res".into();
            }
            show_col(&read_col(&rv, rc))
        }
        "normalize_assign" | "lsh_assign" | "rsh_assign" => {
            let mut av = mk_vz(n, a.len(), ac, Some(&a));
            match op {
                "normalize_assign" => module.vec_znx_normalize_assign(b, &mut av, ac, scratch.borrow()),
                "lsh_assign" => module.vec_znx_lsh_assign(b, k, &mut av, ac, scratch.borrow()),
                _ => module.vec_znx_rsh_assign(b, k, &mut av, ac, scratch.borrow()),
            }
            if !frame_ok(&av, ac) {
                return "frame:a".into();
            }
            show_col(&read_col(&av, ac))
        }
        "lsh" | "lsh_add" | "lsh_sub" | "rsh" | "rsh_add" | "rsh_sub" => {
            let av = mk_vz(n, a.len(), ac, Some(&a));
            let overwrite = op == "lsh" || op == "rsh";
            let mut rv = mk_vz(n, res.len(), rc, if overwrite { None } else { Some(&res) });
            match op {
                "lsh" => module.vec_znx_lsh(b, k, &mut rv, rc, &av, ac, scratch.borrow()),
                "lsh_add" => module.vec_znx_lsh_add_into(b, k, &mut rv, rc, &av, ac, scratch.borrow()),
                "lsh_sub" => module.vec_znx_lsh_sub(b, k, &mut rv, rc, &av, ac, scratch.borrow()),
                "rsh" => module.vec_znx_rsh(b, k, &mut rv, rc, &av, ac, scratch.borrow()),
                "rsh_add" => module.vec_znx_rsh_add_into(b, k, &mut rv, rc, &av, ac, scratch.borrow()),
                _ => module.vec_znx_rsh_sub(b, k, &mut rv, rc, &av, ac, scratch.borrow()),
            }
            if !frame_ok(&rv, rc) {
                return "frame:res".into();
            }
            show_col(&read_col(&rv, rc))
        }
        "big_normalize" | "big_normalize_add" | "big_normalize_sub" | "big_normalize_negate" => {
            let mut abig: VecZnxBigOwned<BE> = module.vec_znx_big_alloc(2, a.len());
            for j in 0..a.len() {
                for (x, y) in abig.at_mut(ac, j).iter_mut().zip(a[j].iter()) {
                    *x = BE::ScalarBig::from_i128(*y);
                }
                abig.at_mut(1 - ac, j).fill(BE::ScalarBig::from_i128(SENT as i128));
            }
            let fused = op == "big_normalize_add" || op == "big_normalize_sub";
            let size = if fused { res.len() } else { rs };
            let mut rv = mk_vz(n, size, rc, if fused { Some(&res) } else { None });
            match op {
                "big_normalize" => module.vec_znx_big_normalize(&mut rv, rb, off, rc, &abig, ab, ac, scratch.borrow()),
                "big_normalize_add" => module.vec_znx_big_normalize_add_assign(&mut rv, rb, off, rc, &abig, ab, ac, scratch.borrow()),
                "big_normalize_sub" => module.vec_znx_big_normalize_sub_assign(&mut rv, rb, off, rc, &abig, ab, ac, scratch.borrow()),
                _ => module.vec_znx_big_normalize_negate(&mut rv, rb, off, rc, &abig, ab, ac, scratch.borrow()),
            }
            if !frame_ok(&rv, rc) {
                return "frame:res".into();
            }
            show_col(&read_col(&rv, rc))
        }
        _ => "bad-op".into(),
    }
}

/// container `v=col0;col1` → VecZnx with that content
fn parse_cont(n: usize, s: &str) -> VecZnx<Vec<u8>> {
    let cols: Vec<Vec<Vec<i128>>> = s.split(';').map(parse_col).collect();
    let size = cols[0].len();
    let mut v: VecZnx<Vec<u8>> = VecZnx::alloc(n, cols.len(), size);
    for (c, col) in cols.iter().enumerate() {
        for j in 0..size {
            for (x, y) in v.at_mut(c, j).iter_mut().zip(col[j].iter()) {
                *x = *y as i64;
            }
        }
    }
    v
}
fn show_cont(v: &VecZnx<Vec<u8>>) -> String {
    (0..v.cols).map(|c| show_col(&(0..v.size).map(|j| v.at(c, j).to_vec()).collect::<Vec<_>>())).collect::<Vec<_>>().join(";")
}

/// back-end independent layout methods
fn run_codec(op: &str, t: &[&str]) -> String {
    let n = kv_usize(t, "n");
    let b = kv_usize(t, "b");
    let k = kv_usize(t, "k");
    let col = kv_usize(t, "col");
    let idx = kv_usize(t, "idx");
    let mut v = parse_cont(n, kv(t, "v").unwrap_or(""));
    match op {
        "enc_i64" => {
            let data: Vec<i64> = ints(kv(t, "data").unwrap_or("")).iter().map(|x| *x as i64).collect();
            v.encode_vec_i64(b, col, k, &data);
            show_cont(&v)
        }
        "enc_i128" => {
            let data: Vec<i128> = ints(kv(t, "data").unwrap_or(""));
            v.encode_vec_i128(b, col, k, &data);
            show_cont(&v)
        }
        "enc_coeff_i64" => {
            let x: i64 = kv_i64(t, "x");
            v.encode_coeff_i64(b, col, k, idx, x);
            show_cont(&v)
        }
        "dec_i64" => {
            let mut data = vec![0i64; n];
            v.decode_vec_i64(b, col, k, &mut data);
            data.iter().map(|x| x.to_string()).collect::<Vec<_>>().join(",")
        }
        "dec_i128" => {
            let mut data = vec![0i128; n];
            v.decode_vec_i128(b, col, k, &mut data);
            data.iter().map(|x| x.to_string()).collect::<Vec<_>>().join(",")
        }
        "dec_coeff_i64" => v.decode_coeff_i64(b, col, k, idx).to_string(),
        "dec_float" => {
            // the FBig type is named only through inference (dashu is not a direct dependency)
            let mut data: Vec<_> = (0..n).map(|_| Default::default()).collect();
            v.decode_vec_float(b, col, &mut data);
            data.iter()
                .map(|x| {
                    let r = x.repr();
                    // value = significand * 2^exponent ; canonical: odd significand
                    let sig = r.significand().clone();
                    let mut e: i64 = r.exponent() as i64;
                    let tz = sig.trailing_zeros().unwrap_or(0);
                    let m = sig >> tz;
                    e += tz as i64;
                    if tz == 0 && m.to_string() == "0" {
                        e = 0;
                    }
                    format!("{m}:{e}")
                })
                .collect::<Vec<_>>()
                .join(",")
        }
        _ => "bad-op".into(),
    }
}

fn classify(msg: &str) -> &'static str {
    if msg.contains("overflow") {
        "overflow"
    } else if msg.contains("out of bounds") || msg.contains("out of range") || msg.contains("slice length") {
        "bounds"
    } else if msg.contains("scratch") || msg.contains("Scratch") {
        "scratch"
    } else {
        "assert"
    }
}

struct Ctx<BE: Backend> {
    modules: Vec<(usize, Module<BE>)>,
    scratch: ScratchOwned<BE>,
}

macro_rules! be_ctx {
    ($BE:ty, $ns:expr) => {{
        let modules: Vec<(usize, Module<$BE>)> = $ns.iter().map(|n| (*n, Module::<$BE>::new(*n as u64))).collect();
        Ctx::<$BE> { modules, scratch: ScratchOwned::<$BE>::alloc(1 << 14) }
    }};
}

pub fn run(_args: &[String]) {
    std::panic::set_hook(Box::new(|info| {
        let msg = if let Some(s) = info.payload().downcast_ref::<&str>() {
            s.to_string()
        } else if let Some(s) = info.payload().downcast_ref::<String>() {
            s.clone()
        } else {
            String::new()
        };
        *LAST_PANIC.lock().unwrap() = msg;
    }));
    let mut c_fr = be_ctx!(FFT64Ref, [2usize, 4, 8]);
    let mut c_fa = be_ctx!(FFT64Avx, [2usize, 4, 8]);
    let mut c_nr = be_ctx!(NTT120Ref, [1usize, 2, 4, 8]);
    let mut c_na = be_ctx!(NTT120Avx, [1usize, 2, 4, 8]);

    let stdin = std::io::stdin();
    let stdout = std::io::stdout();
    let mut out = std::io::BufWriter::new(stdout.lock());
    for line in stdin.lock().lines() {
        let line = line.unwrap();
        let t: Vec<&str> = line.split_whitespace().collect();
        if t.len() < 3 {
            continue;
        }
        let (id, op) = (t[0], t[2]);
        let rest = &t[3..];
        let n = kv_usize(rest, "n");
        let be = kv(rest, "be").unwrap_or("none");
        macro_rules! go {
            ($c:expr) => {{
                match $c.modules.iter().position(|(m, _)| *m == n) {
                    None => "err:n".to_string(),
                    Some(i) => {
                        let (ms, sc) = (&$c.modules, &mut $c.scratch);
                        let m = &ms[i].1;
                        match std::panic::catch_unwind(std::panic::AssertUnwindSafe(|| run_case(m, sc, op, rest))) {
                            Ok(s) => s,
                            Err(_) => format!("panic:{}", classify(&LAST_PANIC.lock().unwrap())),
                        }
                    }
                }
            }};
        }
        let ans = match be {
            "fft64ref" => go!(c_fr),
            "fft64avx" => go!(c_fa),
            "ntt120ref" => go!(c_nr),
            "ntt120avx" => go!(c_na),
            _ => match std::panic::catch_unwind(|| run_codec(op, rest)) {
                Ok(s) => s,
                Err(_) => format!("panic:{}", classify(&LAST_PANIC.lock().unwrap())),
            },
        };
        writeln!(out, "{id} {ans}").unwrap();
    }
    out.flush().unwrap();
}
