//! `pvh enc` — runs the real encryption / decryption routines of poulpy-core on one case per line
//! and prints every integer the model needs (secret, ciphertext, replayed error, decryption).
//!
//! Request:  `id <op> be=<fft64ref|ntt120ref|fft64avx|ntt120avx> k=v …`
//!   ops: glwe_sk | glwe_zero_sk | glwe_cmp | glwe_pk | lwe_sk
//!   common keys: n rank b k kxe sig bnd dist sxs sxa sxe  ptb ptk pt=<limbs>  db dk
//!   glwe_pk:     kpk kxepk sxu sxe2          (public key precision / noise precision / seeds)
//!   lwe_sk:      nl (LWE dimension), n = ring degree of the module only
//! Answer:   `id ok sk=<cols> ct=<cols> e=<cols> dec=<col> [pk=… u=… epk=…]`  or `id panic:<class>` / `id err:<kind>`
//! Columns are separated by `;`, limbs by `|`, coefficients by `,` (see harness/src/enc_common.rs).
//!
//! The error integers are obtained by replaying the same public sampling call
//! (`vec_znx_add_normal`) on a zero vector with a `Source` built from the same seed; secrets are
//! replayed the same way with `ScalarZnx::fill_*` (the secret's buffer is crate-private).
use std::io::{BufRead, Write};

use crate::enc_common::*;
use poulpy_core::{
    EncryptionLayout, GLWECompressedEncryptSk, GLWEDecrypt, GLWEEncryptPk, GLWEEncryptSk, GLWEPublicKeyGenerate, GetDistribution,
    LWEDecrypt, LWEEncryptSk,
    layouts::{
        Base2K, Degree, GLWE, GLWECompressed, GLWEDecompress, GLWELayout, GLWEPlaintext, GLWEPublicKey, GLWEPublicKeyPreparedFactory,
        GLWESecret, GLWESecretPreparedFactory, GLWEToRef, LWE, LWELayout, LWEPlaintext, LWESecret, Rank, TorusPrecision,
    },
};
use poulpy_cpu_avx::{FFT64Avx, NTT120Avx};
use poulpy_cpu_ref::{FFT64Ref, NTT120Ref};
use poulpy_hal::{
    api::{ModuleNew, ScratchOwnedAlloc, ScratchOwnedBorrow, VecZnxAddNormal},
    layouts::{Module, NoiseInfos, ScratchOwned, VecZnx, ZnxInfos, ZnxViewMut},
    source::Source,
};

fn garbage(v: &mut VecZnx<Vec<u8>>, tag: i64) {
    for (i, x) in v.raw_mut().iter_mut().enumerate() {
        *x = crate::fillpat::pat(tag + i as i64, i);
    }
}

macro_rules! enc_backend {
    ($fname:ident, $be:ty) => {
        fn $fname(op: &str, t: &[&str]) -> String {
            type BE = $be;
            let n = kv_us(t, "n");
            let rank = kv_us(t, "rank");
            let b = kv_us(t, "b");
            let k = kv_us(t, "k");
            let kxe = kv_us(t, "kxe");
            let sig = kv_f64(t, "sig", 3.2);
            let bnd = kv_f64(t, "bnd", 19.2);
            let dist = parse_dist(kv(t, "dist").unwrap_or("z"));
            let (sxs, sxa, sxe) = (kv_u64(t, "sxs"), kv_u64(t, "sxa"), kv_u64(t, "sxe"));
            let ptb = kv_us(t, "ptb");
            let ptk = kv_us(t, "ptk");
            let (db, dk) = (kv_us(t, "db"), kv_us(t, "dk"));
            let pts = kv(t, "pt").unwrap_or("-");
            let module: Module<BE> = Module::<BE>::new(n as u64);
            let noise = match NoiseInfos::new(kxe, sig, bnd) {
                Ok(x) => x,
                Err(_) => return "err:noise".to_string(),
            };
            let mut scratch: ScratchOwned<BE> = ScratchOwned::alloc(1 << 20);
            // dirty scratch: results must not depend on what the arena held before (C12), and a
            // temporary that is only partially overwritten must not leak into the ciphertext (C01)
            {
                let mut st: u64 = 0x9E3779B97F4A7C15 ^ (sxe as u64);
                for x in scratch.borrow().data.iter_mut() {
                    st = st.wrapping_mul(6364136223846793005).wrapping_add(1442695040888963407);
                    *x = (st >> 56) as u8;
                }
            }

            if op == "lwe_sk" {
                let nl = kv_us(t, "nl");
                let layout = LWELayout { n: Degree(nl as u32), k: TorusPrecision(k as u32), base2k: Base2K(b as u32) };
                let enc = match EncryptionLayout::new(layout, noise) {
                    Ok(x) => x,
                    Err(_) => return "err:kxe".to_string(),
                };
                let mut sk = LWESecret::alloc(Degree(nl as u32));
                fill_lwe_secret(&mut sk, dist, &mut Source::new(seed32(sxs)));
                let mut pt = LWEPlaintext::alloc(Base2K(ptb as u32), TorusPrecision(ptk as u32));
                load_col(pt.data_mut(), 0, pts);
                let mut ct = LWE::alloc_from_infos(&layout);
                garbage(ct.data_mut(), 0x5151);
                let mut xe = Source::new(seed32(sxe));
                let mut xa = Source::new(seed32(sxa));
                module.lwe_encrypt_sk(&mut ct, &pt, &sk, &enc, &mut xe, &mut xa, scratch.borrow());
                let size = ct.data().size();
                let mut ev = VecZnx::alloc(1, 1, size);
                module.vec_znx_add_normal(b, &mut ev, 0, noise, &mut Source::new(seed32(sxe)));
                let mut dec = LWEPlaintext::alloc(Base2K(db as u32), TorusPrecision(dk as u32));
                garbage(dec.data_mut(), 0x7171);
                module.lwe_decrypt(&ct, &mut dec, &sk, scratch.borrow());
                let sks: Vec<String> = sk.raw().iter().map(|x| x.to_string()).collect();
                return format!(
                    "ok sk={} ct={} e={} dec={}",
                    if sks.is_empty() { "-".to_string() } else { sks.join(",") },
                    show_vec(ct.data()),
                    show_vec(&ev),
                    show_vec(dec.data())
                );
            }

            let layout =
                GLWELayout { n: Degree(n as u32), base2k: Base2K(b as u32), k: TorusPrecision(k as u32), rank: Rank(rank as u32) };
            let enc = match EncryptionLayout::new(layout, noise) {
                Ok(x) => x,
                Err(_) => return "err:kxe".to_string(),
            };
            let mut sk = GLWESecret::alloc(Degree(n as u32), Rank(rank as u32));
            fill_glwe_secret(&mut sk, dist, &mut Source::new(seed32(sxs)));
            let sk_vis = replay_secret(n, rank, dist, &mut Source::new(seed32(sxs)));
            let mut skp = module.glwe_secret_prepared_alloc(Rank(rank as u32));
            module.glwe_secret_prepare(&mut skp, &sk);
            let mut pt = GLWEPlaintext::alloc(Degree(n as u32), Base2K(ptb.max(1) as u32), TorusPrecision(ptk.max(1) as u32));
            load_col(pt.data_mut(), 0, pts);
            let mut ct = GLWE::alloc_from_infos(&layout);
            garbage(ct.data_mut(), 0x5151);
            let size = ct.data().size();
            let mut xe = Source::new(seed32(sxe));
            let mut xa = Source::new(seed32(sxa));
            let mut extra = String::new();
            let mut ev: VecZnx<Vec<u8>>;
            match op {
                "glwe_sk" | "glwe_zero_sk" => {
                    if op == "glwe_sk" {
                        module.glwe_encrypt_sk(&mut ct, &pt, &skp, &enc, &mut xe, &mut xa, scratch.borrow());
                    } else {
                        module.glwe_encrypt_zero_sk(&mut ct, &skp, &enc, &mut xe, &mut xa, scratch.borrow());
                    }
                    ev = VecZnx::alloc(n, 1, size);
                    module.vec_znx_add_normal(b, &mut ev, 0, noise, &mut Source::new(seed32(sxe)));
                }
                "glwe_cmp" => {
                    let mut cc = GLWECompressed::alloc_from_infos(&layout);
                    {
                        // C11: the compressed result starts from garbage (its buffer is crate-private: FillUniform)
                        use poulpy_hal::layouts::FillUniform;
                        let mut gsrc = Source::new([(crate::fillpat::pat(0x51, 3) & 0xff) as u8; 32]);
                        cc.fill_uniform(b, &mut gsrc);
                    }
                    module.glwe_compressed_encrypt_sk(&mut cc, &pt, &skp, seed32(sxa), &enc, &mut xe, scratch.borrow());
                    module.decompress_glwe(&mut ct, &cc);
                    ev = VecZnx::alloc(n, 1, size);
                    module.vec_znx_add_normal(b, &mut ev, 0, noise, &mut Source::new(seed32(sxe)));
                }
                "glwe_pk" => {
                    let kpk = kv_us(t, "kpk");
                    let kxepk = kv_us(t, "kxepk");
                    let (sxu, sxe2) = (kv_u64(t, "sxu"), kv_u64(t, "sxe2"));
                    let pk_layout = GLWELayout {
                        n: Degree(n as u32),
                        base2k: Base2K(b as u32),
                        k: TorusPrecision(kpk as u32),
                        rank: Rank(rank as u32),
                    };
                    let noise_pk = match NoiseInfos::new(kxepk, sig, bnd) {
                        Ok(x) => x,
                        Err(_) => return "err:noise".to_string(),
                    };
                    let enc_pk = match EncryptionLayout::new(pk_layout, noise_pk) {
                        Ok(x) => x,
                        Err(_) => return "err:kxe".to_string(),
                    };
                    let mut pk = GLWEPublicKey::alloc_from_infos(&pk_layout);
                    module.glwe_public_key_generate(&mut pk, &skp, &enc_pk, &mut xe, &mut xa);
                    let mut pkp = module.glwe_public_key_prepared_alloc_from_infos(&pk_layout);
                    module.glwe_public_key_prepare(&mut pkp, &pk);
                    let mut xu = Source::new(seed32(sxu));
                    let mut xe2 = Source::new(seed32(sxe2));
                    module.glwe_encrypt_pk(&mut ct, &pt, &pkp, &enc, &mut xu, &mut xe2, scratch.borrow());
                    let pkv = pk.to_ref();
                    let size_pk = pkv.data().size();
                    let mut epk = VecZnx::alloc(n, 1, size_pk);
                    module.vec_znx_add_normal(b, &mut epk, 0, noise_pk, &mut Source::new(seed32(sxe)));
                    let u = replay_pk_u(n, pk.dist(), &mut Source::new(seed32(sxu)));
                    ev = VecZnx::alloc(n, rank + 1, size_pk);
                    let mut rs = Source::new(seed32(sxe2));
                    for i in 0..rank + 1 {
                        module.vec_znx_add_normal(b, &mut ev, i, noise, &mut rs);
                    }
                    extra = format!(" pk={} u={} epk={}", show_vec(pkv.data()), show_scalar(&u), show_vec(&epk));
                }
                _ => return "bad-op".to_string(),
            }
            let mut dec = GLWEPlaintext::alloc(Degree(n as u32), Base2K(db as u32), TorusPrecision(dk as u32));
            garbage(dec.data_mut(), 0x7171);
            module.glwe_decrypt(&ct, &mut dec, &skp, scratch.borrow());
            format!(
                "ok sk={} ct={} e={} dec={}{}",
                show_scalar(&sk_vis),
                show_vec(ct.data()),
                show_vec(&ev),
                show_vec(dec.data()),
                extra
            )
        }
    };
}

enc_backend!(run_fft64ref, FFT64Ref);
enc_backend!(run_ntt120ref, NTT120Ref);
enc_backend!(run_fft64avx, FFT64Avx);
enc_backend!(run_ntt120avx, NTT120Avx);

pub fn run(_args: &[String]) {
    std::panic::set_hook(Box::new(|_| {}));
    let stdin = std::io::stdin();
    let stdout = std::io::stdout();
    let mut out = stdout.lock();
    for line in stdin.lock().lines() {
        let line = line.unwrap();
        crate::fillpat::set_from_line(&line);
        let t: Vec<&str> = line.split_whitespace().collect();
        if t.len() < 2 {
            continue;
        }
        let id = t[0];
        let op = t[1];
        let be = kv(&t, "be").unwrap_or("fft64ref").to_string();
        let r = std::panic::catch_unwind(std::panic::AssertUnwindSafe(|| match be.as_str() {
            "fft64ref" => run_fft64ref(op, &t[2..]),
            "ntt120ref" => run_ntt120ref(op, &t[2..]),
            "fft64avx" => run_fft64avx(op, &t[2..]),
            "ntt120avx" => run_ntt120avx(op, &t[2..]),
            _ => "bad-be".to_string(),
        }));
        match r {
            Ok(s) => writeln!(out, "{id} {s}").unwrap(),
            Err(e) => writeln!(out, "{id} panic:{}", panic_class(&panic_msg(&e))).unwrap(),
        }
    }
    out.flush().unwrap();
}
