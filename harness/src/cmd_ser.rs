//! Serialisation of the real layouts (C18).  stdin request lines, stdout answer lines.
//!
//!   id new  type=T p=a,b,..  fill=K            → id ok W=<hex of write_to(fresh receiver)>
//!   id read type=T p=a,b,..  fill=K in=<hex>   → id <ok|err:kind|panic:class> rest=<unread> W=<hex of write_to(post-state)|err:kind|big> [M=… D=…]
//!   id dist bits=<u64> tag=<0..6>              → id <hex word written> <tag,payload of the value read back>
//!
//! `T`/`p`: see `with_type!`.  The receiver is `T::alloc(p)`; `fill=K` (K>0) fills its buffers with
//! `fill_uniform(8, Source::new([K;32]))` where the type implements it.  For the three HAL layouts
//! `M=` is every dimension field + buffer length and `D=` the whole buffer.
//! The reader object is a byte slice (`&[u8]`), as in the crate's own tests.
use std::io::{BufRead, Write};

use poulpy_bin_fhe::blind_rotation::{BlindRotationKey, BlindRotationKeyCompressed, BlindRotationKeyLayout, CGGI};
use poulpy_core::{
    Distribution, GetDistribution, GetDistributionMut,
    layouts::{
        Base2K, Degree, Dnum, Dsize, GGLWE, GGLWEToGGSWKey, GGSW, GLWE, GLWEAutomorphismKey, GLWEPublicKey, GLWESwitchingKey,
        GLWETensorKey, GLWEToLWEKey, LWE, LWESwitchingKey, LWEToGLWEKey, Rank, TorusPrecision,
        compressed::{
            GGLWECompressed, GGLWEToGGSWKeyCompressed, GGSWCompressed, GLWEAutomorphismKeyCompressed, GLWECompressed,
            GLWESwitchingKeyCompressed, GLWETensorKeyCompressed, GLWEToLWESwitchingKeyCompressed, LWECompressed,
            LWESwitchingKeyCompressed, LWEToGLWEKeyCompressed,
        },
    },
};
use poulpy_hal::{
    layouts::{FillUniform, MatZnx, ReaderFrom, ScalarZnx, VecZnx, WriterTo, ZnxInfos},
    source::Source,
};

pub fn hex(b: &[u8]) -> String {
    if b.is_empty() {
        return "-".into();
    }
    let mut s = String::with_capacity(b.len() * 2);
    for x in b {
        s.push_str(&format!("{x:02x}"));
    }
    s
}

pub fn unhex(s: &str) -> Vec<u8> {
    if s == "-" || s.is_empty() {
        return vec![];
    }
    let c = s.as_bytes();
    (0..c.len() / 2).map(|i| u8::from_str_radix(std::str::from_utf8(&c[2 * i..2 * i + 2]).unwrap(), 16).unwrap_or(0)).collect()
}

pub fn kv<'a>(t: &'a [&'a str], k: &str) -> Option<&'a str> {
    t.iter().find_map(|x| x.strip_prefix(k).and_then(|r| r.strip_prefix('=')))
}

pub fn nums(s: Option<&str>) -> Vec<u64> {
    match s {
        None | Some("-") | Some("") => vec![],
        Some(s) => s.split(',').map(|x| x.parse::<u64>().unwrap_or(0)).collect(),
    }
}

/// a sink that refuses more than 2^20 bytes (a post-state with 2^32 seeds is never serialised)
struct Capped {
    buf: Vec<u8>,
}
impl Write for Capped {
    fn write(&mut self, b: &[u8]) -> std::io::Result<usize> {
        if self.buf.len() + b.len() > (1 << 20) {
            return Err(std::io::Error::new(std::io::ErrorKind::Other, "big"));
        }
        self.buf.extend_from_slice(b);
        Ok(b.len())
    }
    fn flush(&mut self) -> std::io::Result<()> {
        Ok(())
    }
}

pub fn kind(e: &std::io::Error) -> &'static str {
    match e.kind() {
        std::io::ErrorKind::UnexpectedEof => "eof",
        std::io::ErrorKind::InvalidData => "invalid",
        _ => {
            if e.to_string() == "big" {
                "big"
            } else {
                "other"
            }
        }
    }
}

pub fn panic_class(p: &Box<dyn std::any::Any + Send>) -> &'static str {
    let msg: String = if let Some(s) = p.downcast_ref::<&str>() {
        s.to_string()
    } else if let Some(s) = p.downcast_ref::<String>() {
        s.clone()
    } else {
        String::new()
    };
    if msg.contains("overflow") && !msg.contains("capacity") {
        "overflow"
    } else if msg.contains("out of range") || msg.contains("out of bounds") {
        "bounds"
    } else if msg.contains("capacity overflow") || msg.contains("alloc") {
        "alloc"
    } else if msg.contains("assert") {
        "assert"
    } else {
        "other"
    }
}

fn rewrite<T: WriterTo>(t: &T) -> String {
    let mut w = Capped { buf: Vec::new() };
    match std::panic::catch_unwind(std::panic::AssertUnwindSafe(|| t.write_to(&mut w))) {
        Ok(Ok(())) => hex(&w.buf),
        Ok(Err(e)) => {
            if kind(&e) == "big" {
                "big".into()
            } else {
                format!("err:{}", kind(&e))
            }
        }
        Err(p) => format!("panic:{}", panic_class(&p)),
    }
}

fn do_read<T: ReaderFrom + WriterTo>(t: &mut T, input: &[u8]) -> String {
    let mut rd: &[u8] = input;
    let r = std::panic::catch_unwind(std::panic::AssertUnwindSafe(|| t.read_from(&mut rd)));
    match r {
        Ok(Ok(())) => format!("ok rest={}", rd.len()),
        Ok(Err(e)) => format!("err:{} rest=0", kind(&e)),
        Err(p) => format!("panic:{} rest=0", panic_class(&p)),
    }
}

fn d(v: u64) -> Degree {
    Degree(v as u32)
}
fn b(v: u64) -> Base2K {
    Base2K(v as u32)
}
fn k(v: u64) -> TorusPrecision {
    TorusPrecision(v as u32)
}
fn r(v: u64) -> Rank {
    Rank(v as u32)
}
fn dn(v: u64) -> Dnum {
    Dnum(v as u32)
}
fn ds(v: u64) -> Dsize {
    Dsize(v as u32)
}

/// op = "new" | "read"; generic tail shared by every type
fn finish<T: ReaderFrom + WriterTo>(t: &mut T, op: &str, input: &[u8], extra: impl Fn(&T) -> String) -> String {
    if op == "new" {
        format!("ok W={}{}", rewrite(t), extra(t))
    } else {
        let o = do_read(t, input);
        format!("{o} W={}{}", rewrite(t), extra(t))
    }
}

fn fill<T: FillUniform>(t: &mut T, seed: u64) {
    if seed > 0 {
        let mut s = Source::new([seed as u8; 32]);
        t.fill_uniform(8, &mut s);
    }
}

fn brk_layout(p: &[u64]) -> BlindRotationKeyLayout {
    BlindRotationKeyLayout { n_glwe: d(p[0]), n_lwe: d(p[1]), base2k: b(p[2]), k: k(p[3]), dnum: dn(p[4]), rank: r(p[5]) }
}

fn run_case(op: &str, ty: &str, p: &[u64], seed: u64, input: &[u8]) -> String {
    macro_rules! go {
        ($e:expr) => {{
            let mut t = $e;
            fill(&mut t, seed);
            finish(&mut t, op, input, |_| String::new())
        }};
    }
    let need = |n: usize| p.len() >= n;
    match ty {
        "vec" if need(4) => {
            // p = n, cols, size, max_size  (receiver allocated with max_size limbs, then set_size(size))
            let mut t = VecZnx::alloc(p[0] as usize, p[1] as usize, p[3] as usize);
            fill(&mut t, seed);
            t.set_size(p[2] as usize);
            finish(&mut t, op, input, |t| format!(" M={},{},{},{},{} D={}", t.n, t.cols, t.size, t.max_size, t.data.len(), hex(&t.data)))
        }
        "scalar" if need(2) => {
            let mut t = ScalarZnx::alloc(p[0] as usize, p[1] as usize);
            fill(&mut t, seed);
            finish(&mut t, op, input, |t| format!(" M={},{},{} D={}", t.n, t.cols, t.data.len(), hex(&t.data)))
        }
        "mat" if need(5) => {
            // p = n, rows, cols_in, cols_out, size
            let mut t = MatZnx::alloc(p[0] as usize, p[1] as usize, p[2] as usize, p[3] as usize, p[4] as usize);
            fill(&mut t, seed);
            finish(&mut t, op, input, |t| {
                use poulpy_hal::layouts::DataView;
                format!(" M={},{},{},{},{},{} D={}", t.n(), t.size(), t.rows(), t.cols_in(), t.cols_out(), t.data().len(), hex(t.data()))
            })
        }
        "glwe" if need(4) => go!(GLWE::alloc(d(p[0]), b(p[1]), k(p[2]), r(p[3]))),
        "lwe" if need(3) => go!(LWE::alloc(d(p[0]), b(p[1]), k(p[2]))),
        "gglwe" if need(7) => go!(GGLWE::alloc(d(p[0]), b(p[1]), k(p[2]), r(p[3]), r(p[4]), dn(p[5]), ds(p[6]))),
        "ggsw" if need(6) => go!(GGSW::alloc(d(p[0]), b(p[1]), k(p[2]), r(p[3]), dn(p[4]), ds(p[5]))),
        "glwe_switching_key" if need(7) => go!(GLWESwitchingKey::alloc(d(p[0]), b(p[1]), k(p[2]), r(p[3]), r(p[4]), dn(p[5]), ds(p[6]))),
        "glwe_automorphism_key" if need(6) => go!(GLWEAutomorphismKey::alloc(d(p[0]), b(p[1]), k(p[2]), r(p[3]), dn(p[4]), ds(p[5]))),
        "glwe_tensor_key" if need(6) => go!(GLWETensorKey::alloc(d(p[0]), b(p[1]), k(p[2]), r(p[3]), dn(p[4]), ds(p[5]))),
        "glwe_public_key" if need(4) => {
            let mut t = GLWEPublicKey::alloc(d(p[0]), b(p[1]), k(p[2]), r(p[3]));
            finish(&mut t, op, input, |_| String::new())
        }
        "lwe_to_glwe_key" if need(5) => go!(LWEToGLWEKey::alloc(d(p[0]), b(p[1]), k(p[2]), r(p[3]), dn(p[4]))),
        "lwe_switching_key" if need(4) => go!(LWESwitchingKey::alloc(d(p[0]), b(p[1]), k(p[2]), dn(p[3]))),
        "glwe_to_lwe_key" if need(5) => go!(GLWEToLWEKey::alloc(d(p[0]), b(p[1]), k(p[2]), r(p[3]), dn(p[4]))),
        "gglwe_to_ggsw_key" if need(6) => go!(GGLWEToGGSWKey::alloc(d(p[0]), b(p[1]), k(p[2]), r(p[3]), dn(p[4]), ds(p[5]))),
        "glwe_compressed" if need(4) => go!(GLWECompressed::alloc(d(p[0]), b(p[1]), k(p[2]), r(p[3]))),
        "lwe_compressed" if need(2) => go!(LWECompressed::alloc(b(p[0]), k(p[1]))),
        "gglwe_compressed" if need(7) => go!(GGLWECompressed::alloc(d(p[0]), b(p[1]), k(p[2]), r(p[3]), r(p[4]), dn(p[5]), ds(p[6]))),
        "ggsw_compressed" if need(6) => go!(GGSWCompressed::alloc(d(p[0]), b(p[1]), k(p[2]), r(p[3]), dn(p[4]), ds(p[5]))),
        "glwe_switching_key_compressed" if need(7) => {
            go!(GLWESwitchingKeyCompressed::alloc(d(p[0]), b(p[1]), k(p[2]), r(p[3]), r(p[4]), dn(p[5]), ds(p[6])))
        }
        "glwe_automorphism_key_compressed" if need(6) => {
            go!(GLWEAutomorphismKeyCompressed::alloc(d(p[0]), b(p[1]), k(p[2]), r(p[3]), dn(p[4]), ds(p[5])))
        }
        "glwe_tensor_key_compressed" if need(6) => go!(GLWETensorKeyCompressed::alloc(d(p[0]), b(p[1]), k(p[2]), r(p[3]), dn(p[4]), ds(p[5]))),
        "lwe_to_glwe_key_compressed" if need(5) => go!(LWEToGLWEKeyCompressed::alloc(d(p[0]), b(p[1]), k(p[2]), r(p[3]), dn(p[4]))),
        "lwe_switching_key_compressed" if need(4) => go!(LWESwitchingKeyCompressed::alloc(d(p[0]), b(p[1]), k(p[2]), dn(p[3]))),
        "glwe_to_lwe_key_compressed" if need(5) => go!(GLWEToLWESwitchingKeyCompressed::alloc(d(p[0]), b(p[1]), k(p[2]), r(p[3]), dn(p[4]))),
        "gglwe_to_ggsw_key_compressed" if need(6) => {
            go!(GGLWEToGGSWKeyCompressed::alloc(d(p[0]), b(p[1]), k(p[2]), r(p[3]), dn(p[4]), ds(p[5])))
        }
        "blind_rotation_key" if need(6) => go!(BlindRotationKey::<Vec<u8>, CGGI>::alloc(&brk_layout(p))),
        "blind_rotation_key_compressed" if need(6) => go!(BlindRotationKeyCompressed::<Vec<u8>, CGGI>::alloc(&brk_layout(p))),
        _ => "bad-type".into(),
    }
}

fn dist_of(tag: u64, bits: u64) -> Distribution {
    match tag {
        0 => Distribution::TernaryFixed(bits as usize),
        1 => Distribution::TernaryProb(f64::from_bits(bits)),
        2 => Distribution::BinaryFixed(bits as usize),
        3 => Distribution::BinaryProb(f64::from_bits(bits)),
        4 => Distribution::BinaryBlock(bits as usize),
        5 => Distribution::ZERO,
        _ => Distribution::NONE,
    }
}

fn dist_show(x: &Distribution) -> String {
    match x {
        Distribution::TernaryFixed(v) => format!("0,{v}"),
        Distribution::TernaryProb(p) => format!("1,{}", p.to_bits()),
        Distribution::BinaryFixed(v) => format!("2,{v}"),
        Distribution::BinaryProb(p) => format!("3,{}", p.to_bits()),
        Distribution::BinaryBlock(v) => format!("4,{v}"),
        Distribution::ZERO => "5,0".into(),
        Distribution::NONE => "6,0".into(),
    }
}

/// a GLWEPublicKey whose `dist` is set through the public `dist_mut()`, written, and read back
fn dist_case(tag: u64, bits: u64) -> String {
    let mut a = GLWEPublicKey::alloc(d(2), b(8), k(8), r(1));
    *a.dist_mut() = dist_of(tag, bits);
    let mut w = Vec::new();
    if let Err(e) = a.write_to(&mut w) {
        return format!("err:{}", kind(&e));
    }
    let mut c = GLWEPublicKey::alloc(d(2), b(8), k(8), r(1));
    let mut rd: &[u8] = &w;
    match c.read_from(&mut rd) {
        Ok(()) => format!("ok {} {} equal={}", hex(&w[..8]), dist_show(c.dist()), (a.dist() == c.dist()) as u8),
        Err(e) => format!("err:{} {}", kind(&e), hex(&w[..8])),
    }
}

pub fn run(_args: &[String]) {
    std::panic::set_hook(Box::new(|_| {}));
    let stdin = std::io::stdin();
    let stdout = std::io::stdout();
    let mut out = stdout.lock();
    for line in stdin.lock().lines() {
        let line = line.unwrap();
        let t: Vec<&str> = line.split_whitespace().collect();
        if t.len() < 2 {
            continue;
        }
        let (id, op) = (t[0], t[1]);
        let ans = match op {
            "new" | "read" => {
                let ty = kv(&t, "type").unwrap_or("");
                let p = nums(kv(&t, "p"));
                let seed = kv(&t, "fill").and_then(|x| x.parse().ok()).unwrap_or(0u64);
                let input = unhex(kv(&t, "in").unwrap_or("-"));
                // allocation of the receiver itself can assert on inadmissible parameters
                match std::panic::catch_unwind(std::panic::AssertUnwindSafe(|| run_case(op, ty, &p, seed, &input))) {
                    Ok(s) => s,
                    Err(p) => format!("alloc-panic:{}", panic_class(&p)),
                }
            }
            "dist" => {
                let tag = kv(&t, "tag").and_then(|x| x.parse().ok()).unwrap_or(6u64);
                let bits = kv(&t, "bits").and_then(|x| x.parse().ok()).unwrap_or(0u64);
                dist_case(tag, bits)
            }
            _ => "bad-op".into(),
        };
        writeln!(out, "{id} {ans}").unwrap();
    }
    out.flush().unwrap();
}
