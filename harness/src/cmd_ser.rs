//! Serialisation of the real layouts (C18).  stdin request lines, stdout answer lines.
//!
//!   id new  type=T p=a,b,..  fill=K            → id ok W=<hex of write_to(fresh receiver)>
//!   id read type=T p=a,b,..  fill=K in=<hex>   → id <ok|err:kind|panic:class> rest=<unread> W=<hex of write_to(post-state)|err:kind|big> [M=… D=…]
//!   id dist bits=<u64> tag=<0..6>              → id <hex word written> <tag,payload of the value read back>
//!
//! `T`/`p`: see `with_type!`.  The receiver is `T::alloc(p)`; `fill=K` (K>0) fills its buffers with
//! `fill_uniform(8, Source::new([K;32]))` where the type implements it.  For the three HAL layouts
//! `M=` is every dimension field + buffer length and `D=` the whole buffer.
//! The reader object is a byte slice (`&[u8]`), as in the crate's own tests.
use std::io::{BufRead, Write};

use poulpy_bin_fhe::{
    bdd_arithmetic::{BDDKey, BDDKeyLayout},
    blind_rotation::{BlindRotationKey, BlindRotationKeyCompressed, BlindRotationKeyLayout, CGGI},
    circuit_bootstrapping::{CircuitBootstrappingKey, CircuitBootstrappingKeyLayout},
};
use poulpy_core::{
    Distribution, GetDistribution, GetDistributionMut,
    layouts::{
        Base2K, Degree, Dnum, Dsize, GGLWE, GGLWEInfos, GGLWEToGGSWKey, GGLWEToGGSWKeyLayout, GGSW, GGSWInfos, GLWE,
        GLWEAutomorphismKey, GLWEAutomorphismKeyLayout, GLWEInfos, GLWEPublicKey, GLWESwitchingKey, GLWESwitchingKeyDegrees,
        GLWESwitchingKeyDegreesMut, GLWESwitchingKeyLayout, GLWETensorKey, GLWEToLWEKey, GLWEToLWEKeyLayout, GetGaloisElement, LWE,
        LWEInfos, LWESwitchingKey, LWEToGLWEKey, Rank, SetGaloisElement, SetLWEInfos, TorusPrecision,
        compressed::{
            GGLWECompressedSeed, GGLWECompressedSeedMut, GGSWCompressedSeedMut, GLWECompressedSeedMut,
            GGLWECompressed, GGLWEToGGSWKeyCompressed, GGSWCompressed, GLWEAutomorphismKeyCompressed, GLWECompressed,
            GLWESwitchingKeyCompressed, GLWETensorKeyCompressed, GLWEToLWESwitchingKeyCompressed, LWECompressed,
            LWESwitchingKeyCompressed, LWEToGLWEKeyCompressed,
        },
    },
};
use poulpy_hal::{
    layouts::{FillUniform, MatZnx, ReaderFrom, ScalarZnx, VecZnx, WriterTo, ZnxInfos, ZnxView},
    source::Source,
};

pub fn hex(b: &[u8]) -> String {
    if b.is_empty() {
        return "-".into();
    }
    let mut s = String::with_capacity(b.len() * 2);
    for x in b {
        s.push_str(&format!("{x:02x}"));
    }
    s
}

pub fn unhex(s: &str) -> Vec<u8> {
    if s == "-" || s.is_empty() {
        return vec![];
    }
    let c = s.as_bytes();
    (0..c.len() / 2).map(|i| u8::from_str_radix(std::str::from_utf8(&c[2 * i..2 * i + 2]).unwrap(), 16).unwrap_or(0)).collect()
}

pub fn kv<'a>(t: &'a [&'a str], k: &str) -> Option<&'a str> {
    t.iter().find_map(|x| x.strip_prefix(k).and_then(|r| r.strip_prefix('=')))
}

pub fn nums(s: Option<&str>) -> Vec<u64> {
    match s {
        None | Some("-") | Some("") => vec![],
        Some(s) => s.split(',').map(|x| x.parse::<u64>().unwrap_or(0)).collect(),
    }
}

/// a sink that refuses more than 2^20 bytes (a post-state with 2^32 seeds is never serialised)
struct Capped {
    buf: Vec<u8>,
}
impl Write for Capped {
    fn write(&mut self, b: &[u8]) -> std::io::Result<usize> {
        if self.buf.len() + b.len() > (1 << 20) {
            return Err(std::io::Error::new(std::io::ErrorKind::Other, "big"));
        }
        self.buf.extend_from_slice(b);
        Ok(b.len())
    }
    fn flush(&mut self) -> std::io::Result<()> {
        Ok(())
    }
}

pub fn kind(e: &std::io::Error) -> &'static str {
    match e.kind() {
        std::io::ErrorKind::UnexpectedEof => "eof",
        std::io::ErrorKind::InvalidData => "invalid",
        _ => {
            if e.to_string() == "big" {
                "big"
            } else {
                "other"
            }
        }
    }
}

pub fn panic_class(p: &Box<dyn std::any::Any + Send>) -> &'static str {
    let msg: String = if let Some(s) = p.downcast_ref::<&str>() {
        s.to_string()
    } else if let Some(s) = p.downcast_ref::<String>() {
        s.clone()
    } else {
        String::new()
    };
    if msg.contains("overflow") && !msg.contains("capacity") {
        "overflow"
    } else if msg.contains("out of range") || msg.contains("out of bounds") {
        "bounds"
    } else if msg.contains("capacity overflow") || msg.contains("alloc") {
        "alloc"
    } else if msg.contains("assert") {
        "assert"
    } else {
        "other"
    }
}

fn rewrite<T: WriterTo>(t: &T) -> String {
    let mut w = Capped { buf: Vec::new() };
    match std::panic::catch_unwind(std::panic::AssertUnwindSafe(|| t.write_to(&mut w))) {
        Ok(Ok(())) => hex(&w.buf),
        Ok(Err(e)) => {
            if kind(&e) == "big" {
                "big".into()
            } else {
                format!("err:{}", kind(&e))
            }
        }
        Err(p) => format!("panic:{}", panic_class(&p)),
    }
}

fn do_read<T: ReaderFrom + WriterTo>(t: &mut T, input: &[u8]) -> String {
    let mut rd: &[u8] = input;
    let r = std::panic::catch_unwind(std::panic::AssertUnwindSafe(|| t.read_from(&mut rd)));
    match r {
        Ok(Ok(())) => format!("ok rest={}", rd.len()),
        Ok(Err(e)) => format!("err:{} rest=0", kind(&e)),
        Err(p) => format!("panic:{} rest=0", panic_class(&p)),
    }
}

fn d(v: u64) -> Degree {
    Degree(v as u32)
}
fn b(v: u64) -> Base2K {
    Base2K(v as u32)
}
fn k(v: u64) -> TorusPrecision {
    TorusPrecision(v as u32)
}
fn r(v: u64) -> Rank {
    Rank(v as u32)
}
fn dn(v: u64) -> Dnum {
    Dnum(v as u32)
}
fn ds(v: u64) -> Dsize {
    Dsize(v as u32)
}

/// op = "new" | "read"; generic tail shared by every type
thread_local! {
    /// the streams of a `seq` request (successive reads into ONE receiver)
    static SEQ: std::cell::RefCell<Vec<Vec<u8>>> = const { std::cell::RefCell::new(Vec::new()) };
}

fn finish<T: ReaderFrom + WriterTo>(t: &mut T, op: &str, input: &[u8], extra: impl Fn(&T) -> String) -> String {
    if op == "seq" {
        // receiver reuse: every stream is read into the same object; one `|`-separated answer per read
        let streams: Vec<Vec<u8>> = SEQ.with(|s| s.borrow().clone());
        let mut out: Vec<String> = Vec::new();
        for st in &streams {
            let o = do_read(t, st);
            out.push(format!("{o} W={}{}", rewrite(t), extra(t)));
        }
        return out.join(" | ");
    }
    if op == "new" {
        format!("ok W={}{}", rewrite(t), extra(t))
    } else {
        let o = do_read(t, input);
        format!("{o} W={}{}", rewrite(t), extra(t))
    }
}

fn fill<T: FillUniform>(t: &mut T, seed: u64) {
    if seed > 0 {
        let mut s = Source::new([seed as u8; 32]);
        t.fill_uniform(8, &mut s);
    }
}

fn brk_layout(p: &[u64]) -> BlindRotationKeyLayout {
    BlindRotationKeyLayout { n_glwe: d(p[0]), n_lwe: d(p[1]), base2k: b(p[2]), k: k(p[3]), dnum: dn(p[4]), rank: r(p[5]) }
}

fn run_case(op: &str, ty: &str, p: &[u64], seed: u64, input: &[u8]) -> String {
    macro_rules! go {
        ($e:expr) => {{
            let mut t = $e;
            fill(&mut t, seed);
            finish(&mut t, op, input, |_| String::new())
        }};
    }
    let need = |n: usize| p.len() >= n;
    match ty {
        "vec" if need(4) => {
            // p = n, cols, size, max_size  (receiver allocated with max_size limbs, then set_size(size))
            let mut t = VecZnx::alloc(p[0] as usize, p[1] as usize, p[3] as usize);
            fill(&mut t, seed);
            t.set_size(p[2] as usize);
            finish(&mut t, op, input, |t| format!(" M={},{},{},{},{} D={}", t.n, t.cols, t.size, t.max_size, t.data.len(), hex(&t.data)))
        }
        "scalar" if need(2) => {
            let mut t = ScalarZnx::alloc(p[0] as usize, p[1] as usize);
            fill(&mut t, seed);
            finish(&mut t, op, input, |t| format!(" M={},{},{} D={}", t.n, t.cols, t.data.len(), hex(&t.data)))
        }
        "mat" if need(5) => {
            // p = n, rows, cols_in, cols_out, size
            let mut t = MatZnx::alloc(p[0] as usize, p[1] as usize, p[2] as usize, p[3] as usize, p[4] as usize);
            fill(&mut t, seed);
            finish(&mut t, op, input, |t| {
                use poulpy_hal::layouts::DataView;
                format!(" M={},{},{},{},{},{} D={}", t.n(), t.size(), t.rows(), t.cols_in(), t.cols_out(), t.data().len(), hex(t.data()))
            })
        }
        "glwe" if need(4) => go!(GLWE::alloc(d(p[0]), b(p[1]), k(p[2]), r(p[3]))),
        "lwe" if need(3) => go!(LWE::alloc(d(p[0]), b(p[1]), k(p[2]))),
        "gglwe" if need(7) => go!(GGLWE::alloc(d(p[0]), b(p[1]), k(p[2]), r(p[3]), r(p[4]), dn(p[5]), ds(p[6]))),
        "ggsw" if need(6) => go!(GGSW::alloc(d(p[0]), b(p[1]), k(p[2]), r(p[3]), dn(p[4]), ds(p[5]))),
        "glwe_switching_key" if need(7) => go!(GLWESwitchingKey::alloc(d(p[0]), b(p[1]), k(p[2]), r(p[3]), r(p[4]), dn(p[5]), ds(p[6]))),
        "glwe_automorphism_key" if need(6) => go!(GLWEAutomorphismKey::alloc(d(p[0]), b(p[1]), k(p[2]), r(p[3]), dn(p[4]), ds(p[5]))),
        "glwe_tensor_key" if need(6) => go!(GLWETensorKey::alloc(d(p[0]), b(p[1]), k(p[2]), r(p[3]), dn(p[4]), ds(p[5]))),
        "glwe_public_key" if need(4) => {
            let mut t = GLWEPublicKey::alloc(d(p[0]), b(p[1]), k(p[2]), r(p[3]));
            finish(&mut t, op, input, |_| String::new())
        }
        "lwe_to_glwe_key" if need(5) => go!(LWEToGLWEKey::alloc(d(p[0]), b(p[1]), k(p[2]), r(p[3]), dn(p[4]))),
        "lwe_switching_key" if need(4) => go!(LWESwitchingKey::alloc(d(p[0]), b(p[1]), k(p[2]), dn(p[3]))),
        "glwe_to_lwe_key" if need(5) => go!(GLWEToLWEKey::alloc(d(p[0]), b(p[1]), k(p[2]), r(p[3]), dn(p[4]))),
        "gglwe_to_ggsw_key" if need(6) => go!(GGLWEToGGSWKey::alloc(d(p[0]), b(p[1]), k(p[2]), r(p[3]), dn(p[4]), ds(p[5]))),
        "glwe_compressed" if need(4) => go!(GLWECompressed::alloc(d(p[0]), b(p[1]), k(p[2]), r(p[3]))),
        "lwe_compressed" if need(2) => go!(LWECompressed::alloc(b(p[0]), k(p[1]))),
        "gglwe_compressed" if need(7) => go!(GGLWECompressed::alloc(d(p[0]), b(p[1]), k(p[2]), r(p[3]), r(p[4]), dn(p[5]), ds(p[6]))),
        "ggsw_compressed" if need(6) => go!(GGSWCompressed::alloc(d(p[0]), b(p[1]), k(p[2]), r(p[3]), dn(p[4]), ds(p[5]))),
        "glwe_switching_key_compressed" if need(7) => {
            go!(GLWESwitchingKeyCompressed::alloc(d(p[0]), b(p[1]), k(p[2]), r(p[3]), r(p[4]), dn(p[5]), ds(p[6])))
        }
        "glwe_automorphism_key_compressed" if need(6) => {
            go!(GLWEAutomorphismKeyCompressed::alloc(d(p[0]), b(p[1]), k(p[2]), r(p[3]), dn(p[4]), ds(p[5])))
        }
        "glwe_tensor_key_compressed" if need(6) => go!(GLWETensorKeyCompressed::alloc(d(p[0]), b(p[1]), k(p[2]), r(p[3]), dn(p[4]), ds(p[5]))),
        "lwe_to_glwe_key_compressed" if need(5) => go!(LWEToGLWEKeyCompressed::alloc(d(p[0]), b(p[1]), k(p[2]), r(p[3]), dn(p[4]))),
        "lwe_switching_key_compressed" if need(4) => go!(LWESwitchingKeyCompressed::alloc(d(p[0]), b(p[1]), k(p[2]), dn(p[3]))),
        "glwe_to_lwe_key_compressed" if need(5) => go!(GLWEToLWESwitchingKeyCompressed::alloc(d(p[0]), b(p[1]), k(p[2]), r(p[3]), dn(p[4]))),
        "gglwe_to_ggsw_key_compressed" if need(6) => {
            go!(GGLWEToGGSWKeyCompressed::alloc(d(p[0]), b(p[1]), k(p[2]), r(p[3]), dn(p[4]), ds(p[5])))
        }
        "blind_rotation_key" if need(6) => go!(BlindRotationKey::<Vec<u8>, CGGI>::alloc(&brk_layout(p))),
        "blind_rotation_key_compressed" if need(6) => go!(BlindRotationKeyCompressed::<Vec<u8>, CGGI>::alloc(&brk_layout(p))),
        "circuit_bootstrapping_key" if need(8) => {
            let mut t = CircuitBootstrappingKey::<Vec<u8>, CGGI>::alloc_from_infos(&cbt_layout(p));
            finish(&mut t, op, input, |_| String::new())
        }
        "bdd_key" if need(9) => {
            let mut t = BDDKey::<Vec<u8>, CGGI>::alloc_from_infos(&bdd_layout(p));
            finish(&mut t, op, input, |_| String::new())
        }
        _ => "bad-type".into(),
    }
}

/// p = n_glwe, n_lwe, base2k, k, dnum, rank, dsize, k_atk   (one radix; atk/tsk use k_atk)
fn cbt_layout(p: &[u64]) -> CircuitBootstrappingKeyLayout {
    CircuitBootstrappingKeyLayout {
        brk_layout: brk_layout(p),
        atk_layout: GLWEAutomorphismKeyLayout { n: d(p[0]), base2k: b(p[2]), k: k(p[7]), rank: r(p[5]), dnum: dn(p[4]), dsize: ds(p[6]) },
        tsk_layout: GGLWEToGGSWKeyLayout { n: d(p[0]), base2k: b(p[2]), k: k(p[7]), rank: r(p[5]), dnum: dn(p[4]), dsize: ds(p[6]) },
    }
}

/// p = cbt params (8) + has_ks_glwe (0/1)
fn bdd_layout(p: &[u64]) -> BDDKeyLayout {
    BDDKeyLayout {
        cbt_layout: cbt_layout(p),
        ks_glwe_layout: if p[8] != 0 {
            Some(GLWESwitchingKeyLayout { n: d(p[0]), base2k: b(p[2]), k: k(p[7]), rank_in: r(p[5]), rank_out: r(1), dnum: dn(p[4]), dsize: ds(p[6]) })
        } else {
            None
        },
        ks_lwe_layout: GLWEToLWEKeyLayout { n: d(p[0]), base2k: b(p[2]), k: k(p[7]), rank_in: r(if p[8] != 0 { 1 } else { p[5] }), dnum: dn(p[4]) },
    }
}

// ---------------------------------------------------------------------------------------------
// implementation-level round trip: build with known field values, write, read into a same-shaped
// receiver, compare object `==` and every field the public API exposes.

fn rt<T: ReaderFrom + WriterTo>(mk: impl Fn() -> T, set: impl Fn(&mut T), eq: impl Fn(&T, &T) -> bool, show: impl Fn(&T) -> String) -> String {
    let mut a = mk();
    set(&mut a);
    let mut w: Vec<u8> = Vec::new();
    if let Err(e) = a.write_to(&mut w) {
        return format!("werr:{}", kind(&e));
    }
    let mut bb = mk();
    let o = do_read(&mut bb, &w);
    let w2 = rewrite(&bb);
    format!("{o} eq={} same_bytes={} fa={} fb={} W={}", eq(&a, &bb) as u8, (w2 == hex(&w)) as u8, show(&a), show(&bb), hex(&w))
}

fn seedpat(v: u64, i: usize) -> [u8; 32] {
    let mut sd = [0u8; 32];
    for (j, x) in sd.iter_mut().enumerate() {
        *x = (v as usize).wrapping_mul(31).wrapping_add(i * 7 + j * 13 + 1) as u8;
    }
    sd
}

fn lw<T: LWEInfos>(t: &T) -> String {
    format!("n:{},base2k:{},size:{}", t.n().0, t.base2k().0, t.size())
}
fn gg<T: GGLWEInfos>(t: &T) -> String {
    format!("{},rank_in:{},rank_out:{},dnum:{},dsize:{}", lw(t), t.rank_in().0, t.rank_out().0, t.dnum().0, t.dsize().0)
}

fn rt_case(ty: &str, p: &[u64], v: &[u64], seed: u64) -> String {
    let need = |n: usize| p.len() >= n;
    let v0 = v.first().copied().unwrap_or(0);
    let v1 = v.get(1).copied().unwrap_or(0);
    macro_rules! plain {
        ($mk:expr, $show:expr) => {{ rt(|| { let mut t = $mk; fill(&mut t, seed); t }, |_| {}, |a, b| a == b, $show) }};
    }
    macro_rules! degs {
        ($mk:expr) => {{
            rt(
                || { let mut t = $mk; fill(&mut t, seed); t },
                |t| { *GLWESwitchingKeyDegreesMut::input_degree(t) = Degree(v0 as u32); *GLWESwitchingKeyDegreesMut::output_degree(t) = Degree(v1 as u32); },
                |a, b| a == b,
                |t| format!("{},in:{},out:{}", gg(t), GLWESwitchingKeyDegrees::input_degree(t).0, GLWESwitchingKeyDegrees::output_degree(t).0),
            )
        }};
    }
    match ty {
        "vec" if need(4) => rt(|| { let mut t = VecZnx::alloc(p[0] as usize, p[1] as usize, p[3] as usize); fill(&mut t, seed); t.set_size(p[2] as usize); t }, |_| {},
            |a, b| a.n == b.n && a.cols == b.cols && a.size == b.size && a.max_size == b.max_size && a.raw() == b.raw(),
            |t| format!("n:{},cols:{},size:{},max:{}", t.n, t.cols, t.size, t.max_size)),
        "scalar" if need(2) => plain!(ScalarZnx::alloc(p[0] as usize, p[1] as usize), |t| format!("n:{},cols:{}", t.n, t.cols)),
        "mat" if need(5) => plain!(MatZnx::alloc(p[0] as usize, p[1] as usize, p[2] as usize, p[3] as usize, p[4] as usize),
            |t| format!("n:{},size:{},rows:{},cols_in:{},cols_out:{}", t.n(), t.size(), t.rows(), t.cols_in(), t.cols_out())),
        "glwe" if need(4) => rt(|| { let mut t = GLWE::alloc(d(p[0]), b(p[1]), k(p[2]), r(p[3])); fill(&mut t, seed); t }, |t| t.set_base2k(Base2K(v0 as u32)), |a, b| a == b,
            |t| format!("{},rank:{}", lw(t), t.rank().0)),
        "lwe" if need(3) => rt(|| { let mut t = LWE::alloc(d(p[0]), b(p[1]), k(p[2])); fill(&mut t, seed); t }, |t| t.set_base2k(Base2K(v0 as u32)), |a, b| a == b, |t| lw(t)),
        "gglwe" if need(7) => plain!(GGLWE::alloc(d(p[0]), b(p[1]), k(p[2]), r(p[3]), r(p[4]), dn(p[5]), ds(p[6])), |t| gg(t)),
        "ggsw" if need(6) => plain!(GGSW::alloc(d(p[0]), b(p[1]), k(p[2]), r(p[3]), dn(p[4]), ds(p[5])),
            |t| format!("{},rank:{},dnum:{},dsize:{}", lw(t), t.rank().0, GGSWInfos::dnum(t).0, GGSWInfos::dsize(t).0)),
        "glwe_tensor_key" if need(6) => plain!(GLWETensorKey::alloc(d(p[0]), b(p[1]), k(p[2]), r(p[3]), dn(p[4]), ds(p[5])), |t| gg(t)),
        "gglwe_to_ggsw_key" if need(6) => plain!(GGLWEToGGSWKey::alloc(d(p[0]), b(p[1]), k(p[2]), r(p[3]), dn(p[4]), ds(p[5])), |t| gg(t)),
        "glwe_switching_key" if need(7) => degs!(GLWESwitchingKey::alloc(d(p[0]), b(p[1]), k(p[2]), r(p[3]), r(p[4]), dn(p[5]), ds(p[6]))),
        "lwe_switching_key" if need(4) => degs!(LWESwitchingKey::alloc(d(p[0]), b(p[1]), k(p[2]), dn(p[3]))),
        "lwe_to_glwe_key" if need(5) => degs!(LWEToGLWEKey::alloc(d(p[0]), b(p[1]), k(p[2]), r(p[3]), dn(p[4]))),
        "glwe_to_lwe_key" if need(5) => degs!(GLWEToLWEKey::alloc(d(p[0]), b(p[1]), k(p[2]), r(p[3]), dn(p[4]))),
        "glwe_switching_key_compressed" if need(7) => rt(
            || { let mut t = GLWESwitchingKeyCompressed::alloc(d(p[0]), b(p[1]), k(p[2]), r(p[3]), r(p[4]), dn(p[5]), ds(p[6])); fill(&mut t, seed); t },
            |t| { *GLWESwitchingKeyDegreesMut::input_degree(t) = Degree(v0 as u32); *GLWESwitchingKeyDegreesMut::output_degree(t) = Degree(v1 as u32);
                  for (i, sd) in t.seed_mut().iter_mut().enumerate() { *sd = seedpat(v0 ^ v1, i); } },
            |a, b| a == b,
            |t| format!("{},in:{},out:{}", gg(t), GLWESwitchingKeyDegrees::input_degree(t).0, GLWESwitchingKeyDegrees::output_degree(t).0)),
        "glwe_automorphism_key" if need(6) => rt(
            || { let mut t = GLWEAutomorphismKey::alloc(d(p[0]), b(p[1]), k(p[2]), r(p[3]), dn(p[4]), ds(p[5])); fill(&mut t, seed); t },
            |t| t.set_p(v0 as i64), |a, b| a == b, |t| format!("{},p:{}", gg(t), t.p())),
        "glwe_automorphism_key_compressed" if need(6) => rt(
            || { let mut t = GLWEAutomorphismKeyCompressed::alloc(d(p[0]), b(p[1]), k(p[2]), r(p[3]), dn(p[4]), ds(p[5])); fill(&mut t, seed); t },
            |t| { t.set_p(v0 as i64); for (i, sd) in t.seed_mut().iter_mut().enumerate() { *sd = seedpat(v1, i); } },
            |a, b| a == b, |t| format!("{},p:{}", gg(t), t.p())),
        "glwe_public_key" if need(4) => rt(|| GLWEPublicKey::alloc(d(p[0]), b(p[1]), k(p[2]), r(p[3])), |t| *t.dist_mut() = dist_of(v0, v1), |a, b| a == b,
            |t| format!("{},rank:{},dist:{}", lw(t), t.rank().0, dist_show(t.dist()))),
        "glwe_compressed" if need(4) => rt(|| { let mut t = GLWECompressed::alloc(d(p[0]), b(p[1]), k(p[2]), r(p[3])); fill(&mut t, seed); t },
            |t| *t.seed_mut() = seedpat(v0, 0), |a, b| a == b, |t| format!("{},rank:{}", lw(t), t.rank().0)),
        "lwe_compressed" if need(2) => plain!(LWECompressed::alloc(b(p[0]), k(p[1])), |t| lw(t)),
        "gglwe_compressed" if need(7) => rt(
            || { let mut t = GGLWECompressed::alloc(d(p[0]), b(p[1]), k(p[2]), r(p[3]), r(p[4]), dn(p[5]), ds(p[6])); fill(&mut t, seed); t },
            |t| for (i, sd) in t.seed_mut().iter_mut().enumerate() { *sd = seedpat(v0, i); }, |a, b| a == b,
            |t| format!("{},seeds:{}", gg(t), t.seed().len())),
        "ggsw_compressed" if need(6) => rt(
            || { let mut t = GGSWCompressed::alloc(d(p[0]), b(p[1]), k(p[2]), r(p[3]), dn(p[4]), ds(p[5])); fill(&mut t, seed); t },
            |t| for (i, sd) in t.seed_mut().iter_mut().enumerate() { *sd = seedpat(v0, i); }, |a, b| a == b, |t| lw(t)),
        "glwe_tensor_key_compressed" if need(6) => rt(
            || { let mut t = GLWETensorKeyCompressed::alloc(d(p[0]), b(p[1]), k(p[2]), r(p[3]), dn(p[4]), ds(p[5])); fill(&mut t, seed); t },
            |t| for (i, sd) in t.seed_mut().iter_mut().enumerate() { *sd = seedpat(v0, i); }, |a, b| a == b, |t| gg(t)),
        "lwe_to_glwe_key_compressed" if need(5) => plain!(LWEToGLWEKeyCompressed::alloc(d(p[0]), b(p[1]), k(p[2]), r(p[3]), dn(p[4])), |t| gg(t)),
        "lwe_switching_key_compressed" if need(4) => plain!(LWESwitchingKeyCompressed::alloc(d(p[0]), b(p[1]), k(p[2]), dn(p[3])), |t| gg(t)),
        "glwe_to_lwe_key_compressed" if need(5) => plain!(GLWEToLWESwitchingKeyCompressed::alloc(d(p[0]), b(p[1]), k(p[2]), r(p[3]), dn(p[4])), |t| gg(t)),
        "gglwe_to_ggsw_key_compressed" if need(6) => plain!(GGLWEToGGSWKeyCompressed::alloc(d(p[0]), b(p[1]), k(p[2]), r(p[3]), dn(p[4]), ds(p[5])), |t| gg(t)),
        "blind_rotation_key" if need(6) => plain!(BlindRotationKey::<Vec<u8>, CGGI>::alloc(&brk_layout(p)), |t| lw(t)),
        "blind_rotation_key_compressed" if need(6) => plain!(BlindRotationKeyCompressed::<Vec<u8>, CGGI>::alloc(&brk_layout(p)), |t| lw(t)),
        // no PartialEq on these two: equality = the real writer's bytes of the object read back
        "circuit_bootstrapping_key" if need(8) => rt(|| CircuitBootstrappingKey::<Vec<u8>, CGGI>::alloc_from_infos(&cbt_layout(p)), |_| {},
            |a, b| rewrite(a) == rewrite(b), |_| "-".to_string()),
        "bdd_key" if need(9) => rt(|| BDDKey::<Vec<u8>, CGGI>::alloc_from_infos(&bdd_layout(p)), |_| {}, |a, b| rewrite(a) == rewrite(b), |_| "-".to_string()),
        _ => "bad-type".into(),
    }
}

fn dist_of(tag: u64, bits: u64) -> Distribution {
    match tag {
        0 => Distribution::TernaryFixed(bits as usize),
        1 => Distribution::TernaryProb(f64::from_bits(bits)),
        2 => Distribution::BinaryFixed(bits as usize),
        3 => Distribution::BinaryProb(f64::from_bits(bits)),
        4 => Distribution::BinaryBlock(bits as usize),
        5 => Distribution::ZERO,
        _ => Distribution::NONE,
    }
}

fn dist_show(x: &Distribution) -> String {
    match x {
        Distribution::TernaryFixed(v) => format!("0,{v}"),
        Distribution::TernaryProb(p) => format!("1,{}", p.to_bits()),
        Distribution::BinaryFixed(v) => format!("2,{v}"),
        Distribution::BinaryProb(p) => format!("3,{}", p.to_bits()),
        Distribution::BinaryBlock(v) => format!("4,{v}"),
        Distribution::ZERO => "5,0".into(),
        Distribution::NONE => "6,0".into(),
    }
}

/// a GLWEPublicKey whose `dist` is set through the public `dist_mut()`, written, and read back
fn dist_case(tag: u64, bits: u64) -> String {
    let mut a = GLWEPublicKey::alloc(d(2), b(8), k(8), r(1));
    *a.dist_mut() = dist_of(tag, bits);
    let mut w = Vec::new();
    if let Err(e) = a.write_to(&mut w) {
        return format!("err:{}", kind(&e));
    }
    let mut c = GLWEPublicKey::alloc(d(2), b(8), k(8), r(1));
    let mut rd: &[u8] = &w;
    match c.read_from(&mut rd) {
        Ok(()) => format!("ok {} {} equal={}", hex(&w[..8]), dist_show(c.dist()), (a.dist() == c.dist()) as u8),
        Err(e) => format!("err:{} {}", kind(&e), hex(&w[..8])),
    }
}

pub fn run(_args: &[String]) {
    std::panic::set_hook(Box::new(|_| {}));
    let stdin = std::io::stdin();
    let stdout = std::io::stdout();
    let mut out = stdout.lock();
    for line in stdin.lock().lines() {
        let line = line.unwrap();
        let t: Vec<&str> = line.split_whitespace().collect();
        if t.len() < 2 {
            continue;
        }
        let (id, op) = (t[0], t[1]);
        let ans = match op {
            "new" | "read" | "seq" => {
                if op == "seq" {
                    let v: Vec<Vec<u8>> = kv(&t, "in").unwrap_or("-").split(';').map(unhex).collect();
                    SEQ.with(|s| *s.borrow_mut() = v);
                }
                let ty = kv(&t, "type").unwrap_or("");
                let p = nums(kv(&t, "p"));
                let seed = kv(&t, "fill").and_then(|x| x.parse().ok()).unwrap_or(0u64);
                let input = unhex(kv(&t, "in").unwrap_or("-"));
                // allocation of the receiver itself can assert on inadmissible parameters
                match std::panic::catch_unwind(std::panic::AssertUnwindSafe(|| run_case(op, ty, &p, seed, &input))) {
                    Ok(s) => s,
                    Err(p) => format!("alloc-panic:{}", panic_class(&p)),
                }
            }
            "rt" => {
                let ty = kv(&t, "type").unwrap_or("").to_string();
                let p = nums(kv(&t, "p"));
                let v = nums(kv(&t, "v"));
                let seed = kv(&t, "fill").and_then(|x| x.parse().ok()).unwrap_or(1u64);
                match std::panic::catch_unwind(std::panic::AssertUnwindSafe(|| rt_case(&ty, &p, &v, seed))) {
                    Ok(s) => s,
                    Err(p) => format!("alloc-panic:{}", panic_class(&p)),
                }
            }
            "dist" => {
                let tag = kv(&t, "tag").and_then(|x| x.parse().ok()).unwrap_or(6u64);
                let bits = kv(&t, "bits").and_then(|x| x.parse().ok()).unwrap_or(0u64);
                dist_case(tag, bits)
            }
            _ => "bad-op".into(),
        };
        writeln!(out, "{id} {ans}").unwrap();
    }
    out.flush().unwrap();
}
