//! C12 harness, third table: key-encryption wrappers, compressed encryptions, LWE<->GLWE
//! conversions, LWE key switch, the matrix forms (GGLWE/GGSW key switch, external product,
//! automorphism, row expansion) and glwe_mul_const.
macro_rules! backend_cases3 {
    ($modname:ident, $BE:ty) => {
        pub mod $modname {
            use crate::cmd_scratch::{Kv, bytes_of_i64, exec_window, fmt_outcome, glwe_layout, rand_glwe, rand_vec};
            use poulpy_core::{
                EncryptionLayout, GGLWECompressedEncryptSk, GGLWEExternalProduct, GGLWEKeyswitch, GGLWEToGGSWKeyEncryptSk,
                GGSWAutomorphism, GGSWCompressedEncryptSk, GGSWExpandRows, GGSWExternalProduct, GGSWFromGGLWE, GGSWKeyswitch,
                GGSWRotate, GLWEAutomorphismKeyAutomorphism, GLWEAutomorphismKeyEncryptSk, GLWECompressedEncryptSk, GLWEFromLWE,
                GLWEMulConst, GLWESwitchingKeyEncryptSk, GLWETensorKeyEncryptSk, GLWEToLWESwitchingKeyEncryptSk, LWEFromGLWE,
                LWEKeySwitch, LWESwitchingKeyEncrypt, LWEToGLWESwitchingKeyEncryptSk,
                layouts::{
                    Base2K, Degree, Dnum, Dsize, GGLWE, GGLWELayout, GGLWEToGGSWKey, GGLWEToGGSWKeyLayout,
                    GGLWEToGGSWKeyPrepared, GGLWEToGGSWKeyPreparedFactory, GGSW, GGSWLayout, GGSWPreparedFactory, GLWE,
                    GLWEAutomorphismKey, GLWEAutomorphismKeyLayout, GLWEAutomorphismKeyPrepared,
                    GLWEAutomorphismKeyPreparedFactory, GLWEPlaintext, GLWESecret, GLWESecretPreparedFactory, GLWESecretTensor,
                    GLWESecretTensorFactory, GLWESwitchingKey, GLWESwitchingKeyLayout, GLWESwitchingKeyPreparedFactory,
                    GLWETensorKey, GLWETensorKeyLayout, GLWEToLWEKey, GLWEToLWEKeyLayout, GLWEToLWEKeyPrepared,
                    GLWEToLWEKeyPreparedFactory, LWE, LWELayout, LWESecret, LWESwitchingKey, LWESwitchingKeyLayout,
                    LWESwitchingKeyPrepared, LWESwitchingKeyPreparedFactory, LWEToGLWEKey, LWEToGLWEKeyLayout,
                    LWEToGLWEKeyPrepared, LWEToGLWEKeyPreparedFactory, Rank, TorusPrecision,
                    compressed::{GGLWECompressed, GGSWCompressed, GLWECompressed},
                    prepared::{GGSWPrepared, GLWESecretPrepared, GLWESwitchingKeyPrepared},
                },
            };
            use poulpy_hal::{
                api::*,
                layouts::{DeviceBuf, Module, ScalarZnx, Scratch, ScratchOwned, WriterTo, ZnxInfos, ZnxView, ZnxViewMut},
                source::Source,
            };

            type BE = $BE;

            fn wrap(b: &mut [u8]) -> &mut Scratch<BE> {
                <Scratch<BE> as ScratchFromBytes<BE>>::from_bytes(b)
            }

            fn ser<T: WriterTo>(x: &T) -> Vec<u8> {
                let mut v = Vec::new();
                x.write_to(&mut v).unwrap();
                v
            }

            struct P {
                n: usize,
                size: usize,
                rank: usize,
                b2k: usize,
                asize: usize,
                arank: usize,
                ab2k: usize,
                krin: usize,
                krout: usize,
                ksize: usize,
                kb2k: usize,
                dnum: usize,
                dsize: usize,
                tsize: usize,
                tb2k: usize,
                tdnum: usize,
                tdsize: usize,
                rdnum: usize,
                adnum: usize,
                grin: usize,
                lsize: usize,
                lb2k: usize,
                nlwe: usize,
                alsize: usize,
                alb2k: usize,
            }

            fn params(module: &Module<BE>, kv: &Kv) -> P {
                P {
                    n: module.n(),
                    size: kv.g("size"),
                    rank: kv.g("rank"),
                    b2k: kv.g("b2k").max(1),
                    asize: kv.g("asize"),
                    arank: kv.g("arank"),
                    ab2k: kv.g("ab2k").max(1),
                    krin: kv.g("krin"),
                    krout: kv.g("krout"),
                    ksize: kv.g("ksize"),
                    kb2k: kv.g("kb2k").max(1),
                    dnum: kv.g("dnum").max(1),
                    dsize: kv.g("dsize").max(1),
                    tsize: kv.g("tsize"),
                    tb2k: kv.g("tb2k").max(1),
                    tdnum: kv.g("tdnum").max(1),
                    tdsize: kv.g("tdsize").max(1),
                    rdnum: kv.g("rdnum").max(1),
                    adnum: kv.g("adnum").max(1),
                    grin: kv.g("grin").max(1),
                    lsize: kv.g("lsize"),
                    lb2k: kv.g("lb2k").max(1),
                    nlwe: kv.g("nlwe").max(1),
                    alsize: kv.g("alsize"),
                    alb2k: kv.g("alb2k").max(1),
                }
            }

            fn key_layout(p: &P) -> GGLWELayout {
                GGLWELayout {
                    n: Degree(p.n as u32),
                    base2k: Base2K(p.kb2k as u32),
                    k: TorusPrecision((p.kb2k * p.ksize) as u32),
                    rank_in: Rank(p.krin as u32),
                    rank_out: Rank(p.krout as u32),
                    dnum: Dnum(p.dnum as u32),
                    dsize: Dsize(p.dsize as u32),
                }
            }
            fn tsk_layout(p: &P) -> GGLWEToGGSWKeyLayout {
                GGLWEToGGSWKeyLayout {
                    n: Degree(p.n as u32),
                    base2k: Base2K(p.tb2k as u32),
                    k: TorusPrecision((p.tb2k * p.tsize) as u32),
                    rank: Rank(p.rank as u32),
                    dnum: Dnum(p.tdnum as u32),
                    dsize: Dsize(p.tdsize as u32),
                }
            }
            fn ggsw_layout(p: &P, b2k: usize, size: usize, dnum: usize) -> GGSWLayout {
                GGSWLayout {
                    n: Degree(p.n as u32),
                    base2k: Base2K(b2k as u32),
                    k: TorusPrecision((b2k * size) as u32),
                    rank: Rank(p.rank as u32),
                    dnum: Dnum(dnum as u32),
                    dsize: Dsize(1),
                }
            }
            fn gglwe_mat_layout(p: &P, b2k: usize, size: usize, rank_out: usize, dnum: usize) -> GGLWELayout {
                GGLWELayout {
                    n: Degree(p.n as u32),
                    base2k: Base2K(b2k as u32),
                    k: TorusPrecision((b2k * size) as u32),
                    rank_in: Rank(p.grin as u32),
                    rank_out: Rank(rank_out as u32),
                    dnum: Dnum(dnum as u32),
                    dsize: Dsize(1),
                }
            }
            fn lwe_layout(nlwe: usize, b2k: usize, size: usize) -> LWELayout {
                LWELayout {
                    n: Degree(nlwe as u32),
                    base2k: Base2K(b2k as u32),
                    k: TorusPrecision((b2k * size) as u32),
                }
            }
            fn fill_ggsw(g: &mut GGSW<Vec<u8>>, dnum: usize, cols: usize, seed: u8) {
                for r in 0..dnum {
                    for c in 0..cols {
                        let mut ct = g.at_mut(r, c);
                        let (n, k, sz) = (ct.data().n(), ct.data().cols(), ct.data().size());
                        let v = rand_vec(n, k, sz, 8, seed.wrapping_add((r * cols + c) as u8));
                        ct.data_mut().raw_mut().copy_from_slice(v.raw());
                    }
                }
            }
            fn fill_gglwe(g: &mut GGLWE<Vec<u8>>, dnum: usize, cols: usize, seed: u8) {
                for r in 0..dnum {
                    for c in 0..cols {
                        let mut ct = g.at_mut(r, c);
                        let (n, k, sz) = (ct.data().n(), ct.data().cols(), ct.data().size());
                        let v = rand_vec(n, k, sz, 8, seed.wrapping_add((r * cols + c) as u8));
                        ct.data_mut().raw_mut().copy_from_slice(v.raw());
                    }
                }
            }
            fn out_ggsw(g: &GGSW<Vec<u8>>, dnum: usize, cols: usize) -> Vec<u8> {
                let mut o = Vec::new();
                for r in 0..dnum {
                    for c in 0..cols {
                        o.extend(bytes_of_i64(g.at(r, c).data().raw()));
                    }
                }
                o
            }
            fn out_gglwe(g: &GGLWE<Vec<u8>>, dnum: usize, cols: usize) -> Vec<u8> {
                let mut o = Vec::new();
                for r in 0..dnum {
                    for c in 0..cols {
                        o.extend(bytes_of_i64(g.at(r, c).data().raw()));
                    }
                }
                o
            }

            /// the companion query of every operation of this table
            pub fn tb_of(module: &Module<BE>, op: &str, kv: &Kv) -> Option<usize> {
                let p = params(module, kv);
                let n = p.n;
                let res = glwe_layout(n, p.b2k, p.size, p.rank);
                let a = glwe_layout(n, p.ab2k, p.asize, p.arank);
                let key = key_layout(&p);
                let tsk = tsk_layout(&p);
                let lwe = lwe_layout(p.nlwe, p.lb2k, p.lsize);
                let alwe = lwe_layout(p.nlwe, p.alb2k, p.alsize);
                let ggsw_key = GGSWLayout {
                    n: Degree(n as u32),
                    base2k: Base2K(p.kb2k as u32),
                    k: TorusPrecision((p.kb2k * p.ksize) as u32),
                    rank: Rank(p.krout as u32),
                    dnum: Dnum(p.dnum as u32),
                    dsize: Dsize(p.dsize as u32),
                };
                Some(match op {
                    "glwe_secret_tensor_prepare" => module.glwe_secret_tensor_prepare_tmp_bytes(Rank(p.rank as u32)),
                    "glwe_switching_key_encrypt_sk" => module.glwe_switching_key_encrypt_sk_tmp_bytes(&key),
                    "glwe_automorphism_key_encrypt_sk" => module.glwe_automorphism_key_encrypt_sk_tmp_bytes(&key),
                    "glwe_tensor_key_encrypt_sk" => module.glwe_tensor_key_encrypt_sk_tmp_bytes(&key),
                    "gglwe_to_ggsw_key_encrypt_sk" => module.gglwe_to_ggsw_key_encrypt_sk_tmp_bytes(&key),
                    "lwe_switching_key_encrypt_sk" => module.lwe_switching_key_encrypt_sk_tmp_bytes(&key),
                    "lwe_to_glwe_key_encrypt_sk" => module.lwe_to_glwe_key_encrypt_sk_tmp_bytes(&key),
                    "glwe_to_lwe_key_encrypt_sk" => module.glwe_to_lwe_key_encrypt_sk_tmp_bytes(&key),
                    "glwe_compressed_encrypt_sk" => module.glwe_compressed_encrypt_sk_tmp_bytes(&res),
                    "gglwe_compressed_encrypt_sk" => module.gglwe_compressed_encrypt_sk_tmp_bytes(&key),
                    "ggsw_compressed_encrypt_sk" => module.ggsw_compressed_encrypt_sk_tmp_bytes(&ggsw_key),
                    "glwe_from_lwe" => module.glwe_from_lwe_tmp_bytes(&res, &lwe, &key),
                    "lwe_from_glwe" => module.lwe_from_glwe_tmp_bytes(&lwe, &a, &key),
                    "lwe_keyswitch" => module.lwe_keyswitch_tmp_bytes(&lwe, &alwe, &key),
                    "gglwe_keyswitch" => module.gglwe_keyswitch_tmp_bytes(
                        &gglwe_mat_layout(&p, p.b2k, p.size, p.rank, p.rdnum),
                        &gglwe_mat_layout(&p, p.ab2k, p.asize, p.arank, p.adnum),
                        &key,
                    ),
                    "gglwe_keyswitch_assign" => {
                        let r = gglwe_mat_layout(&p, p.b2k, p.size, p.rank, p.rdnum);
                        module.gglwe_keyswitch_tmp_bytes(&r, &r, &key)
                    }
                    "gglwe_external_product" => module.gglwe_external_product_tmp_bytes(
                        &gglwe_mat_layout(&p, p.b2k, p.size, p.rank, p.rdnum),
                        &gglwe_mat_layout(&p, p.ab2k, p.asize, p.arank, p.adnum),
                        &ggsw_key,
                    ),
                    "gglwe_external_product_assign" => {
                        let r = gglwe_mat_layout(&p, p.b2k, p.size, p.rank, p.rdnum);
                        module.gglwe_external_product_tmp_bytes(&r, &r, &ggsw_key)
                    }
                    "ggsw_external_product" => module.ggsw_external_product_tmp_bytes(
                        &ggsw_layout(&p, p.b2k, p.size, p.rdnum),
                        &ggsw_layout(&p, p.ab2k, p.asize, p.adnum),
                        &ggsw_key,
                    ),
                    "ggsw_external_product_assign" => {
                        let r = ggsw_layout(&p, p.b2k, p.size, p.rdnum);
                        module.ggsw_external_product_tmp_bytes(&r, &r, &ggsw_key)
                    }
                    "ggsw_from_gglwe" | "ggsw_expand_row" => {
                        module.ggsw_from_gglwe_tmp_bytes(&ggsw_layout(&p, p.b2k, p.size, p.rdnum), &tsk)
                    }
                    "ggsw_keyswitch" => module.ggsw_keyswitch_tmp_bytes(
                        &ggsw_layout(&p, p.b2k, p.size, p.rdnum),
                        &ggsw_layout(&p, p.ab2k, p.asize, p.adnum),
                        &key,
                        &tsk,
                    ),
                    "ggsw_keyswitch_assign" => {
                        let r = ggsw_layout(&p, p.b2k, p.size, p.rdnum);
                        module.ggsw_keyswitch_tmp_bytes(&r, &r, &key, &tsk)
                    }
                    "ggsw_automorphism" => module.ggsw_automorphism_tmp_bytes(
                        &ggsw_layout(&p, p.b2k, p.size, p.rdnum),
                        &ggsw_layout(&p, p.ab2k, p.asize, p.adnum),
                        &key,
                        &tsk,
                    ),
                    "ggsw_automorphism_assign" => {
                        let r = ggsw_layout(&p, p.b2k, p.size, p.rdnum);
                        module.ggsw_automorphism_tmp_bytes(&r, &r, &key, &tsk)
                    }
                    "atk_automorphism" => module.glwe_automorphism_key_automorphism_tmp_bytes(
                        &gglwe_mat_layout(&p, p.b2k, p.size, p.rank, p.rdnum),
                        &gglwe_mat_layout(&p, p.ab2k, p.asize, p.arank, p.adnum),
                        &key,
                    ),
                    "atk_automorphism_assign" => {
                        let r = gglwe_mat_layout(&p, p.b2k, p.size, p.rank, p.rdnum);
                        module.glwe_automorphism_key_automorphism_tmp_bytes(&r, &r, &key)
                    }
                    "ggsw_rotate_assign" => module.ggsw_rotate_tmp_bytes(),
                    "glwe_mul_const" => module.glwe_mul_const_tmp_bytes(&res, &a, kv.g("bsize")),
                    "glwe_mul_const_assign" => module.glwe_mul_const_tmp_bytes(&res, &res, kv.g("bsize")),
                    _ => return None,
                })
            }

            pub fn case(op: &str, kv: &Kv) -> Option<String> {
                let mis = kv.g("mis");
                let win = kv.0.get("win").and_then(|s| s.parse::<usize>().ok());
                let module: Module<BE> = Module::<BE>::new(kv.g("n") as u64);
                let tb: usize = match tb_of(&module, op, kv) {
                    Some(t) => t,
                    None => return crate::scratch_cases4::$modname::case(op, kv),
                };
                if kv.g("tbonly") == 1 {
                    return Some(format!("tb={tb}"));
                }
                let p = params(&module, kv);
                let n = p.n;
                let big_scratch = || -> ScratchOwned<BE> { ScratchOwned::<BE>::alloc(1 << 24) };
                macro_rules! finish {
                    ($f:expr) => {{
                        let o = exec_window::<Scratch<BE>>(tb, mis, win, wrap, $f);
                        return Some(fmt_outcome(tb, &o));
                    }};
                }
                let mk_sk = |r: usize, seed: u8| -> (GLWESecret<Vec<u8>>, GLWESecretPrepared<DeviceBuf<BE>, BE>) {
                    let mut sk = GLWESecret::alloc(Degree(n as u32), Rank(r as u32));
                    sk.fill_ternary_prob(0.5, &mut Source::new([seed; 32]));
                    let mut skp: GLWESecretPrepared<DeviceBuf<BE>, BE> = module.glwe_secret_prepared_alloc(Rank(r as u32));
                    module.glwe_secret_prepare(&mut skp, &sk);
                    (sk, skp)
                };
                let mk_lwe_sk = |seed: u8| -> LWESecret<Vec<u8>> {
                    let mut sk = LWESecret::alloc(Degree(p.nlwe as u32));
                    sk.fill_ternary_prob(0.5, &mut Source::new([seed; 32]));
                    sk
                };
                let key = key_layout(&p);
                let key_enc = EncryptionLayout::new_from_default_sigma(key).unwrap();
                let xe = || Source::new([3u8; 32]);
                let xa = || Source::new([4u8; 32]);
                // prepared GLWE switching key (krin -> krout) used by several operations
                let mk_ksk = || -> GLWESwitchingKeyPrepared<DeviceBuf<BE>, BE> {
                    let infos = EncryptionLayout::new_from_default_sigma(GLWESwitchingKeyLayout {
                        n: Degree(n as u32),
                        base2k: Base2K(p.kb2k as u32),
                        k: TorusPrecision((p.kb2k * p.ksize) as u32),
                        rank_in: Rank(p.krin as u32),
                        rank_out: Rank(p.krout as u32),
                        dnum: Dnum(p.dnum as u32),
                        dsize: Dsize(p.dsize as u32),
                    })
                    .unwrap();
                    let (sk_in, _) = mk_sk(p.krin, 1);
                    let (sk_out, _) = mk_sk(p.krout, 2);
                    let mut ksk: GLWESwitchingKey<Vec<u8>> = GLWESwitchingKey::alloc_from_infos(&infos);
                    module.glwe_switching_key_encrypt_sk(&mut ksk, &sk_in, &sk_out, &infos, &mut xe(), &mut xa(), big_scratch().borrow());
                    let mut kp: GLWESwitchingKeyPrepared<DeviceBuf<BE>, BE> = module.glwe_switching_key_prepared_alloc_from_infos(&ksk);
                    module.glwe_switching_key_prepare(&mut kp, &ksk, big_scratch().borrow());
                    kp
                };
                let mk_atk = |pp: i64| -> GLWEAutomorphismKeyPrepared<DeviceBuf<BE>, BE> {
                    let infos = EncryptionLayout::new_from_default_sigma(GLWEAutomorphismKeyLayout {
                        n: Degree(n as u32),
                        base2k: Base2K(p.kb2k as u32),
                        k: TorusPrecision((p.kb2k * p.ksize) as u32),
                        rank: Rank(p.krout as u32),
                        dnum: Dnum(p.dnum as u32),
                        dsize: Dsize(p.dsize as u32),
                    })
                    .unwrap();
                    let (sk, _) = mk_sk(p.krout, 1);
                    let mut k: GLWEAutomorphismKey<Vec<u8>> = GLWEAutomorphismKey::alloc_from_infos(&infos);
                    module.glwe_automorphism_key_encrypt_sk(&mut k, pp, &sk, &infos, &mut xe(), &mut xa(), big_scratch().borrow());
                    let mut kp: GLWEAutomorphismKeyPrepared<DeviceBuf<BE>, BE> = module.glwe_automorphism_key_prepared_alloc_from_infos(&k);
                    module.glwe_automorphism_key_prepare(&mut kp, &k, big_scratch().borrow());
                    kp
                };
                let mk_tsk = || -> GGLWEToGGSWKeyPrepared<DeviceBuf<BE>, BE> {
                    let infos = EncryptionLayout::new_from_default_sigma(tsk_layout(&p)).unwrap();
                    let (sk, _) = mk_sk(p.rank, 2);
                    let mut t: GGLWEToGGSWKey<Vec<u8>> = GGLWEToGGSWKey::alloc_from_infos(&infos);
                    module.gglwe_to_ggsw_key_encrypt_sk(&mut t, &sk, &infos, &mut xe(), &mut xa(), big_scratch().borrow());
                    let mut tp: GGLWEToGGSWKeyPrepared<DeviceBuf<BE>, BE> = module.gglwe_to_ggsw_key_prepared_alloc_from_infos(&t);
                    module.gglwe_to_ggsw_key_prepare(&mut tp, &t, big_scratch().borrow());
                    tp
                };
                let mk_ggsw_prep = || -> GGSWPrepared<DeviceBuf<BE>, BE> {
                    let infos = EncryptionLayout::new_from_default_sigma(GGSWLayout {
                        n: Degree(n as u32),
                        base2k: Base2K(p.kb2k as u32),
                        k: TorusPrecision((p.kb2k * p.ksize) as u32),
                        rank: Rank(p.krout as u32),
                        dnum: Dnum(p.dnum as u32),
                        dsize: Dsize(p.dsize as u32),
                    })
                    .unwrap();
                    let (_, skp) = mk_sk(p.krout, 1);
                    let mut pt = ScalarZnx::alloc(n, 1);
                    pt.raw_mut()[n / 2] = 1;
                    let mut g: GGSW<Vec<u8>> = GGSW::alloc_from_infos(&infos);
                    use poulpy_core::GGSWEncryptSk;
                    module.ggsw_encrypt_sk(&mut g, &pt, &skp, &infos, &mut xe(), &mut xa(), big_scratch().borrow());
                    let mut gp: GGSWPrepared<DeviceBuf<BE>, BE> = module.ggsw_prepared_alloc_from_infos(&g);
                    module.ggsw_prepare(&mut gp, &g, big_scratch().borrow());
                    gp
                };

                match op {
                    "glwe_secret_tensor_prepare" => {
                        let (sk, _) = mk_sk(p.rank, 1);
                        finish!(|s: &mut Scratch<BE>| {
                            let mut t = GLWESecretTensor::alloc(Degree(n as u32), Rank(p.rank as u32));
                            module.glwe_secret_tensor_prepare(&mut t, &sk, s);
                            let mut o = Vec::new();
                            for i in 0..p.rank {
                                for j in i..p.rank {
                                    o.extend(bytes_of_i64(t.at(i, j).raw()));
                                }
                            }
                            o
                        })
                    }
                    "glwe_switching_key_encrypt_sk" => {
                        let (sk_in, _) = mk_sk(p.krin, 1);
                        let (sk_out, _) = mk_sk(p.krout, 2);
                        let infos = EncryptionLayout::new_from_default_sigma(GLWESwitchingKeyLayout {
                            n: Degree(n as u32),
                            base2k: Base2K(p.kb2k as u32),
                            k: TorusPrecision((p.kb2k * p.ksize) as u32),
                            rank_in: Rank(p.krin as u32),
                            rank_out: Rank(p.krout as u32),
                            dnum: Dnum(p.dnum as u32),
                            dsize: Dsize(p.dsize as u32),
                        })
                        .unwrap();
                        finish!(|s: &mut Scratch<BE>| {
                            let mut k: GLWESwitchingKey<Vec<u8>> = GLWESwitchingKey::alloc_from_infos(&infos);
                            module.glwe_switching_key_encrypt_sk(&mut k, &sk_in, &sk_out, &infos, &mut xe(), &mut xa(), s);
                            ser(&k)
                        })
                    }
                    "glwe_automorphism_key_encrypt_sk" => {
                        let (sk, _) = mk_sk(p.krout, 1);
                        let infos = EncryptionLayout::new_from_default_sigma(GLWEAutomorphismKeyLayout {
                            n: Degree(n as u32),
                            base2k: Base2K(p.kb2k as u32),
                            k: TorusPrecision((p.kb2k * p.ksize) as u32),
                            rank: Rank(p.krout as u32),
                            dnum: Dnum(p.dnum as u32),
                            dsize: Dsize(p.dsize as u32),
                        })
                        .unwrap();
                        finish!(|s: &mut Scratch<BE>| {
                            let mut k: GLWEAutomorphismKey<Vec<u8>> = GLWEAutomorphismKey::alloc_from_infos(&infos);
                            module.glwe_automorphism_key_encrypt_sk(&mut k, -1, &sk, &infos, &mut xe(), &mut xa(), s);
                            ser(&k)
                        })
                    }
                    "glwe_tensor_key_encrypt_sk" | "gglwe_to_ggsw_key_encrypt_sk" => {
                        let (sk, _) = mk_sk(p.krout, 1);
                        if op == "glwe_tensor_key_encrypt_sk" {
                            let infos = EncryptionLayout::new_from_default_sigma(GLWETensorKeyLayout {
                                n: Degree(n as u32),
                                base2k: Base2K(p.kb2k as u32),
                                k: TorusPrecision((p.kb2k * p.ksize) as u32),
                                rank: Rank(p.krout as u32),
                                dnum: Dnum(p.dnum as u32),
                                dsize: Dsize(p.dsize as u32),
                            })
                            .unwrap();
                            finish!(|s: &mut Scratch<BE>| {
                                let mut k: GLWETensorKey<Vec<u8>> = GLWETensorKey::alloc_from_infos(&infos);
                                module.glwe_tensor_key_encrypt_sk(&mut k, &sk, &infos, &mut xe(), &mut xa(), s);
                                ser(&k)
                            })
                        }
                        let infos = EncryptionLayout::new_from_default_sigma(GGLWEToGGSWKeyLayout {
                            n: Degree(n as u32),
                            base2k: Base2K(p.kb2k as u32),
                            k: TorusPrecision((p.kb2k * p.ksize) as u32),
                            rank: Rank(p.krout as u32),
                            dnum: Dnum(p.dnum as u32),
                            dsize: Dsize(p.dsize as u32),
                        })
                        .unwrap();
                        finish!(|s: &mut Scratch<BE>| {
                            let mut k: GGLWEToGGSWKey<Vec<u8>> = GGLWEToGGSWKey::alloc_from_infos(&infos);
                            module.gglwe_to_ggsw_key_encrypt_sk(&mut k, &sk, &infos, &mut xe(), &mut xa(), s);
                            ser(&k)
                        })
                    }
                    "lwe_switching_key_encrypt_sk" => {
                        let infos = EncryptionLayout::new_from_default_sigma(LWESwitchingKeyLayout {
                            n: Degree(n as u32),
                            base2k: Base2K(p.kb2k as u32),
                            k: TorusPrecision((p.kb2k * p.ksize) as u32),
                            dnum: Dnum(p.dnum as u32),
                        })
                        .unwrap();
                        let (s1, s2) = (mk_lwe_sk(1), mk_lwe_sk(2));
                        finish!(|s: &mut Scratch<BE>| {
                            let mut k: LWESwitchingKey<Vec<u8>> = LWESwitchingKey::alloc_from_infos(&infos);
                            module.lwe_switching_key_encrypt_sk(&mut k, &s1, &s2, &infos, &mut xe(), &mut xa(), s);
                            ser(&k)
                        })
                    }
                    "lwe_to_glwe_key_encrypt_sk" => {
                        let infos = EncryptionLayout::new_from_default_sigma(LWEToGLWEKeyLayout {
                            n: Degree(n as u32),
                            base2k: Base2K(p.kb2k as u32),
                            k: TorusPrecision((p.kb2k * p.ksize) as u32),
                            rank_out: Rank(p.krout as u32),
                            dnum: Dnum(p.dnum as u32),
                        })
                        .unwrap();
                        let s1 = mk_lwe_sk(1);
                        let (_, skp) = mk_sk(p.krout, 2);
                        finish!(|s: &mut Scratch<BE>| {
                            let mut k: LWEToGLWEKey<Vec<u8>> = LWEToGLWEKey::alloc_from_infos(&infos);
                            module.lwe_to_glwe_key_encrypt_sk(&mut k, &s1, &skp, &infos, &mut xe(), &mut xa(), s);
                            ser(&k)
                        })
                    }
                    "glwe_to_lwe_key_encrypt_sk" => {
                        let infos = EncryptionLayout::new_from_default_sigma(GLWEToLWEKeyLayout {
                            n: Degree(n as u32),
                            base2k: Base2K(p.kb2k as u32),
                            k: TorusPrecision((p.kb2k * p.ksize) as u32),
                            rank_in: Rank(p.krin as u32),
                            dnum: Dnum(p.dnum as u32),
                        })
                        .unwrap();
                        let s1 = mk_lwe_sk(1);
                        let (sk, _) = mk_sk(p.krin, 2);
                        finish!(|s: &mut Scratch<BE>| {
                            let mut k: GLWEToLWEKey<Vec<u8>> = GLWEToLWEKey::alloc_from_infos(&infos);
                            module.glwe_to_lwe_key_encrypt_sk(&mut k, &s1, &sk, &infos, &mut xe(), &mut xa(), s);
                            ser(&k)
                        })
                    }
                    "glwe_compressed_encrypt_sk" => {
                        let infos = glwe_layout(n, p.b2k, p.size, p.rank);
                        let enc = EncryptionLayout::new_from_default_sigma(infos).unwrap();
                        let (_, skp) = mk_sk(p.rank, 1);
                        let mut pt = GLWEPlaintext::alloc_from_infos(&infos);
                        let v = rand_vec(n, 1, p.size, p.b2k.saturating_sub(2).max(1), 11);
                        pt.data_mut().raw_mut().copy_from_slice(v.raw());
                        finish!(|s: &mut Scratch<BE>| {
                            let mut ct: GLWECompressed<Vec<u8>> = GLWECompressed::alloc_from_infos(&infos);
                            module.glwe_compressed_encrypt_sk(&mut ct, &pt, &skp, [7u8; 32], &enc, &mut xe(), s);
                            ser(&ct)
                        })
                    }
                    "gglwe_compressed_encrypt_sk" => {
                        let (_, skp) = mk_sk(p.krout, 1);
                        let mut pt = ScalarZnx::alloc(n, p.krin);
                        pt.raw_mut().iter_mut().enumerate().for_each(|(i, x)| *x = (i % 3) as i64 - 1);
                        finish!(|s: &mut Scratch<BE>| {
                            let mut g: GGLWECompressed<Vec<u8>> = GGLWECompressed::alloc_from_infos(&key_enc);
                            module.gglwe_compressed_encrypt_sk(&mut g, &pt, &skp, [7u8; 32], &key_enc, &mut xe(), s);
                            ser(&g)
                        })
                    }
                    "ggsw_compressed_encrypt_sk" => {
                        let infos = EncryptionLayout::new_from_default_sigma(GGSWLayout {
                            n: Degree(n as u32),
                            base2k: Base2K(p.kb2k as u32),
                            k: TorusPrecision((p.kb2k * p.ksize) as u32),
                            rank: Rank(p.krout as u32),
                            dnum: Dnum(p.dnum as u32),
                            dsize: Dsize(p.dsize as u32),
                        })
                        .unwrap();
                        let (_, skp) = mk_sk(p.krout, 1);
                        let mut pt = ScalarZnx::alloc(n, 1);
                        pt.raw_mut()[n / 2] = 1;
                        finish!(|s: &mut Scratch<BE>| {
                            let mut g: GGSWCompressed<Vec<u8>> = GGSWCompressed::alloc_from_infos(&infos);
                            module.ggsw_compressed_encrypt_sk(&mut g, &pt, &skp, [7u8; 32], &infos, &mut xe(), s);
                            ser(&g)
                        })
                    }
                    "glwe_from_lwe" => {
                        let infos = EncryptionLayout::new_from_default_sigma(LWEToGLWEKeyLayout {
                            n: Degree(n as u32),
                            base2k: Base2K(p.kb2k as u32),
                            k: TorusPrecision((p.kb2k * p.ksize) as u32),
                            rank_out: Rank(p.krout as u32),
                            dnum: Dnum(p.dnum as u32),
                        })
                        .unwrap();
                        let s1 = mk_lwe_sk(1);
                        let (_, skp) = mk_sk(p.krout, 2);
                        let mut k: LWEToGLWEKey<Vec<u8>> = LWEToGLWEKey::alloc_from_infos(&infos);
                        module.lwe_to_glwe_key_encrypt_sk(&mut k, &s1, &skp, &infos, &mut xe(), &mut xa(), big_scratch().borrow());
                        let mut kp: LWEToGLWEKeyPrepared<DeviceBuf<BE>, BE> = module.lwe_to_glwe_key_prepared_alloc_from_infos(&k);
                        module.lwe_to_glwe_key_prepare(&mut kp, &k, big_scratch().borrow());
                        let mut lwe = LWE::alloc_from_infos(&lwe_layout(p.nlwe, p.lb2k, p.lsize));
                        let v = rand_vec(p.nlwe + 1, 1, p.lsize, p.lb2k.saturating_sub(2).max(1), 12);
                        lwe.data_mut().raw_mut().copy_from_slice(v.raw());
                        let res_infos = glwe_layout(n, p.b2k, p.size, p.rank);
                        finish!(|s: &mut Scratch<BE>| {
                            let mut r = GLWE::alloc_from_infos(&res_infos);
                            module.glwe_from_lwe(&mut r, &lwe, &kp, s);
                            bytes_of_i64(r.data().raw())
                        })
                    }
                    "lwe_from_glwe" => {
                        let infos = EncryptionLayout::new_from_default_sigma(GLWEToLWEKeyLayout {
                            n: Degree(n as u32),
                            base2k: Base2K(p.kb2k as u32),
                            k: TorusPrecision((p.kb2k * p.ksize) as u32),
                            rank_in: Rank(p.krin as u32),
                            dnum: Dnum(p.dnum as u32),
                        })
                        .unwrap();
                        let s1 = mk_lwe_sk(1);
                        let (sk, _) = mk_sk(p.krin, 2);
                        let mut k: GLWEToLWEKey<Vec<u8>> = GLWEToLWEKey::alloc_from_infos(&infos);
                        module.glwe_to_lwe_key_encrypt_sk(&mut k, &s1, &sk, &infos, &mut xe(), &mut xa(), big_scratch().borrow());
                        let mut kp: GLWEToLWEKeyPrepared<DeviceBuf<BE>, BE> = module.glwe_to_lwe_key_prepared_alloc_from_infos(&k);
                        module.glwe_to_lwe_key_prepare(&mut kp, &k, big_scratch().borrow());
                        let a = rand_glwe(n, p.ab2k, p.asize, p.arank, 5);
                        let idx = kv.g("idx");
                        finish!(|s: &mut Scratch<BE>| {
                            let mut r = LWE::alloc_from_infos(&lwe_layout(p.nlwe, p.lb2k, p.lsize));
                            module.lwe_from_glwe(&mut r, &a, idx, &kp, s);
                            bytes_of_i64(r.data().raw())
                        })
                    }
                    "lwe_keyswitch" => {
                        let infos = EncryptionLayout::new_from_default_sigma(LWESwitchingKeyLayout {
                            n: Degree(n as u32),
                            base2k: Base2K(p.kb2k as u32),
                            k: TorusPrecision((p.kb2k * p.ksize) as u32),
                            dnum: Dnum(p.dnum as u32),
                        })
                        .unwrap();
                        let (s1, s2) = (mk_lwe_sk(1), mk_lwe_sk(2));
                        let mut k: LWESwitchingKey<Vec<u8>> = LWESwitchingKey::alloc_from_infos(&infos);
                        module.lwe_switching_key_encrypt_sk(&mut k, &s1, &s2, &infos, &mut xe(), &mut xa(), big_scratch().borrow());
                        let mut kp: LWESwitchingKeyPrepared<DeviceBuf<BE>, BE> = module.lwe_switching_key_prepared_alloc_from_infos(&k);
                        module.lwe_switching_key_prepare(&mut kp, &k, big_scratch().borrow());
                        let mut a = LWE::alloc_from_infos(&lwe_layout(p.nlwe, p.alb2k, p.alsize));
                        let v = rand_vec(p.nlwe + 1, 1, p.alsize, p.alb2k.saturating_sub(2).max(1), 12);
                        a.data_mut().raw_mut().copy_from_slice(v.raw());
                        finish!(|s: &mut Scratch<BE>| {
                            let mut r = LWE::alloc_from_infos(&lwe_layout(p.nlwe, p.lb2k, p.lsize));
                            module.lwe_keyswitch(&mut r, &a, &kp, s);
                            bytes_of_i64(r.data().raw())
                        })
                    }
                    "gglwe_keyswitch" | "gglwe_keyswitch_assign" | "gglwe_external_product" | "gglwe_external_product_assign" => {
                        let rl = gglwe_mat_layout(&p, p.b2k, p.size, p.rank, p.rdnum);
                        let al = gglwe_mat_layout(&p, p.ab2k, p.asize, p.arank, p.adnum);
                        let mut a: GGLWE<Vec<u8>> = GGLWE::alloc_from_infos(&al);
                        fill_gglwe(&mut a, p.adnum, p.grin, 20);
                        let mut r0: GGLWE<Vec<u8>> = GGLWE::alloc_from_infos(&rl);
                        fill_gglwe(&mut r0, p.rdnum, p.grin, 40);
                        if op.starts_with("gglwe_keyswitch") {
                            let kp = mk_ksk();
                            finish!(|s: &mut Scratch<BE>| {
                                let mut r = r0.clone();
                                if op == "gglwe_keyswitch" {
                                    module.gglwe_keyswitch(&mut r, &a, &kp, s);
                                } else {
                                    module.gglwe_keyswitch_assign(&mut r, &kp, s);
                                }
                                out_gglwe(&r, p.rdnum, p.grin)
                            })
                        }
                        let gp = mk_ggsw_prep();
                        finish!(|s: &mut Scratch<BE>| {
                            let mut r = r0.clone();
                            if op == "gglwe_external_product" {
                                module.gglwe_external_product(&mut r, &a, &gp, s);
                            } else {
                                module.gglwe_external_product_assign(&mut r, &gp, s);
                            }
                            out_gglwe(&r, p.rdnum, p.grin)
                        })
                    }
                    "ggsw_external_product" | "ggsw_external_product_assign" | "ggsw_from_gglwe" | "ggsw_expand_row"
                    | "ggsw_keyswitch" | "ggsw_keyswitch_assign" | "ggsw_automorphism" | "ggsw_automorphism_assign"
                    | "ggsw_rotate_assign" => {
                        let rl = ggsw_layout(&p, p.b2k, p.size, p.rdnum);
                        let al = ggsw_layout(&p, p.ab2k, p.asize, p.adnum);
                        let cols = p.rank + 1;
                        let mut a: GGSW<Vec<u8>> = GGSW::alloc_from_infos(&al);
                        fill_ggsw(&mut a, p.adnum, cols, 20);
                        let mut r0: GGSW<Vec<u8>> = GGSW::alloc_from_infos(&rl);
                        fill_ggsw(&mut r0, p.rdnum, cols, 40);
                        match op {
                            "ggsw_rotate_assign" => finish!(|s: &mut Scratch<BE>| {
                                let mut r = r0.clone();
                                module.ggsw_rotate_assign(3, &mut r, s);
                                out_ggsw(&r, p.rdnum, cols)
                            }),
                            "ggsw_external_product" | "ggsw_external_product_assign" => {
                                let gp = mk_ggsw_prep();
                                finish!(|s: &mut Scratch<BE>| {
                                    let mut r = r0.clone();
                                    if op == "ggsw_external_product" {
                                        module.ggsw_external_product(&mut r, &a, &gp, s);
                                    } else {
                                        module.ggsw_external_product_assign(&mut r, &gp, s);
                                    }
                                    out_ggsw(&r, p.rdnum, cols)
                                })
                            }
                            "ggsw_from_gglwe" | "ggsw_expand_row" => {
                                let tp = mk_tsk();
                                let mut gl: GGLWE<Vec<u8>> = GGLWE::alloc_from_infos(&GGLWELayout {
                                    n: Degree(n as u32),
                                    base2k: Base2K(p.b2k as u32),
                                    k: TorusPrecision((p.b2k * p.size) as u32),
                                    rank_in: Rank(1),
                                    rank_out: Rank(p.rank as u32),
                                    dnum: Dnum(p.rdnum as u32),
                                    dsize: Dsize(1),
                                });
                                fill_gglwe(&mut gl, p.rdnum, 1, 60);
                                finish!(|s: &mut Scratch<BE>| {
                                    let mut r = r0.clone();
                                    if op == "ggsw_from_gglwe" {
                                        module.ggsw_from_gglwe(&mut r, &gl, &tp, s);
                                    } else {
                                        module.ggsw_expand_row(&mut r, &tp, s);
                                    }
                                    out_ggsw(&r, p.rdnum, cols)
                                })
                            }
                            "ggsw_keyswitch" | "ggsw_keyswitch_assign" => {
                                let (kp, tp) = (mk_ksk(), mk_tsk());
                                finish!(|s: &mut Scratch<BE>| {
                                    let mut r = r0.clone();
                                    if op == "ggsw_keyswitch" {
                                        module.ggsw_keyswitch(&mut r, &a, &kp, &tp, s);
                                    } else {
                                        module.ggsw_keyswitch_assign(&mut r, &kp, &tp, s);
                                    }
                                    out_ggsw(&r, p.rdnum, cols)
                                })
                            }
                            _ => {
                                let (kp, tp) = (mk_atk(-1), mk_tsk());
                                finish!(|s: &mut Scratch<BE>| {
                                    let mut r = r0.clone();
                                    if op == "ggsw_automorphism" {
                                        module.ggsw_automorphism(&mut r, &a, &kp, &tp, s);
                                    } else {
                                        module.ggsw_automorphism_assign(&mut r, &kp, &tp, s);
                                    }
                                    out_ggsw(&r, p.rdnum, cols)
                                })
                            }
                        }
                    }
                    "atk_automorphism" | "atk_automorphism_assign" => {
                        let mk_plain_atk = |b2k: usize, size: usize, dnum: usize, seed: u8| -> GLWEAutomorphismKey<Vec<u8>> {
                            let infos = EncryptionLayout::new_from_default_sigma(GLWEAutomorphismKeyLayout {
                                n: Degree(n as u32),
                                base2k: Base2K(b2k as u32),
                                k: TorusPrecision((b2k * size) as u32),
                                rank: Rank(p.rank as u32),
                                dnum: Dnum(dnum as u32),
                                dsize: Dsize(1),
                            })
                            .unwrap();
                            let (sk, _) = mk_sk(p.rank, seed);
                            let mut k: GLWEAutomorphismKey<Vec<u8>> = GLWEAutomorphismKey::alloc_from_infos(&infos);
                            module.glwe_automorphism_key_encrypt_sk(&mut k, 3, &sk, &infos, &mut xe(), &mut xa(), big_scratch().borrow());
                            k
                        };
                        let a = mk_plain_atk(p.ab2k, p.asize, p.adnum, 1);
                        let r0 = mk_plain_atk(p.b2k, p.size, p.rdnum, 1);
                        let kp = mk_atk(5);
                        finish!(|s: &mut Scratch<BE>| {
                            let mut r = r0.clone();
                            if op == "atk_automorphism" {
                                module.glwe_automorphism_key_automorphism(&mut r, &a, &kp, s);
                            } else {
                                module.glwe_automorphism_key_automorphism_assign(&mut r, &kp, s);
                            }
                            ser(&r)
                        })
                    }
                    "glwe_mul_const" | "glwe_mul_const_assign" => {
                        let bsize = kv.g("bsize");
                        let off = kv.g("off");
                        let b: Vec<i64> = (0..bsize).map(|i| 3 + i as i64).collect();
                        let a = rand_glwe(n, p.ab2k, p.asize, p.rank, 5);
                        let r0 = rand_glwe(n, p.b2k, p.size, p.rank, 6);
                        finish!(|s: &mut Scratch<BE>| {
                            let mut r = r0.clone();
                            if op == "glwe_mul_const" {
                                module.glwe_mul_const(off, &mut r, &a, &b, s);
                            } else {
                                module.glwe_mul_const_assign(off, &mut r, &b, s);
                            }
                            bytes_of_i64(r.data().raw())
                        })
                    }
                    _ => None,
                }
            }
        }
    };
}

backend_cases3!(fft64ref, poulpy_cpu_ref::FFT64Ref);
backend_cases3!(ntt120ref, poulpy_cpu_ref::NTT120Ref);
backend_cases3!(fft64avx, poulpy_cpu_avx::FFT64Avx);
backend_cases3!(ntt120avx, poulpy_cpu_avx::NTT120Avx);
