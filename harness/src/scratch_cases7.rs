//! C12 harness, seventh table: the poulpy-ckks evaluator run in exact-size scratch windows (`CKKSImpl` exists for the two
//! reference back ends only).  One entry per scratch-size query class; `v=<variant>` selects the API call of the class.
//! Operands: ciphertexts of `dsz` / `asz` / `bsz` limbs (default: `size`, the layout handed to the query) filled with balanced digits, metadata `dd:db`, `ad:ab`, `bd:bb`
//! (log_delta : log_budget) installed with `set_meta_checked`; plaintexts of precision `pd:pb`; tensor key `tsize tb2k tdnum
//! tdsize`, automorphism keys `ksize kb2k dnum dsize`.  A call the evaluator rejects (`Err`) answers `skip`.
use crate::cmd_scratch::Kv;

pub trait CkksRun: poulpy_hal::layouts::Backend {
    fn run(_op: &str, _kv: &Kv, _tb: usize) -> Option<String> {
        None
    }
}
impl CkksRun for poulpy_cpu_avx::FFT64Avx {}
impl CkksRun for poulpy_cpu_avx::NTT120Avx {}

macro_rules! ckks_run_impl {
    ($BE:ty) => {
        impl CkksRun for $BE {
            #[allow(clippy::too_many_lines)]
            fn run(op: &str, kv: &Kv, tb: usize) -> Option<String> {
                use crate::cmd_scratch::{bytes_of_i64, exec_window, fmt_outcome};
                use poulpy_ckks::{
                    CKKSInfos, CKKSMeta,
                    encoding::Encoder,
                    layouts::{
                        CKKSCiphertext, CKKSConstPlaintextConversion, CKKSPlaintextCstRnx, CKKSPlaintextCstZnx, CKKSPlaintextVecRnx,
                        CKKSPlaintextVecZnx,
                    },
                    leveled::api::{
                        CKKSAddManyOps, CKKSAddOps, CKKSConjugateOps, CKKSDecrypt, CKKSDotProductOps, CKKSEncrypt, CKKSMulAddOps,
                        CKKSMulManyOps, CKKSMulOps, CKKSMulSubOps, CKKSNegOps, CKKSPlaintextZnxOps, CKKSPow2Ops, CKKSRescaleOps,
                        CKKSRotateOps, CKKSSubOps,
                    },
                };
                use poulpy_core::{
                    EncryptionLayout, GLWEAutomorphismKeyEncryptSk, GLWETensorKeyEncryptSk,
                    layouts::{
                        Base2K, Degree, Dnum, Dsize, GLWEAutomorphismKey, GLWEAutomorphismKeyLayout, GLWEAutomorphismKeyPrepared,
                        GLWEAutomorphismKeyPreparedFactory, GLWELayout, GLWEPlaintext, GLWESecret, GLWESecretPreparedFactory, GLWETensorKey,
                        GLWETensorKeyLayout, GLWETensorKeyPrepared, GLWETensorKeyPreparedFactory, LWEInfos, Rank, TorusPrecision,
                        prepared::GLWESecretPrepared,
                    },
                };
                use poulpy_hal::{
                    api::*,
                    layouts::{DeviceBuf, GaloisElement, Module, Scratch, ScratchOwned, ZnxInfos, ZnxView, ZnxViewMut},
                    source::Source,
                };
                use std::cell::Cell;
                use std::collections::HashMap;
                type BE = $BE;
                type Ct = CKKSCiphertext<Vec<u8>>;

                fn wrap(b: &mut [u8]) -> &mut Scratch<BE> {
                    <Scratch<BE> as ScratchFromBytes<BE>>::from_bytes(b)
                }
                let mis = kv.g("mis");
                let win = kv.0.get("win").and_then(|s| s.parse::<usize>().ok());
                let n = kv.g("n");
                let module: Module<BE> = Module::<BE>::new(n as u64);
                let b2k = kv.g("b2k").max(1);
                let v = kv.s("v").to_string();
                // `size` (and `asize` of the plaintext products) is the layout handed to the query: the parameter set's largest
                // ciphertext; the ciphertexts of the call have `dsz`, `asz`, `bsz` limbs
                let or = |k: &str, d: usize| if kv.g(k) == 0 { d } else { kv.g(k) };
                let qsize = kv.g("size").max(1);
                let size = or("dsz", qsize);
                let (asize, bsize) = (or("asz", qsize), or("bsz", qsize));
                let meta = |d: &str, b: &str| CKKSMeta { log_delta: kv.g(d), log_budget: kv.g(b) };
                let big = || -> ScratchOwned<BE> { ScratchOwned::<BE>::alloc(1 << 22) };

                // ---- keys
                let glwe = GLWELayout { n: Degree(n as u32), base2k: Base2K(b2k as u32), k: TorusPrecision((b2k * size) as u32), rank: Rank(1) };
                let mut sk_raw = GLWESecret::alloc_from_infos(&glwe);
                sk_raw.fill_ternary_prob(0.5, &mut Source::new([7u8; 32]));
                let mut sk: GLWESecretPrepared<DeviceBuf<BE>, BE> = module.glwe_secret_prepared_alloc_from_infos(&glwe);
                module.glwe_secret_prepare(&mut sk, &sk_raw);
                let needs_tsk = matches!(op, "ckks_mul" | "ckks_square" | "ckks_composite_ct" | "ckks_mul_many" | "ckks_dot_product_ct" | "ckks_all_ops" | "ckks_all_ops_with_atk");
                let tsk: Option<GLWETensorKeyPrepared<DeviceBuf<BE>, BE>> = if needs_tsk {
                    let l = EncryptionLayout::new_from_default_sigma(GLWETensorKeyLayout {
                        n: Degree(n as u32),
                        base2k: Base2K(kv.g("tb2k").max(1) as u32),
                        k: TorusPrecision((kv.g("tb2k") * kv.g("tsize")) as u32),
                        rank: Rank(1),
                        dnum: Dnum(kv.g("tdnum").max(1) as u32),
                        dsize: Dsize(kv.g("tdsize").max(1) as u32),
                    })
                    .ok()?;
                    let mut t = GLWETensorKey::alloc_from_infos(&l);
                    module.glwe_tensor_key_encrypt_sk(&mut t, &sk_raw, &l, &mut Source::new([8u8; 32]), &mut Source::new([9u8; 32]), big().borrow());
                    let mut p = module.alloc_tensor_key_prepared_from_infos(&l);
                    module.prepare_tensor_key(&mut p, &t, big().borrow());
                    Some(p)
                } else {
                    None
                };
                let needs_atk = matches!(op, "ckks_rotate" | "ckks_all_ops_with_atk");
                let mut rot: HashMap<i64, GLWEAutomorphismKeyPrepared<DeviceBuf<BE>, BE>> = HashMap::new();
                let mut conj: Option<GLWEAutomorphismKeyPrepared<DeviceBuf<BE>, BE>> = None;
                if needs_atk {
                    let l = EncryptionLayout::new_from_default_sigma(GLWEAutomorphismKeyLayout {
                        n: Degree(n as u32),
                        base2k: Base2K(kv.g("kb2k").max(1) as u32),
                        k: TorusPrecision((kv.g("kb2k") * kv.g("ksize")) as u32),
                        rank: Rank(1),
                        dnum: Dnum(kv.g("dnum").max(1) as u32),
                        dsize: Dsize(kv.g("dsize").max(1) as u32),
                    })
                    .ok()?;
                    let mk = |gal: i64| {
                        let mut a = GLWEAutomorphismKey::alloc_from_infos(&l);
                        module.glwe_automorphism_key_encrypt_sk(&mut a, gal, &sk_raw, &l, &mut Source::new([10u8; 32]), &mut Source::new([11u8; 32]), big().borrow());
                        let mut p = module.glwe_automorphism_key_prepared_alloc_from_infos(&l);
                        module.glwe_automorphism_key_prepare(&mut p, &a, big().borrow());
                        p
                    };
                    rot.insert(1, mk(module.galois_element(1)));
                    conj = Some(mk(-1));
                }

                // ---- operands
                let mk_ct = |sz: usize, m: CKKSMeta, seed: u64| -> Option<Ct> {
                    let mut c = CKKSCiphertext::alloc(Degree(n as u32), TorusPrecision((sz * b2k) as u32), Base2K(b2k as u32));
                    let mut st = seed.wrapping_mul(0x9E3779B97F4A7C15) | 1;
                    let half: i64 = 1i64 << (b2k.min(62) - 1);
                    for col in 0..c.data().cols() {
                        for j in 0..c.data().size() {
                            for x in c.data_mut().at_mut(col, j).iter_mut() {
                                st = st.wrapping_mul(6364136223846793005).wrapping_add(1442695040888963407);
                                *x = ((st >> 11) as i64 & ((1i64 << b2k.min(62)) - 1)) - half;
                            }
                        }
                    }
                    if m.log_delta + m.log_budget > 0 {
                        c.set_meta_checked(m).ok()?;
                    }
                    Some(c)
                };
                let mk_pt = |m: CKKSMeta, seed: u64| -> CKKSPlaintextVecZnx<Vec<u8>> {
                    let mut z = CKKSPlaintextVecZnx::alloc(Degree(n as u32), Base2K(b2k as u32), m);
                    let mut st = seed.wrapping_mul(0x9E3779B97F4A7C15) | 1;
                    let half: i64 = 1i64 << (b2k.min(62) - 1);
                    for j in 0..z.data().size() {
                        for x in z.data_mut().at_mut(0, j).iter_mut() {
                            st = st.wrapping_mul(6364136223846793005).wrapping_add(1442695040888963407);
                            *x = ((st >> 11) as i64 & ((1i64 << b2k.min(62)) - 1)) - half;
                        }
                    }
                    z
                };
                let mk_rnx = |seed: u64| -> CKKSPlaintextVecRnx<f64> {
                    let enc = Encoder::<f64>::new(n / 2).unwrap();
                    let mut r = CKKSPlaintextVecRnx::<f64>::alloc(n).unwrap();
                    let re: Vec<f64> = (0..n / 2).map(|i| ((i as u64 * 7 + seed) % 13) as f64 / 64.0 - 0.1).collect();
                    let im: Vec<f64> = (0..n / 2).map(|i| ((i as u64 * 5 + seed) % 11) as f64 / 64.0 - 0.08).collect();
                    enc.encode_reim(&mut r, &re, &im).unwrap();
                    r
                };
                let dup = |c: &Ct| -> Ct {
                    let mut r = CKKSCiphertext::alloc(Degree(n as u32), TorusPrecision((c.size() * b2k) as u32), Base2K(b2k as u32));
                    r.data_mut().raw_mut().copy_from_slice(c.data().raw());
                    r.set_meta_checked(c.meta()).unwrap();
                    r
                };
                let d0 = mk_ct(size, meta("dd", "db"), 1)?;
                let a0 = mk_ct(asize, meta("ad", "ab"), 2)?;
                let c0 = mk_ct(bsize, meta("bd", "bb"), 3)?;
                let pm = meta("pd", "pb");
                let err = Cell::new(false);
                let out_ct = |c: &Ct| -> Vec<u8> {
                    let mut o = Vec::new();
                    for col in 0..c.data().cols() {
                        for j in 0..c.data().size() {
                            o.extend(bytes_of_i64(c.data().at(col, j)));
                        }
                    }
                    o.extend((c.log_delta() as u64).to_le_bytes());
                    o.extend((c.log_budget() as u64).to_le_bytes());
                    o
                };
                let cnt = kv.g("cnt").max(1);
                let bits = kv.g("bits");
                let cst = CKKSPlaintextCstRnx::<f64>::new(if kv.g("cre") == 1 { Some(0.37) } else { None }, if kv.g("cim") == 1 { Some(-0.21) } else { None });
                let tskr = tsk.as_ref();

                let o = exec_window::<Scratch<BE>>(tb, mis, win, wrap, |s: &mut Scratch<BE>| {
                    let mut d = dup(&d0);
                    let r: anyhow::Result<()> = (|| -> anyhow::Result<()> {
                        match (op, v.as_str()) {
                            ("ckks_shift_norm", "add_into") => module.ckks_add_into(&mut d, &a0, &c0, s),
                            ("ckks_shift_norm", "add_assign") => module.ckks_add_assign(&mut d, &a0, s),
                            ("ckks_shift_norm", "add_pt_const_rnx_into") => module.ckks_add_pt_const_rnx_into(&mut d, &a0, &cst, pm, s),
                            ("ckks_shift_norm", "sub_pt_const_rnx_into") => module.ckks_sub_pt_const_rnx_into(&mut d, &a0, &cst, pm, s),
                            ("ckks_shift_norm", "add_pt_const_znx_into") => {
                                let z: CKKSPlaintextCstZnx = cst.to_znx(Base2K(b2k as u32), pm)?;
                                module.ckks_add_pt_const_znx_into(&mut d, &a0, &z, s)
                            }
                            ("ckks_shift_norm", "add_many") => {
                                let ins: Vec<&Ct> = (0..cnt).map(|i| if i % 2 == 0 { &a0 } else { &c0 }).collect();
                                module.ckks_add_many(&mut d, &ins, s)
                            }
                            ("ckks_pt_vec_znx", "sub_into") => module.ckks_sub_into(&mut d, &a0, &c0, s),
                            ("ckks_pt_vec_znx", "sub_assign") => module.ckks_sub_assign(&mut d, &a0, s),
                            ("ckks_pt_vec_znx", "add_pt_vec_znx_into") => module.ckks_add_pt_vec_znx_into(&mut d, &a0, &mk_pt(pm, 5), s),
                            ("ckks_pt_vec_znx", "sub_pt_vec_znx_into") => module.ckks_sub_pt_vec_znx_into(&mut d, &a0, &mk_pt(pm, 5), s),
                            ("ckks_pt_vec_znx", "add_pt_vec_znx_assign") => module.ckks_add_pt_vec_znx_assign(&mut d, &mk_pt(pm, 5), s),
                            ("ckks_pt_vec_rnx", "add_pt_vec_rnx_into") => module.ckks_add_pt_vec_rnx_into(&mut d, &a0, &mk_rnx(5), pm, s),
                            ("ckks_pt_vec_rnx", "sub_pt_vec_rnx_into") => module.ckks_sub_pt_vec_rnx_into(&mut d, &a0, &mk_rnx(5), pm, s),
                            ("ckks_pt_vec_rnx", "add_pt_vec_rnx_assign") => module.ckks_add_pt_vec_rnx_assign(&mut d, &mk_rnx(5), pm, s),
                            ("ckks_shift", "neg_into") => module.ckks_neg_into(&mut d, &a0, s),
                            ("ckks_shift", "mul_pow2_into") => module.ckks_mul_pow2_into(&mut d, &a0, bits, s),
                            ("ckks_shift", "mul_pow2_assign") => module.ckks_mul_pow2_assign(&mut d, bits, s),
                            ("ckks_shift", "div_pow2_into") => module.ckks_div_pow2_into(&mut d, &a0, bits, s),
                            ("ckks_shift", "rescale_into") => module.ckks_rescale_into(&mut d, bits, &a0, s),
                            ("ckks_shift", "rescale_assign") => module.ckks_rescale_assign(&mut d, bits, s),
                            ("ckks_shift", "align_assign") => {
                                let mut a = dup(&a0);
                                let r = module.ckks_align_assign(&mut d, &mut a, s);
                                d.data_mut().at_mut(0, 0)[0] ^= a.data().at(0, 0)[0] & 1;
                                r
                            }
                            ("ckks_rotate", "rotate_into") => module.ckks_rotate_into(&mut d, &a0, 1, &rot, s),
                            ("ckks_rotate", "rotate_assign") => module.ckks_rotate_assign(&mut d, 1, &rot, s),
                            ("ckks_rotate", "conjugate_into") => module.ckks_conjugate_into(&mut d, &a0, conj.as_ref().unwrap(), s),
                            ("ckks_rotate", "conjugate_assign") => module.ckks_conjugate_assign(&mut d, conj.as_ref().unwrap(), s),
                            ("ckks_encrypt_sk", _) => {
                                let lay = EncryptionLayout::new_from_default_sigma(glwe)?;
                                module.ckks_encrypt_sk(&mut d, &mk_pt(pm, 5), &sk, &lay, &mut Source::new([12u8; 32]), &mut Source::new([13u8; 32]), s)
                            }
                            ("ckks_decrypt", _) | ("ckks_extract_pt", _) => {
                                let mut z = CKKSPlaintextVecZnx::alloc(Degree(n as u32), Base2K(b2k as u32), pm);
                                let r = if op == "ckks_decrypt" {
                                    module.ckks_decrypt(&mut z, &d, &sk, s)
                                } else {
                                    let mut g: GLWEPlaintext<Vec<u8>> = GLWEPlaintext::alloc_from_infos(&glwe);
                                    g.data.raw_mut().copy_from_slice(&d.data().raw()[..n * size]);
                                    module.ckks_extract_pt_znx(&mut z, &g, &d, s)
                                };
                                let zr: Vec<i64> = (0..z.data().size()).flat_map(|j| z.data().at(0, j).to_vec()).collect();
                                d.data_mut().at_mut(0, 0)[0] = zr.iter().fold(0i64, |h, x| h.wrapping_mul(31).wrapping_add(*x));
                                r
                            }
                            ("ckks_mul", "mul_into") => module.ckks_mul_into(&mut d, &a0, &c0, tskr.unwrap(), s),
                            ("ckks_mul", "mul_assign") => module.ckks_mul_assign(&mut d, &a0, tskr.unwrap(), s),
                            ("ckks_square", "square_into") => module.ckks_square_into(&mut d, &a0, tskr.unwrap(), s),
                            ("ckks_square", "square_assign") => module.ckks_square_assign(&mut d, tskr.unwrap(), s),
                            ("ckks_mul_pt_vec_znx", "into") => module.ckks_mul_pt_vec_znx_into(&mut d, &a0, &mk_pt(pm, 5), s),
                            ("ckks_mul_pt_vec_znx", "assign") => module.ckks_mul_pt_vec_znx_assign(&mut d, &mk_pt(pm, 5), s),
                            ("ckks_mul_pt_vec_rnx", "into") => module.ckks_mul_pt_vec_rnx_into(&mut d, &a0, &mk_rnx(5), pm, s),
                            ("ckks_mul_pt_vec_rnx", "assign") => module.ckks_mul_pt_vec_rnx_assign(&mut d, &mk_rnx(5), pm, s),
                            ("ckks_mul_pt_const", "rnx_into") => module.ckks_mul_pt_const_rnx_into(&mut d, &a0, &cst, pm, s),
                            ("ckks_mul_pt_const", "rnx_assign") => module.ckks_mul_pt_const_rnx_assign(&mut d, &cst, pm, s),
                            ("ckks_composite_ct", "mul_add") => module.ckks_mul_add_ct_into(&mut d, &a0, &c0, tskr.unwrap(), s),
                            ("ckks_composite_ct", "mul_sub") => module.ckks_mul_sub_ct_into(&mut d, &a0, &c0, tskr.unwrap(), s),
                            ("ckks_composite_pt_vec_znx", "mul_add") => module.ckks_mul_add_pt_vec_znx_into(&mut d, &a0, &mk_pt(pm, 5), s),
                            ("ckks_composite_pt_vec_znx", "mul_sub") => module.ckks_mul_sub_pt_vec_znx_into(&mut d, &a0, &mk_pt(pm, 5), s),
                            ("ckks_composite_pt_vec_znx", "dot") => {
                                let ps: Vec<CKKSPlaintextVecZnx<Vec<u8>>> = (0..cnt).map(|i| mk_pt(pm, 20 + i as u64)).collect();
                                let pr: Vec<&CKKSPlaintextVecZnx<Vec<u8>>> = ps.iter().collect();
                                let ins: Vec<&Ct> = (0..cnt).map(|i| if i % 2 == 0 { &a0 } else { &c0 }).collect();
                                module.ckks_dot_product_pt_vec_znx(&mut d, &ins, &pr, s)
                            }
                            ("ckks_composite_pt_vec_rnx", "mul_add") => module.ckks_mul_add_pt_vec_rnx_into(&mut d, &a0, &mk_rnx(5), pm, s),
                            ("ckks_composite_pt_vec_rnx", "mul_sub") => module.ckks_mul_sub_pt_vec_rnx_into(&mut d, &a0, &mk_rnx(5), pm, s),
                            ("ckks_composite_pt_vec_rnx", "dot") => {
                                let ps: Vec<CKKSPlaintextVecRnx<f64>> = (0..cnt).map(|i| mk_rnx(20 + i as u64)).collect();
                                let pr: Vec<&CKKSPlaintextVecRnx<f64>> = ps.iter().collect();
                                let ins: Vec<&Ct> = (0..cnt).map(|i| if i % 2 == 0 { &a0 } else { &c0 }).collect();
                                module.ckks_dot_product_pt_vec_rnx(&mut d, &ins, &pr, pm, s)
                            }
                            ("ckks_composite_pt_const", "mul_add") => module.ckks_mul_add_pt_const_rnx_into(&mut d, &a0, &cst, pm, s),
                            ("ckks_composite_pt_const", "mul_sub") => module.ckks_mul_sub_pt_const_rnx_into(&mut d, &a0, &cst, pm, s),
                            ("ckks_composite_pt_const", "dot") => {
                                let cs: Vec<&CKKSPlaintextCstRnx<f64>> = (0..cnt).map(|_| &cst).collect();
                                let ins: Vec<&Ct> = (0..cnt).map(|i| if i % 2 == 0 { &a0 } else { &c0 }).collect();
                                module.ckks_dot_product_pt_const_rnx(&mut d, &ins, &cs, pm, s)
                            }
                            ("ckks_mul_many", _) => {
                                let ins: Vec<&Ct> = (0..cnt).map(|i| if i % 2 == 0 { &a0 } else { &c0 }).collect();
                                module.ckks_mul_many(&mut d, &ins, tskr.unwrap(), s)
                            }
                            ("ckks_dot_product_ct", _) => {
                                // unequal budgets inside each vector: neither side is aligned, the rescaled copies are taken
                                let xa: Vec<&Ct> = (0..cnt).map(|i| if i % 2 == 0 { &a0 } else { &c0 }).collect();
                                let xb: Vec<&Ct> = (0..cnt).map(|i| if i % 2 == 0 { &c0 } else { &a0 }).collect();
                                module.ckks_dot_product_ct(&mut d, &xa, &xb, tskr.unwrap(), s)
                            }
                            ("ckks_all_ops", _) | ("ckks_all_ops_with_atk", _) => {
                                // a workflow on one scratch of the size of the `all_ops` query: encrypt, add, plaintext add, product,
                                // plaintext products, rescale, (rotation, conjugation,) decrypt
                                let lay = EncryptionLayout::new_from_default_sigma(glwe)?;
                                let mut x = dup(&d0);
                                module.ckks_encrypt_sk(&mut x, &mk_pt(pm, 5), &sk, &lay, &mut Source::new([12u8; 32]), &mut Source::new([13u8; 32]), s)?;
                                let mut y = dup(&d0);
                                module.ckks_add_into(&mut y, &x, &a0, s)?;
                                module.ckks_add_pt_vec_znx_assign(&mut y, &mk_pt(pm, 6), s)?;
                                module.ckks_add_pt_vec_rnx_assign(&mut y, &mk_rnx(6), pm, s)?;
                                let mut z = dup(&d0);
                                module.ckks_mul_into(&mut z, &a0, &c0, tskr.unwrap(), s)?;
                                module.ckks_square_into(&mut d, &a0, tskr.unwrap(), s)?;
                                let mut w = dup(&d0);
                                module.ckks_mul_pt_vec_znx_into(&mut w, &a0, &mk_pt(pm, 7), s)?;
                                module.ckks_mul_pt_vec_rnx_into(&mut w, &a0, &mk_rnx(7), pm, s)?;
                                module.ckks_mul_pt_const_rnx_into(&mut w, &a0, &cst, pm, s)?;
                                module.ckks_neg_into(&mut w, &a0, s)?;
                                if op == "ckks_all_ops_with_atk" {
                                    module.ckks_rotate_into(&mut w, &a0, 1, &rot, s)?;
                                    module.ckks_conjugate_into(&mut w, &a0, conj.as_ref().unwrap(), s)?;
                                }
                                let mut p = CKKSPlaintextVecZnx::alloc(Degree(n as u32), Base2K(b2k as u32), pm);
                                module.ckks_decrypt(&mut p, &a0, &sk, s)?;
                                let h = [&y, &z, &w].iter().fold(0i64, |h, c| c.data().raw().iter().fold(h, |h, x| h.wrapping_mul(31).wrapping_add(*x)));
                                d.data_mut().at_mut(0, 0)[0] ^= h ^ p.data().at(0, 0)[0];
                                Ok(())
                            }
                            _ => Err(anyhow::anyhow!("bad-variant")),
                        }
                    })();
                    if r.is_err() {
                        err.set(true);
                        if std::env::var("VERIF_DEBUG").is_ok() {
                            eprintln!("ckks error: {:?}", r);
                        }
                    }
                    out_ct(&d)
                });
                if err.get() {
                    return Some("skip".into());
                }
                Some(fmt_outcome(tb, &o))
            }
        }
    };
}
ckks_run_impl!(poulpy_cpu_ref::FFT64Ref);
ckks_run_impl!(poulpy_cpu_ref::NTT120Ref);
