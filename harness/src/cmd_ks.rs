//! `pvh ks` — the key-switching family of poulpy-core on the real code, all four back ends.
//!
//! Request line (tokens `k=v`, any order):
//!   `id op=<op> be=<fft64ref|ntt120ref|fft64avx|ntt120avx> n=N bin=.. bkey=.. bout=.. kin=.. kkey=.. kout=..
//!       rin=.. rout=.. dsize=.. dnum=.. seed=.. cls=<enc|raw|ext|extp|alt|zero> [p=<galois element>] [skip=..]
//!       [idx=..] [nlin=..] [nlout=..] [dirty=0|1]`
//! ops: ks ks_assign auto auto_assign auto_add auto_add_assign auto_sub auto_sub_assign auto_subneg
//!      auto_subneg_assign trace trace_assign lwe_ks glwe_to_lwe lwe_to_glwe extract
//!      gglwe_ks gglwe_ks_assign atk_auto atk_auto_assign   (`r0= adnum= adsize= rdnum= pa=`: the GGLWE operand / result)
//!      ggsw_ks ggsw_ks_assign ggsw_auto ggsw_auto_assign   (extra answer fields `tsk=<GGLWE@…>` (the rank tensor keys) `m2=<poly>`;
//!                                                          `a`/`res` = GGSW cells (row, column) joined by `/`)
//!      pack packer   (`slots=<i,j,…>` `lgap=<log_gap_out | log_batch>`; `a=<slot:ct@slot:ct…>`)
//!
//! Answer line: `id ok skin=<polys> skout=<polys> keys=<p:GGLWE@p:GGLWE…> a=<ct> res=<ct>` or `id panic:<class>`.
//! Text forms: polynomial = coefficients joined by `,`; column = limbs joined by `|`; ciphertext =
//! columns joined by `;`; GGLWE = its `dnum × rank_in` ciphertexts (row-major: row r, input column i)
//! joined by `/`; secrets = polynomials joined by `;`.
//!
//! Everything random is produced by the real code: secrets by `fill_ternary_prob` (replayed on a twin
//! `ScalarZnx` from the same seed to read them back), keys by the `*_encrypt_sk` functions, `cls=enc`
//! inputs by `glwe_encrypt_sk` / `lwe_encrypt_sk`.  `dirty=1` fills the scratch arena with a garbage
//! pattern before the operation (results must not depend on it); `dirty=0` zeroes the arena (key generation
//! has used it before), which is the state the model's `dft0 = 0` describes.
use std::collections::HashMap;
use std::io::{BufRead, Write};

use poulpy_core::{
    EncryptionLayout, GLWEAutomorphism, GLWEAutomorphismKeyEncryptSk, GLWEEncryptSk, GLWEFromLWE, GLWEKeyswitch,
    GGLWEKeyswitch, GGLWEToGGSWKeyEncryptSk, GGSWAutomorphism, GGSWEncryptSk, GGSWKeyswitch, GLWEAutomorphismKeyAutomorphism, GLWEPacker, GLWEPacking, GLWESwitchingKeyEncryptSk, GLWEToLWESwitchingKeyEncryptSk, GLWETrace, glwe_packer_add, glwe_packer_flush, LWEEncryptSk, LWEFromGLWE, LWEKeySwitch, LWESampleExtract,
    LWESwitchingKeyEncrypt, LWEToGLWESwitchingKeyEncryptSk,
    layouts::{
        Base2K, Degree, Dnum, Dsize, GGLWEInfos, GGLWEToGGSWKey, GGLWEToGGSWKeyLayout, GGLWEToGGSWKeyPreparedFactory, GGLWEToRef, GGSW, GGSWLayout, GLWE, GLWEAutomorphismKey, GLWEAutomorphismKeyLayout,
        GLWEAutomorphismKeyPrepared, GLWEAutomorphismKeyPreparedFactory, GLWELayout, GLWEPlaintext, GLWESecret,
        GLWESecretPrepared, GLWESecretPreparedFactory, GLWESwitchingKey, GLWESwitchingKeyLayout, GLWESwitchingKeyPrepared,
        GLWESwitchingKeyPreparedFactory, GLWEToLWEKey, GLWEToLWEKeyLayout, GLWEToLWEKeyPrepared, GLWEToLWEKeyPreparedFactory, LWE,
        LWELayout, LWEPlaintext, LWESecret, LWESwitchingKey, LWESwitchingKeyLayout, LWESwitchingKeyPrepared,
        LWESwitchingKeyPreparedFactory, LWEToGLWEKey, LWEToGLWEKeyLayout, LWEToGLWEKeyPrepared, LWEToGLWEKeyPreparedFactory, Rank,
        TorusPrecision,
    },
};
use poulpy_hal::{
    api::{ModuleNew, ScratchOwnedAlloc, ScratchOwnedBorrow},
    layouts::{DeviceBuf, Module, ScalarZnx, ScratchOwned, VecZnx, ZnxInfos, ZnxView, ZnxViewMut},
    source::Source,
};

use crate::cmd_hal::panic_class;

#[derive(Clone, Debug)]
pub struct Case {
    pub op: String,
    pub be: String,
    pub n: usize,
    pub bin: usize,
    pub bkey: usize,
    pub bout: usize,
    pub kin: usize,
    pub kkey: usize,
    pub kout: usize,
    pub rin: usize,
    pub rout: usize,
    pub dsize: usize,
    pub dnum: usize,
    pub seed: u64,
    pub cls: String,
    pub p: i64,
    pub skip: usize,
    pub idx: usize,
    pub nlin: usize,
    pub nlout: usize,
    pub dirty: bool,
    pub slots: Vec<usize>,
    pub lgap: usize,
    pub r0: usize,
    pub adnum: usize,
    pub adsize: usize,
    pub rdnum: usize,
    pub pa: i64,
}

fn parse_case(toks: &[&str]) -> Case {
    let mut m: HashMap<&str, &str> = HashMap::new();
    for t in toks {
        if let Some((k, v)) = t.split_once('=') {
            m.insert(k, v);
        }
    }
    let us = |k: &str, d: usize| m.get(k).and_then(|v| v.parse::<usize>().ok()).unwrap_or(d);
    Case {
        op: m.get("op").unwrap_or(&"ks").to_string(),
        be: m.get("be").unwrap_or(&"fft64ref").to_string(),
        n: us("n", 8),
        bin: us("bin", 12),
        bkey: us("bkey", 12),
        bout: us("bout", 12),
        kin: us("kin", 24),
        kkey: us("kkey", 36),
        kout: us("kout", 24),
        rin: us("rin", 1),
        rout: us("rout", 1),
        dsize: us("dsize", 1),
        dnum: us("dnum", 2),
        seed: m.get("seed").and_then(|v| v.parse::<u64>().ok()).unwrap_or(1),
        cls: m.get("cls").unwrap_or(&"raw").to_string(),
        p: m.get("p").and_then(|v| v.parse::<i64>().ok()).unwrap_or(-1),
        skip: us("skip", 0),
        idx: us("idx", 0),
        nlin: us("nlin", 4),
        nlout: us("nlout", 4),
        dirty: us("dirty", 0) != 0,
        slots: m.get("slots").map(|v| if *v == "-" { vec![] } else { v.split(',').map(|x| x.parse::<usize>().unwrap()).collect() }).unwrap_or_default(),
        lgap: us("lgap", 0),
        r0: us("r0", 1),
        adnum: us("adnum", 1),
        adsize: us("adsize", 1),
        rdnum: us("rdnum", 1),
        pa: m.get("pa").and_then(|v| v.parse::<i64>().ok()).unwrap_or(3),
    }
}

fn seed32(seed: u64, tag: u8) -> [u8; 32] {
    let mut s = [0u8; 32];
    s[..8].copy_from_slice(&seed.to_le_bytes());
    s[8] = tag;
    s[9] = 0xC3;
    s
}

struct Sm(u64);
impl Sm {
    fn next(&mut self) -> u64 {
        self.0 = self.0.wrapping_add(0x9E3779B97F4A7C15);
        let mut z = self.0;
        z = (z ^ (z >> 30)).wrapping_mul(0xBF58476D1CE4E5B9);
        z = (z ^ (z >> 27)).wrapping_mul(0x94D049BB133111EB);
        z ^ (z >> 31)
    }
    fn digit(&mut self, bits: usize) -> i64 {
        let z = self.next();
        if bits == 0 {
            0
        } else if bits >= 64 {
            z as i64
        } else {
            ((z << (64 - bits)) as i64) >> (64 - bits)
        }
    }
}

/// fills every limb of every column of `v` with digits of class `cls` in radix `2^b`
fn fill_class(v: &mut VecZnx<Vec<u8>>, b: usize, cls: &str, seed: u64) {
    let mut g = Sm(seed ^ 0xA5A5_0000);
    let (cols, size) = (v.cols(), v.size());
    for c in 0..cols {
        for j in 0..size {
            for (t, x) in v.at_mut(c, j).iter_mut().enumerate() {
                *x = match cls {
                    "ext" => -(1i64 << (b - 1)),
                    "extp" => (1i64 << (b - 1)) - 1,
                    "alt" => {
                        if (t + j + c) % 2 == 0 {
                            -(1i64 << (b - 1))
                        } else {
                            (1i64 << (b - 1)) - 1
                        }
                    }
                    "zero" => 0,
                    _ => g.digit(b),
                };
            }
        }
    }
}

fn fmt_poly(p: &[i64]) -> String {
    let mut s = String::with_capacity(p.len() * 8);
    for (i, x) in p.iter().enumerate() {
        if i > 0 {
            s.push(',');
        }
        s.push_str(&x.to_string());
    }
    s
}

fn fmt_vec<D: poulpy_hal::layouts::DataRef>(v: &VecZnx<D>) -> String {
    let mut cols = Vec::new();
    for c in 0..v.cols() {
        let mut limbs = Vec::new();
        for j in 0..v.size() {
            limbs.push(fmt_poly(v.at(c, j)));
        }
        cols.push(limbs.join("|"));
    }
    cols.join(";")
}

fn fmt_gglwe<K: GGLWEToRef>(k: &K) -> String {
    let g = k.to_ref();
    let dnum: usize = g.dnum().into();
    let rin: usize = g.rank_in().into();
    let mut cts = Vec::new();
    for r in 0..dnum {
        for i in 0..rin {
            cts.push(fmt_vec(g.at(r, i).data()));
        }
    }
    cts.join("/")
}

fn fmt_secret(s: &ScalarZnx<Vec<u8>>) -> String {
    (0..s.cols()).map(|c| fmt_poly(s.at(c, 0))).collect::<Vec<_>>().join(";")
}

/// `GLWESecret::fill_ternary_prob(0.5, source)` replayed on a readable twin
fn secret_twin(n: usize, rank: usize, seed: [u8; 32]) -> ScalarZnx<Vec<u8>> {
    let mut src = Source::new(seed);
    let mut s = ScalarZnx::alloc(n, rank);
    for i in 0..rank {
        s.fill_ternary_prob(i, 0.5, &mut src);
    }
    s
}

macro_rules! ks_backend {
    ($fname:ident, $be:ty) => {
        fn $fname(c: &Case) -> String {
            type BE = $be;
            let n = c.n;
            let module: Module<BE> = Module::<BE>::new(n as u64);
            let mut scratch: ScratchOwned<BE> = ScratchOwned::alloc(1 << 23);
            let mut source_xe = Source::new(seed32(c.seed, 2));
            let mut source_xa = Source::new(seed32(c.seed, 3));
            let dirty = |scratch: &mut ScratchOwned<BE>| {
                if c.dirty {
                    // plausible-magnitude f64 words (never NaN/inf), different in every slot
                    let data = &mut scratch.borrow().data;
                    let words = data.len() / 8;
                    for w in 0..words {
                        let v: f64 = (((w as u64).wrapping_mul(2654435761) % 1000003) as f64 - 500001.0) * 977.0;
                        data[8 * w..8 * w + 8].copy_from_slice(&v.to_le_bytes());
                    }
                } else {
                    scratch.borrow().data.fill(0);
                }
            };
            let garbage = |v: &mut VecZnx<Vec<u8>>| {
                for (i, x) in v.raw_mut().iter_mut().enumerate() {
                    *x = crate::fillpat::pat(0x1234 + 7 * i as i64, i);
                }
            };
            let glwe_in_infos = GLWELayout { n: Degree(n as u32), base2k: Base2K(c.bin as u32), k: TorusPrecision(c.kin as u32), rank: Rank(c.rin as u32) };
            let glwe_out_infos = GLWELayout { n: Degree(n as u32), base2k: Base2K(c.bout as u32), k: TorusPrecision(c.kout as u32), rank: Rank(c.rout as u32) };

            // ---- GLWE input (under sk_in) shared by the GLWE-family operations
            let make_glwe_in = |sk_in: &GLWESecret<Vec<u8>>, source_xe: &mut Source, source_xa: &mut Source, scratch: &mut ScratchOwned<BE>| -> GLWE<Vec<u8>> {
                let mut a: GLWE<Vec<u8>> = GLWE::alloc_from_infos(&glwe_in_infos);
                if c.cls == "enc" {
                    let enc = EncryptionLayout::new_from_default_sigma(glwe_in_infos).unwrap();
                    let mut pt: GLWEPlaintext<Vec<u8>> = GLWEPlaintext::alloc_from_infos(&glwe_in_infos);
                    fill_class(&mut pt.data, c.bin, "rnd", c.seed ^ 0x77);
                    let mut skp: GLWESecretPrepared<DeviceBuf<BE>, BE> = module.glwe_secret_prepared_alloc(Rank(c.rin as u32));
                    module.glwe_secret_prepare(&mut skp, sk_in);
                    module.glwe_encrypt_sk(&mut a, &pt, &skp, &enc, source_xe, source_xa, scratch.borrow());
                } else {
                    fill_class(a.data_mut(), c.bin, &c.cls, c.seed);
                }
                a
            };

            match c.op.as_str() {
                "ks" | "ks_assign" => {
                    let mut sk_in = GLWESecret::alloc(Degree(n as u32), Rank(c.rin as u32));
                    sk_in.fill_ternary_prob(0.5, &mut Source::new(seed32(c.seed, 0)));
                    let mut sk_out = GLWESecret::alloc(Degree(n as u32), Rank(c.rout as u32));
                    sk_out.fill_ternary_prob(0.5, &mut Source::new(seed32(c.seed, 1)));
                    let ksk_infos = EncryptionLayout::new_from_default_sigma(GLWESwitchingKeyLayout {
                        n: Degree(n as u32),
                        base2k: Base2K(c.bkey as u32),
                        k: TorusPrecision(c.kkey as u32),
                        dnum: Dnum(c.dnum as u32),
                        dsize: Dsize(c.dsize as u32),
                        rank_in: Rank(c.rin as u32),
                        rank_out: Rank(c.rout as u32),
                    })
                    .unwrap();
                    let mut ksk: GLWESwitchingKey<Vec<u8>> = GLWESwitchingKey::alloc_from_infos(&ksk_infos);
                    module.glwe_switching_key_encrypt_sk(&mut ksk, &sk_in, &sk_out, &ksk_infos, &mut source_xe, &mut source_xa, scratch.borrow());
                    let mut kp: GLWESwitchingKeyPrepared<DeviceBuf<BE>, BE> = module.glwe_switching_key_prepared_alloc_from_infos(&ksk);
                    module.glwe_switching_key_prepare(&mut kp, &ksk, scratch.borrow());
                    let a = make_glwe_in(&sk_in, &mut source_xe, &mut source_xa, &mut scratch);
                    let a_txt = fmt_vec(a.data());
                    let res_txt;
                    dirty(&mut scratch);
                    if c.op == "ks" {
                        let mut res: GLWE<Vec<u8>> = GLWE::alloc_from_infos(&glwe_out_infos);
                        garbage(res.data_mut());
                        module.glwe_keyswitch(&mut res, &a, &kp, scratch.borrow());
                        res_txt = fmt_vec(res.data());
                    } else {
                        let mut res = a;
                        module.glwe_keyswitch_assign(&mut res, &kp, scratch.borrow());
                        res_txt = fmt_vec(res.data());
                    }
                    format!(
                        "ok skin={} skout={} keys=0:{} a={} res={}",
                        fmt_secret(&secret_twin(n, c.rin, seed32(c.seed, 0))),
                        fmt_secret(&secret_twin(n, c.rout, seed32(c.seed, 1))),
                        fmt_gglwe(&ksk),
                        a_txt,
                        res_txt
                    )
                }
                "auto" | "auto_assign" | "auto_add" | "auto_add_assign" | "auto_sub" | "auto_sub_assign" | "auto_subneg"
                | "auto_subneg_assign" | "trace" | "trace_assign" => {
                    let rank = c.rin;
                    let mut sk = GLWESecret::alloc(Degree(n as u32), Rank(rank as u32));
                    sk.fill_ternary_prob(0.5, &mut Source::new(seed32(c.seed, 0)));
                    let key_infos = EncryptionLayout::new_from_default_sigma(GLWEAutomorphismKeyLayout {
                        n: Degree(n as u32),
                        base2k: Base2K(c.bkey as u32),
                        k: TorusPrecision(c.kkey as u32),
                        rank: Rank(rank as u32),
                        dnum: Dnum(c.dnum as u32),
                        dsize: Dsize(c.dsize as u32),
                    })
                    .unwrap();
                    let is_trace = c.op.starts_with("trace");
                    let gal_els: Vec<i64> = if is_trace { module.glwe_trace_galois_elements() } else { vec![c.p] };
                    let mut keys: HashMap<i64, GLWEAutomorphismKeyPrepared<DeviceBuf<BE>, BE>> = HashMap::new();
                    let mut keys_txt = Vec::new();
                    for g in gal_els.iter() {
                        let mut atk: GLWEAutomorphismKey<Vec<u8>> = GLWEAutomorphismKey::alloc_from_infos(&key_infos);
                        module.glwe_automorphism_key_encrypt_sk(&mut atk, *g, &sk, &key_infos, &mut source_xe, &mut source_xa, scratch.borrow());
                        let mut kp: GLWEAutomorphismKeyPrepared<DeviceBuf<BE>, BE> = module.glwe_automorphism_key_prepared_alloc_from_infos(&atk);
                        module.glwe_automorphism_key_prepare(&mut kp, &atk, scratch.borrow());
                        keys_txt.push(format!("{}:{}", g, fmt_gglwe(&atk)));
                        keys.insert(*g, kp);
                    }
                    let a = make_glwe_in(&sk, &mut source_xe, &mut source_xa, &mut scratch);
                    let a_txt = fmt_vec(a.data());
                    let assign = c.op.ends_with("_assign");
                    let mut res: GLWE<Vec<u8>> = if assign {
                        a.clone()
                    } else {
                        let mut r = GLWE::alloc_from_infos(&glwe_out_infos);
                        garbage(r.data_mut());
                        r
                    };
                    dirty(&mut scratch);
                    let key = keys.get(&gal_els[0]).unwrap();
                    match c.op.as_str() {
                        "auto" => module.glwe_automorphism(&mut res, &a, key, scratch.borrow()),
                        "auto_assign" => module.glwe_automorphism_assign(&mut res, key, scratch.borrow()),
                        "auto_add" => module.glwe_automorphism_add(&mut res, &a, key, scratch.borrow()),
                        "auto_add_assign" => module.glwe_automorphism_add_assign(&mut res, key, scratch.borrow()),
                        "auto_sub" => module.glwe_automorphism_sub(&mut res, &a, key, scratch.borrow()),
                        "auto_sub_assign" => module.glwe_automorphism_sub_assign(&mut res, key, scratch.borrow()),
                        "auto_subneg" => module.glwe_automorphism_sub_negate(&mut res, &a, key, scratch.borrow()),
                        "auto_subneg_assign" => module.glwe_automorphism_sub_negate_assign(&mut res, key, scratch.borrow()),
                        "trace" => module.glwe_trace(&mut res, c.skip, &a, &keys, scratch.borrow()),
                        _ => module.glwe_trace_assign(&mut res, c.skip, &keys, scratch.borrow()),
                    }
                    let s = fmt_secret(&secret_twin(n, rank, seed32(c.seed, 0)));
                    format!("ok skin={} skout={} keys={} a={} res={}", s, s, keys_txt.join("@"), a_txt, fmt_vec(res.data()))
                }
                "pack" | "packer" => {
                    // ring packing: `slots` = indices of the present inputs (pack: keys of the HashMap; packer: arrival
                    // positions, the others are `None`); `lgap` = log_gap_out (pack) / log_batch (packer)
                    let rank = c.rin;
                    let mut sk = GLWESecret::alloc(Degree(n as u32), Rank(rank as u32));
                    sk.fill_ternary_prob(0.5, &mut Source::new(seed32(c.seed, 0)));
                    let key_infos = EncryptionLayout::new_from_default_sigma(GLWEAutomorphismKeyLayout {
                        n: Degree(n as u32),
                        base2k: Base2K(c.bkey as u32),
                        k: TorusPrecision(c.kkey as u32),
                        rank: Rank(rank as u32),
                        dnum: Dnum(c.dnum as u32),
                        dsize: Dsize(c.dsize as u32),
                    })
                    .unwrap();
                    let gal_els: Vec<i64> = module.glwe_pack_galois_elements();
                    let mut keys: HashMap<i64, GLWEAutomorphismKeyPrepared<DeviceBuf<BE>, BE>> = HashMap::new();
                    let mut keys_txt = Vec::new();
                    for g in gal_els.iter() {
                        let mut atk: GLWEAutomorphismKey<Vec<u8>> = GLWEAutomorphismKey::alloc_from_infos(&key_infos);
                        module.glwe_automorphism_key_encrypt_sk(&mut atk, *g, &sk, &key_infos, &mut source_xe, &mut source_xa, scratch.borrow());
                        let mut kp: GLWEAutomorphismKeyPrepared<DeviceBuf<BE>, BE> = module.glwe_automorphism_key_prepared_alloc_from_infos(&atk);
                        module.glwe_automorphism_key_prepare(&mut kp, &atk, scratch.borrow());
                        keys_txt.push(format!("{}:{}", g, fmt_gglwe(&atk)));
                        keys.insert(*g, kp);
                    }
                    let mut cts: Vec<GLWE<Vec<u8>>> = Vec::new();
                    let mut as_txt = Vec::new();
                    for (k, slot) in c.slots.iter().enumerate() {
                        let mut a: GLWE<Vec<u8>> = GLWE::alloc_from_infos(&glwe_in_infos);
                        if c.cls == "enc" {
                            let enc = EncryptionLayout::new_from_default_sigma(glwe_in_infos).unwrap();
                            let mut pt: GLWEPlaintext<Vec<u8>> = GLWEPlaintext::alloc_from_infos(&glwe_in_infos);
                            fill_class(&mut pt.data, c.bin, "rnd", c.seed ^ 0x77 ^ ((k as u64) << 20));
                            let mut skp: GLWESecretPrepared<DeviceBuf<BE>, BE> = module.glwe_secret_prepared_alloc(Rank(rank as u32));
                            module.glwe_secret_prepare(&mut skp, &sk);
                            module.glwe_encrypt_sk(&mut a, &pt, &skp, &enc, &mut source_xe, &mut source_xa, scratch.borrow());
                        } else {
                            fill_class(a.data_mut(), c.bin, &c.cls, c.seed ^ ((k as u64 + 1) << 24));
                        }
                        as_txt.push(format!("{}:{}", slot, fmt_vec(a.data())));
                        cts.push(a);
                    }
                    let mut res: GLWE<Vec<u8>> = GLWE::alloc_from_infos(&glwe_out_infos);
                    garbage(res.data_mut());
                    dirty(&mut scratch);
                    // the inputs are dumped even when the operation panics (e.g. no input on a slot): `res=panic:<class>`
                    let r = std::panic::catch_unwind(std::panic::AssertUnwindSafe(|| {
                        if c.op == "pack" {
                            let mut map: HashMap<usize, &mut GLWE<Vec<u8>>> = HashMap::new();
                            for (ct, slot) in cts.iter_mut().zip(c.slots.iter()) {
                                map.insert(*slot, ct);
                            }
                            module.glwe_pack(&mut res, map, c.lgap, &keys, scratch.borrow());
                        } else {
                            // the accumulators have the layout of the result
                            let mut packer = GLWEPacker::alloc(&glwe_out_infos, c.lgap);
                            let total = n >> c.lgap;
                            for k in 0..total {
                                match c.slots.iter().position(|x| *x == k) {
                                    Some(idx) => glwe_packer_add(&module, &mut packer, Some(&cts[idx]), &keys, scratch.borrow()),
                                    None => glwe_packer_add(&module, &mut packer, None::<&GLWE<Vec<u8>>>, &keys, scratch.borrow()),
                                }
                            }
                            glwe_packer_flush(&module, &mut packer, &mut res, scratch.borrow());
                        }
                    }));
                    let res_txt = match r {
                        Ok(()) => fmt_vec(res.data()),
                        Err(e) => {
                            let msg = if let Some(s) = e.downcast_ref::<String>() {
                                s.clone()
                            } else if let Some(s) = e.downcast_ref::<&str>() {
                                s.to_string()
                            } else {
                                String::new()
                            };
                            format!("panic:{}", panic_class(&msg))
                        }
                    };
                    let s = fmt_secret(&secret_twin(n, rank, seed32(c.seed, 0)));
                    format!("ok skin={} skout={} keys={} a={} res={}", s, s, keys_txt.join("@"), as_txt.join("@"), res_txt)
                }
                "gglwe_ks" | "gglwe_ks_assign" => {
                    // A: switching key sk0 -> sk1 (layout bin/kin/adnum/adsize, ranks r0 -> rin); B: sk1 -> sk2 (the usual key)
                    let mut sk0 = GLWESecret::alloc(Degree(n as u32), Rank(c.r0 as u32));
                    sk0.fill_ternary_prob(0.5, &mut Source::new(seed32(c.seed, 4)));
                    let mut sk1 = GLWESecret::alloc(Degree(n as u32), Rank(c.rin as u32));
                    sk1.fill_ternary_prob(0.5, &mut Source::new(seed32(c.seed, 0)));
                    let mut sk2 = GLWESecret::alloc(Degree(n as u32), Rank(c.rout as u32));
                    sk2.fill_ternary_prob(0.5, &mut Source::new(seed32(c.seed, 1)));
                    let a_infos = EncryptionLayout::new_from_default_sigma(GLWESwitchingKeyLayout {
                        n: Degree(n as u32),
                        base2k: Base2K(c.bin as u32),
                        k: TorusPrecision(c.kin as u32),
                        dnum: Dnum(c.adnum as u32),
                        dsize: Dsize(c.adsize as u32),
                        rank_in: Rank(c.r0 as u32),
                        rank_out: Rank(c.rin as u32),
                    })
                    .unwrap();
                    let mut a: GLWESwitchingKey<Vec<u8>> = GLWESwitchingKey::alloc_from_infos(&a_infos);
                    module.glwe_switching_key_encrypt_sk(&mut a, &sk0, &sk1, &a_infos, &mut source_xe, &mut source_xa, scratch.borrow());
                    let b_infos = EncryptionLayout::new_from_default_sigma(GLWESwitchingKeyLayout {
                        n: Degree(n as u32),
                        base2k: Base2K(c.bkey as u32),
                        k: TorusPrecision(c.kkey as u32),
                        dnum: Dnum(c.dnum as u32),
                        dsize: Dsize(c.dsize as u32),
                        rank_in: Rank(c.rin as u32),
                        rank_out: Rank(c.rout as u32),
                    })
                    .unwrap();
                    let mut b: GLWESwitchingKey<Vec<u8>> = GLWESwitchingKey::alloc_from_infos(&b_infos);
                    module.glwe_switching_key_encrypt_sk(&mut b, &sk1, &sk2, &b_infos, &mut source_xe, &mut source_xa, scratch.borrow());
                    let mut bp: GLWESwitchingKeyPrepared<DeviceBuf<BE>, BE> = module.glwe_switching_key_prepared_alloc_from_infos(&b);
                    module.glwe_switching_key_prepare(&mut bp, &b, scratch.borrow());
                    let a_txt = fmt_gglwe(&a);
                    let res_txt;
                    dirty(&mut scratch);
                    if c.op == "gglwe_ks" {
                        let mut res: GLWESwitchingKey<Vec<u8>> = GLWESwitchingKey::alloc(
                            Degree(n as u32),
                            Base2K(c.bout as u32),
                            TorusPrecision(c.kout as u32),
                            Rank(c.r0 as u32),
                            Rank(c.rout as u32),
                            Dnum(c.rdnum as u32),
                            Dsize(c.adsize as u32),
                        );
                        // C11: the result starts from garbage (was freshly allocated, i.e. zero)
                        {
                            use poulpy_core::layouts::GGLWEToMut;
                            let mut gm = res.to_mut();
                            let (dn, ri): (usize, usize) = (gm.dnum().into(), gm.rank_in().into());
                            for r in 0..dn {
                                for ci in 0..ri {
                                    for (i, x) in gm.at_mut(r, ci).data_mut().raw_mut().iter_mut().enumerate() {
                                        *x = crate::fillpat::pat(0x2468 + 5 * i as i64, i + 977 * (r * 16 + ci));
                                    }
                                }
                            }
                        }
                        module.gglwe_keyswitch(&mut res, &a, &bp, scratch.borrow());
                        res_txt = fmt_gglwe(&res);
                    } else {
                        let mut res = a;
                        module.gglwe_keyswitch_assign(&mut res, &bp, scratch.borrow());
                        res_txt = fmt_gglwe(&res);
                    }
                    format!(
                        "ok skin={} skout={} keys=0:{} a={} res={}",
                        fmt_secret(&secret_twin(n, c.rin, seed32(c.seed, 0))),
                        fmt_secret(&secret_twin(n, c.rout, seed32(c.seed, 1))),
                        fmt_gglwe(&b),
                        a_txt,
                        res_txt
                    )
                }
                "atk_auto" | "atk_auto_assign" => {
                    // A: automorphism key of `pa`; key: automorphism key of `p`; result: automorphism key of pa*p
                    let rank = c.rin;
                    let mut sk = GLWESecret::alloc(Degree(n as u32), Rank(rank as u32));
                    sk.fill_ternary_prob(0.5, &mut Source::new(seed32(c.seed, 0)));
                    let a_infos = EncryptionLayout::new_from_default_sigma(GLWEAutomorphismKeyLayout {
                        n: Degree(n as u32),
                        base2k: Base2K(c.bin as u32),
                        k: TorusPrecision(c.kin as u32),
                        rank: Rank(rank as u32),
                        dnum: Dnum(c.adnum as u32),
                        dsize: Dsize(c.adsize as u32),
                    })
                    .unwrap();
                    let mut a: GLWEAutomorphismKey<Vec<u8>> = GLWEAutomorphismKey::alloc_from_infos(&a_infos);
                    module.glwe_automorphism_key_encrypt_sk(&mut a, c.pa, &sk, &a_infos, &mut source_xe, &mut source_xa, scratch.borrow());
                    let key_infos = EncryptionLayout::new_from_default_sigma(GLWEAutomorphismKeyLayout {
                        n: Degree(n as u32),
                        base2k: Base2K(c.bkey as u32),
                        k: TorusPrecision(c.kkey as u32),
                        rank: Rank(rank as u32),
                        dnum: Dnum(c.dnum as u32),
                        dsize: Dsize(c.dsize as u32),
                    })
                    .unwrap();
                    let mut atk: GLWEAutomorphismKey<Vec<u8>> = GLWEAutomorphismKey::alloc_from_infos(&key_infos);
                    module.glwe_automorphism_key_encrypt_sk(&mut atk, c.p, &sk, &key_infos, &mut source_xe, &mut source_xa, scratch.borrow());
                    let mut kp: GLWEAutomorphismKeyPrepared<DeviceBuf<BE>, BE> = module.glwe_automorphism_key_prepared_alloc_from_infos(&atk);
                    module.glwe_automorphism_key_prepare(&mut kp, &atk, scratch.borrow());
                    let a_txt = format!("{}:{}", a.p(), fmt_gglwe(&a));
                    let res_txt;
                    dirty(&mut scratch);
                    if c.op == "atk_auto" {
                        let mut res: GLWEAutomorphismKey<Vec<u8>> = GLWEAutomorphismKey::alloc(
                            Degree(n as u32),
                            Base2K(c.bout as u32),
                            TorusPrecision(c.kout as u32),
                            Rank(rank as u32),
                            Dnum(c.rdnum as u32),
                            Dsize(c.adsize as u32),
                        );
                        // C11: the result starts from garbage (was freshly allocated, i.e. zero)
                        {
                            use poulpy_core::layouts::GGLWEToMut;
                            let mut gm = res.to_mut();
                            let (dn, ri): (usize, usize) = (gm.dnum().into(), gm.rank_in().into());
                            for r in 0..dn {
                                for ci in 0..ri {
                                    for (i, x) in gm.at_mut(r, ci).data_mut().raw_mut().iter_mut().enumerate() {
                                        *x = crate::fillpat::pat(0x1357 + 3 * i as i64, i + 977 * (r * 16 + ci));
                                    }
                                }
                            }
                        }
                        module.glwe_automorphism_key_automorphism(&mut res, &a, &kp, scratch.borrow());
                        res_txt = format!("{}:{}", res.p(), fmt_gglwe(&res));
                    } else {
                        let mut res = a;
                        module.glwe_automorphism_key_automorphism_assign(&mut res, &kp, scratch.borrow());
                        res_txt = format!("{}:{}", res.p(), fmt_gglwe(&res));
                    }
                    let s = fmt_secret(&secret_twin(n, rank, seed32(c.seed, 0)));
                    format!("ok skin={} skout={} keys={}:{} a={} res={}", s, s, c.p, fmt_gglwe(&atk), a_txt, res_txt)
                }
                "ggsw_ks" | "ggsw_ks_assign" | "ggsw_auto" | "ggsw_auto_assign" => {
                    // GGSW key-switch / automorphism: per-row GLWE form on column 0, then row expansion with the tensor key.
                    // A: GGSW(m2) under sk_in (layout bin/kin/adnum/adsize); key (and tensor key) layout bkey/kkey/dnum/dsize
                    let rank = c.rin;
                    let is_ks = c.op.starts_with("ggsw_ks");
                    let mut sk_out = GLWESecret::alloc(Degree(n as u32), Rank(rank as u32));
                    sk_out.fill_ternary_prob(0.5, &mut Source::new(seed32(c.seed, 1)));
                    let mut sk_in = GLWESecret::alloc(Degree(n as u32), Rank(rank as u32));
                    sk_in.fill_ternary_prob(0.5, &mut Source::new(seed32(c.seed, if is_ks { 0 } else { 1 })));
                    let mut sk_in_prep: GLWESecretPrepared<DeviceBuf<BE>, BE> = module.glwe_secret_prepared_alloc(Rank(rank as u32));
                    module.glwe_secret_prepare(&mut sk_in_prep, &sk_in);
                    let tsk_infos = GGLWEToGGSWKeyLayout {
                        n: Degree(n as u32),
                        base2k: Base2K(c.bkey as u32),
                        k: TorusPrecision(c.kkey as u32),
                        rank: Rank(rank as u32),
                        dnum: Dnum(c.dnum as u32),
                        dsize: Dsize(c.dsize as u32),
                    };
                    let tsk_enc = EncryptionLayout::new_from_default_sigma(tsk_infos).unwrap();
                    let mut tsk: GGLWEToGGSWKey<Vec<u8>> = GGLWEToGGSWKey::alloc_from_infos(&tsk_infos);
                    module.gglwe_to_ggsw_key_encrypt_sk(&mut tsk, &sk_out, &tsk_enc, &mut source_xe, &mut source_xa, scratch.borrow());
                    let mut tsk_prep = module.gglwe_to_ggsw_key_prepared_alloc_from_infos(&tsk);
                    module.gglwe_to_ggsw_key_prepare(&mut tsk_prep, &tsk, scratch.borrow());
                    let tsk_txt: Vec<String> = (0..rank).map(|i| fmt_gglwe(tsk.at(i))).collect();
                    // plaintext m2: small dense polynomial
                    let mut pt = ScalarZnx::alloc(n, 1);
                    {
                        let mut g = Sm(c.seed ^ 0x5151);
                        for x in pt.at_mut(0, 0).iter_mut() {
                            *x = match c.cls.as_str() {
                                "zero" => 0,
                                "ext" | "extp" => 1,
                                _ => g.digit(2),
                            };
                        }
                        if c.cls == "alt" {
                            pt.at_mut(0, 0).fill(0);
                            pt.at_mut(0, 0)[(c.seed as usize) % n] = 1;
                        }
                    }
                    let a_infos = GGSWLayout {
                        n: Degree(n as u32),
                        base2k: Base2K(c.bin as u32),
                        k: TorusPrecision(c.kin as u32),
                        rank: Rank(rank as u32),
                        dnum: Dnum(c.adnum as u32),
                        dsize: Dsize(c.adsize as u32),
                    };
                    let a_enc = EncryptionLayout::new_from_default_sigma(a_infos).unwrap();
                    let mut a: GGSW<Vec<u8>> = GGSW::alloc_from_infos(&a_infos);
                    module.ggsw_encrypt_sk(&mut a, &pt, &sk_in_prep, &a_enc, &mut source_xe, &mut source_xa, scratch.borrow());
                    let fmt_cells = |g: &GGSW<Vec<u8>>, dnum: usize| -> String {
                        let mut v = Vec::new();
                        for r in 0..dnum {
                            for ci in 0..rank + 1 {
                                v.push(fmt_vec(g.at(r, ci).data()));
                            }
                        }
                        v.join("/")
                    };
                    let a_txt = fmt_cells(&a, c.adnum);
                    let res_infos = GGSWLayout {
                        n: Degree(n as u32),
                        base2k: Base2K(c.bout as u32),
                        k: TorusPrecision(c.kout as u32),
                        rank: Rank(rank as u32),
                        dnum: Dnum(c.rdnum as u32),
                        dsize: Dsize(c.adsize as u32),
                    };
                    let assign = c.op.ends_with("_assign");
                    let mut res: GGSW<Vec<u8>> = if assign { a.clone() } else { GGSW::alloc_from_infos(&res_infos) };
                    if !assign {
                        for r in 0..c.rdnum {
                            for ci in 0..rank + 1 {
                                for (i, x) in res.at_mut(r, ci).data_mut().raw_mut().iter_mut().enumerate() {
                                    *x = crate::fillpat::pat(0x7777 + i as i64, i);
                                }
                            }
                        }
                    }
                    let key_txt;
                    let r;
                    if is_ks {
                        let k_infos = EncryptionLayout::new_from_default_sigma(GLWESwitchingKeyLayout {
                            n: Degree(n as u32),
                            base2k: Base2K(c.bkey as u32),
                            k: TorusPrecision(c.kkey as u32),
                            dnum: Dnum(c.dnum as u32),
                            dsize: Dsize(c.dsize as u32),
                            rank_in: Rank(rank as u32),
                            rank_out: Rank(rank as u32),
                        })
                        .unwrap();
                        let mut ksk: GLWESwitchingKey<Vec<u8>> = GLWESwitchingKey::alloc_from_infos(&k_infos);
                        module.glwe_switching_key_encrypt_sk(&mut ksk, &sk_in, &sk_out, &k_infos, &mut source_xe, &mut source_xa, scratch.borrow());
                        let mut kp: GLWESwitchingKeyPrepared<DeviceBuf<BE>, BE> = module.glwe_switching_key_prepared_alloc_from_infos(&ksk);
                        module.glwe_switching_key_prepare(&mut kp, &ksk, scratch.borrow());
                        key_txt = format!("0:{}", fmt_gglwe(&ksk));
                        dirty(&mut scratch);
                        r = std::panic::catch_unwind(std::panic::AssertUnwindSafe(|| {
                            if assign {
                                module.ggsw_keyswitch_assign(&mut res, &kp, &tsk_prep, scratch.borrow());
                            } else {
                                module.ggsw_keyswitch(&mut res, &a, &kp, &tsk_prep, scratch.borrow());
                            }
                        }));
                    } else {
                        let k_infos = EncryptionLayout::new_from_default_sigma(GLWEAutomorphismKeyLayout {
                            n: Degree(n as u32),
                            base2k: Base2K(c.bkey as u32),
                            k: TorusPrecision(c.kkey as u32),
                            rank: Rank(rank as u32),
                            dnum: Dnum(c.dnum as u32),
                            dsize: Dsize(c.dsize as u32),
                        })
                        .unwrap();
                        let mut atk: GLWEAutomorphismKey<Vec<u8>> = GLWEAutomorphismKey::alloc_from_infos(&k_infos);
                        module.glwe_automorphism_key_encrypt_sk(&mut atk, c.p, &sk_out, &k_infos, &mut source_xe, &mut source_xa, scratch.borrow());
                        let mut kp: GLWEAutomorphismKeyPrepared<DeviceBuf<BE>, BE> = module.glwe_automorphism_key_prepared_alloc_from_infos(&atk);
                        module.glwe_automorphism_key_prepare(&mut kp, &atk, scratch.borrow());
                        key_txt = format!("{}:{}", c.p, fmt_gglwe(&atk));
                        dirty(&mut scratch);
                        r = std::panic::catch_unwind(std::panic::AssertUnwindSafe(|| {
                            if assign {
                                module.ggsw_automorphism_assign(&mut res, &kp, &tsk_prep, scratch.borrow());
                            } else {
                                module.ggsw_automorphism(&mut res, &a, &kp, &tsk_prep, scratch.borrow());
                            }
                        }));
                    }
                    let res_txt = match r {
                        Ok(()) => fmt_cells(&res, if assign { c.adnum } else { c.rdnum }),
                        Err(e) => {
                            let msg = if let Some(s) = e.downcast_ref::<String>() {
                                s.clone()
                            } else if let Some(s) = e.downcast_ref::<&str>() {
                                s.to_string()
                            } else {
                                String::new()
                            };
                            format!("panic:{}", panic_class(&msg))
                        }
                    };
                    format!(
                        "ok skin={} skout={} keys={} tsk={} m2={} a={} res={}",
                        fmt_secret(&secret_twin(n, rank, seed32(c.seed, if is_ks { 0 } else { 1 }))),
                        fmt_secret(&secret_twin(n, rank, seed32(c.seed, 1))),
                        key_txt,
                        tsk_txt.join("@"),
                        fmt_poly(pt.at(0, 0)),
                        a_txt,
                        res_txt
                    )
                }
                "lwe_ks" => {
                    let mut sk_in = LWESecret::alloc(Degree(c.nlin as u32));
                    sk_in.fill_ternary_prob(0.5, &mut Source::new(seed32(c.seed, 0)));
                    let mut sk_out = LWESecret::alloc(Degree(c.nlout as u32));
                    sk_out.fill_ternary_prob(0.5, &mut Source::new(seed32(c.seed, 1)));
                    let key_infos = EncryptionLayout::new_from_default_sigma(LWESwitchingKeyLayout {
                        n: Degree(n as u32),
                        base2k: Base2K(c.bkey as u32),
                        k: TorusPrecision(c.kkey as u32),
                        dnum: Dnum(c.dnum as u32),
                    })
                    .unwrap();
                    let mut ksk: LWESwitchingKey<Vec<u8>> = LWESwitchingKey::alloc_from_infos(&key_infos);
                    module.lwe_switching_key_encrypt_sk(&mut ksk, &sk_in, &sk_out, &key_infos, &mut source_xe, &mut source_xa, scratch.borrow());
                    let mut kp: LWESwitchingKeyPrepared<DeviceBuf<BE>, BE> = module.lwe_switching_key_prepared_alloc_from_infos(&ksk);
                    module.lwe_switching_key_prepare(&mut kp, &ksk, scratch.borrow());
                    let lwe_in_infos = LWELayout { n: Degree(c.nlin as u32), base2k: Base2K(c.bin as u32), k: TorusPrecision(c.kin as u32) };
                    let lwe_out_infos = LWELayout { n: Degree(c.nlout as u32), base2k: Base2K(c.bout as u32), k: TorusPrecision(c.kout as u32) };
                    let mut a: LWE<Vec<u8>> = LWE::alloc_from_infos(&lwe_in_infos);
                    if c.cls == "enc" {
                        let enc = EncryptionLayout::new_from_default_sigma(lwe_in_infos).unwrap();
                        let mut pt: LWEPlaintext<Vec<u8>> = LWEPlaintext::alloc_from_infos(&lwe_in_infos);
                        pt.encode_i64((c.seed % 200) as i64 - 100, TorusPrecision(8.min(c.kin as u32)));
                        module.lwe_encrypt_sk(&mut a, &pt, &sk_in, &enc, &mut source_xe, &mut source_xa, scratch.borrow());
                    } else {
                        fill_class(a.data_mut(), c.bin, &c.cls, c.seed);
                    }
                    let mut res: LWE<Vec<u8>> = LWE::alloc_from_infos(&lwe_out_infos);
                    garbage(res.data_mut());
                    dirty(&mut scratch);
                    module.lwe_keyswitch(&mut res, &a, &kp, scratch.borrow());
                    format!(
                        "ok skin={} skout={} keys=0:{} a={} res={}",
                        fmt_poly(sk_in.raw()),
                        fmt_poly(sk_out.raw()),
                        fmt_gglwe(&ksk),
                        fmt_vec(a.data()),
                        fmt_vec(res.data())
                    )
                }
                "glwe_to_lwe" | "extract" => {
                    let mut sk_glwe = GLWESecret::alloc(Degree(n as u32), Rank(c.rin as u32));
                    sk_glwe.fill_ternary_prob(0.5, &mut Source::new(seed32(c.seed, 0)));
                    let mut sk_lwe = LWESecret::alloc(Degree(c.nlout as u32));
                    sk_lwe.fill_ternary_prob(0.5, &mut Source::new(seed32(c.seed, 1)));
                    let a = make_glwe_in(&sk_glwe, &mut source_xe, &mut source_xa, &mut scratch);
                    let lwe_out_infos = LWELayout { n: Degree(c.nlout as u32), base2k: Base2K(c.bout as u32), k: TorusPrecision(c.kout as u32) };
                    let mut res: LWE<Vec<u8>> = LWE::alloc_from_infos(&lwe_out_infos);
                    garbage(res.data_mut());
                    if c.op == "extract" {
                        module.lwe_sample_extract(&mut res, &a);
                        return format!(
                            "ok skin={} skout={} keys=- a={} res={}",
                            fmt_secret(&secret_twin(n, c.rin, seed32(c.seed, 0))),
                            fmt_poly(sk_lwe.raw()),
                            fmt_vec(a.data()),
                            fmt_vec(res.data())
                        );
                    }
                    let key_infos = EncryptionLayout::new_from_default_sigma(GLWEToLWEKeyLayout {
                        n: Degree(n as u32),
                        base2k: Base2K(c.bkey as u32),
                        k: TorusPrecision(c.kkey as u32),
                        rank_in: Rank(c.rin as u32),
                        dnum: Dnum(c.dnum as u32),
                    })
                    .unwrap();
                    let mut ksk: GLWEToLWEKey<Vec<u8>> = GLWEToLWEKey::alloc_from_infos(&key_infos);
                    module.glwe_to_lwe_key_encrypt_sk(&mut ksk, &sk_lwe, &sk_glwe, &key_infos, &mut source_xe, &mut source_xa, scratch.borrow());
                    let mut kp: GLWEToLWEKeyPrepared<DeviceBuf<BE>, BE> = module.glwe_to_lwe_key_prepared_alloc_from_infos(&ksk);
                    module.glwe_to_lwe_key_prepare(&mut kp, &ksk, scratch.borrow());
                    dirty(&mut scratch);
                    module.lwe_from_glwe(&mut res, &a, c.idx, &kp, scratch.borrow());
                    format!(
                        "ok skin={} skout={} keys=0:{} a={} res={}",
                        fmt_secret(&secret_twin(n, c.rin, seed32(c.seed, 0))),
                        fmt_poly(sk_lwe.raw()),
                        fmt_gglwe(&ksk),
                        fmt_vec(a.data()),
                        fmt_vec(res.data())
                    )
                }
                "lwe_to_glwe" => {
                    let mut sk_lwe = LWESecret::alloc(Degree(c.nlin as u32));
                    sk_lwe.fill_ternary_prob(0.5, &mut Source::new(seed32(c.seed, 0)));
                    let mut sk_glwe = GLWESecret::alloc(Degree(n as u32), Rank(c.rout as u32));
                    sk_glwe.fill_ternary_prob(0.5, &mut Source::new(seed32(c.seed, 1)));
                    let mut skp: GLWESecretPrepared<DeviceBuf<BE>, BE> = module.glwe_secret_prepared_alloc(Rank(c.rout as u32));
                    module.glwe_secret_prepare(&mut skp, &sk_glwe);
                    let key_infos = EncryptionLayout::new_from_default_sigma(LWEToGLWEKeyLayout {
                        n: Degree(n as u32),
                        base2k: Base2K(c.bkey as u32),
                        k: TorusPrecision(c.kkey as u32),
                        rank_out: Rank(c.rout as u32),
                        dnum: Dnum(c.dnum as u32),
                    })
                    .unwrap();
                    let mut ksk: LWEToGLWEKey<Vec<u8>> = LWEToGLWEKey::alloc_from_infos(&key_infos);
                    module.lwe_to_glwe_key_encrypt_sk(&mut ksk, &sk_lwe, &skp, &key_infos, &mut source_xe, &mut source_xa, scratch.borrow());
                    let mut kp: LWEToGLWEKeyPrepared<DeviceBuf<BE>, BE> = module.lwe_to_glwe_key_prepared_alloc_from_infos(&ksk);
                    module.lwe_to_glwe_key_prepare(&mut kp, &ksk, scratch.borrow());
                    let lwe_in_infos = LWELayout { n: Degree(c.nlin as u32), base2k: Base2K(c.bin as u32), k: TorusPrecision(c.kin as u32) };
                    let mut a: LWE<Vec<u8>> = LWE::alloc_from_infos(&lwe_in_infos);
                    if c.cls == "enc" {
                        let enc = EncryptionLayout::new_from_default_sigma(lwe_in_infos).unwrap();
                        let mut pt: LWEPlaintext<Vec<u8>> = LWEPlaintext::alloc_from_infos(&lwe_in_infos);
                        pt.encode_i64((c.seed % 200) as i64 - 100, TorusPrecision(8.min(c.kin as u32)));
                        module.lwe_encrypt_sk(&mut a, &pt, &sk_lwe, &enc, &mut source_xe, &mut source_xa, scratch.borrow());
                    } else {
                        fill_class(a.data_mut(), c.bin, &c.cls, c.seed);
                    }
                    let mut res: GLWE<Vec<u8>> = GLWE::alloc_from_infos(&glwe_out_infos);
                    garbage(res.data_mut());
                    dirty(&mut scratch);
                    module.glwe_from_lwe(&mut res, &a, &kp, scratch.borrow());
                    format!(
                        "ok skin={} skout={} keys=0:{} a={} res={}",
                        fmt_poly(sk_lwe.raw()),
                        fmt_secret(&secret_twin(n, c.rout, seed32(c.seed, 1))),
                        fmt_gglwe(&ksk),
                        fmt_vec(a.data()),
                        fmt_vec(res.data())
                    )
                }
                _ => "err:bad-op".to_string(),
            }
        }
    };
}

ks_backend!(run_fft64ref, poulpy_cpu_ref::FFT64Ref);
ks_backend!(run_ntt120ref, poulpy_cpu_ref::NTT120Ref);
ks_backend!(run_fft64avx, poulpy_cpu_avx::FFT64Avx);
ks_backend!(run_ntt120avx, poulpy_cpu_avx::NTT120Avx);

pub fn run(_args: &[String]) {
    std::panic::set_hook(Box::new(|_| {}));
    let stdin = std::io::stdin();
    let stdout = std::io::stdout();
    let mut out = std::io::BufWriter::new(stdout.lock());
    for line in stdin.lock().lines() {
        let line = line.unwrap();
        crate::fillpat::set_from_line(&line);
        let toks: Vec<&str> = line.split_whitespace().collect();
        if toks.is_empty() {
            continue;
        }
        let id = toks[0];
        let case = parse_case(&toks[1..]);
        let r = std::panic::catch_unwind(std::panic::AssertUnwindSafe(|| match case.be.as_str() {
            "fft64ref" => run_fft64ref(&case),
            "ntt120ref" => run_ntt120ref(&case),
            "fft64avx" => run_fft64avx(&case),
            "ntt120avx" => run_ntt120avx(&case),
            _ => "err:bad-backend".to_string(),
        }));
        match r {
            Ok(s) => writeln!(out, "{id} {s}").unwrap(),
            Err(e) => {
                let msg = if let Some(s) = e.downcast_ref::<String>() {
                    s.clone()
                } else if let Some(s) = e.downcast_ref::<&str>() {
                    s.to_string()
                } else {
                    String::new()
                };
                writeln!(out, "{id} panic:{}", panic_class(&msg)).unwrap()
            }
        }
    }
    out.flush().unwrap();
}
