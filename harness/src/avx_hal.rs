use crate::avx_kern::Req;
pub fn hal(_r: &Req) -> String { "todo".into() }
pub fn sample(_r: &Req) -> String { "todo".into() }
