//! `pvh avx` — HAL mode: one HAL operation (or a short DFT-domain pipeline ending in the coefficient
//! domain) on one back end.  Inputs are generated *here*, by a SplitMix64 seeded from the request, so
//! they are identical for every back end; `dump=1` prints them.  The answer is every limb of every
//! output column (flattened storage order, `;` between several outputs).
//!
//! request: `id hal be=<fref|favx|nref|navx> op=<name> n= [cols=] [sa=] [sb=] [sr=] [b=] [b2=] [off=] [k=] [p=]
//!           [va=norm|full|bnd|mix] [ma=bits] [vb=..] [mb=..] [dbl=] [seed=] [dump=1]`
//! `id sample be=.. op=<fill_uniform|fill_normal|add_normal|big_add_normal> n= size= b= k= seed=` → limbs + `|next:<i64>`
use poulpy_cpu_avx::{FFT64Avx, NTT120Avx};
use poulpy_cpu_ref::{FFT64Ref, NTT120Ref};
use poulpy_hal::{
    api::*,
    layouts::{
        Backend, CnvPVecL, CnvPVecR, DeviceBuf, MatZnx, Module, NoiseInfos, ScalarZnx, ScratchOwned, SvpPPol, VecZnx, VecZnxBig,
        VecZnxDft, VmpPMat, ZnxInfos, ZnxView, ZnxViewMut,
    },
    source::Source,
};

use crate::avx_kern::{Req, show};

pub trait Hal<BE: Backend>:
    ModuleN
    + CnvPVecAlloc<BE>
    + Convolution<BE>
    + SvpPPolAlloc<BE>
    + SvpPrepare<BE>
    + SvpApplyDft<BE>
    + SvpApplyDftToDft<BE>
    + SvpApplyDftToDftAssign<BE>
    + VecZnxNormalizeTmpBytes
    + VecZnxZero
    + VecZnxNormalize<BE>
    + VecZnxNormalizeAssign<BE>
    + VecZnxAddInto
    + VecZnxAddAssign
    + VecZnxAddScalarInto
    + VecZnxAddScalarAssign
    + VecZnxSub
    + VecZnxSubAssign
    + VecZnxSubNegateAssign
    + VecZnxSubScalar
    + VecZnxSubScalarAssign
    + VecZnxNegate
    + VecZnxNegateAssign
    + VecZnxLsh<BE>
    + VecZnxLshAddInto<BE>
    + VecZnxRsh<BE>
    + VecZnxRshAddInto<BE>
    + VecZnxLshSub<BE>
    + VecZnxRshSub<BE>
    + VecZnxLshAssign<BE>
    + VecZnxRshAssign<BE>
    + VecZnxRotate
    + VecZnxRotateAssign<BE>
    + VecZnxAutomorphism
    + VecZnxAutomorphismAssign<BE>
    + VecZnxMulXpMinusOne
    + VecZnxMulXpMinusOneAssign<BE>
    + VecZnxSplitRing<BE>
    + VecZnxMergeRings<BE>
    + VecZnxSwitchRing
    + VecZnxCopy
    + VecZnxFillUniform
    + VecZnxFillNormal
    + VecZnxAddNormal
    + VecZnxBigFromSmall<BE>
    + VecZnxBigAlloc<BE>
    + VecZnxBigAddNormal<BE>
    + VecZnxBigAddInto<BE>
    + VecZnxBigAddAssign<BE>
    + VecZnxBigAddSmallInto<BE>
    + VecZnxBigAddSmallAssign<BE>
    + VecZnxBigSub<BE>
    + VecZnxBigSubAssign<BE>
    + VecZnxBigSubNegateAssign<BE>
    + VecZnxBigSubSmallA<BE>
    + VecZnxBigSubSmallAssign<BE>
    + VecZnxBigSubSmallB<BE>
    + VecZnxBigSubSmallNegateAssign<BE>
    + VecZnxBigNegate<BE>
    + VecZnxBigNegateAssign<BE>
    + VecZnxBigNormalize<BE>
    + VecZnxBigAutomorphism<BE>
    + VecZnxBigAutomorphismAssign<BE>
    + VecZnxDftAlloc<BE>
    + VecZnxDftApply<BE>
    + VecZnxIdftApply<BE>
    + VecZnxIdftApplyTmpA<BE>
    + VecZnxIdftApplyConsume<BE>
    + VecZnxDftAddInto<BE>
    + VecZnxDftAddAssign<BE>
    + VecZnxDftAddScaledAssign<BE>
    + VecZnxDftSub<BE>
    + VecZnxDftSubAssign<BE>
    + VecZnxDftSubNegateAssign<BE>
    + VecZnxDftCopy<BE>
    + VecZnxDftZero<BE>
    + VmpPMatAlloc<BE>
    + VmpPrepare<BE>
    + VmpApplyDft<BE>
    + VmpApplyDftToDft<BE>
{
}
impl<BE: Backend, T> Hal<BE> for T where
    T: ModuleN
        + CnvPVecAlloc<BE>
        + Convolution<BE>
        + SvpPPolAlloc<BE>
        + SvpPrepare<BE>
        + SvpApplyDft<BE>
        + SvpApplyDftToDft<BE>
        + SvpApplyDftToDftAssign<BE>
        + VecZnxNormalizeTmpBytes
        + VecZnxZero
        + VecZnxNormalize<BE>
        + VecZnxNormalizeAssign<BE>
        + VecZnxAddInto
        + VecZnxAddAssign
        + VecZnxAddScalarInto
        + VecZnxAddScalarAssign
        + VecZnxSub
        + VecZnxSubAssign
        + VecZnxSubNegateAssign
        + VecZnxSubScalar
        + VecZnxSubScalarAssign
        + VecZnxNegate
        + VecZnxNegateAssign
        + VecZnxLsh<BE>
        + VecZnxLshAddInto<BE>
        + VecZnxRsh<BE>
        + VecZnxRshAddInto<BE>
        + VecZnxLshSub<BE>
        + VecZnxRshSub<BE>
        + VecZnxLshAssign<BE>
        + VecZnxRshAssign<BE>
        + VecZnxRotate
        + VecZnxRotateAssign<BE>
        + VecZnxAutomorphism
        + VecZnxAutomorphismAssign<BE>
        + VecZnxMulXpMinusOne
        + VecZnxMulXpMinusOneAssign<BE>
        + VecZnxSplitRing<BE>
        + VecZnxMergeRings<BE>
        + VecZnxSwitchRing
        + VecZnxCopy
        + VecZnxFillUniform
        + VecZnxFillNormal
        + VecZnxAddNormal
        + VecZnxBigFromSmall<BE>
        + VecZnxBigAlloc<BE>
        + VecZnxBigAddNormal<BE>
        + VecZnxBigAddInto<BE>
        + VecZnxBigAddAssign<BE>
        + VecZnxBigAddSmallInto<BE>
        + VecZnxBigAddSmallAssign<BE>
        + VecZnxBigSub<BE>
        + VecZnxBigSubAssign<BE>
        + VecZnxBigSubNegateAssign<BE>
        + VecZnxBigSubSmallA<BE>
        + VecZnxBigSubSmallAssign<BE>
        + VecZnxBigSubSmallB<BE>
        + VecZnxBigSubSmallNegateAssign<BE>
        + VecZnxBigNegate<BE>
        + VecZnxBigNegateAssign<BE>
        + VecZnxBigNormalize<BE>
        + VecZnxBigAutomorphism<BE>
        + VecZnxBigAutomorphismAssign<BE>
        + VecZnxDftAlloc<BE>
        + VecZnxDftApply<BE>
        + VecZnxIdftApply<BE>
        + VecZnxIdftApplyTmpA<BE>
        + VecZnxIdftApplyConsume<BE>
        + VecZnxDftAddInto<BE>
        + VecZnxDftAddAssign<BE>
        + VecZnxDftAddScaledAssign<BE>
        + VecZnxDftSub<BE>
        + VecZnxDftSubAssign<BE>
        + VecZnxDftSubNegateAssign<BE>
        + VecZnxDftCopy<BE>
        + VecZnxDftZero<BE>
        + VmpPMatAlloc<BE>
        + VmpPrepare<BE>
        + VmpApplyDft<BE>
        + VmpApplyDftToDft<BE>
{
}

pub struct Sm(pub u64);
impl Sm {
    pub fn next(&mut self) -> u64 {
        self.0 = self.0.wrapping_add(0x9E3779B97F4A7C15);
        let mut z = self.0;
        z = (z ^ (z >> 30)).wrapping_mul(0xBF58476D1CE4E5B9);
        z = (z ^ (z >> 27)).wrapping_mul(0x94D049BB133111EB);
        z ^ (z >> 31)
    }
    /// one value of class `cls` with magnitude `m` bits (`|v| ≤ 2^(m-1)`)
    pub fn val(&mut self, cls: &str, m: usize) -> i64 {
        let m = m.clamp(1, 64);
        let norm = |r: u64| -> i64 { ((r << (64 - m)) as i64) >> (64 - m) };
        let half: i64 = if m >= 64 { i64::MIN } else { 1i64 << (m - 1) };
        let bnd = |r: u64| -> i64 {
            match r % 11 {
                0 => 0,
                1 => 1,
                2 => -1,
                3 => half.wrapping_neg().wrapping_neg().wrapping_sub(if m >= 64 { 0 } else { 0 }),
                4 => half.wrapping_neg(),
                5 => half.wrapping_sub(1),
                6 => half.wrapping_sub(1).wrapping_neg(),
                7 => 1i64 << 62,
                8 => -(1i64 << 62),
                9 => i64::MIN,
                _ => i64::MAX,
            }
        };
        let r = self.next();
        match cls {
            "full" => r as i64,
            "max" => half.wrapping_sub(1),
            "min" => half.wrapping_neg(),
            "ext" => {
                if r & 1 == 0 {
                    half.wrapping_sub(1)
                } else {
                    half.wrapping_neg()
                }
            }
            "bnd" => bnd(r),
            "zero" => 0,
            "mix" => match self.next() % 4 {
                0 => bnd(r),
                1 => r as i64,
                _ => norm(r),
            },
            _ => norm(r),
        }
    }
}

fn fill(v: &mut [i64], rng: &mut Sm, cls: &str, m: usize) {
    for x in v.iter_mut() {
        *x = rng.val(cls, m);
    }
}

struct P<'a> {
    r: &'a Req<'a>,
    n: usize,
    cols: usize,
    sa: usize,
    sb: usize,
    sr: usize,
    b: usize,
    b2: usize,
    off: i64,
    k: usize,
    p: i64,
    va: &'a str,
    vb: &'a str,
    ma: usize,
    mb: usize,
    dump: bool,
}

fn or1(x: usize) -> usize {
    if x == 0 { 1 } else { x }
}

fn fnv_i64(v: &[i64]) -> u64 {
    let mut h: u64 = 0xcbf29ce484222325;
    for x in v {
        for b in x.to_le_bytes() {
            h ^= b as u64;
            h = h.wrapping_mul(0x100000001b3);
        }
    }
    h
}

/// every limb for small rings; hash + length + first limbs beyond 1024 scalars
fn show_big(v: &[i64]) -> String {
    if v.len() <= 1024 {
        show(v)
    } else {
        format!("h={:016x} len={} head={}", fnv_i64(v), v.len(), show(&v[..8]))
    }
}

fn raw_hash<T>(v: &[T]) -> String {
    let bytes: &[u8] = unsafe { std::slice::from_raw_parts(v.as_ptr() as *const u8, std::mem::size_of_val(v)) };
    let mut h: u64 = 0xcbf29ce484222325;
    for b in bytes {
        h ^= *b as u64;
        h = h.wrapping_mul(0x100000001b3);
    }
    let head: Vec<String> = bytes.chunks(8).take(6).map(|c| format!("{:016x}", u64::from_le_bytes(c.try_into().unwrap_or([0; 8])))).collect();
    format!("raw h={:016x} bytes={} head={}", h, bytes.len(), head.join(","))
}

fn flat(v: &VecZnx<Vec<u8>>) -> String {
    show_big(v.raw())
}

pub fn hal(r: &Req) -> String {
    match r.get("be").unwrap_or("") {
        "fref" => run::<FFT64Ref>(r),
        "favx" => run::<FFT64Avx>(r),
        "nref" => run::<NTT120Ref>(r),
        "navx" => run::<NTT120Avx>(r),
        _ => "bad-be".to_string(),
    }
}

fn run<BE: Backend>(r: &Req) -> String
where
    Module<BE>: Hal<BE> + ModuleNew<BE>,
    ScratchOwned<BE>: ScratchOwnedAlloc<BE> + ScratchOwnedBorrow<BE>,
{
    let p = P {
        r,
        n: r.usize("n"),
        cols: or1(r.usize("cols")),
        sa: or1(r.usize("sa")),
        sb: or1(r.usize("sb")),
        sr: or1(r.usize("sr")),
        b: r.usize("b"),
        b2: if r.get("b2").is_some() { r.usize("b2") } else { r.usize("b") },
        off: r.i64("off"),
        k: r.usize("k"),
        p: r.i64("p"),
        va: r.get("va").unwrap_or("norm"),
        vb: r.get("vb").unwrap_or("norm"),
        ma: if r.get("ma").is_some() { r.usize("ma") } else { r.usize("b") },
        mb: if r.get("mb").is_some() { r.usize("mb") } else { r.usize("b") },
        dump: r.usize("dump") == 1,
    };
    let op = r.get("op").unwrap_or("");
    let n = p.n;
    let module: Module<BE> = Module::<BE>::new(n as u64);
    let mut scratch: ScratchOwned<BE> = ScratchOwned::alloc((1usize << 19).max(n * 8 * 96));
    let mut rng = Sm(r.i64("seed") as u64);
    let cols = p.cols;

    // operands
    let mut a: VecZnx<Vec<u8>> = VecZnx::alloc(n, cols, p.sa);
    let mut b: VecZnx<Vec<u8>> = VecZnx::alloc(n, cols, p.sb);
    let mut res: VecZnx<Vec<u8>> = VecZnx::alloc(n, cols, p.sr);
    fill(a.raw_mut(), &mut rng, p.va, p.ma);
    fill(b.raw_mut(), &mut rng, p.vb, p.mb);
    // the destination starts with the same garbage on every back end; `assign` forms start from `a`-class data
    let res_cls = r.get("vr").unwrap_or("full");
    let mr = if r.get("mr").is_some() { r.usize("mr") } else { 64 };
    fill(res.raw_mut(), &mut rng, res_cls, mr);
    let mut sc: ScalarZnx<Vec<u8>> = ScalarZnx::alloc(n, cols);
    fill(sc.raw_mut(), &mut rng, p.vb, p.mb);
    // `widths=1`: no operation, only the histogram of the two's-complement widths (1..=64 bits) of every operand digit this request
    // would feed to the back end (a, b, the scalar / constant vector), in buckets <=16, 17..32, 33..48, 49..63, 64
    if r.usize("widths") == 1 {
        let mut h = [0u64; 5];
        let mut put = |x: i64| {
            let w = 65 - (if x < 0 { !x } else { x }).leading_zeros() as usize; // sign bit included
            h[if w <= 16 { 0 } else if w <= 32 { 1 } else if w <= 48 { 2 } else if w <= 63 { 3 } else { 4 }] += 1;
        };
        a.raw().iter().for_each(|x| put(*x));
        b.raw().iter().for_each(|x| put(*x));
        sc.raw().iter().for_each(|x| put(*x));
        return format!("{},{},{},{},{}", h[0], h[1], h[2], h[3], h[4]);
    }
    let mut pre = String::new();
    if p.dump {
        pre = format!("a={} b={} res0={} sc={} => ", flat(&a), flat(&b), flat(&res), show(sc.raw()));
    }
    let c = (r.usize("col")) % cols; // column operated on
    let c2 = (c + 1) % cols;
    let out: String = match op {
        // ------------------------------------------------------------------ vec_znx
        "normalize" => {
            module.vec_znx_normalize(&mut res, p.b, p.off, c, &a, p.b2, c2, scratch.borrow());
            flat(&res)
        }
        "normalize_assign" => {
            module.vec_znx_normalize_assign(p.b, &mut a, c, scratch.borrow());
            flat(&a)
        }
        "add_into" => {
            module.vec_znx_add_into(&mut res, c, &a, c2, &b, c);
            flat(&res)
        }
        "add_assign" => {
            module.vec_znx_add_assign(&mut res, c, &a, c2);
            flat(&res)
        }
        "sub" => {
            module.vec_znx_sub(&mut res, c, &a, c2, &b, c);
            flat(&res)
        }
        "sub_assign" => {
            module.vec_znx_sub_assign(&mut res, c, &a, c2);
            flat(&res)
        }
        "sub_negate_assign" => {
            module.vec_znx_sub_negate_assign(&mut res, c, &a, c2);
            flat(&res)
        }
        "negate" => {
            module.vec_znx_negate(&mut res, c, &a, c2);
            flat(&res)
        }
        "negate_assign" => {
            module.vec_znx_negate_assign(&mut a, c);
            flat(&a)
        }
        "add_scalar_into" => {
            module.vec_znx_add_scalar_into(&mut res, c, &sc, c2, &b, c, p.k % p.sb);
            flat(&res)
        }
        "add_scalar_assign" => {
            module.vec_znx_add_scalar_assign(&mut res, c, p.k % p.sr, &sc, c2);
            flat(&res)
        }
        "sub_scalar" => {
            module.vec_znx_sub_scalar(&mut res, c, &sc, c2, &b, c, p.k % p.sb);
            flat(&res)
        }
        "sub_scalar_assign" => {
            module.vec_znx_sub_scalar_assign(&mut res, c, p.k % p.sr, &sc, c2);
            flat(&res)
        }
        "lsh" => {
            module.vec_znx_lsh(p.b, p.k, &mut res, c, &a, c2, scratch.borrow());
            flat(&res)
        }
        "rsh" => {
            module.vec_znx_rsh(p.b, p.k, &mut res, c, &a, c2, scratch.borrow());
            flat(&res)
        }
        "lsh_add_into" => {
            module.vec_znx_lsh_add_into(p.b, p.k, &mut res, c, &a, c2, scratch.borrow());
            flat(&res)
        }
        "rsh_add_into" => {
            module.vec_znx_rsh_add_into(p.b, p.k, &mut res, c, &a, c2, scratch.borrow());
            flat(&res)
        }
        "lsh_sub" => {
            module.vec_znx_lsh_sub(p.b, p.k, &mut res, c, &a, c2, scratch.borrow());
            flat(&res)
        }
        "rsh_sub" => {
            module.vec_znx_rsh_sub(p.b, p.k, &mut res, c, &a, c2, scratch.borrow());
            flat(&res)
        }
        "lsh_assign" => {
            module.vec_znx_lsh_assign(p.b, p.k, &mut a, c, scratch.borrow());
            flat(&a)
        }
        "rsh_assign" => {
            module.vec_znx_rsh_assign(p.b, p.k, &mut a, c, scratch.borrow());
            flat(&a)
        }
        "rotate" => {
            module.vec_znx_rotate(p.p, &mut res, c, &a, c2);
            flat(&res)
        }
        "rotate_assign" => {
            module.vec_znx_rotate_assign(p.p, &mut a, c, scratch.borrow());
            flat(&a)
        }
        "automorphism" => {
            module.vec_znx_automorphism(p.p, &mut res, c, &a, c2);
            flat(&res)
        }
        "automorphism_assign" => {
            module.vec_znx_automorphism_assign(p.p, &mut a, c, scratch.borrow());
            flat(&a)
        }
        "mul_xp_minus_one" => {
            module.vec_znx_mul_xp_minus_one(p.p, &mut res, c, &a, c2);
            flat(&res)
        }
        "mul_xp_minus_one_assign" => {
            module.vec_znx_mul_xp_minus_one_assign(p.p, &mut a, c, scratch.borrow());
            flat(&a)
        }
        "copy" => {
            module.vec_znx_copy(&mut res, c, &a, c2);
            flat(&res)
        }
        "zero" => {
            module.vec_znx_zero(&mut res, c);
            flat(&res)
        }
        "switch_ring" => {
            // res lives in the ring of degree `n2`
            let n2 = r.usize("n2");
            let mut r2: VecZnx<Vec<u8>> = VecZnx::alloc(n2, cols, p.sr);
            fill(r2.raw_mut(), &mut rng, "full", 64);
            module.vec_znx_switch_ring(&mut r2, c, &a, c2);
            flat(&r2)
        }
        "split_ring" => {
            let parts = or1(r.usize("parts"));
            let mut rs: Vec<VecZnx<Vec<u8>>> = (0..parts).map(|_| VecZnx::alloc(n / parts, cols, p.sr)).collect();
            for x in rs.iter_mut() {
                fill(x.raw_mut(), &mut rng, "full", 64);
            }
            module.vec_znx_split_ring(&mut rs, c, &a, c2, scratch.borrow());
            rs.iter().map(flat).collect::<Vec<_>>().join(";")
        }
        "merge_rings" => {
            let parts = or1(r.usize("parts"));
            let mut xs: Vec<VecZnx<Vec<u8>>> = (0..parts).map(|_| VecZnx::alloc(n / parts, cols, p.sa)).collect();
            for x in xs.iter_mut() {
                fill(x.raw_mut(), &mut rng, p.va, p.ma);
            }
            module.vec_znx_merge_rings(&mut res, c, &xs, c2, scratch.borrow());
            flat(&res)
        }
        // ------------------------------------------------------------------ vec_znx_big (result normalised to VecZnx)
        o if o.starts_with("big_") => {
            let dbl = r.usize("dbl");
            let mut ba = module.vec_znx_big_alloc(cols, p.sa);
            let mut bb = module.vec_znx_big_alloc(cols, p.sb);
            let mut br = module.vec_znx_big_alloc(cols, p.sr);
            for i in 0..cols {
                module.vec_znx_big_from_small(&mut ba, i, &a, i);
                module.vec_znx_big_from_small(&mut bb, i, &b, i);
                module.vec_znx_big_from_small(&mut br, i, &res, i);
            }
            // enlarge: x ← 2x, `dbl` times (wrapping in the back end's own big type)
            for _ in 0..dbl {
                for i in 0..cols {
                    let t = {
                        let mut t = module.vec_znx_big_alloc(cols, p.sa);
                        module.vec_znx_big_add_into(&mut t, i, &ba, i, &ba, i);
                        t
                    };
                    module.vec_znx_big_add_into(&mut ba, i, &t, i, &bb, i);
                    module.vec_znx_big_sub_assign(&mut ba, i, &bb, i);
                }
            }
            let mut which = 0; // 0: br is the result, 1: ba (assign forms on a)
            match &o[4..] {
                "from_small" => {}
                "add_into" => module.vec_znx_big_add_into(&mut br, c, &ba, c2, &bb, c),
                "add_assign" => module.vec_znx_big_add_assign(&mut br, c, &ba, c2),
                "add_small_into" => module.vec_znx_big_add_small_into(&mut br, c, &ba, c2, &b, c),
                "add_small_assign" => module.vec_znx_big_add_small_assign(&mut br, c, &a, c2),
                "sub" => module.vec_znx_big_sub(&mut br, c, &ba, c2, &bb, c),
                "sub_assign" => module.vec_znx_big_sub_assign(&mut br, c, &ba, c2),
                "sub_negate_assign" => module.vec_znx_big_sub_negate_assign(&mut br, c, &ba, c2),
                "sub_small_a" => module.vec_znx_big_sub_small_a(&mut br, c, &a, c2, &bb, c),
                "sub_small_b" => module.vec_znx_big_sub_small_b(&mut br, c, &ba, c2, &b, c),
                "sub_small_assign" => module.vec_znx_big_sub_small_assign(&mut br, c, &a, c2),
                "sub_small_negate_assign" => module.vec_znx_big_sub_small_negate_assign(&mut br, c, &a, c2),
                "negate" => module.vec_znx_big_negate(&mut br, c, &ba, c2),
                "negate_assign" => {
                    module.vec_znx_big_negate_assign(&mut ba, c);
                    which = 1
                }
                "automorphism" => module.vec_znx_big_automorphism(p.p, &mut br, c, &ba, c2),
                "automorphism_assign" => {
                    module.vec_znx_big_automorphism_assign(p.p, &mut ba, c, scratch.borrow());
                    which = 1
                }
                "normalize" | "normalize_add_assign" | "normalize_sub_assign" | "normalize_negate" => which = 2,
                _ => return "bad-op".to_string(),
            }
            match which {
                2 => {
                    // res (radix b) ← normalise(ba (radix b2)) with offset
                    match &o[4..] {
                        "normalize" => module.vec_znx_big_normalize(&mut res, p.b, p.off, c, &ba, p.b2, c2, scratch.borrow()),
                        "normalize_add_assign" => {
                            module.vec_znx_big_normalize_add_assign(&mut res, p.b, p.off, c, &ba, p.b2, c2, scratch.borrow())
                        }
                        "normalize_sub_assign" => {
                            module.vec_znx_big_normalize_sub_assign(&mut res, p.b, p.off, c, &ba, p.b2, c2, scratch.borrow())
                        }
                        _ => module.vec_znx_big_normalize_negate(&mut res, p.b, p.off, c, &ba, p.b2, c2, scratch.borrow()),
                    }
                    flat(&res)
                }
                w => {
                    let src = if w == 1 { &ba } else { &br };
                    let sz = if w == 1 { p.sa } else { p.sr };
                    // read-out: enough limbs for |x| < 2^127 at radix b, every column
                    let extra = 128usize.div_ceil(p.b.max(1)) + 1;
                    let mut o2: VecZnx<Vec<u8>> = VecZnx::alloc(n, cols, sz + extra);
                    for i in 0..cols {
                        module.vec_znx_big_normalize(&mut o2, p.b, -((extra * p.b) as i64), i, src, p.b, i, scratch.borrow());
                    }
                    flat(&o2)
                }
            }
        }
        // ------------------------------------------------------------------ DFT domain → coefficient domain
        o if o.starts_with("dft_") || o.starts_with("svp_") || o.starts_with("vmp_") || o.starts_with("cnv_") => dft_ops::<BE>(&module, &p, o, &a, &b, &sc, &mut rng, &mut scratch),
        _ => "bad-op".to_string(),
    };
    pre + &out
}

type DftO<BE> = VecZnxDft<DeviceBuf<BE>, BE>;
type BigO<BE> = VecZnxBig<DeviceBuf<BE>, BE>;

/// normalise every column of a big vector at radix `b` into a fresh VecZnx of `size` limbs
fn read_big<BE: Backend>(module: &Module<BE>, big: &BigO<BE>, cols: usize, size: usize, b: usize, scratch: &mut ScratchOwned<BE>) -> String
where
    Module<BE>: Hal<BE>,
    ScratchOwned<BE>: ScratchOwnedBorrow<BE>,
{
    let mut o: VecZnx<Vec<u8>> = VecZnx::alloc(module.n(), cols, size);
    for i in 0..cols {
        module.vec_znx_big_normalize(&mut o, b, 0, i, big, b, i, scratch.borrow());
    }
    show_big(o.raw())
}

#[allow(clippy::too_many_arguments)]
fn dft_ops<BE: Backend>(
    module: &Module<BE>,
    p: &P,
    op: &str,
    a: &VecZnx<Vec<u8>>,
    b: &VecZnx<Vec<u8>>,
    sc: &ScalarZnx<Vec<u8>>,
    rng: &mut Sm,
    scratch: &mut ScratchOwned<BE>,
) -> String
where
    Module<BE>: Hal<BE>,
    ScratchOwned<BE>: ScratchOwnedAlloc<BE> + ScratchOwnedBorrow<BE>,
{
    let r = p.r;
    let n = p.n;
    let cols = p.cols;
    let c = r.usize("col") % cols;
    let c2 = (c + 1) % cols;
    let step = or1(r.usize("step"));
    let doff = r.usize("doff");
    // garbage in every DFT destination: stale limbs must show
    // a defined, non-zero prefill (the DFT of small polynomials) instead of raw bytes
    let garbage = |d: &mut DftO<BE>, rng: &mut Sm| {
        let (dc, ds) = (d.cols(), d.size());
        let mut g: VecZnx<Vec<u8>> = VecZnx::alloc(n, dc, ds);
        fill(g.raw_mut(), rng, "norm", 4);
        for i in 0..dc {
            module.vec_znx_dft_apply(1, 0, d, i, &g, i);
        }
    };
    if op == "cnv_by_const_apply" {
        // an integer kernel on every back end (FFT64: wrapping i64, NTT120: exact i128): no transform of the operands, so that
        // full-range digits never meet the |x| < 2^50 conversion assertion of the floating-point path
        let cnv_offset = r.usize("co");
        let bc: Vec<i64> = (0..p.sb).map(|_| rng.val(p.vb, p.mb)).collect();
        let mut bg: BigO<BE> = module.vec_znx_big_alloc(1, p.sr);
        module.cnv_by_const_apply(cnv_offset, &mut bg, 0, a, c, &bc, scratch.borrow());
        let pre = if p.dump { format!("bconst={} => ", show(&bc)) } else { String::new() };
        return pre + &read_big(module, &bg, 1, p.sr, p.b, scratch);
    }
    let mut a_dft: DftO<BE> = module.vec_znx_dft_alloc(cols, p.sa);
    let mut b_dft: DftO<BE> = module.vec_znx_dft_alloc(cols, p.sb);
    let mut r_dft: DftO<BE> = module.vec_znx_dft_alloc(cols, p.sr);
    garbage(&mut a_dft, rng);
    garbage(&mut b_dft, rng);
    garbage(&mut r_dft, rng);
    for i in 0..cols {
        module.vec_znx_dft_apply(1, 0, &mut a_dft, i, a, i);
        module.vec_znx_dft_apply(1, 0, &mut b_dft, i, b, i);
    }
    let mut big: BigO<BE> = module.vec_znx_big_alloc(cols, p.sr);
    let idft_all = |module: &Module<BE>, big: &mut BigO<BE>, d: &DftO<BE>, scratch: &mut ScratchOwned<BE>| {
        for i in 0..cols {
            module.vec_znx_idft_apply(big, i, d, i, scratch.borrow());
        }
    };
    match op {
        "dft_fft_raw" => {
            // the forward transform itself: raw DFT-domain words of dft(a)
            return raw_hash(a_dft.raw());
        }
        "dft_ifft_raw" => {
            // forward then inverse transform, raw big-coefficient words (before any normalisation)
            let mut bg: BigO<BE> = module.vec_znx_big_alloc(cols, p.sa);
            for i in 0..cols {
                module.vec_znx_idft_apply(&mut bg, i, &a_dft, i, scratch.borrow());
            }
            return raw_hash(bg.raw());
        }
        "dft_apply" => {
            // r_dft has sr limbs; limb j ← a limb offset + j*step (zero beyond a)
            module.vec_znx_dft_apply(step, doff, &mut r_dft, c, a, c2);
            for i in 0..cols {
                if i != c {
                    module.vec_znx_dft_zero(&mut r_dft, i);
                }
            }
            idft_all(module, &mut big, &r_dft, scratch);
        }
        "dft_idft_tmpa" => {
            module.vec_znx_dft_apply(step, doff, &mut r_dft, c, a, c2);
            for i in 0..cols {
                if i != c {
                    module.vec_znx_dft_zero(&mut r_dft, i);
                }
            }
            for i in 0..cols {
                module.vec_znx_idft_apply_tmpa(&mut big, i, &mut r_dft, i);
            }
        }
        "dft_idft_consume" => {
            module.vec_znx_dft_apply(step, doff, &mut r_dft, c, a, c2);
            for i in 0..cols {
                if i != c {
                    module.vec_znx_dft_zero(&mut r_dft, i);
                }
            }
            let bg = module.vec_znx_idft_apply_consume(r_dft);
            return read_big(module, &bg, cols, p.sr, p.b, scratch);
        }
        "dft_add_into" | "dft_add_assign" | "dft_sub" | "dft_sub_assign" | "dft_sub_negate_assign" | "dft_add_scaled_assign"
        | "dft_copy" | "dft_zero" => {
            // start from a defined destination: r_dft ← dft(b) limbs (cut / zero-extended to sr)
            for i in 0..cols {
                module.vec_znx_dft_apply(1, 0, &mut r_dft, i, b, i);
            }
            match op {
                "dft_add_into" => module.vec_znx_dft_add_into(&mut r_dft, c, &a_dft, c2, &b_dft, c),
                "dft_add_assign" => module.vec_znx_dft_add_assign(&mut r_dft, c, &a_dft, c2),
                "dft_sub" => module.vec_znx_dft_sub(&mut r_dft, c, &a_dft, c2, &b_dft, c),
                "dft_sub_assign" => module.vec_znx_dft_sub_assign(&mut r_dft, c, &a_dft, c2),
                "dft_sub_negate_assign" => module.vec_znx_dft_sub_negate_assign(&mut r_dft, c, &a_dft, c2),
                "dft_add_scaled_assign" => module.vec_znx_dft_add_scaled_assign(&mut r_dft, c, &a_dft, c2, p.off),
                "dft_copy" => module.vec_znx_dft_copy(step, doff, &mut r_dft, c, &a_dft, c2),
                _ => module.vec_znx_dft_zero(&mut r_dft, c),
            }
            idft_all(module, &mut big, &r_dft, scratch);
        }
        "svp_apply_dft" | "svp_apply_dft_to_dft" | "svp_apply_dft_to_dft_assign" => {
            let mut ppol: SvpPPol<DeviceBuf<BE>, BE> = module.svp_ppol_alloc(cols);
            for i in 0..cols {
                module.svp_prepare(&mut ppol, i, sc, i);
            }
            for i in 0..cols {
                module.vec_znx_dft_apply(1, 0, &mut r_dft, i, b, i);
            }
            match op {
                "svp_apply_dft" => module.svp_apply_dft(&mut r_dft, c, &ppol, c2, a, c),
                "svp_apply_dft_to_dft" => module.svp_apply_dft_to_dft(&mut r_dft, c, &ppol, c2, &a_dft, c),
                _ => module.svp_apply_dft_to_dft_assign(&mut r_dft, c, &ppol, c2),
            }
            idft_all(module, &mut big, &r_dft, scratch);
        }
        "vmp_apply_dft" | "vmp_apply_dft_to_dft" => {
            // a: cols_in = cols columns of sa limbs; mat: rows × cols_in × cols_out × sb ; res: cols_out × sr
            let rows = or1(r.usize("rows"));
            let cols_out = or1(r.usize("cout"));
            let mut mat: MatZnx<Vec<u8>> = MatZnx::alloc(n, rows, cols, cols_out, p.sb);
            fill(mat.raw_mut(), rng, p.vb, p.mb);
            let mut pmat: VmpPMat<DeviceBuf<BE>, BE> = module.vmp_pmat_alloc(rows, cols, cols_out, p.sb);
            module.vmp_prepare(&mut pmat, &mat, scratch.borrow());
            let mut rd: DftO<BE> = module.vec_znx_dft_alloc(cols_out, p.sr);
            garbage(&mut rd, rng);
            if op == "vmp_apply_dft" {
                module.vmp_apply_dft(&mut rd, a, &pmat, scratch.borrow());
            } else {
                module.vmp_apply_dft_to_dft(&mut rd, &a_dft, &pmat, r.usize("lo"), scratch.borrow());
            }
            let bg = module.vec_znx_idft_apply_consume(rd);
            let pre = if p.dump { format!("mat={} => ", show(mat.raw())) } else { String::new() };
            return pre + &read_big(module, &bg, cols_out, p.sr, p.b, scratch);
        }
        "cnv_apply_dft" | "cnv_pairwise_apply_dft" | "cnv_self_apply_dft" | "cnv_by_const_apply" => {
            let cnv_offset = r.usize("co");
            let mask: i64 = if r.get("mask").is_some() { r.i64("mask") } else { !0i64 };
            let mut lp: CnvPVecL<DeviceBuf<BE>, BE> = module.cnv_pvec_left_alloc(cols, p.sa);
            let mut rp: CnvPVecR<DeviceBuf<BE>, BE> = module.cnv_pvec_right_alloc(cols, p.sb);
            if op == "cnv_self_apply_dft" {
                let mut rp2: CnvPVecR<DeviceBuf<BE>, BE> = module.cnv_pvec_right_alloc(cols, p.sa);
                module.cnv_prepare_self(&mut lp, &mut rp2, a, mask, scratch.borrow());
                let mut rd: DftO<BE> = module.vec_znx_dft_alloc(1, p.sr);
                module.cnv_apply_dft(cnv_offset, &mut rd, 0, &lp, c, &rp2, c2, scratch.borrow());
                let bg = module.vec_znx_idft_apply_consume(rd);
                return read_big(module, &bg, 1, p.sr, p.b, scratch);
            }
            module.cnv_prepare_left(&mut lp, a, mask, scratch.borrow());
            module.cnv_prepare_right(&mut rp, b, mask, scratch.borrow());
            // the result has `cols` columns and only column `c` is written: the others keep their prefill
            let mut rd: DftO<BE> = module.vec_znx_dft_alloc(cols, p.sr);
            garbage(&mut rd, rng);
            if op == "cnv_apply_dft" {
                module.cnv_apply_dft(cnv_offset, &mut rd, c, &lp, c, &rp, c2, scratch.borrow());
            } else {
                module.cnv_pairwise_apply_dft(cnv_offset, &mut rd, c, &lp, &rp, c, c2, scratch.borrow());
            }
            let bg = module.vec_znx_idft_apply_consume(rd);
            return read_big(module, &bg, cols, p.sr, p.b, scratch);
        }
        _ => return "bad-op".to_string(),
    }
    read_big(module, &big, cols, p.sr, p.b, scratch)
}

// ---------------------------------------------------------------------- sampling
pub fn sample(r: &Req) -> String {
    match r.get("be").unwrap_or("") {
        "fref" => samp::<FFT64Ref>(r),
        "favx" => samp::<FFT64Avx>(r),
        "nref" => samp::<NTT120Ref>(r),
        "navx" => samp::<NTT120Avx>(r),
        _ => "bad-be".to_string(),
    }
}

fn samp<BE: Backend>(r: &Req) -> String
where
    Module<BE>: Hal<BE> + ModuleNew<BE>,
    ScratchOwned<BE>: ScratchOwnedAlloc<BE> + ScratchOwnedBorrow<BE>,
{
    let n = r.usize("n");
    let size = or1(r.usize("size"));
    let b = r.usize("b");
    let k = r.usize("k");
    let module: Module<BE> = Module::<BE>::new(n as u64);
    let mut scratch: ScratchOwned<BE> = ScratchOwned::alloc(1 << 18);
    let mut seed = [0u8; 32];
    let s = r.i64("seed") as u64;
    for (i, x) in seed.iter_mut().enumerate() {
        *x = (s >> (8 * (i % 8))) as u8 ^ (i as u8).wrapping_mul(37);
    }
    let mut source = Source::new(seed);
    let mut v: VecZnx<Vec<u8>> = VecZnx::alloc(n, 2, size);
    let mut rng = Sm(s ^ 0x1234);
    fill(v.raw_mut(), &mut rng, "norm", b.max(1));
    let noise = NoiseInfos::new(k, 3.2, 19.2).unwrap();
    let out = match r.get("op").unwrap_or("") {
        "fill_uniform" => {
            module.vec_znx_fill_uniform(b, &mut v, 1, &mut source);
            show(v.raw())
        }
        "fill_normal" => {
            module.vec_znx_fill_normal(b, &mut v, 1, noise, &mut source);
            show(v.raw())
        }
        "add_normal" => {
            module.vec_znx_add_normal(b, &mut v, 1, noise, &mut source);
            show(v.raw())
        }
        "big_add_normal" => {
            let mut big: BigO<BE> = module.vec_znx_big_alloc(2, size);
            for i in 0..2 {
                module.vec_znx_big_from_small(&mut big, i, &v, i);
            }
            module.vec_znx_big_add_normal(b, &mut big, 1, noise, &mut source);
            read_big(&module, &big, 2, size, b, &mut scratch)
        }
        _ => return "bad-op".to_string(),
    };
    format!("{}|next:{}", out, source.next_i64())
}
