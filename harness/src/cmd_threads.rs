//! C20 — thread count and scheduling never change results.
//!
//! stdin lines `id <op> k=v …`, stdout `id <answer>`.
//!
//! * `part be= items= outlen= threads= circin= scratch=full|short perturb=P seed=S`
//!   runs the real `execute_bdd_circuit_multi_thread` at toy parameters on a family of tiny
//!   circuits (`output_size = items`) whose `get_circuit` records (worker thread, index) — the
//!   worker's thread index comes from the `verif-hooks` chunk-start callback — and prints
//!   `ok per=<bytes> avail=<bytes> started=<t,…> part=<t:i,i;…> acts=<per slot: t.i | z | u | x>
//!   sched=<t.i,…>` (`acts`: slot j equals, bit for bit, the single-item reference of circuit j and
//!   index j was requested by thread t ⇒ `t.j`; all-zero ⇒ `z`; still the garbage fill ⇒ `u`;
//!   anything else ⇒ `x`), or `panic:<class>`.
//! * `eval be= op= a= b= threads=1,2,… perturb=P seed=S`  real u32 circuit, every thread count,
//!   all raw limbs of all outputs compared with the first count: `ok word=<w> diff=<-|t,…> h=<fnv>`.
//! * `mixed be= workers=W seed=S` concurrent mixed workloads on one shared Module vs the same alone:
//!   `ok conc=<h,…> alone=<h,…>`.
//! * `wordmt be= op=<add|sub|sll|srl|sra|and|or|xor|slt|sltu> a= b= threads=1,2,…`: word-level `<op>_multi_thread` on the
//!   crate's test parameters with the scratch sized by the library's own `<op>_multi_thread_tmp_bytes(threads, …)`
//!   (`ScratchOwned::alloc(exactly that)`); per thread count: `t<th>=<bytes>:same|diff|panic:<class>` (raw limbs of the
//!   result vs the first count), plus `word=<decrypted>` and the components `slot= per= pack=` of the formula.
//! * `prep be= ty=u8|u32 value= start= count= threads=1,2,… perturb=P`  real circuit bootstrapping
//!   (`prepare_custom_multi_thread`, crate test parameters; `scratch=full|exact|short` = per-thread
//!   size rounded up to 64 (+64) | exactly `threads * tmp_bytes` | 64 bytes less):
//!   `ok per=<bytes> t<threads>=<avail>:ok:<started t.t.…>:<per bit r|z|x>` (r = bit equals the
//!   single-bit single-thread reference, z = zero GGSW) or `t<threads>=<avail>:panic:<class>`.
use std::cell::Cell;
use std::io::{BufRead, Write};
use std::sync::Mutex;
use std::sync::atomic::{AtomicU64, AtomicUsize, Ordering};
use std::time::Duration;

use poulpy_bin_fhe::bdd_arithmetic::{
    Add, And, BitSize, ExecuteBDDCircuit, Or, Sll, Slt, Sltu, Sra, Srl, Sub, Xor, FheUint, FheUintPrepare, FheUintPrepared, GetBitCircuitInfo, GetGGSWBit, Node,
    tests::test_suite::TestContext,
    verif_hooks::{set_chunk_start_hook, u32_circuits},
};
use poulpy_bin_fhe::blind_rotation::CGGI;
use poulpy_core::{
    EncryptionLayout, GLWEDecrypt, GLWEEncryptSk, GLWEKeyswitch, GLWESwitchingKeyEncryptSk,
    layouts::{
        Base2K, Degree, Dnum, Dsize, GGSWInfos, GGSWLayout, GLWE, GLWELayout, GLWEPlaintext, GLWEPlaintextLayout, GLWESecret,
        GLWESecretPrepared, GLWESecretPreparedFactory, GLWESwitchingKey, GLWESwitchingKeyLayout, GLWESwitchingKeyPrepared,
        GLWESwitchingKeyPreparedFactory, Rank, TorusPrecision,
    },
};
use poulpy_cpu_avx::{FFT64Avx, NTT120Avx};
use poulpy_cpu_ref::{FFT64Ref, NTT120Ref};
use poulpy_hal::{
    api::{ModuleNew, ScratchAvailable, ScratchOwnedAlloc, ScratchOwnedBorrow},
    layouts::{DataView, DeviceBuf, DigestU64, Module, ScratchOwned, ZnxView, ZnxViewMut},
    source::Source,
};

use crate::cmd_bddeval::{BASE2K, K_GGSW, K_GLWE, N, Two, ggsw_infos, glwe_infos};

thread_local! { static WORKER: Cell<Option<usize>> = const { Cell::new(None) }; }
static LOG: Mutex<Vec<(usize, usize)>> = Mutex::new(Vec::new());
static STARTED: Mutex<Vec<usize>> = Mutex::new(Vec::new());
static PERTURB: AtomicUsize = AtomicUsize::new(0);
static NTHREADS: AtomicUsize = AtomicUsize::new(1);
static PSEED: AtomicU64 = AtomicU64::new(0);
static LAST_PANIC: Mutex<String> = Mutex::new(String::new());

fn splitmix(mut z: u64) -> u64 {
    z = z.wrapping_add(0x9E3779B97F4A7C15);
    z = (z ^ (z >> 30)).wrapping_mul(0xBF58476D1CE4E5B9);
    z = (z ^ (z >> 27)).wrapping_mul(0x94D049BB133111EB);
    z ^ (z >> 31)
}

/// schedule perturbation at a chunk start (`point = 0`) or item boundary (`point = item + 1`)
fn perturb(t: usize, point: usize) {
    match PERTURB.load(Ordering::Relaxed) {
        0 => {}
        1 => {
            for _ in 0..(t % 7 + 1) {
                std::thread::yield_now();
            }
        }
        2 => std::thread::sleep(Duration::from_micros((((t * 137 + point * 31) % 5) * 100) as u64)),
        3 => {
            // later threads first
            let n = NTHREADS.load(Ordering::Relaxed);
            if point == 0 {
                std::thread::sleep(Duration::from_micros((n.saturating_sub(t) * 40) as u64));
            }
        }
        _ => {
            let r = splitmix(PSEED.load(Ordering::Relaxed) ^ ((t as u64) << 32) ^ point as u64);
            if r & 1 == 0 {
                std::thread::sleep(Duration::from_micros((r >> 8) % 400));
            } else {
                std::thread::yield_now();
            }
        }
    }
}

fn hook(t: usize) {
    WORKER.with(|w| w.set(Some(t)));
    STARTED.lock().unwrap().push(t);
    perturb(t, 0);
}

fn record(bit: usize) {
    if let Some(t) = WORKER.with(|w| w.get()) {
        LOG.lock().unwrap().push((t, bit));
        perturb(t, bit + 1);
    }
}

fn panic_class() -> &'static str {
    let m = LAST_PANIC.lock().unwrap().clone();
    if std::env::var("PVH_PANIC_MSG").is_ok() {
        eprintln!("panic message: {m}");
    }
    if m.contains("chunk size must be non-zero")
        || m.contains("assertion")
        || m.contains("scratch.available()")
        || m.contains("out.len()")
        || m.contains("inputs.bit_size()") {
        "assert"
    } else if m.contains("Attempted to take") {
        "scratch"
    } else if m.contains("divide by zero") || m.contains("overflow") {
        "overflow"
    } else if m.contains("out of bounds") || m.contains("out of range") {
        "bounds"
    } else if m.contains("scoped thread panicked") {
        "worker"
    } else {
        "other"
    }
}

/// tiny two-level circuit number `i` (state size 2): distinct ciphertext for every `i < 64`
fn tiny_nodes(i: usize) -> Vec<Node> {
    vec![
        Node::Cmux(i % 64, 1, 0),
        Node::Cmux((i * 7 + 3) % 64, 0, 1),
        Node::Cmux((i * 5 + 11) % 64, 1, 0),
        Node::None,
    ]
}

/// circuit family with `k` outputs; exactly `k` tables, so an index `>= k` is a bounds panic
pub struct Tiny {
    pub k: usize,
    pub input: usize,
    pub first: usize,
    pub nodes: Vec<Vec<Node>>,
}
impl Tiny {
    pub fn new(first: usize, k: usize, input: usize) -> Self {
        Tiny { k, input, first, nodes: (0..k).map(|i| tiny_nodes(first + i)).collect() }
    }
}
impl GetBitCircuitInfo for Tiny {
    fn input_size(&self) -> usize {
        self.input
    }
    fn output_size(&self) -> usize {
        self.k
    }
    fn get_circuit(&self, bit: usize) -> (&[Node], usize) {
        record(bit);
        (&self.nodes[bit], 2)
    }
}

/// recording wrapper around a compiled circuit
pub struct Rec(pub &'static dyn GetBitCircuitInfo);
impl GetBitCircuitInfo for Rec {
    fn input_size(&self) -> usize {
        self.0.input_size()
    }
    fn output_size(&self) -> usize {
        self.0.output_size()
    }
    fn get_circuit(&self, bit: usize) -> (&[Node], usize) {
        record(bit);
        self.0.get_circuit(bit)
    }
}

fn fnv(h: &mut u64, xs: &[i64]) {
    for x in xs {
        for b in x.to_le_bytes() {
            *h ^= b as u64;
            *h = h.wrapping_mul(0x100000001b3);
        }
    }
}
fn fnv_bytes(h: &mut u64, xs: &[u8]) {
    for b in xs {
        *h ^= *b as u64;
        *h = h.wrapping_mul(0x100000001b3);
    }
}

fn kvs<'a>(t: &'a [&'a str], k: &str) -> Option<&'a str> {
    t.iter().find_map(|x| x.strip_prefix(k).and_then(|r| r.strip_prefix('=')))
}
fn kvn(t: &[&str], k: &str, d: usize) -> usize {
    kvs(t, k).and_then(|s| s.parse().ok()).unwrap_or(d)
}
fn kvlist(t: &[&str], k: &str) -> Vec<usize> {
    kvs(t, k).map(|s| s.split(',').filter_map(|x| x.parse().ok()).collect()).unwrap_or_default()
}
fn join<T: ToString>(v: &[T], sep: &str) -> String {
    if v.is_empty() { "-".to_string() } else { v.iter().map(|x| x.to_string()).collect::<Vec<_>>().join(sep) }
}

fn set_perturb(t: &[&str], threads: usize) {
    PERTURB.store(kvn(t, "perturb", 0), Ordering::Relaxed);
    PSEED.store(kvn(t, "seed", 0) as u64, Ordering::Relaxed);
    NTHREADS.store(threads, Ordering::Relaxed);
}

fn clear_logs() {
    LOG.lock().unwrap().clear();
    STARTED.lock().unwrap().clear();
}

const GARBAGE: i64 = 0x1234;

macro_rules! backend_impl {
    ($modname:ident, $be:ty) => {
        pub mod $modname {
            use super::*;
            type BE = $be;

            pub struct Ctx {
                pub module: Module<BE>,
                pub sk: GLWESecret<Vec<u8>>,
                pub sk_prep: GLWESecretPrepared<DeviceBuf<BE>, BE>,
                pub ap: FheUintPrepared<DeviceBuf<BE>, u32, BE>,
                pub bp: FheUintPrepared<DeviceBuf<BE>, u32, BE>,
                pub refs: Vec<Option<Vec<i64>>>,
                pub xa: Source,
                pub xe: Source,
            }

            pub fn new_ctx() -> Ctx {
                let module: Module<BE> = Module::<BE>::new(N as u64);
                let mut source_xs = Source::new([1u8; 32]);
                let mut xa = Source::new([2u8; 32]);
                let mut xe = Source::new([3u8; 32]);
                let mut scratch: ScratchOwned<BE> = ScratchOwned::alloc(1 << 22);
                let mut sk = GLWESecret::alloc(Degree(N), Rank(1));
                sk.fill_ternary_prob(0.5, &mut source_xs);
                let mut sk_prep = module.glwe_secret_prepared_alloc(Rank(1));
                module.glwe_secret_prepare(&mut sk_prep, &sk);
                let ggsw_enc = EncryptionLayout::new_from_default_sigma(ggsw_infos()).unwrap();
                let mut ap = FheUintPrepared::<DeviceBuf<BE>, u32, BE>::alloc_from_infos(&module, &ggsw_infos());
                let mut bp = FheUintPrepared::<DeviceBuf<BE>, u32, BE>::alloc_from_infos(&module, &ggsw_infos());
                ap.encrypt_sk(&module, 0xC3A5_5A3Cu32, &sk_prep, &ggsw_enc, &mut xe, &mut xa, scratch.borrow());
                bp.encrypt_sk(&module, 0x0F1E_2D4Bu32, &sk_prep, &ggsw_enc, &mut xe, &mut xa, scratch.borrow());
                Ctx { module, sk, sk_prep, ap, bp, refs: (0..128).map(|_| None).collect(), xa, xe }
            }

            fn garbage_outs(n: usize) -> Vec<GLWE<Vec<u8>>> {
                let mut outs: Vec<GLWE<Vec<u8>>> = (0..n).map(|_| GLWE::alloc_from_infos(&glwe_infos())).collect();
                for (i, o) in outs.iter_mut().enumerate() {
                    for x in o.data_mut().raw_mut().iter_mut() {
                        *x = GARBAGE + i as i64;
                    }
                }
                outs
            }

            /// single-item reference of tiny circuit `j`: one output, one thread, index arithmetic trivial
            fn reference(ctx: &mut Ctx, j: usize) -> Vec<i64> {
                if let Some(r) = &ctx.refs[j] {
                    return r.clone();
                }
                let helper = Two { a: &ctx.ap, b: &ctx.bp };
                let circ = Tiny::new(j, 1, 64);
                let mut scratch: ScratchOwned<BE> = ScratchOwned::alloc(1 << 20);
                let mut outs = garbage_outs(1);
                ctx.module.execute_bdd_circuit(&mut outs, &helper, &circ, scratch.borrow());
                let r = outs[0].data().raw().to_vec();
                ctx.refs[j] = Some(r.clone());
                r
            }

            pub fn part(ctx: &mut Ctx, t: &[&str]) -> String {
                let items = kvn(t, "items", 32);
                let outlen = kvn(t, "outlen", items);
                let threads = kvn(t, "threads", 1);
                let circin = kvn(t, "circin", 64);
                let short = kvs(t, "scratch") == Some("short");
                let refs: Vec<Vec<i64>> = (0..items.min(outlen).min(128)).map(|j| reference(ctx, j)).collect();
                set_perturb(t, threads);
                let helper = Two { a: &ctx.ap, b: &ctx.bp };
                let circ = Tiny::new(0, items, circin);
                let per = ctx.module.execute_bdd_circuit_tmp_bytes(&glwe_infos(), if items == 0 { 0 } else { 2 }, &ggsw_infos());
                let want = threads * per;
                let bytes = if short { want.saturating_sub(64) } else { want + 256 };
                let mut scratch: ScratchOwned<BE> = ScratchOwned::alloc(bytes);
                let avail = scratch.borrow().available();
                let mut outs = garbage_outs(outlen);
                clear_logs();
                set_chunk_start_hook(Some(hook));
                let module = &ctx.module;
                let r = std::panic::catch_unwind(std::panic::AssertUnwindSafe(|| {
                    module.execute_bdd_circuit_multi_thread(threads, &mut outs, &helper, &circ, scratch.borrow());
                }));
                set_chunk_start_hook(None);
                if r.is_err() {
                    return format!("panic:{} per={per} avail={avail}", panic_class());
                }
                let log = LOG.lock().unwrap().clone();
                let mut started = STARTED.lock().unwrap().clone();
                started.sort();
                let mut tids: Vec<usize> = log.iter().map(|x| x.0).collect();
                tids.sort();
                tids.dedup();
                let part: Vec<String> = tids
                    .iter()
                    .map(|tt| {
                        let v: Vec<usize> = log.iter().filter(|x| x.0 == *tt).map(|x| x.1).collect();
                        format!("{tt}:{}", join(&v, ","))
                    })
                    .collect();
                let mut acts: Vec<String> = Vec::new();
                for (j, o) in outs.iter().enumerate() {
                    let raw = o.data().raw();
                    if j < items {
                        let who: Vec<usize> = log.iter().filter(|x| x.1 == j).map(|x| x.0).collect();
                        if who.len() == 1 && raw == &refs[j][..] {
                            acts.push(format!("{}.{}", who[0], j));
                        } else if raw.iter().all(|x| *x == GARBAGE + j as i64) {
                            acts.push("u".into());
                        } else {
                            acts.push(format!("x{}", who.len()));
                        }
                    } else if raw.iter().all(|x| *x == 0) {
                        acts.push("z".into());
                    } else if raw.iter().all(|x| *x == GARBAGE + j as i64) {
                        acts.push("u".into());
                    } else {
                        acts.push("x".into());
                    }
                }
                let sched: Vec<String> = log.iter().map(|x| format!("{}.{}", x.0, x.1)).collect();
                format!(
                    "ok per={per} avail={avail} started={} part={} acts={} sched={}",
                    join(&started, ","),
                    join(&part, ";"),
                    join(&acts, ","),
                    join(&sched, ",")
                )
            }

            pub fn eval(ctx: &mut Ctx, t: &[&str]) -> String {
                let op = kvs(t, "op").unwrap_or("add");
                let a = kvn(t, "a", 0) as u32;
                let b = kvn(t, "b", 0) as u32;
                let tl = kvlist(t, "threads");
                let circuits = u32_circuits();
                let Some((_, c)) = circuits.iter().find(|(n, _)| *n == op) else {
                    return "bad-op".into();
                };
                let ggsw_enc = EncryptionLayout::new_from_default_sigma(ggsw_infos()).unwrap();
                let mut scratch: ScratchOwned<BE> = ScratchOwned::alloc(1 << 22);
                let mut ap = FheUintPrepared::<DeviceBuf<BE>, u32, BE>::alloc_from_infos(&ctx.module, &ggsw_infos());
                let mut bp = FheUintPrepared::<DeviceBuf<BE>, u32, BE>::alloc_from_infos(&ctx.module, &ggsw_infos());
                ap.encrypt_sk(&ctx.module, a, &ctx.sk_prep, &ggsw_enc, &mut ctx.xe, &mut ctx.xa, scratch.borrow());
                bp.encrypt_sk(&ctx.module, b, &ctx.sk_prep, &ggsw_enc, &mut ctx.xe, &mut ctx.xa, scratch.borrow());
                let helper = Two { a: &ap, b: &bp };
                let circ = Rec(*c);
                let per = ctx.module.execute_bdd_circuit_tmp_bytes(&glwe_infos(), circ.max_state_size(), &ggsw_infos());
                let module = &ctx.module;
                let mut first: Option<Vec<Vec<i64>>> = None;
                let mut diff: Vec<usize> = Vec::new();
                let mut badpart: Vec<usize> = Vec::new();
                let mut h: u64 = 0xcbf29ce484222325;
                let mut word: u64 = 0;
                for &th in &tl {
                    set_perturb(t, th);
                    let mut sc: ScratchOwned<BE> = ScratchOwned::alloc(th.max(1) * per + 64);
                    let mut outs = garbage_outs(34);
                    clear_logs();
                    set_chunk_start_hook(Some(hook));
                    let r = std::panic::catch_unwind(std::panic::AssertUnwindSafe(|| {
                        module.execute_bdd_circuit_multi_thread(th, &mut outs, &helper, &circ, sc.borrow());
                    }));
                    set_chunk_start_hook(None);
                    if r.is_err() {
                        return format!("panic:{} threads={th}", panic_class());
                    }
                    // every index requested exactly once
                    let mut idx: Vec<usize> = LOG.lock().unwrap().iter().map(|x| x.1).collect();
                    idx.sort();
                    if idx != (0..circ.output_size()).collect::<Vec<_>>() {
                        badpart.push(th);
                    }
                    let raw: Vec<Vec<i64>> = outs.iter().map(|o| o.data().raw().to_vec()).collect();
                    match &first {
                        None => {
                            for r in &raw {
                                fnv(&mut h, r);
                            }
                            let pt_infos = GLWEPlaintextLayout { n: Degree(N), base2k: Base2K(BASE2K), k: TorusPrecision(2) };
                            for (i, o) in outs.iter().take(32).enumerate() {
                                let mut pt = GLWEPlaintext::alloc_from_infos(&pt_infos);
                                module.glwe_decrypt(o, &mut pt, &ctx.sk_prep, scratch.borrow());
                                let mut v = vec![0i64; N as usize];
                                pt.decode_vec_i64(&mut v, TorusPrecision(2));
                                word |= ((v[0].rem_euclid(4) & 1) as u64) << i;
                            }
                            first = Some(raw);
                        }
                        Some(f) => {
                            if *f != raw {
                                diff.push(th);
                            }
                        }
                    }
                }
                format!("ok word={word} diff={} badpart={} h={h}", join(&diff, ","), join(&badpart, ","))
            }

            /// one deterministic workload; everything it shares with other workers is read-only
            fn work(ctx: &Ctx, w: usize, seed: u64) -> u64 {
                let module = &ctx.module;
                let mut key = [0u8; 32];
                key[..8].copy_from_slice(&splitmix(seed ^ (w as u64)).to_le_bytes());
                let mut xa = Source::new(key);
                key[8] = 1;
                let mut xe = Source::new(key);
                key[8] = 2;
                let mut xs = Source::new(key);
                let mut scratch: ScratchOwned<BE> = ScratchOwned::alloc(1 << 22);
                let mut h: u64 = 0xcbf29ce484222325;
                let glwe_enc = EncryptionLayout::new_from_default_sigma(glwe_infos()).unwrap();
                let pt_infos = GLWEPlaintextLayout { n: Degree(N), base2k: Base2K(BASE2K), k: TorusPrecision(K_GLWE) };
                match w % 4 {
                    0 => {
                        // encrypt / decrypt
                        for r in 0..6 {
                            let mut pt = GLWEPlaintext::alloc_from_infos(&pt_infos);
                            let vals: Vec<i64> = (0..N as usize).map(|i| ((splitmix(seed ^ (w * 1000 + r * 37 + i) as u64) % 64) as i64) - 32).collect();
                            pt.encode_vec_i64(&vals, TorusPrecision(8));
                            let mut ct: GLWE<Vec<u8>> = GLWE::alloc_from_infos(&glwe_infos());
                            module.glwe_encrypt_sk(&mut ct, &pt, &ctx.sk_prep, &glwe_enc, &mut xe, &mut xa, scratch.borrow());
                            fnv(&mut h, ct.data().raw());
                            let mut pt2 = GLWEPlaintext::alloc_from_infos(&pt_infos);
                            module.glwe_decrypt(&ct, &mut pt2, &ctx.sk_prep, scratch.borrow());
                            fnv(&mut h, pt2.data().raw());
                        }
                    }
                    1 => {
                        // key-switching key generation + preparation + key switch
                        let ksl = GLWESwitchingKeyLayout {
                            n: Degree(N),
                            base2k: Base2K(BASE2K),
                            k: TorusPrecision(K_GGSW),
                            rank_in: Rank(1),
                            rank_out: Rank(1),
                            dnum: Dnum(2),
                            dsize: Dsize(1),
                        };
                        let mut sk2 = GLWESecret::alloc(Degree(N), Rank(1));
                        sk2.fill_ternary_prob(0.5, &mut xs);
                        let mut ksk: GLWESwitchingKey<Vec<u8>> = GLWESwitchingKey::alloc_from_infos(&ksl);
                        let ks_enc = EncryptionLayout::new_from_default_sigma(ksl).unwrap();
                        module.glwe_switching_key_encrypt_sk(&mut ksk, &ctx.sk, &sk2, &ks_enc, &mut xe, &mut xa, scratch.borrow());
                        let mut kp: GLWESwitchingKeyPrepared<DeviceBuf<BE>, BE> = module.glwe_switching_key_prepared_alloc_from_infos(&ksk);
                        module.glwe_switching_key_prepare(&mut kp, &ksk, scratch.borrow());
                        for _ in 0..4 {
                            let mut ct: GLWE<Vec<u8>> = GLWE::alloc_from_infos(&glwe_infos());
                            module.glwe_encrypt_zero_sk(&mut ct, &ctx.sk_prep, &glwe_enc, &mut xe, &mut xa, scratch.borrow());
                            let mut out: GLWE<Vec<u8>> = GLWE::alloc_from_infos(&glwe_infos());
                            module.glwe_keyswitch(&mut out, &ct, &kp, scratch.borrow());
                            fnv(&mut h, out.data().raw());
                        }
                    }
                    2 => {
                        // BDD evaluation on the shared prepared inputs
                        let circuits = u32_circuits();
                        let c = circuits[(w / 4) % circuits.len()].1;
                        let helper = Two { a: &ctx.ap, b: &ctx.bp };
                        let mut outs = garbage_outs(32);
                        module.execute_bdd_circuit(&mut outs, &helper, &crate::cmd_bddeval::DynCircuit(c), scratch.borrow());
                        for o in &outs {
                            fnv(&mut h, o.data().raw());
                        }
                    }
                    _ => {
                        // fresh prepared input (GGSW encryption + preparation), then evaluation against shared b
                        let ggsw_enc = EncryptionLayout::new_from_default_sigma(ggsw_infos()).unwrap();
                        let mut ap = FheUintPrepared::<DeviceBuf<BE>, u32, BE>::alloc_from_infos(module, &ggsw_infos());
                        ap.encrypt_sk(module, splitmix(seed ^ 77 ^ w as u64) as u32, &ctx.sk_prep, &ggsw_enc, &mut xe, &mut xa, scratch.borrow());
                        for i in 0..32 {
                            fnv_bytes(&mut h, ap.get_bit(i).data().data());
                        }
                        let circuits = u32_circuits();
                        let c = circuits[(w / 4 + 3) % circuits.len()].1;
                        let helper = Two { a: &ap, b: &ctx.bp };
                        let mut outs = garbage_outs(32);
                        module.execute_bdd_circuit(&mut outs, &helper, &crate::cmd_bddeval::DynCircuit(c), scratch.borrow());
                        for o in &outs {
                            fnv(&mut h, o.data().raw());
                        }
                    }
                }
                h
            }

            pub fn mixed(ctx: &mut Ctx, t: &[&str]) -> String {
                let workers = kvn(t, "workers", 8);
                let seed = kvn(t, "seed", 1) as u64;
                let ctx: &Ctx = ctx;
                let r = std::panic::catch_unwind(std::panic::AssertUnwindSafe(|| {
                    let conc: Vec<u64> = std::thread::scope(|s| {
                        let hs: Vec<_> = (0..workers)
                            .map(|w| {
                                s.spawn(move || {
                                    if w % 3 == 1 {
                                        std::thread::yield_now();
                                    }
                                    work(ctx, w, seed)
                                })
                            })
                            .collect();
                        hs.into_iter().map(|h| h.join().unwrap()).collect()
                    });
                    let alone: Vec<u64> = (0..workers).map(|w| work(ctx, w, seed)).collect();
                    (conc, alone)
                }));
                match r {
                    Ok((c, a)) => format!("ok conc={} alone={}", join(&c, ","), join(&a, ",")),
                    Err(_) => format!("panic:{}", panic_class()),
                }
            }
        }
    };
}

backend_impl!(fft64ref, FFT64Ref);
backend_impl!(ntt120ref, NTT120Ref);
backend_impl!(fft64avx, FFT64Avx);
backend_impl!(ntt120avx, NTT120Avx);

macro_rules! prep_impl {
    ($modname:ident, $be:ty) => {
        pub mod $modname {
            use super::*;
            type BE = $be;
            pub type Tc = TestContext<CGGI, BE>;

            pub fn prep_ty<T>(tc: &Tc, value: T, t: &[&str]) -> String
            where
                T: poulpy_bin_fhe::bdd_arithmetic::UnsignedInteger
                    + poulpy_bin_fhe::bdd_arithmetic::ToBits
                    + poulpy_bin_fhe::bdd_arithmetic::FromBits,
            {
                let start = kvn(t, "start", 0);
                let count = kvn(t, "count", T::BITS as usize);
                let tl = kvlist(t, "threads");
                let mode = kvs(t, "scratch").unwrap_or("full");
                let module = &tc.module;
                let glwe_infos = tc.glwe_infos();
                let ggsw_infos = tc.ggsw_infos();
                let mut xa = Source::new([12u8; 32]);
                let mut xe = Source::new([13u8; 32]);
                let mut scratch: ScratchOwned<BE> = ScratchOwned::alloc(1 << 22);
                let glwe_enc = EncryptionLayout::new_from_default_sigma(glwe_infos).unwrap();
                let ggsw_enc = EncryptionLayout::new_from_default_sigma(ggsw_infos).unwrap();
                let mut c_enc: FheUint<Vec<u8>, T> = FheUint::alloc_from_infos(&glwe_infos);
                c_enc.encrypt_sk(module, value, &tc.sk_glwe, &glwe_enc, &mut xe, &mut xa, scratch.borrow());
                let zero: FheUintPrepared<DeviceBuf<BE>, T, BE> = FheUintPrepared::alloc_from_infos(module, &ggsw_infos);
                let zdig = zero.get_bit(0).data().digest_u64();
                // single-bit references: `prepare_custom(start = j, count = 1)` on one thread — the index
                // arithmetic of the loop is trivial there (thread 0, local bit 0)
                let mut first: Option<Vec<u64>> = None;
                if start + count <= T::BITS as usize && count > 0 {
                    let mut refd: Vec<u64> = vec![zdig; T::BITS as usize];
                    for j in start..start + count {
                        let mut prep: FheUintPrepared<DeviceBuf<BE>, T, BE> = FheUintPrepared::alloc_from_infos(module, &ggsw_infos);
                        let per = module.fhe_uint_prepare_tmp_bytes(7, 1, &prep, &c_enc, &tc.bdd_key);
                        let mut sc: ScratchOwned<BE> = ScratchOwned::alloc(per + 64);
                        prep.prepare_custom(module, &c_enc, j, 1, &tc.bdd_key, sc.borrow());
                        refd[j] = prep.get_bit(j).data().digest_u64();
                    }
                    first = Some(refd);
                }
                let mut res: Vec<String> = Vec::new();
                let mut per_out = 0;
                for &th in &tl {
                    set_perturb(t, th);
                    let mut prep: FheUintPrepared<DeviceBuf<BE>, T, BE> = FheUintPrepared::alloc_from_infos(module, &ggsw_infos);
                    // dirty every bit first (direct GGSW encryption of all-ones)
                    let ones: T = T::from_bits(&vec![1u8; T::BITS as usize]);
                    prep.encrypt_sk(module, ones, &tc.sk_glwe, &ggsw_enc, &mut xe, &mut xa, scratch.borrow());
                    let per = module.fhe_uint_prepare_tmp_bytes(7, 1, &prep, &c_enc, &tc.bdd_key);
                    per_out = per;
                    let bytes = match mode {
                        "short" => (th * per).saturating_sub(64),
                        "exact" => th * per,
                        _ => th * per.next_multiple_of(64) + 64,
                    };
                    let mut sc: ScratchOwned<BE> = ScratchOwned::alloc(bytes);
                    let avail = sc.borrow().available();
                    clear_logs();
                    set_chunk_start_hook(Some(hook));
                    let r = std::panic::catch_unwind(std::panic::AssertUnwindSafe(|| {
                        prep.prepare_custom_multi_thread(th, module, &c_enc, start, count, &tc.bdd_key, sc.borrow());
                    }));
                    set_chunk_start_hook(None);
                    if r.is_err() {
                        res.push(format!("t{th}={avail}:panic:{}", panic_class()));
                        continue;
                    }
                    let mut started = STARTED.lock().unwrap().clone();
                    started.sort();
                    let dig: Vec<u64> = (0..T::BITS as usize).map(|i| prep.get_bit(i).data().digest_u64()).collect();
                    if first.is_none() {
                        first = Some(dig.clone());
                    }
                    let f = first.as_ref().unwrap();
                    let acts: Vec<&str> = (0..T::BITS as usize)
                        .map(|i| {
                            if dig[i] == zdig {
                                "z"
                            } else if dig[i] == f[i] {
                                "r"
                            } else {
                                "x"
                            }
                        })
                        .collect();
                    res.push(format!("t{th}={avail}:ok:{}:{}", join(&started, "."), acts.join("")));
                }
                format!("ok per={per_out} {}", res.join(" "))
            }

            pub fn wordmt(tc: &Tc, t: &[&str]) -> String {
                use poulpy_core::GLWEPacking;
                use poulpy_core::layouts::GLWEAutomorphismKeyHelper;
                let op = kvs(t, "op").unwrap_or("add");
                let a = kvn(t, "a", 0) as u32;
                let b = kvn(t, "b", 0) as u32;
                let tl = kvlist(t, "threads");
                let module = &tc.module;
                let glwe_infos = tc.glwe_infos();
                let ggsw_infos = tc.ggsw_infos();
                let mut xa = Source::new([22u8; 32]);
                let mut xe = Source::new([23u8; 32]);
                let mut scratch: ScratchOwned<BE> = ScratchOwned::alloc(1 << 22);
                let ggsw_enc = EncryptionLayout::new_from_default_sigma(ggsw_infos).unwrap();
                let mut ap: FheUintPrepared<DeviceBuf<BE>, u32, BE> = FheUintPrepared::alloc_from_infos(module, &ggsw_infos);
                let mut bp: FheUintPrepared<DeviceBuf<BE>, u32, BE> = FheUintPrepared::alloc_from_infos(module, &ggsw_infos);
                ap.encrypt_sk(module, a, &tc.sk_glwe, &ggsw_enc, &mut xe, &mut xa, scratch.borrow());
                bp.encrypt_sk(module, b, &tc.sk_glwe, &ggsw_enc, &mut xe, &mut xa, scratch.borrow());
                let key = &tc.bdd_key;
                let circuits = u32_circuits();
                let Some((_, c)) = circuits.iter().find(|(n, _)| *n == op) else {
                    return "bad-op".into();
                };
                let slot = 32 * GLWE::<Vec<u8>>::bytes_of_from_infos(&glwe_infos);
                let per = module.execute_bdd_circuit_tmp_bytes(&glwe_infos, c.max_state_size(), &ggsw_infos);
                let pack = module.glwe_pack_tmp_bytes(&glwe_infos, &key.automorphism_key_infos());
                let mut first: Option<Vec<i64>> = None;
                let mut word: u32 = 0;
                let mut res_s: Vec<String> = Vec::new();
                for &th in &tl {
                    let mut res: FheUint<Vec<u8>, u32> = FheUint::alloc_from_infos(&glwe_infos);
                    macro_rules! q {
                        ($f:ident) => {
                            res.$f(module, th, &glwe_infos, &ggsw_infos, key)
                        };
                    }
                    let bytes = match op {
                        "add" => q!(add_multi_thread_tmp_bytes),
                        "sub" => q!(sub_multi_thread_tmp_bytes),
                        "sll" => q!(sll_multi_thread_tmp_bytes),
                        "srl" => q!(srl_multi_thread_tmp_bytes),
                        "sra" => q!(sra_multi_thread_tmp_bytes),
                        "and" => q!(and_multi_thread_tmp_bytes),
                        "or" => q!(or_multi_thread_tmp_bytes),
                        "xor" => q!(xor_multi_thread_tmp_bytes),
                        "slt" => q!(slt_multi_thread_tmp_bytes),
                        _ => q!(sltu_multi_thread_tmp_bytes),
                    };
                    let mut sc: ScratchOwned<BE> = ScratchOwned::alloc(bytes);
                    let r = std::panic::catch_unwind(std::panic::AssertUnwindSafe(|| {
                        macro_rules! run {
                            ($f:ident) => {
                                res.$f(th, module, &ap, &bp, key, sc.borrow())
                            };
                        }
                        match op {
                            "add" => run!(add_multi_thread),
                            "sub" => run!(sub_multi_thread),
                            "sll" => run!(sll_multi_thread),
                            "srl" => run!(srl_multi_thread),
                            "sra" => run!(sra_multi_thread),
                            "and" => run!(and_multi_thread),
                            "or" => run!(or_multi_thread),
                            "xor" => run!(xor_multi_thread),
                            "slt" => run!(slt_multi_thread),
                            _ => run!(sltu_multi_thread),
                        }
                    }));
                    if r.is_err() {
                        res_s.push(format!("t{th}={bytes}:panic:{}", panic_class()));
                        continue;
                    }
                    use poulpy_core::layouts::GLWEToRef;
                    let raw: Vec<i64> = res.to_ref().data().raw().to_vec();
                    match &first {
                        None => {
                            word = res.decrypt(module, &tc.sk_glwe, scratch.borrow());
                            first = Some(raw);
                            res_s.push(format!("t{th}={bytes}:same"));
                        }
                        Some(f) => res_s.push(format!("t{th}={bytes}:{}", if *f == raw { "same" } else { "diff" })),
                    }
                }
                format!("ok word={word} slot={slot} per={per} pack={pack} {}", res_s.join(" "))
            }

            pub fn prep(tc: &Tc, t: &[&str]) -> String {
                let value = kvn(t, "value", 0);
                match kvs(t, "ty").unwrap_or("u32") {
                    "u8" => prep_ty::<u8>(tc, value as u8, t),
                    "u16" => prep_ty::<u16>(tc, value as u16, t),
                    _ => prep_ty::<u32>(tc, value as u32, t),
                }
            }
        }
    };
}

prep_impl!(prep_fft64ref, FFT64Ref);
prep_impl!(prep_fft64avx, FFT64Avx);

pub fn run(_args: &[String]) {
    std::panic::set_hook(Box::new(|info| {
        let s = info.to_string();
        // keep the first interesting message (a worker's), not the scope's summary
        let mut g = LAST_PANIC.lock().unwrap();
        if g.is_empty() || !s.contains("scoped thread panicked") {
            *g = s;
        }
    }));
    let mut c_f64r: Option<fft64ref::Ctx> = None;
    let mut c_n120r: Option<ntt120ref::Ctx> = None;
    let mut c_f64a: Option<fft64avx::Ctx> = None;
    let mut c_n120a: Option<ntt120avx::Ctx> = None;
    let mut tc_r: Option<prep_fft64ref::Tc> = None;
    let mut tc_a: Option<prep_fft64avx::Tc> = None;
    let stdin = std::io::stdin();
    let stdout = std::io::stdout();
    let mut out = stdout.lock();
    for line in stdin.lock().lines() {
        let line = line.unwrap();
        let t: Vec<&str> = line.split_whitespace().collect();
        if t.len() < 2 {
            continue;
        }
        let (id, op) = (t[0], t[1]);
        let be = kvs(&t, "be").unwrap_or("fft64ref");
        LAST_PANIC.lock().unwrap().clear();
        macro_rules! dispatch {
            ($f:ident) => {
                match be {
                    "fft64ref" => fft64ref::$f(c_f64r.get_or_insert_with(fft64ref::new_ctx), &t),
                    "ntt120ref" => ntt120ref::$f(c_n120r.get_or_insert_with(ntt120ref::new_ctx), &t),
                    "fft64avx" => fft64avx::$f(c_f64a.get_or_insert_with(fft64avx::new_ctx), &t),
                    "ntt120avx" => ntt120avx::$f(c_n120a.get_or_insert_with(ntt120avx::new_ctx), &t),
                    _ => "bad-backend".to_string(),
                }
            };
        }
        let ans = match op {
            "part" => dispatch!(part),
            "eval" => dispatch!(eval),
            "mixed" => dispatch!(mixed),
            "wordmt" => match be {
                "fft64ref" => prep_fft64ref::wordmt(tc_r.get_or_insert_with(prep_fft64ref::Tc::new), &t),
                "fft64avx" => prep_fft64avx::wordmt(tc_a.get_or_insert_with(prep_fft64avx::Tc::new), &t),
                _ => "bad-backend".to_string(),
            },
            "prep" => match be {
                "fft64ref" => prep_fft64ref::prep(tc_r.get_or_insert_with(prep_fft64ref::Tc::new), &t),
                "fft64avx" => prep_fft64avx::prep(tc_a.get_or_insert_with(prep_fft64avx::Tc::new), &t),
                _ => "bad-backend".to_string(),
            },
            _ => "bad-op".to_string(),
        };
        writeln!(out, "{id} {ans}").unwrap();
        out.flush().unwrap();
    }
}
