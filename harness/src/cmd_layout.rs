//! Layout histories and canary-padded HAL calls on the real types (C17).
//!
//!   id hist ctor=alloc:n,cols,size | frombytes:n,cols,size,len  steps=ss:K;rl:K;vw;rd:<hex>;…
//!        → id <state>|<state>|…      one state per constructor/step:
//!          n,cols,size,max_size,len,maxEnd,inside   (maxEnd = largest end offset of any at(i,j) / raw() slice,
//!          computed from the slices' real pointers; inside = 1 iff every slice lies in the buffer)
//!          or `panic:<class>` (terminal)
//!   id mat p=n,rows,cols_in,cols_out,size   → id len,maxEnd,inside   (every MatZnx::at(row,col) view and its at(i,j))
//!   id canary be=<fft64ref|ntt120ref|fft64avx|ntt120avx> n=N cols=C size=S op=<add|rotate|automorphism|normalize|dft|svp>
//!        → id ok canaries=intact|broken:<first offset> inside=1
//!     operands and result are `VecZnx<&mut [u8]>` windows carved at 64-byte aligned offsets out of one large
//!     buffer pre-filled with 0xA5; after the call every byte outside the windows must still be 0xA5.
use std::io::{BufRead, Write};

use poulpy_cpu_avx::{FFT64Avx, NTT120Avx};
use poulpy_cpu_ref::{FFT64Ref, NTT120Ref};
use poulpy_hal::{
    alloc_aligned,
    api::{
        CnvPVecAlloc, Convolution, ModuleNew, VmpApplyDftToDft, VmpPrepare, ScratchOwnedAlloc, ScratchOwnedBorrow, SvpApplyDft, SvpPPolAlloc, SvpPrepare, VecZnxAddInto,
        VecZnxAutomorphism, VecZnxBigAlloc, VecZnxBigNormalize, VecZnxDftAlloc, VecZnxDftApply, VecZnxIdftApply,
        VecZnxIdftApplyConsume, VecZnxNormalize, VecZnxRotate, VmpPMatAlloc,
    },
    layouts::{
        Backend, DataView, MatZnx, Module, VecZnxBig, VecZnxDft, ReaderFrom, ScalarZnx, ScratchOwned, VecZnx, VecZnxToMut, ZnxInfos, ZnxView, ZnxViewMut,
    },
};

use crate::cmd_ser::{kv, nums, panic_class, unhex};

fn state<D: poulpy_hal::layouts::DataRef>(v: &VecZnx<D>) -> String {
    let base = v.data.as_ref().as_ptr() as usize;
    let len = v.data.as_ref().len();
    let mut max_end = 0usize;
    let mut inside = true;
    for i in 0..v.cols {
        for j in 0..v.size {
            let s = v.at(i, j);
            let a = s.as_ptr() as usize;
            let e = a + s.len() * 8;
            if a < base || e > base + len {
                inside = false;
            }
            max_end = max_end.max(e.wrapping_sub(base));
        }
    }
    let r = v.raw();
    let e = r.as_ptr() as usize + r.len() * 8;
    if e > base + len {
        inside = false;
    }
    max_end = max_end.max(e - base);
    format!("{},{},{},{},{},{},{}", v.n, v.cols, v.size, v.max_size, len, max_end, inside as u8)
}

fn hist(t: &[&str]) -> String {
    let ctor = kv(t, "ctor").unwrap_or("");
    let steps = kv(t, "steps").unwrap_or("-");
    let mut out: Vec<String> = Vec::new();
    let (kind, ps) = ctor.split_once(':').unwrap_or(("", ""));
    let p = nums(Some(ps));
    let made = std::panic::catch_unwind(|| match kind {
        "alloc" => VecZnx::alloc(p[0] as usize, p[1] as usize, p[2] as usize),
        _ => {
            let mut bytes: Vec<u8> = alloc_aligned::<u8>(p[3] as usize);
            bytes.truncate(p[3] as usize);
            VecZnx::from_bytes(p[0] as usize, p[1] as usize, p[2] as usize, bytes)
        }
    });
    let mut v = match made {
        Ok(v) => v,
        Err(_) => return "panic:assert".to_string(), // the only panics of the constructors are their assertions
    };
    out.push(state(&v));
    if steps != "-" {
        for s in steps.split(';') {
            let (op, arg) = s.split_once(':').unwrap_or((s, ""));
            let r = std::panic::catch_unwind(std::panic::AssertUnwindSafe(|| match op {
                "ss" => v.set_size(arg.parse().unwrap_or(0)),
                "rl" => v.reallocate_limbs(arg.parse().unwrap_or(0)),
                "vw" => {
                    let m = v.to_mut();
                    let _ = state(&m);
                }
                "rd" => {
                    let b = unhex(arg);
                    let mut rd: &[u8] = &b;
                    let _ = v.read_from(&mut rd);
                }
                _ => {}
            }));
            match r {
                Ok(()) => out.push(state(&v)),
                Err(e) => {
                    out.push(format!("panic:{}", panic_class(&e)));
                    break;
                }
            }
        }
    }
    out.join("|")
}

fn mat(t: &[&str]) -> String {
    let p = nums(kv(t, "p"));
    let m = MatZnx::alloc(p[0] as usize, p[1] as usize, p[2] as usize, p[3] as usize, p[4] as usize);
    let base = m.data().as_ptr() as usize;
    let len = m.data().len();
    let mut max_end = 0usize;
    let mut inside = true;
    for r in 0..m.rows() {
        for c in 0..m.cols_in() {
            let v = m.at(r, c);
            for i in 0..v.cols {
                for j in 0..v.size {
                    let s = v.at(i, j);
                    let a = s.as_ptr() as usize;
                    let e = a + s.len() * 8;
                    if a < base || e > base + len {
                        inside = false;
                    }
                    max_end = max_end.max(e.wrapping_sub(base));
                }
            }
        }
    }
    format!("{len},{max_end},{}", inside as u8)
}

const CANARY: u8 = 0xA5;

fn canary<BE: Backend>(n: usize, cols: usize, size: usize, op: &str) -> String
where
    Module<BE>: ModuleNew<BE>
        + VecZnxAddInto
        + VecZnxRotate
        + VecZnxAutomorphism
        + VecZnxNormalize<BE>
        + VecZnxDftAlloc<BE>
        + VecZnxDftApply<BE>
        + VecZnxIdftApply<BE>
        + VecZnxBigAlloc<BE>
        + VecZnxBigNormalize<BE>
        + SvpPPolAlloc<BE>
        + SvpPrepare<BE>
        + SvpApplyDft<BE>,
    ScratchOwned<BE>: ScratchOwnedAlloc<BE> + ScratchOwnedBorrow<BE>,
{
    let module: Module<BE> = Module::<BE>::new(n as u64);
    let bytes = n * cols * size * 8;
    let win = (bytes + 63) / 64 * 64;
    let gap = 192usize;
    // [gap][res][gap][a][gap][b][gap]
    let total = 4 * gap + 3 * win;
    let mut big: Vec<u8> = alloc_aligned::<u8>(total);
    big.iter_mut().for_each(|x| *x = CANARY);
    let offs = [gap, 2 * gap + win, 3 * gap + 2 * win];
    let mut scratch: ScratchOwned<BE> = ScratchOwned::alloc(1 << 20);
    {
        let (_, rest) = big.split_at_mut(offs[0]);
        let (res_w, rest) = rest.split_at_mut(win + gap);
        let (a_w, rest) = rest.split_at_mut(win + gap);
        let (b_w, _) = rest.split_at_mut(win);
        let mut res = VecZnx::from_data(&mut res_w[..bytes], n, cols, size);
        let mut a = VecZnx::from_data(&mut a_w[..bytes], n, cols, size);
        let mut b = VecZnx::from_data(&mut b_w[..bytes], n, cols, size);
        for (k, x) in a.raw_mut().iter_mut().enumerate() {
            *x = (k as i64 * 37 + 11) % 97 - 48;
        }
        for (k, x) in b.raw_mut().iter_mut().enumerate() {
            *x = (k as i64 * 53 + 7) % 89 - 44;
        }
        res.raw_mut().iter_mut().for_each(|x| *x = 0);
        for c in 0..cols {
            match op {
                "add" => module.vec_znx_add_into(&mut res, c, &a, c, &b, cols - 1 - c),
                "rotate" => module.vec_znx_rotate(-(n as i64) - 1 + c as i64, &mut res, c, &a, c),
                "automorphism" => module.vec_znx_automorphism(5, &mut res, c, &a, c),
                "normalize" => module.vec_znx_normalize(&mut res, 7, 0, c, &a, 7, c, scratch.borrow()),
                "dft" => {
                    let mut d = module.vec_znx_dft_alloc(cols, size);
                    let mut bg = module.vec_znx_big_alloc(cols, size);
                    module.vec_znx_dft_apply(1, 0, &mut d, c, &a, c);
                    module.vec_znx_idft_apply(&mut bg, c, &d, c, scratch.borrow());
                    module.vec_znx_big_normalize(&mut res, 12, 0, c, &bg, 12, c, scratch.borrow());
                }
                "svp" => {
                    let mut sc = ScalarZnx::alloc(n, 1);
                    sc.raw_mut().iter_mut().enumerate().for_each(|(k, x)| *x = (k % 3) as i64 - 1);
                    let mut pp = module.svp_ppol_alloc(1);
                    module.svp_prepare(&mut pp, 0, &sc, 0);
                    let mut d = module.vec_znx_dft_alloc(cols, size);
                    let mut bg = module.vec_znx_big_alloc(cols, size);
                    module.svp_apply_dft(&mut d, c, &pp, 0, &a, c);
                    module.vec_znx_idft_apply(&mut bg, c, &d, c, scratch.borrow());
                    module.vec_znx_big_normalize(&mut res, 12, 0, c, &bg, 12, c, scratch.borrow());
                }
                _ => {}
            }
        }
        let _ = res.to_mut();
    }
    // canaries: everything outside [off, off+bytes) of the three windows
    let mut broken: Option<usize> = None;
    for (k, x) in big.iter().enumerate() {
        let inside = offs.iter().any(|&o| k >= o && k < o + bytes);
        if !inside && *x != CANARY {
            broken = Some(k);
            break;
        }
    }
    match broken {
        None => "ok canaries=intact".into(),
        Some(k) => format!("ok canaries=broken:{k}"),
    }
}

/// len, maxEnd, inside of every trait `at(i,j)` slice and of `raw()` of a prepared / big layout
fn ranges<T: ZnxView + DataView>(t: &T) -> String
where
    <T as DataView>::D: AsRef<[u8]>,
{
    let base = t.data().as_ref().as_ptr() as usize;
    let len = t.data().as_ref().len();
    let w = std::mem::size_of::<T::Scalar>();
    let mut max_end = 0usize;
    let mut inside = true;
    for i in 0..t.cols() {
        for j in 0..t.size() {
            let s = t.at(i, j);
            let a = s.as_ptr() as usize;
            let e = a + s.len() * w;
            if a < base || e > base + len {
                inside = false;
            }
            max_end = max_end.max(e.wrapping_sub(base));
        }
    }
    let r = t.raw();
    let e = r.as_ptr() as usize + r.len() * w;
    if e > base + len {
        inside = false;
    }
    max_end = max_end.max(e - base);
    format!("{w},{len},{max_end},{}", inside as u8)
}

fn prep<BE: Backend>(kind: &str, p: &[u64]) -> String
where
    Module<BE>: ModuleNew<BE> + VecZnxDftAlloc<BE> + VecZnxBigAlloc<BE> + SvpPPolAlloc<BE> + VmpPMatAlloc<BE> + CnvPVecAlloc<BE>,
{
    let module: Module<BE> = Module::<BE>::new(p[0]);
    let u = |k: usize| p.get(k).copied().unwrap_or(1) as usize;
    match kind {
        "big" => ranges(&module.vec_znx_big_alloc(u(1), u(2))),
        "dft" => ranges(&module.vec_znx_dft_alloc(u(1), u(2))),
        "svp" => ranges(&module.svp_ppol_alloc(u(1))),
        "cnvl" => ranges(&module.cnv_pvec_left_alloc(u(1), u(2))),
        "cnvr" => ranges(&module.cnv_pvec_right_alloc(u(1), u(2))),
        // p = n, rows, cols_in, cols_out, size
        "vmp" => ranges(&module.vmp_pmat_alloc(u(1), u(2), u(3), u(4))),
        _ => "bad-kind".into(),
    }
}

/// consume (in-place compaction on NTT120) must give the same VecZnxBig as the non-consuming idft
fn consume<BE: Backend>(n: usize, cols: usize, size: usize) -> String
where
    Module<BE>: ModuleNew<BE> + VecZnxDftAlloc<BE> + VecZnxDftApply<BE> + VecZnxIdftApply<BE> + VecZnxIdftApplyConsume<BE> + VecZnxBigAlloc<BE>,
    ScratchOwned<BE>: ScratchOwnedAlloc<BE> + ScratchOwnedBorrow<BE>,
{
    let module: Module<BE> = Module::<BE>::new(n as u64);
    let mut scratch: ScratchOwned<BE> = ScratchOwned::alloc(1 << 20);
    let mut a = VecZnx::alloc(n, cols, size);
    for (k, x) in a.raw_mut().iter_mut().enumerate() {
        *x = (k as i64 * 1_000_003 + 17) % 4001 - 2000;
    }
    let mut d1 = module.vec_znx_dft_alloc(cols, size);
    let mut d2 = module.vec_znx_dft_alloc(cols, size);
    for c in 0..cols {
        module.vec_znx_dft_apply(1, 0, &mut d1, c, &a, c);
        module.vec_znx_dft_apply(1, 0, &mut d2, c, &a, c);
    }
    let mut b1 = module.vec_znx_big_alloc(cols, size);
    for c in 0..cols {
        module.vec_znx_idft_apply(&mut b1, c, &d1, c, scratch.borrow());
    }
    let b2 = module.vec_znx_idft_apply_consume(d2);
    let w = std::mem::size_of::<BE::ScalarBig>();
    let l = n * cols * size * w;
    let same = b1.data().as_ref()[..l] == b2.data().as_ref()[..l];
    format!("same={} {}", same as u8, ranges(&b2))
}

/// compress a sorted index list into `a-b,c-d` ranges (half-open), `-` when empty
fn ranges_of(idx: &[usize]) -> String {
    if idx.is_empty() {
        return "-".into();
    }
    let mut out: Vec<String> = Vec::new();
    let (mut a, mut b) = (idx[0], idx[0] + 1);
    for &i in &idx[1..] {
        if i == b {
            b += 1;
        } else {
            out.push(format!("{a}-{b}"));
            a = i;
            b = i + 1;
        }
    }
    out.push(format!("{a}-{b}"));
    out.join(",")
}

/// Footprint recorder: the call is made twice on a result buffer pre-filled with two different byte patterns inside a
/// 0xA5 canary frame; an 8-byte element is "written" iff both runs leave the same value there; the canary frame must be
/// untouched.  `f(res_window)` performs the call with the result view carved out of the window.
fn footprint(bytes: usize, mut f: impl FnMut(&mut [u8])) -> String {
    let gap = 256usize;
    let win = (bytes + 63) / 64 * 64;
    let mut runs: Vec<Vec<u8>> = Vec::new();
    let mut canary_broken: Option<isize> = None;
    for pat in [0x11u8, 0xEEu8] {
        let mut big: Vec<u8> = alloc_aligned::<u8>(2 * gap + win);
        big.iter_mut().for_each(|x| *x = CANARY);
        big[gap..gap + bytes].iter_mut().enumerate().for_each(|(i, x)| *x = pat ^ (i as u8).wrapping_mul(29));
        f(&mut big[gap..gap + bytes]);
        for (k, x) in big.iter().enumerate() {
            if (k < gap || k >= gap + bytes) && *x != CANARY && canary_broken.is_none() {
                canary_broken = Some(k as isize - gap as isize);
            }
        }
        runs.push(big[gap..gap + bytes].to_vec());
    }
    let written: Vec<usize> = (0..bytes / 8).filter(|&e| runs[0][8 * e..8 * e + 8] == runs[1][8 * e..8 * e + 8]).collect();
    let c = match canary_broken {
        None => "intact".to_string(),
        Some(k) => format!("broken:{k}"),
    };
    format!("ok W={} canaries={c}", ranges_of(&written))
}

/// kernels with non-trivial addressing, through the public HAL API.  p = per-op parameter list (see vlib/c17.py)
fn kern<BE: Backend>(op: &str, p: &[u64]) -> String
where
    Module<BE>: ModuleNew<BE>
        + Convolution<BE>
        + CnvPVecAlloc<BE>
        + VecZnxDftAlloc<BE>
        + VecZnxBigAlloc<BE>
        + VmpPMatAlloc<BE>
        + VmpPrepare<BE>
        + VmpApplyDftToDft<BE>
        + VecZnxDftApply<BE>,
    ScratchOwned<BE>: ScratchOwnedAlloc<BE> + ScratchOwnedBorrow<BE>,
{
    let u = |k: usize| p.get(k).copied().unwrap_or(0) as usize;
    let n = u(0);
    let module: Module<BE> = Module::<BE>::new(n as u64);
    let mut scratch: ScratchOwned<BE> = ScratchOwned::alloc(1 << 22);
    let fillv = |v: &mut VecZnx<Vec<u8>>, s: i64| {
        for (k, x) in v.raw_mut().iter_mut().enumerate() {
            *x = (k as i64 * 37 + s) % 97 - 48;
        }
    };
    match op {
        // p = n, res_cols, res_size, res_col, a_cols, a_size, a_col, b_size, cnv_offset
        "cnvconst" => {
            let (rc, rs, rcol, ac, asz, acol, bs, off) = (u(1), u(2), u(3), u(4), u(5), u(6), u(7), u(8));
            let mut a = VecZnx::alloc(n, ac, asz);
            fillv(&mut a, 5);
            let b: Vec<i64> = (0..bs as i64).map(|x| x * 3 - 4).collect();
            let wbig = std::mem::size_of::<BE::ScalarBig>();
            footprint(n * rc * rs * wbig, |w| {
                let mut res: VecZnxBig<&mut [u8], BE> = VecZnxBig::from_data(w, n, rc, rs);
                module.cnv_by_const_apply(off, &mut res, rcol, &a, acol, &b, scratch.borrow());
            })
        }
        // p = n, res_cols, res_size, res_col, a_cols, a_size, a_col, b_cols, b_size, b_col, cnv_offset
        "cnvapply" => {
            let (rc, rs, rcol, ac, asz, acol, bc, bsz, bcol, off) = (u(1), u(2), u(3), u(4), u(5), u(6), u(7), u(8), u(9), u(10));
            let mut av = VecZnx::alloc(n, ac, asz);
            let mut bv = VecZnx::alloc(n, bc, bsz);
            fillv(&mut av, 7);
            fillv(&mut bv, 11);
            let mut al = module.cnv_pvec_left_alloc(ac, asz);
            let mut br = module.cnv_pvec_right_alloc(bc, bsz);
            module.cnv_prepare_left(&mut al, &av, -1, scratch.borrow());
            module.cnv_prepare_right(&mut br, &bv, -1, scratch.borrow());
            let wp = std::mem::size_of::<BE::ScalarPrep>();
            footprint(n * rc * rs * wp, |w| {
                let mut res: VecZnxDft<&mut [u8], BE> = VecZnxDft::from_data(w, n, rc, rs);
                module.cnv_apply_dft(off, &mut res, rcol, &al, acol, &br, bcol, scratch.borrow());
            })
        }
        // p = n, rows, cols_in, cols_out, size, a_size, res_size, limb_offset
        "vmpapply" => {
            let (rows, ci, co, sz, asz, rsz, lo) = (u(1), u(2), u(3), u(4), u(5), u(6), u(7));
            let mut mat = MatZnx::alloc(n, rows, ci, co, sz);
            for (k, x) in mat.raw_mut().iter_mut().enumerate() {
                *x = (k as i64 * 13 + 1) % 31 - 15;
            }
            let mut pm = module.vmp_pmat_alloc(rows, ci, co, sz);
            module.vmp_prepare(&mut pm, &mat, scratch.borrow());
            let mut av = VecZnx::alloc(n, ci, asz);
            fillv(&mut av, 3);
            let mut ad = module.vec_znx_dft_alloc(ci, asz);
            for c in 0..ci {
                module.vec_znx_dft_apply(1, 0, &mut ad, c, &av, c);
            }
            let wp = std::mem::size_of::<BE::ScalarPrep>();
            footprint(n * co * rsz * wp, |w| {
                let mut res: VecZnxDft<&mut [u8], BE> = VecZnxDft::from_data(w, n, co, rsz);
                module.vmp_apply_dft_to_dft(&mut res, &ad, &pm, lo, scratch.borrow());
            })
        }
        _ => "bad-op".into(),
    }
}

pub fn run(_args: &[String]) {
    std::panic::set_hook(Box::new(|_| {}));
    let stdin = std::io::stdin();
    let stdout = std::io::stdout();
    let mut out = stdout.lock();
    for line in stdin.lock().lines() {
        let line = line.unwrap();
        let t: Vec<&str> = line.split_whitespace().collect();
        if t.len() < 2 {
            continue;
        }
        let (id, op) = (t[0], t[1]);
        let ans = match op {
            "hist" => hist(&t),
            "mat" => std::panic::catch_unwind(|| mat(&t)).unwrap_or_else(|e| format!("panic:{}", panic_class(&e))),
            "prep" | "consume" => {
                let be = kv(&t, "be").unwrap_or("fft64ref").to_string();
                let kind = kv(&t, "kind").unwrap_or("big").to_string();
                let p = nums(kv(&t, "p"));
                let isprep = op == "prep";
                let r = std::panic::catch_unwind(|| match (be.as_str(), isprep) {
                    ("fft64ref", true) => prep::<FFT64Ref>(&kind, &p),
                    ("ntt120ref", true) => prep::<NTT120Ref>(&kind, &p),
                    ("fft64avx", true) => prep::<FFT64Avx>(&kind, &p),
                    ("ntt120avx", true) => prep::<NTT120Avx>(&kind, &p),
                    ("fft64ref", false) => consume::<FFT64Ref>(p[0] as usize, p[1] as usize, p[2] as usize),
                    ("ntt120ref", false) => consume::<NTT120Ref>(p[0] as usize, p[1] as usize, p[2] as usize),
                    ("fft64avx", false) => consume::<FFT64Avx>(p[0] as usize, p[1] as usize, p[2] as usize),
                    ("ntt120avx", false) => consume::<NTT120Avx>(p[0] as usize, p[1] as usize, p[2] as usize),
                    _ => "bad-be".into(),
                });
                // the only panics of allocation + accessors are their assertions
                r.unwrap_or_else(|_| "panic:assert".to_string())
            }
            "kern" => {
                let be = kv(&t, "be").unwrap_or("fft64ref").to_string();
                let o = kv(&t, "op").unwrap_or("").to_string();
                let p = nums(kv(&t, "p"));
                let r = std::panic::catch_unwind(|| match be.as_str() {
                    "fft64ref" => kern::<FFT64Ref>(&o, &p),
                    "ntt120ref" => kern::<NTT120Ref>(&o, &p),
                    "fft64avx" => kern::<FFT64Avx>(&o, &p),
                    "ntt120avx" => kern::<NTT120Avx>(&o, &p),
                    _ => "bad-be".into(),
                });
                r.unwrap_or_else(|e| format!("panic:{}", panic_class(&e)))
            }
            "canary" => {
                let n = kv(&t, "n").and_then(|x| x.parse().ok()).unwrap_or(8usize);
                let cols = kv(&t, "cols").and_then(|x| x.parse().ok()).unwrap_or(1usize);
                let size = kv(&t, "size").and_then(|x| x.parse().ok()).unwrap_or(1usize);
                let o = kv(&t, "op").unwrap_or("add").to_string();
                let be = kv(&t, "be").unwrap_or("fft64ref").to_string();
                let r = std::panic::catch_unwind(|| match be.as_str() {
                    "fft64ref" => canary::<FFT64Ref>(n, cols, size, &o),
                    "ntt120ref" => canary::<NTT120Ref>(n, cols, size, &o),
                    "fft64avx" => canary::<FFT64Avx>(n, cols, size, &o),
                    "ntt120avx" => canary::<NTT120Avx>(n, cols, size, &o),
                    _ => "bad-be".into(),
                });
                r.unwrap_or_else(|e| format!("panic:{}", panic_class(&e)))
            }
            _ => "bad-op".into(),
        };
        writeln!(out, "{id} {ans}").unwrap();
    }
    out.flush().unwrap();
}
