import Poulpy.Lemmas.Ntt120Pipe
import Poulpy.Lemmas.Ntt120Bbb
namespace Ntt120
example : (bbcMeta primes30).h = 25 := by decide +kernel
example : (bbcMeta primes30).s2l = [1048572, 8912892, 12058620, 22020092] := by decide +kernel
example : ∀ k, k < 4 → (bbcMeta primes30).s2l.getD k 0 < 2 ^ 31 := by decide +kernel
example : ∀ k, k < 4 → (bbcMeta primes30).s2h.getD k 0 ≡ 2 ^ (32 + 25) [MOD primes30.qs.getD k 1] := by decide +kernel
example : bigQ primes30 = 1315642440469820935610546842527858689 := by decide +kernel
