import Poulpy.Lemmas.Ntt120Acc
namespace Ntt120
theorem pow2Mod_lt' (e q : Nat) (hq : 1 < q) : pow2Mod e q < q := sorry

theorem t1 (q h fa fb : Nat) (hq : 1 < q) (hq31 : q < 2 ^ 31) (hh : 16 ≤ h) (hh2 : h < 32) (hfa : fa < 2 ^ 64) :
    slotProductK q h fa fb ≡ fa * fb [MOD q] ∧ slotProductK q h fa fb < 2 ^ 63 + 2 ^ 47 := by
  unfold slotProductK mulBbc1K u32Pair
  rw [cFromBK_eq q (by omega) (by omega) fb]
  simp only [land_m32, shr_eq, List.getD_cons_zero, List.getD_cons_succ]
  have hr : fb % q < q := Nat.mod_lt _ (by omega)
  have hr2 : fb % q * 2 ^ 32 % q < q := Nat.mod_lt _ (by omega)
  have hu : ∀ t ∈ [((fa % 2 ^ 32, fa / 2 ^ 32, fb % q, fb % q * 2 ^ 32 % q) : Term)], Term.u32 t := by
    intro t ht
    simp only [List.mem_singleton] at ht
    subst ht
    refine ⟨Nat.mod_lt _ (by decide), ?_, ?_, ?_⟩
    · show fa / 2 ^ 32 < 2 ^ 32; omega
    · show fb % q < 2 ^ 32; omega
    · show fb % q * 2 ^ 32 % q < 2 ^ 32; omega
  have hp1 := pow2Mod_lt' 32 q hq
  have hp2 := pow2Mod_lt' (32 + h) q hq
  have hlen1 : [((fa % 2 ^ 32, fa / 2 ^ 32, fb % q, fb % q * 2 ^ 32 % q) : Term)].length < 10000 := by
    show 1 < 10000; omega
  have he1 : (32 : Nat) < 2 ^ 64 := by omega
  have he2 : 32 + h < 2 ^ 64 := by omega
  obtain ⟨_, hlt, hm⟩ := bbcK_spec q h (pow2Mod 32 q) (pow2Mod (32 + h) q) _ hu hlen1 hh hh2 (by omega) (by omega)
    (pow2Mod_spec 32 q hq he1) (pow2Mod_spec (32 + h) q hq he2)
  refine ⟨hm.trans ?_, hlt⟩
  sorry
end Ntt120
