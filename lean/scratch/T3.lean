import Poulpy.Model.Ntt120
namespace Ntt120
example : Nat.Coprime primes30.q0 primes30.q1 := by decide +kernel
example : Nat.gcd primes30.q0 primes30.q1 = 1 := by decide +kernel
example : primes30.c0 * (primes30.q1 * primes30.q2 * primes30.q3) % primes30.q0 = 1 := by decide +kernel
example : totalQ primes30 = 1315667159694490153905084578086461441 := by decide +kernel
example : primes30.q0 = 1073479681 := by decide
example : (1073479681 * 1071513601 * 1070727169 * 1068236801 : Nat) < 2^120 := by decide
example : (2:Nat)^119 < (1073479681 * 1071513601 * 1070727169 * 1068236801 : Nat) := by decide
#eval totalQ primes30
#eval (totalQ primes30 - 1)/2
#eval totalQ primes29
#eval totalQ primes31
#eval Nat.log2 (totalQ primes30).toNat
#eval Nat.log2 (totalQ primes29).toNat
#eval Nat.log2 (totalQ primes31).toNat
end Ntt120
