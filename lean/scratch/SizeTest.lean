import Poulpy.Lemmas.CkksXProg
namespace Ckks
open Hal Core Core.Ops

theorem size_addCtInto {env : Env} {dst a b m : Ct} (h : addCtInto env dst a b = .ok m) : m.size = dst.size := by
  simp only [addCtInto] at h; grind
theorem size_addCtAssign {env : Env} {dst a m : Ct} (h : addCtAssign env dst a = .ok m) : m.size = dst.size := by
  simp only [addCtAssign] at h; grind
theorem size_shiftInto {env : Env} {dst a m : Ct} {e : Nat} (h : shiftInto env dst a e = .ok m) : m.size = dst.size := by
  simp only [shiftInto] at h; grind
theorem size_negInto {env : Env} {dst a m : Ct} (h : negInto env dst a = .ok m) : m.size = dst.size := by
  simp only [negInto, shiftInto] at h; grind
theorem size_divPow2Into {env : Env} {dst a m : Ct} {bits : Nat} (h : divPow2Into env dst a bits = .ok m) : m.size = dst.size := by
  simp only [divPow2Into, shiftInto, Res.bind] at h; grind
theorem size_divPow2Assign {env : Env} {dst m : Ct} {bits : Nat} (h : divPow2Assign env dst bits = .ok m) : m.size = dst.size := by
  simp only [divPow2Assign] at h; grind
theorem size_rescaleInto {env : Env} {dst a m : Ct} {k : Nat} (h : rescaleInto env dst k a = .ok m) : m.size = dst.size := by
  simp only [rescaleInto] at h; grind
theorem size_rescaleAssign {env : Env} {dst m : Ct} {k : Nat} (h : rescaleAssign env dst k = .ok m) : m.size = dst.size := by
  simp only [rescaleAssign] at h; grind
theorem size_rotateInto {env : Env} {dst a m : Ct} {k : Int} (h : rotateInto env dst a k = .ok m) : m.size = dst.size := by
  simp only [rotateInto, shiftInto] at h; grind
theorem size_rotateAssign {env : Env} {dst m : Ct} {k : Int} (h : rotateAssign env dst k = .ok m) : m.size = dst.size := by
  simp only [rotateAssign] at h; grind
theorem size_ptAlign {env : Env} {dst m : Ct} {pt : Pt} (h : ptAlign env dst pt = .ok m) : m.size = dst.size := by
  simp only [ptAlign] at h; grind
end Ckks
