example (s m : Nat) (h : s + m + 2 ^ 33 ≤ 2 ^ 40) : s + 2 ^ 33 ≤ 2 ^ 40 := by omega
example (s m : Nat) (h : s + m + 8 ≤ 2 ^ 40) : s + 8 ≤ 2 ^ 40 := by omega
example (s m : Nat) (h : s + m + 8 ≤ 1000) : s + 8 ≤ 1000 := by omega
example (s m : Nat) (h : s + m + 8 ≤ 1000) : s + 8 ≤ 1001 := by omega
example (a b : Nat) (h : a + b + 8 ≤ 1000) : a + 8 ≤ 1000 := by omega
example (a b : Nat) (h : a + b ≤ 1000) : a ≤ 1000 := by omega
