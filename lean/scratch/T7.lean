import Mathlib.Tactic.Ring
example (s m : Nat) : s ≤ s + m := by omega
example (s m : Nat) : s + 5 ≤ s + (m + 5) := by omega
example (s m : Nat) : s + 2 ^ 33 ≤ s + (m + 2 ^ 33) := by omega
example (s m : Nat) : s + 2 ^ 20 ≤ s + (m + 2 ^ 20) := by omega
example (s m : Nat) (h : s + (m + 2 ^ 33) ≤ 2 ^ 40) : s + 2 ^ 33 ≤ 2 ^ 40 := by omega
