import Poulpy.Lemmas.Ntt120Acc
namespace Ntt120
theorem dot_singleton (t : Term) : dot [t] = t.prod := by
  unfold dot; simp
theorem prod_mk (a b c d : Nat) : Term.prod ((a, b, c, d) : Term) = a * c + b * d := rfl
end Ntt120
