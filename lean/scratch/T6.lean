import Mathlib.Data.Int.ModEq
import Poulpy.Model.Ntt120
namespace Ntt120
def bigQ (P : PrimeSet) : Nat := P.q0 * P.q1 * P.q2 * P.q3
example : 4 * bigQ primes30 < 2 ^ 127 := by decide +kernel
example : bigQ primes30 % 2 = 1 := by decide +kernel
example : totalQ primes30 = (bigQ primes30 : Int) := by decide +kernel
example : qm0 primes30 = ((primes30.q1 * primes30.q2 * primes30.q3 : Nat) : Int) := by decide +kernel
example : primes30.c0 < 2 ^ 32 := by decide +kernel
example : Nat.Coprime primes30.q0 primes30.q1 := by decide +kernel
end Ntt120
