import Poulpy.Model.Ntt120
namespace Ntt120

theorem land_maskLo (x : Nat) : x &&& maskLo = x % 2 ^ 63 := by
  unfold maskLo; exact Nat.and_two_pow_sub_one_eq_mod x 63

theorem oq_eq (q : Nat) (hq : 0 < q) (hq2 : q < 2 ^ 64) : oq q = q - 2 ^ 63 % q := by
  unfold oq subU64
  have h1 : 2 ^ 63 % q < q := Nat.mod_lt _ hq
  omega

/-- value of `bFromU64K` on a non-negative `i64` -/
theorem bFromU64K_nonneg (q : Nat) (x : Int) (h0 : 0 ≤ x) (h1 : x < 2 ^ 63) :
    (bFromU64K q (asU64 x) : Int) = x := by
  unfold bFromU64K
  simp only [land_maskLo]
  have e : asU64 x = x.toNat := by unfold asU64; omega
  have hle : ¬ (asU64 x > maskLo) := by rw [e]; unfold maskLo; omega
  simp only [hle, decide_false, if_false, Bool.false_eq_true]
  unfold wu64
  rw [e]; omega

/-- value of `bFromU64K` on a negative `i64`: `x + 2^63 + (q − 2^63 mod q)`, no wrap -/
theorem bFromU64K_neg (q : Nat) (hq : 0 < q) (hq2 : q < 2 ^ 63) (x : Int) (h0 : -(2 ^ 63) ≤ x) (h1 : x < 0) :
    (bFromU64K q (asU64 x) : Int) = x + 2 ^ 63 + (q - (2 ^ 63 % q : Nat)) := by
  unfold bFromU64K
  simp only [land_maskLo]
  have e : (asU64 x : Int) = x + 2 ^ 64 := by unfold asU64; omega
  have hgt : asU64 x > maskLo := by unfold maskLo; omega
  simp only [hgt, decide_true, if_true]
  rw [oq_eq q hq (by omega)]
  have h1 : 2 ^ 63 % q < q := Nat.mod_lt _ hq
  unfold wu64
  omega

theorem bFromU64K_congr (q : Nat) (hq : 0 < q) (hq2 : q < 2 ^ 63) (x : Int) (h0 : -(2 ^ 63) ≤ x) (h1 : x < 2 ^ 63) :
    (bFromU64K q (asU64 x) : Int) % q = x % q := by
  by_cases hx : 0 ≤ x
  · rw [bFromU64K_nonneg q x hx h1]
  · rw [bFromU64K_neg q hq hq2 x h0 (by omega)]
    have hd : (2 ^ 63 : Nat) = q * (2 ^ 63 / q) + 2 ^ 63 % q := (Nat.div_add_mod _ _).symm
    have hd' : ((2 ^ 63 : Nat) : Int) = (q : Int) * ((2 ^ 63 / q : Nat) : Int) + ((2 ^ 63 % q : Nat) : Int) := by
      exact_mod_cast hd
    have : x + 2 ^ 63 + ((q : Int) - ((2 ^ 63 % q : Nat) : Int)) = x + (q : Int) * (((2 ^ 63 / q : Nat) : Int) + 1) := by
      have h63 : ((2 ^ 63 : Nat) : Int) = 2 ^ 63 := by norm_cast
      rw [← h63, hd']
      rw [Int.mul_add]; omega
    rw [this, Int.add_mul_emod_self_left]

end Ntt120
