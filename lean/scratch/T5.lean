import Poulpy.Lemmas.Ntt120Crt
