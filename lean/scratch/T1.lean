import Poulpy.Model.Ntt120
namespace Ntt120

theorem land_maskLo (x : Nat) : x &&& maskLo = x % 2 ^ 63 := by
  unfold maskLo; exact Nat.and_two_pow_sub_one_eq_mod x 63

theorem asU64_nonneg (x : Int) (h0 : 0 ≤ x) (h1 : x < 2 ^ 63) : asU64 x = x.toNat := by
  unfold asU64; omega

theorem asU64_neg (x : Int) (h0 : -(2 ^ 63) ≤ x) (h1 : x < 0) : (asU64 x : Int) = x + 2 ^ 64 := by
  unfold asU64; omega

theorem oq_eq (q : Nat) (hq : 0 < q) (hq2 : q < 2 ^ 64) : oq q = q - 2 ^ 63 % q := by
  unfold oq subU64
  have h1 : 2 ^ 63 % q < q := Nat.mod_lt _ hq
  omega

end Ntt120
