import Mathlib.Data.Int.ModEq
import Mathlib.Tactic.Ring
import Mathlib.Tactic.Linarith
import Poulpy.Model.Ntt120
open Int
#check @Int.modEq_and_modEq_iff_modEq_mul
#check @Int.ModEq.add
#check @Int.emod_emod_of_dvd
example (a b : ℤ) (n : ℤ) (h : a ≡ b [ZMOD n]) : a * a ≡ b * b [ZMOD n] := h.mul h
