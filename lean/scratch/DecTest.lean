import Poulpy.Lemmas.CkksCorrect
open Ckks KsDec
example : (2:Int) ^ 52 * (4 * (13 : Int) * 256 * 2 ^ 52) + 8 ≤ 2 ^ (bitsOf true - 2) := by decide
example : ((14 : Nat) : Int) * (256 * 2 ^ (52 - 1) * 2 ^ (52 - 1)) + 3 * 2 ^ (52 - 1) + 8 ≤ 2 ^ (bitsOf true - 2) := by decide
example : (2:Int) ^ 19 * (4 * (8 : Int) * 256 * 2 ^ 19) + 8 ≤ 2 ^ (bitsOf false - 2) := by decide
