import Poulpy.Lemmas.Scratch
import Poulpy.Model.ScratchOps
import Mathlib.Tactic.Ring
open Scratch

theorem mod64_mul8 {n : Nat} (h : n % 8 = 0) (c : Nat) : (n * c * 8) % 64 = 0 := by
  obtain ⟨m, rfl⟩ := Nat.dvd_of_mod_eq_zero h
  have : 8 * m * c * 8 = 64 * (m * c) := by ring
  rw [this]; exact Nat.mul_mod_right 64 _

theorem vec_mod64 {n : Nat} (h : n % 8 = 0) (c s : Nat) : vecBytes n c s % 64 = 0 := by
  unfold vecBytes
  have := mod64_mul8 h (c * s)
  rwa [← Nat.mul_assoc] at this

theorem dft_mod64 (be : BE) {n : Nat} (h : n % 8 = 0) (c s : Nat) : dftBytes be n c s % 64 = 0 := by
  unfold dftBytes
  obtain ⟨m, rfl⟩ := Nat.dvd_of_mod_eq_zero h
  cases be
  · have : 8 * m * c * s * BE.prep .fft64 = 64 * (m * c * s) := by simp only [BE.prep]; ring
    rw [this]; exact Nat.mul_mod_right 64 _
  · have : 8 * m * c * s * BE.prep .ntt120 = 64 * (m * c * s * 4) := by simp only [BE.prep]; ring
    rw [this]; exact Nat.mul_mod_right 64 _

theorem norm_mod64 {n : Nat} (h : n % 8 = 0) : normTmp n % 64 = 0 := by unfold normTmp; omega
theorem bignorm_mod64 (be : BE) {n : Nat} (h : n % 8 = 0) : bigNormTmp be n % 64 = 0 := by
  unfold bigNormTmp; cases be <;> simp only [BE.big] <;> omega

theorem glwe_encrypt_sk_ok (be : BE) (n : Nat) (g : G) (hn : n % 8 = 0) (a : Arena)
    (h : tbGlweEncryptSk be n g.size ≤ a.available) : (run (treeGlweEncryptSk be n g) a).isOk = true := by
  have hV := vec_mod64 hn 1 g.size
  have hD := dft_mod64 be hn 1 g.size
  have hN := norm_mod64 hn
  have hB := bignorm_mod64 be hn
  apply run_ok_of_aligned
  · simp only [treeGlweEncryptSk, treeEncSkInternal, treeNormalize, treeBigNormalize, leaf, loop, fits]
    split <;> simp [fits]
  · simp only [treeGlweEncryptSk, treeEncSkInternal, treeNormalize, treeBigNormalize, leaf, loop]
    split <;> simp [aligned, reqA, hV, hD, hN, hB]
  · refine Nat.le_trans ?_ h
    simp only [treeGlweEncryptSk, treeEncSkInternal, treeNormalize, treeBigNormalize, leaf, loop, tbGlweEncryptSk]
    generalize vecBytes n 1 g.size = V
    generalize dftBytes be n 1 g.size = D
    generalize normTmp n = N
    generalize bigNormTmp be n = B
    split <;> simp only [reqA, Bool.false_eq_true, if_false] <;> omega
