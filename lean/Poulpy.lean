import Poulpy.Model.Bdd
import Poulpy.Props.C13
