/-
C08 — limb representation: normalisation, shifts and integer encoding are exact.

All theorems are about the definitions the driver executes (`Model/Digit`, `ZnxNorm`, `VecNorm`,
`Encoding`); `bits = 64` is the `i64` family, `bits = 128` the `i128` (NTT120 big accumulator) one.
Head-room: `NormL.HeadRoom bits b lsh H` = `1 ≤ bits`, `lsh < b ≤ bits`, `0 ≤ H`,
`H + 2^b + 4 ≤ 2^(bits-1)`; inputs are bounded by `H` in absolute value (for `i64`: `H = 2^62` for
every `b ≤ 61`, `H = 2^62 - 4` for `b = 62`); they need not be normalised.
`TorusNear X px Y py`: `|X/2^px − Y/2^py| ≤ 2^-px` on R/Z;  `TorusEq`: equality on R/Z.
The model follows poulpy after the repairs docs/fixes/01–03 (gap region, rsh_assign, NTT120 fused cross radix).

Cross-radix theorems: `NormL.CrossCtx bits ab rb rs 0 H a` = `bits ∈ {64,128}`, `1 ≤ rb ≤ 62`, `1 ≤ ab ≤ 62`,
`0 ≤ H`, `H + 8 ≤ 2^(bits-2)`, every limb of `a` bounded by `H` (i64: `|limb| ≤ 2^62 − 8`).

/- FULL STATEMENTS not (fully) proved; everything below is covered by correspondence + oracle:
   none for the value properties.  Remarks on the cross-radix theorems:
   (1) [closed] termination of the fuelled inner loop: `normalize_cross_terminates` proves the routine
       always returns, so the hypotheses `… = some out` are always satisfiable (`…_total` forms);
   (2) [closed] exactness holds under the bit-granular condition `ab·a_size − off ≤ rb·rs`, as for equal radices.
-/
-/
import Poulpy.Lemmas.NormFused
import Poulpy.Lemmas.NormDispatch
import Poulpy.Lemmas.NormCodec

namespace C08
open NormL

/-! ### digits and carries -/

/-- `get_digit(b, x) + get_carry(b, x, digit)·2^b = x` whenever `|x| < 2^(bits-1) − 2^(b-1)`
(the exact head-room under which `wrapping_sub` does not wrap). -/
theorem digit_carry {bits b : Nat} (hb : 1 ≤ b) (hbb : b ≤ bits) (x : Int)
    (hx : |x| < 2 ^ (bits - 1) - 2 ^ (b - 1)) :
    getDigitW bits b x + getCarryW bits b x (getDigitW bits b x) * 2 ^ b = x := by
  rw [getDigitW_eq_bmod hb hbb]
  have h1 : |x - bmod b x| < 2 ^ (bits - 1) := by
    have := abs_sub x (bmod b x); have := bmod_abs_le hb x; linarith
  rw [getCarryW_eq_bcarry (by omega) h1]
  exact bmod_add_bcarry b x

example : getDigitW 64 5 1000 + getCarryW 64 5 1000 (getDigitW 64 5 1000) * 2 ^ 5 = 1000 :=
  digit_carry (by norm_num) (by norm_num) 1000 (by norm_num)

/-- every digit lies in `[-2^(b-1), 2^(b-1))`, for every input (no head-room needed) -/
theorem digit_range {bits b : Nat} (hb : 1 ≤ b) (hbb : b ≤ bits) (x : Int) : Balanced b (getDigitW bits b x) := by
  rw [getDigitW_eq_bmod hb hbb]; exact bmod_range hb x

example : Balanced 62 (getDigitW 64 62 (2 ^ 63 - 1)) := digit_range (by norm_num) (by norm_num) _

/-- the head-room of `digit_carry` is sharp: at the first excluded value `x = 2^63 − 2^(b-1)` (here
`b = 2`) the subtraction wraps and the identity fails. -/
theorem digit_carry_boundary_counterexample :
    ¬ (getDigitW 64 2 (2 ^ 63 - 2) + getCarryW 64 2 (2 ^ 63 - 2) (getDigitW 64 2 (2 ^ 63 - 2)) * 2 ^ 2 = 2 ^ 63 - 2) := by
  decide

example : getCarryW 64 2 (2 ^ 63 - 2) (getDigitW 64 2 (2 ^ 63 - 2)) = -(2 ^ 61) := by decide

/-! ### step-kernel contracts -/

/-- first step: `a·2^lsh = digit + carry·2^b`, digit balanced, carry within `H + 3` -/
theorem first_step_contract {bits b lsh : Nat} {H : Int} (hr : HeadRoom bits b lsh H) {a : Int} (ha : |a| ≤ H) :
    a * 2 ^ lsh = (firstStepS bits b lsh a).1 + (firstStepS bits b lsh a).2 * 2 ^ b ∧
    Balanced b (firstStepS bits b lsh a).1 ∧ |(firstStepS bits b lsh a).2| ≤ H + 3 :=
  firstStepS_spec hr ha

/-- middle step: `a·2^lsh + c_in = digit + c_out·2^b`, digit balanced, head-room preserved -/
theorem middle_step_contract {bits b lsh : Nat} {H : Int} (hr : HeadRoom bits b lsh H) {a c : Int}
    (ha : |a| ≤ H) (hc : |c| ≤ H + 3) :
    a * 2 ^ lsh + c = (middleStepS bits b lsh a c).1 + (middleStepS bits b lsh a c).2 * 2 ^ b ∧
    Balanced b (middleStepS bits b lsh a c).1 ∧ |(middleStepS bits b lsh a c).2| ≤ H + 3 :=
  middleStepS_spec hr ha hc

/-- final step: `a·2^lsh + c_in ≡ digit (mod 2^b)`, digit balanced -/
theorem final_step_contract {bits b lsh : Nat} {H : Int} (hr : HeadRoom bits b lsh H) {a c : Int}
    (ha : |a| ≤ H) (hc : |c| ≤ H + 3) :
    (∃ q : Int, a * 2 ^ lsh + c = finalStepS bits b lsh a c + q * 2 ^ b) ∧ Balanced b (finalStepS bits b lsh a c) :=
  finalStepS_spec hr ha hc

/-- the `i64` head-room for radix `2^50`, shift 7, inputs up to `2^62` -/
theorem headRoom_example : HeadRoom 64 50 7 (2 ^ 62) :=
  ⟨by norm_num, by norm_num, by norm_num, by norm_num, by norm_num⟩

example : (2 ^ 62 - 1 : Int) * 2 ^ 7 + 5 =
    (middleStepS 64 50 7 (2 ^ 62 - 1) 5).1 + (middleStepS 64 50 7 (2 ^ 62 - 1) 5).2 * 2 ^ 50 :=
  (middle_step_contract headRoom_example (by norm_num) (by norm_num)).1

/-- carry-chain value lemma for a run of middle steps over a whole limb block -/
theorem middle_run_value {bits b lsh : Nat} {H : Int} (hr : HeadRoom bits b lsh H) (l : List Int)
    (hl : ∀ x ∈ l, |x| ≤ H) (c0 : Int) (hc0 : |c0| ≤ H + 3) :
    valI b (middleRun bits b lsh l c0).1 + (middleRun bits b lsh l c0).2 * 2 ^ (b * l.length)
      = valI b l * 2 ^ lsh + c0 ∧
    (∀ d ∈ (middleRun bits b lsh l c0).1, Balanced b d) :=
  let h := middleRun_spec hr l hl c0 hc0; ⟨h.1, h.2.2.1⟩

example : valI 50 (middleRun 64 50 7 [2 ^ 62, -3] 0).1 + (middleRun 64 50 7 [2 ^ 62, -3] 0).2 * 2 ^ (50 * 2)
    = valI 50 [2 ^ 62, -3] * 2 ^ 7 + 0 :=
  (middle_run_value headRoom_example _ (by intro x hx; simp at hx; rcases hx with rfl | rfl <;> norm_num) 0 (by norm_num)).1

/-! ### vec_znx_normalize, same radix -/

/-- **`vec_znx_normalize` / `vec_znx_big_normalize`, same radix** (`bits = 64`: VecZnx and the FFT64
accumulator; `bits = 128`: the kernels of the NTT120 accumulator): for every radix, size, **every
offset** and un-normalised input within head-room, the output has `rs` balanced digits, represents
`a·2^off` on the torus within one unit of its last limb, and exactly when it has enough limbs
(`b·a_size − off ≤ b·rs`).  (Before poulpy's gap-region repair this needed `-limbs_offset ≤ res_size`.) -/
theorem normalize_inter_value {bits b : Nat} {H : Int} (hr : HeadRoom bits b 0 H)
    (rs : Nat) (off : Int) (a : List Int) (ha : ∀ x ∈ a, |x| ≤ H) :
    (normalizeInterCoef bits b rs off a).length = rs ∧
    (∀ d ∈ normalizeInterCoef bits b rs off a, Balanced b d) ∧
    TorusNear (valI b (normalizeInterCoef bits b rs off a)) (b * rs)
      (valI b a * 2 ^ off.toNat) (b * a.length + (-off).toNat) ∧
    (((b * a.length : Nat) : Int) - off ≤ (b * rs : Nat) →
      TorusEq (valI b (normalizeInterCoef bits b rs off a)) (b * rs)
        (valI b a * 2 ^ off.toNat) (b * a.length + (-off).toNat)) :=
  normalizeInterCoef_value hr rs off a ha

/-- non-vacuity: radix 2^50, three un-normalised limbs at the head-room boundary, offset −57 into two limbs -/
example : TorusNear (valI 50 (normalizeInterCoef 64 50 2 (-57) [2 ^ 62, -(2 ^ 62), 12345])) (50 * 2)
    (valI 50 [2 ^ 62, -(2 ^ 62), 12345] * 2 ^ (-57 : Int).toNat) (50 * 3 + (57 : Int).toNat) :=
  (normalize_inter_value (bits := 64) (b := 50) (H := 2 ^ 62)
    ⟨by norm_num, by norm_num, by norm_num, by norm_num, by norm_num⟩ 2 (-57) _
    (by intro x hx; simp at hx; rcases hx with rfl | rfl | rfl <;> norm_num)).2.2.1

/-- non-vacuity in the former gap region: the shifted input lies 3 limbs below the single output limb -/
example : TorusNear (valI 3 (normalizeInterCoef 64 3 1 (-10) [-4, 3])) (3 * 1)
    (valI 3 [-4, 3] * 2 ^ (-10 : Int).toNat) (3 * 2 + (10 : Int).toNat) :=
  (normalize_inter_value (bits := 64) (b := 3) (H := 2 ^ 62)
    ⟨by norm_num, by norm_num, by norm_num, by norm_num, by norm_num⟩ 1 (-10) _
    (by intro x hx; simp at hx; rcases hx with rfl | rfl <;> norm_num)).2.2.1

/-- the former witness of the gap defect (`b = 3, a = [-4], rs = 1, off = -4`, was `[-2]`) now rounds to `0` -/
example : normalizeInterCoef 64 3 1 (-4) [-4] = [0] := by decide

/-- the output of the NTT120 path is the same list truncated to `i64`: a no-op on balanced digits -/
theorem big_normalize128_inter_value {b : Nat} {H : Int} (hr : HeadRoom 128 b 0 H) (hb : b ≤ 63)
    (rs : Nat) (off : Int) (a : List Int) (ha : ∀ x ∈ a, |x| ≤ H) :
    bigNormalizeCoef128 b rs off b a = some (normalizeInterCoef 128 b rs off a) ∧
    TorusNear (valI b (normalizeInterCoef 128 b rs off a)) (b * rs)
      (valI b a * 2 ^ off.toNat) (b * a.length + (-off).toNat) := by
  have h := normalizeInterCoef_value hr rs off a ha
  refine ⟨?_, h.2.2.1⟩
  unfold bigNormalizeCoef128
  simp only [if_true]
  congr 1
  have hw : ∀ d ∈ normalizeInterCoef 128 b rs off a, w64 d = id d := by
    intro d hd
    have hbal := (h.2.1 d hd)
    have h1 : (2 : Int) ^ (b - 1) ≤ 2 ^ 62 := two_pow_le (by omega)
    unfold w64
    rw [Int.emod_eq_of_lt (by have := hbal.1; linarith) (by have := hbal.2; linarith)]; simp
  rw [List.map_congr_left hw, List.map_id]

example : bigNormalizeCoef128 20 2 (-70) 20 [2 ^ 100, -5] = some (normalizeInterCoef 128 20 2 (-70) [2 ^ 100, -5]) :=
  (big_normalize128_inter_value (b := 20) (H := 2 ^ 120) ⟨by norm_num, by norm_num, by norm_num, by norm_num, by norm_num⟩
    (by norm_num) 2 (-70) _ (by intro x hx; simp at hx; rcases hx with rfl | rfl <;> norm_num)).1

/-! ### vec_znx_rsh, vec_znx_rsh_assign -/

/-- `vec_znx_rsh` (overwrite form) *is* the same-radix normalisation with offset `−k` (no head-room
needed: the two routines perform the same steps) -/
theorem rsh_eq_normalize {b : Nat} (hb : 1 ≤ b) (k : Nat) (a res : List Int) :
    rshCoef .overwrite b k a res = normalizeInterCoef 64 b res.length (-(k : Int)) a :=
  rshCoef_overwrite_eq hb k a res

/-- **`vec_znx_rsh`**, every shift amount `k` (including shifts beyond the output precision):
balanced digits, `a·2^-k` within one unit of the last output limb, exact when
`b·a_size + k ≤ b·res_size`. -/
theorem rsh_value {b : Nat} {H : Int} (hr : HeadRoom 64 b 0 H) (k : Nat) (a res : List Int)
    (ha : ∀ x ∈ a, |x| ≤ H) :
    (rshCoef .overwrite b k a res).length = res.length ∧
    (∀ d ∈ rshCoef .overwrite b k a res, Balanced b d) ∧
    TorusNear (valI b (rshCoef .overwrite b k a res)) (b * res.length) (valI b a) (b * a.length + k) ∧
    (b * a.length + k ≤ b * res.length →
      TorusEq (valI b (rshCoef .overwrite b k a res)) (b * res.length) (valI b a) (b * a.length + k)) := by
  have hb : 1 ≤ b := by have := hr.hlsh; omega
  rw [rshCoef_overwrite_eq hb]
  have h := normalize_inter_value hr res.length (-(k : Int)) a ha
  have e1 : (-(k : Int)).toNat = 0 := by omega
  have e2 : (-(-(k : Int))).toNat = k := by omega
  rw [e1, e2, pow_zero, mul_one] at h
  refine ⟨h.1, h.2.1, h.2.2.1, fun hx => h.2.2.2 ?_⟩
  push_cast
  have : ((b * a.length + k : Nat) : Int) ≤ ((b * res.length : Nat) : Int) := by exact_mod_cast hx
  push_cast at this
  linarith

/-- a shift far beyond the output precision (`k = 257 > 2·50`) -/
example : TorusNear (valI 50 (rshCoef .overwrite 50 257 [2 ^ 62, -(2 ^ 62), 12345] [0, 0])) (50 * 2)
    (valI 50 [2 ^ 62, -(2 ^ 62), 12345]) (50 * 3 + 257) :=
  (rsh_value (b := 50) (H := 2 ^ 62) ⟨by norm_num, by norm_num, by norm_num, by norm_num, by norm_num⟩ 257 _ [0, 0]
    (by intro x hx; simp at hx; rcases hx with rfl | rfl | rfl <;> norm_num)).2.2.1

/-- **`vec_znx_rsh_assign`**: never panics, does not depend on the scratch content, and is
`vec_znx_rsh` computed in place: same length, balanced digits, `a·2^-k` within one unit of the last
limb for every `k`, exact for `k = 0`. -/
theorem rsh_assign_value {b : Nat} {H : Int} (hr : HeadRoom 64 b 0 H) (k : Nat) (scr : Int) (a : List Int)
    (ha : ∀ x ∈ a, |x| ≤ H) :
    ∃ r, rshAssignCoef b k scr a = some r ∧ r.length = a.length ∧ (∀ d ∈ r, Balanced b d) ∧
      TorusNear (valI b r) (b * a.length) (valI b a) (b * a.length + k) ∧
      (k = 0 → TorusEq (valI b r) (b * a.length) (valI b a) (b * a.length + k)) := by
  have h := rsh_value hr k a a ha
  exact ⟨_, rfl, h.1, h.2.1, h.2.2.1, fun hk => h.2.2.2 (by omega)⟩

/-- the former witnesses: `⌈k/b⌉ = 2` (was `[-1, 0]` = 1/2 for 1/16; now `[-1, -1]` = 1/4, within one
unit 1/4), `⌈k/b⌉ > size` (was a panic), dirty scratch with `k = 0` (was input + 5) -/
example : rshAssignCoef 1 2 0 [0, 1] = some [-1, -1] ∧ rshAssignCoef 1 2 0 [1] = some [-1] ∧
    rshAssignCoef 3 0 5 [1, 2, 3] = some [1, 2, 3] := by decide

/-! ### vec_znx_lsh -/

/-- `vec_znx_lsh` (overwrite form) *is* the same-radix normalisation with offset `+k` (unconditional) -/
theorem lsh_eq_normalize {b : Nat} (hb : 1 ≤ b) (k : Nat) (a res : List Int) :
    lshCoef .overwrite b k a res = normalizeInterCoef 64 b res.length (k : Int) a :=
  lshCoef_overwrite_eq hb k a res

/-- **`vec_znx_lsh`**, every shift amount: balanced digits, `a·2^k` (mod 1) within one unit of the last
output limb, exact when `b·a_size ≤ b·res_size + k`. -/
theorem lsh_value {b : Nat} {H : Int} (hr : HeadRoom 64 b 0 H) (k : Nat) (a res : List Int)
    (ha : ∀ x ∈ a, |x| ≤ H) :
    (lshCoef .overwrite b k a res).length = res.length ∧
    (∀ d ∈ lshCoef .overwrite b k a res, Balanced b d) ∧
    TorusNear (valI b (lshCoef .overwrite b k a res)) (b * res.length) (valI b a * 2 ^ k) (b * a.length) ∧
    (b * a.length ≤ b * res.length + k →
      TorusEq (valI b (lshCoef .overwrite b k a res)) (b * res.length) (valI b a * 2 ^ k) (b * a.length)) := by
  have hb : 1 ≤ b := by have := hr.hlsh; omega
  rw [lshCoef_overwrite_eq hb]
  have h := normalize_inter_value hr res.length (k : Int) a ha
  have e1 : ((k : Int)).toNat = k := by omega
  have e2 : (-(k : Int)).toNat = 0 := by omega
  rw [e1, e2, Nat.add_zero] at h
  refine ⟨h.1, h.2.1, h.2.2.1, fun hx => h.2.2.2 ?_⟩
  have : ((b * a.length : Nat) : Int) ≤ ((b * res.length + k : Nat) : Int) := by exact_mod_cast hx
  push_cast at this ⊢
  linarith

example : TorusNear (valI 50 (lshCoef .overwrite 50 57 [2 ^ 62, -(2 ^ 62), 12345] [0, 0])) (50 * 2)
    (valI 50 [2 ^ 62, -(2 ^ 62), 12345] * 2 ^ 57) (50 * 3) :=
  (lsh_value (b := 50) (H := 2 ^ 62) ⟨by norm_num, by norm_num, by norm_num, by norm_num, by norm_num⟩ 57 _ [0, 0]
    (by intro x hx; simp at hx; rcases hx with rfl | rfl | rfl <;> norm_num)).2.2.1

/-! ### fused add / sub forms -/

/-- **fused add, fall-back form** (`res' = res + t` limb-wise with `t` the normalisation into a
temporary: HAL default of `vec_znx_big_normalize_add_assign` on FFT64, NTT120 for different radices):
if `t` represents `Y/2^py` within one unit and no limb sum leaves `i64`, then `res' − res` does. -/
theorem fused_add_fallback_value (b : Nat) (res t : List Int) (hl : res.length = t.length)
    (hw : ∀ p ∈ List.zip res t, |p.1 + p.2| < 2 ^ 63) {Y : Int} {py : Nat}
    (h : TorusNear (valI b t) (b * t.length) Y py) :
    TorusNear (valI b (List.zipWith (fun r x => w64 (r + x)) res t) - valI b res) (b * res.length) Y py :=
  fused_add_value b res t hl hw h

/-- **fused sub, fall-back form**: `res' − res` represents `−Y/2^py` within one unit -/
theorem fused_sub_fallback_value (b : Nat) (res t : List Int) (hl : res.length = t.length)
    (hw : ∀ p ∈ List.zip res t, |p.1 - p.2| < 2 ^ 63) {Y : Int} {py : Nat}
    (h : TorusNear (valI b t) (b * t.length) Y py) :
    TorusNear (valI b (List.zipWith (fun r x => w64 (r - x)) res t) - valI b res) (b * res.length) (-Y) py :=
  fused_sub_value b res t hl hw h

/-- balanced digits of radix ≤ 2^62 added to limbs bounded by 2^62 do not wrap -/
theorem no_wrap_of_balanced {b : Nat} (hb1 : 1 ≤ b) (hb : b ≤ 62) (res t : List Int)
    (hres : ∀ r ∈ res, |r| ≤ 2 ^ 62) (ht : ∀ d ∈ t, Balanced b d) :
    (∀ p ∈ List.zip res t, |p.1 + p.2| < 2 ^ 63) ∧ (∀ p ∈ List.zip res t, |p.1 - p.2| < 2 ^ 63) := by
  have h1 : (2 : Int) ^ (b - 1) ≤ 2 ^ 61 := two_pow_le (by omega)
  constructor <;> intro p hp
  · have hm := List.of_mem_zip hp
    have := hres _ hm.1; have := (ht _ hm.2).abs_le; have := abs_add_le p.1 p.2; linarith
  · have hm := List.of_mem_zip hp
    have := hres _ hm.1; have := (ht _ hm.2).abs_le; have := abs_sub p.1 p.2; linarith

/-- **same-radix `vec_znx_big_normalize_add_assign` (FFT64, per coefficient)**:
`res' − res` represents `a·2^off` within one unit of the last limb, for limbs of `res` up to `2^62`. -/
theorem big_normalize_add_value64 {b : Nat} {H : Int} (hr : HeadRoom 64 b 0 H) (hb : b ≤ 62) (off : Int)
    (a res : List Int) (ha : ∀ x ∈ a, |x| ≤ H) (hres : ∀ r ∈ res, |r| ≤ 2 ^ 62) :
    TorusNear (valI b (List.zipWith (fun r x => w64 (r + x)) res (normalizeInterCoef 64 b res.length off a)) - valI b res)
      (b * res.length) (valI b a * 2 ^ off.toNat) (b * a.length + (-off).toNat) := by
  have hb1 : 1 ≤ b := by have := hr.hlsh; omega
  have h := normalize_inter_value hr res.length off a ha
  have hnw := no_wrap_of_balanced hb1 hb res _ hres h.2.1
  exact fused_add_fallback_value b res _ h.1.symm hnw.1 (by rw [h.1]; exact h.2.2.1)

/-- **the NTT120 same-radix fused kernels are the fall-back form**: within head-room
`ntt120_vec_znx_big_normalize_inter_assign::<AddOp/SubOp>` computes `res[j] ± tmp[j]` limb for limb, `tmp`
being the normalisation into a temporary (so NTT120 and FFT64 agree bit for bit on these operations). -/
theorem big_normalize_fused128_eq {b : Nat} {H : Int} (hr : HeadRoom 128 b 0 H) (op : AccOp) (off : Int)
    (a res : List Int) (ha : ∀ x ∈ a, |x| ≤ H) (hres : ∀ r ∈ res, |r| < 2 ^ 63) :
    bigNormalizeAssignCoef128 op b off b a res
      = some (List.zipWith (fun r x => op.apply r x) res ((normalizeInterCoef 128 b res.length off a).map w64)) := by
  unfold bigNormalizeAssignCoef128
  simp only [if_true]
  rw [normalizeInterAssignCoef128_eq hr op off a res ha hres]

/-- **NTT120 same-radix `vec_znx_big_normalize_add_assign`**: `res' − res` represents `a·2^off` within one
unit of the last limb (`i128` accumulator limbs within head-room, `res` limbs up to `2^62`). -/
theorem big_normalize_add_value128 {b : Nat} {H : Int} (hr : HeadRoom 128 b 0 H) (hb : b ≤ 62) (off : Int)
    (a res : List Int) (ha : ∀ x ∈ a, |x| ≤ H) (hres : ∀ r ∈ res, |r| ≤ 2 ^ 62) :
    ∃ res', bigNormalizeAssignCoef128 .add b off b a res = some res' ∧
      TorusNear (valI b res' - valI b res) (b * res.length) (valI b a * 2 ^ off.toNat) (b * a.length + (-off).toNat) := by
  have hb1 : 1 ≤ b := by have := hr.hlsh; omega
  have hres' : ∀ r ∈ res, |r| < 2 ^ 63 := fun r h => by have := hres r h; linarith
  refine ⟨_, big_normalize_fused128_eq hr .add off a res ha hres', ?_⟩
  have h := normalize_inter_value hr res.length off a ha
  have hw : (normalizeInterCoef 128 b res.length off a).map w64 = normalizeInterCoef 128 b res.length off a := by
    have hwd : ∀ d ∈ normalizeInterCoef 128 b res.length off a, w64 d = id d := by
      intro d hd
      have := (h.2.1 d hd).abs_le
      have h1 : (2 : Int) ^ (b - 1) ≤ 2 ^ 61 := two_pow_le (by omega)
      exact w64_eq_of_abs_lt (by linarith)
    rw [List.map_congr_left hwd, List.map_id]
  rw [hw]
  have hnw := no_wrap_of_balanced hb1 hb res _ hres h.2.1
  exact fused_add_fallback_value b res _ h.1.symm hnw.1 (by rw [h.1]; exact h.2.2.1)

/-- **NTT120 same-radix `vec_znx_big_normalize_sub_assign`**: `res' − res` represents `−a·2^off` -/
theorem big_normalize_sub_value128 {b : Nat} {H : Int} (hr : HeadRoom 128 b 0 H) (hb : b ≤ 62) (off : Int)
    (a res : List Int) (ha : ∀ x ∈ a, |x| ≤ H) (hres : ∀ r ∈ res, |r| ≤ 2 ^ 62) :
    ∃ res', bigNormalizeAssignCoef128 .sub b off b a res = some res' ∧
      TorusNear (valI b res' - valI b res) (b * res.length) (-(valI b a * 2 ^ off.toNat)) (b * a.length + (-off).toNat) := by
  have hb1 : 1 ≤ b := by have := hr.hlsh; omega
  have hres' : ∀ r ∈ res, |r| < 2 ^ 63 := fun r h => by have := hres r h; linarith
  refine ⟨_, big_normalize_fused128_eq hr .sub off a res ha hres', ?_⟩
  have h := normalize_inter_value hr res.length off a ha
  have hw : (normalizeInterCoef 128 b res.length off a).map w64 = normalizeInterCoef 128 b res.length off a := by
    have hwd : ∀ d ∈ normalizeInterCoef 128 b res.length off a, w64 d = id d := by
      intro d hd
      have := (h.2.1 d hd).abs_le
      have h1 : (2 : Int) ^ (b - 1) ≤ 2 ^ 61 := two_pow_le (by omega)
      exact w64_eq_of_abs_lt (by linarith)
    rw [List.map_congr_left hwd, List.map_id]
  rw [hw]
  have hnw := no_wrap_of_balanced hb1 hb res _ hres h.2.1
  exact fused_sub_fallback_value b res _ h.1.symm hnw.2 (by rw [h.1]; exact h.2.2.1)

example : ∃ res', bigNormalizeAssignCoef128 .add 20 (-33) 20 [2 ^ 100, -5, 77] [2 ^ 62, -(2 ^ 62)] = some res' ∧
    TorusNear (valI 20 res' - valI 20 [2 ^ 62, -(2 ^ 62)]) (20 * 2) (valI 20 [2 ^ 100, -5, 77] * 2 ^ (-33 : Int).toNat)
      (20 * 3 + (33 : Int).toNat) :=
  big_normalize_add_value128 (b := 20) (H := 2 ^ 120) ⟨by norm_num, by norm_num, by norm_num, by norm_num, by norm_num⟩
    (by norm_num) (-33) _ _ (by intro x hx; simp at hx; rcases hx with rfl | rfl | rfl <;> norm_num)
    (by intro x hx; simp at hx; rcases hx with rfl | rfl <;> norm_num)

/-- **`vec_znx_lsh_add_into`**: the fused kernel is the fall-back form, hence `res' − res` represents
`a·2^k` within one unit of the last limb. -/
theorem lsh_add_value {b : Nat} {H : Int} (hr : HeadRoom 64 b 0 H) (hb : b ≤ 62) (k : Nat) (a res : List Int)
    (ha : ∀ x ∈ a, |x| ≤ H) (hres : ∀ r ∈ res, |r| ≤ 2 ^ 62) :
    TorusNear (valI b (lshCoef .add b k a res) - valI b res) (b * res.length) (valI b a * 2 ^ k) (b * a.length) := by
  have hb1 : 1 ≤ b := by have := hr.hlsh; omega
  have hres' : ∀ r ∈ res, |r| < 2 ^ 63 := fun r h => by have := hres r h; linarith
  rw [lshCoef_fused_eq .add (by decide) b k a res hres']
  have h := lsh_value hr k a res ha
  have hnw := no_wrap_of_balanced hb1 hb res _ hres h.2.1
  exact fused_add_fallback_value b res _ h.1.symm hnw.1 (by rw [h.1]; exact h.2.2.1)

/-- **`vec_znx_lsh_sub`**: `res' − res` represents `−a·2^k` within one unit of the last limb. -/
theorem lsh_sub_value {b : Nat} {H : Int} (hr : HeadRoom 64 b 0 H) (hb : b ≤ 62) (k : Nat) (a res : List Int)
    (ha : ∀ x ∈ a, |x| ≤ H) (hres : ∀ r ∈ res, |r| ≤ 2 ^ 62) :
    TorusNear (valI b (lshCoef .sub b k a res) - valI b res) (b * res.length) (-(valI b a * 2 ^ k)) (b * a.length) := by
  have hb1 : 1 ≤ b := by have := hr.hlsh; omega
  have hres' : ∀ r ∈ res, |r| < 2 ^ 63 := fun r h => by have := hres r h; linarith
  rw [lshCoef_fused_eq .sub (by decide) b k a res hres']
  have h := lsh_value hr k a res ha
  have hnw := no_wrap_of_balanced hb1 hb res _ hres h.2.1
  exact fused_sub_fallback_value b res _ h.1.symm hnw.2 (by rw [h.1]; exact h.2.2.1)

example : TorusNear (valI 50 (lshCoef .add 50 57 [2 ^ 61, -7, 12345] [2 ^ 62, -(2 ^ 62)]) - valI 50 [2 ^ 62, -(2 ^ 62)])
    (50 * 2) (valI 50 [2 ^ 61, -7, 12345] * 2 ^ 57) (50 * 3) :=
  lsh_add_value (b := 50) (H := 2 ^ 62) ⟨by norm_num, by norm_num, by norm_num, by norm_num, by norm_num⟩ (by norm_num) 57 _ _
    (by intro x hx; simp at hx; rcases hx with rfl | rfl | rfl <;> norm_num)
    (by intro x hx; simp at hx; rcases hx with rfl | rfl <;> norm_num)

/-- **`vec_znx_rsh_add_into`**, every `k`: the kernel re-normalises the top `⌈k/b⌉` limbs of `res`
together with the carry, adds the digits to the middle limbs and leaves the bottom limbs; `res' − res`
represents `a·2^-k` within one unit of the last limb (limbs of `res` within head-room and `≤ 2^62`). -/
theorem rsh_add_value {b : Nat} {H : Int} (hr : HeadRoom 64 b 0 H) (hb62 : b ≤ 62) (k : Nat) (a res : List Int)
    (ha : ∀ x ∈ a, |x| ≤ H) (hres : ∀ r ∈ res, |r| ≤ H) (hres62 : ∀ r ∈ res, |r| ≤ 2 ^ 62) :
    (rshCoef .add b k a res).length = res.length ∧
    TorusNear (valI b (rshCoef .add b k a res) - valI b res) (b * res.length) (valI b a) (b * a.length + k) := by
  obtain ⟨hl, t, ht⟩ := rshCoef_fused_cong hr hb62 false k a res ha hres hres62
  simp only [Bool.false_eq_true, if_false, one_mul] at hl ht
  exact ⟨hl, torusNear_of_cong ⟨t, by linarith⟩ (rsh_value hr k a res ha).2.2.1⟩

/-- **`vec_znx_rsh_sub`**, every `k`: `res' − res` represents `−a·2^-k` within one unit of the last limb -/
theorem rsh_sub_value {b : Nat} {H : Int} (hr : HeadRoom 64 b 0 H) (hb62 : b ≤ 62) (k : Nat) (a res : List Int)
    (ha : ∀ x ∈ a, |x| ≤ H) (hres : ∀ r ∈ res, |r| ≤ H) (hres62 : ∀ r ∈ res, |r| ≤ 2 ^ 62) :
    (rshCoef .sub b k a res).length = res.length ∧
    TorusNear (valI b (rshCoef .sub b k a res) - valI b res) (b * res.length) (-(valI b a)) (b * a.length + k) := by
  obtain ⟨hl, t, ht⟩ := rshCoef_fused_cong hr hb62 true k a res ha hres hres62
  simp only [if_true] at hl ht
  refine ⟨hl, torusNear_of_cong ⟨t, ?_⟩ (rsh_value hr k a res ha).2.2.1.neg⟩
  linarith

example : TorusNear (valI 50 (rshCoef .add 50 57 [2 ^ 61, -7, 12345] [2 ^ 61, -(2 ^ 61)]) - valI 50 [2 ^ 61, -(2 ^ 61)])
    (50 * 2) (valI 50 [2 ^ 61, -7, 12345]) (50 * 3 + 57) :=
  (rsh_add_value (b := 50) (H := 2 ^ 62) ⟨by norm_num, by norm_num, by norm_num, by norm_num, by norm_num⟩ (by norm_num) 57 _ _
    (by intro x hx; simp at hx; rcases hx with rfl | rfl | rfl <;> norm_num)
    (by intro x hx; simp at hx; rcases hx with rfl | rfl <;> norm_num)
    (by intro x hx; simp at hx; rcases hx with rfl | rfl <;> norm_num)).2

/-- **`vec_znx_lsh_assign`** is `vec_znx_lsh` with `res = a`: same length, balanced digits and exactly
`a·2^k` on the torus (the output has as many limbs as the input). -/
theorem lsh_assign_value {b : Nat} {H : Int} (k : Nat) (hr : HeadRoom 64 b 0 H) (a : List Int) (ha : ∀ x ∈ a, |x| ≤ H) :
    lshAssignCoef b k a = lshCoef .overwrite b k a a ∧
    (lshAssignCoef b k a).length = a.length ∧ (∀ d ∈ lshAssignCoef b k a, Balanced b d) ∧
    TorusEq (valI b (lshAssignCoef b k a)) (b * a.length) (valI b a * 2 ^ k) (b * a.length) := by
  have hb : 1 ≤ b := by have := hr.hlsh; omega
  have he := lshAssignCoef_eq k (hr.with_lsh (Nat.mod_lt k (by omega))) a ha
  have hv := lsh_value hr k a a ha
  rw [he]
  exact ⟨rfl, hv.1, hv.2.1, hv.2.2.2 (by omega)⟩

example : TorusEq (valI 17 (lshAssignCoef 17 40 [2 ^ 62, -(2 ^ 40), 7])) (17 * 3) (valI 17 [2 ^ 62, -(2 ^ 40), 7] * 2 ^ 40) (17 * 3) :=
  (lsh_assign_value (b := 17) (H := 2 ^ 62) 40 ⟨by norm_num, by norm_num, by norm_num, by norm_num, by norm_num⟩ _
    (by intro x hx; simp at hx; rcases hx with rfl | rfl | rfl <;> norm_num)).2.2.2

/-! ### vec_znx_normalize_assign -/

/-- **`vec_znx_normalize_assign`**: same length, balanced digits, and exactly the same torus element -/
theorem normalize_assign_value {b : Nat} {H : Int} (hr : HeadRoom 64 b 0 H) (a : List Int)
    (ha : ∀ x ∈ a, |x| ≤ H) :
    (normalizeAssignCoef b a).length = a.length ∧ (∀ d ∈ normalizeAssignCoef b a, Balanced b d) ∧
    TorusEq (valI b (normalizeAssignCoef b a)) (b * a.length) (valI b a) (b * a.length) := by
  unfold normalizeAssignCoef
  rw [assignRun_eq hr a ha]
  have h0 : |(0 : Int)| ≤ H + 3 := by have := hr.hH0; simp; linarith
  obtain ⟨⟨q, hq⟩, hl, hb⟩ := finalTopRun_spec hr a ha 0 h0
  refine ⟨hl, hb, -q, ?_⟩
  simp only [pow_zero, mul_one, add_zero] at hq
  have : (2 : Int) ^ (b * a.length + b * a.length) = 2 ^ (b * a.length) * 2 ^ (b * a.length) := by rw [pow_add]
  rw [this]
  linear_combination (2 ^ (b * a.length)) * hq

example : TorusEq (valI 17 (normalizeAssignCoef 17 [2 ^ 62, -(2 ^ 40), 7])) (17 * 3) (valI 17 [2 ^ 62, -(2 ^ 40), 7]) (17 * 3) :=
  (normalize_assign_value (b := 17) (H := 2 ^ 62) ⟨by norm_num, by norm_num, by norm_num, by norm_num, by norm_num⟩ _
    (by intro x hx; simp at hx; rcases hx with rfl | rfl | rfl <;> norm_num)).2.2

/-! ### encoding -/

/-- **`encode_vec_i64` / `encode_coeff_i64`** (one coefficient): for `1 ≤ k ≤ size·b` the limbs are
balanced and represent `v·2^-k` exactly on the torus (`valI ≡ v·2^(size·b−k)  mod 2^(size·b)`),
limbs beyond `⌈k/b⌉` are zero. -/
theorem encode_value {b k aSize : Nat} {H : Int} (hr : HeadRoom 64 b (encLsh b k) H) (hk : 1 ≤ k)
    (hsz : encSize b k ≤ aSize) (v : Int) (hv : |v| ≤ H) :
    (encodeCoefI64 b k aSize v).length = aSize ∧ (∀ d ∈ encodeCoefI64 b k aSize v, Balanced b d) ∧
    ∃ q : Int, valI b ((encodeCoefI64 b k aSize v).take (encSize b k)) + q * 2 ^ (b * encSize b k)
      = v * 2 ^ (encLsh b k) := by
  have hb : 1 ≤ b := by have := hr.hlsh; omega
  have hs1 : 1 ≤ encSize b k := by
    unfold encSize
    exact (Nat.le_div_iff_mul_le (by omega)).mpr (by omega)
  set l := List.replicate (encSize b k - 1) (0 : Int) ++ [v] with hl
  have hlb : ∀ x ∈ l, |x| ≤ H := by
    intro x hx
    simp only [hl, List.mem_append, List.mem_replicate, List.mem_singleton] at hx
    rcases hx with ⟨_, rfl⟩ | rfl
    · simpa using hr.hH0
    · exact hv
  have h0 : |(0 : Int)| ≤ H + 3 := by have := hr.hH0; simp; linarith
  obtain ⟨⟨q, hq⟩, hlen, hbal⟩ := finalTopRun_spec hr l hlb 0 h0
  have hll : l.length = encSize b k := by simp [hl]; omega
  have hval : valI b l = v := by
    simp only [hl]; rw [valI_append, valI_replicate_zero, valI_singleton]; simp
  unfold encodeCoefI64
  simp only
  rw [← hl, assignRun_eq hr l hlb]
  have hbal0 : Balanced b 0 := by
    have := two_pow_pos (b - 1); exact ⟨by linarith, this⟩
  refine ⟨by simp [hlen, hll]; omega, ?_, q, ?_⟩
  · intro d hd
    rcases List.mem_append.mp hd with h | h
    · exact hbal d h
    · rw [(List.mem_replicate.mp h).2]; exact hbal0
  · rw [List.take_left' (by rw [hlen, hll])]
    rw [hll, hval] at hq
    linarith

example : ∃ q : Int, valI 5 ((encodeCoefI64 5 7 3 (-60)).take (encSize 5 7)) + q * 2 ^ (5 * encSize 5 7)
    = -60 * 2 ^ (encLsh 5 7) :=
  (encode_value (b := 5) (k := 7) (aSize := 3) (H := 2 ^ 40)
    ⟨by norm_num, by decide, by norm_num, by norm_num, by norm_num⟩ (by norm_num) (by decide) (-60) (by norm_num)).2.2

/-- frame of `encode_coeff_i64`: a coefficient other than `idx` keeps its value in every limb -/
theorem encode_frame_coeff (c : Col) (idx : Nat) (l : List Int) (hl : l.length = c.length) (j i : Nat)
    (hi : i ≠ idx) : ((setCoef c idx l).getD j []).getD i 0 = (c.getD j []).getD i 0 := by
  unfold setCoef
  simp only [List.getD_eq_getElem?_getD, List.getElem?_zipWith]
  by_cases hj : j < c.length
  · have hj' : j < l.length := by omega
    simp [List.getElem?_eq_getElem hj, List.getElem?_eq_getElem hj', List.getElem?_set, hi.symm]
  · have hj' : ¬ j < l.length := by omega
    simp [List.getElem?_eq_none (Nat.le_of_not_lt hj), List.getElem?_eq_none (Nat.le_of_not_lt hj')]

example : ((setCoef [[1, 2], [3, 4]] 0 [9, 8]).getD 1 []).getD 1 0 = 4 :=
  encode_frame_coeff [[1, 2], [3, 4]] 0 [9, 8] rfl 1 1 (by decide)

/-- frame of the container functions: a column other than `col` is untouched -/
theorem encode_frame_column (v : List Col) (n b col k : Nat) (data : List Int) (w : List Col) (c : Nat)
    (hc : c ≠ col) (h : encodeVecI64 v n b col k data = .ok w) : getCol w c = getCol v c := by
  unfold encodeVecI64 at h
  dsimp only at h
  split at h
  · cases h
  · injection h with h
    subst h
    unfold getCol setCol
    simp [List.getD_eq_getElem?_getD, List.getElem?_set, hc.symm]

/-! ### encode → decode round trip -/

/-- **round trip, `i64`** (`encode_vec_i64` / `encode_coeff_i64`, then `decode_coeff_i64`,
`decode_vec_i64`, `decode_vec_i128`), for every `1 ≤ b ≤ 62`, `1 ≤ k ≤ size·b` and `|v| ≤ H`: all three
decoders succeed and return `v − q·2^k` reduced to their width (`wrapN 64` / `wrapN 128`) — i.e. `v`
modulo `2^k` (modulo `2^64` when `k ≥ 64`) — where `q` is the carry out of the balanced expansion; the
expansion fits (`q = 0`, result `= v`) whenever `4·|v| < 2^k` (i.e. `|v| < 2^(k−2)`) and `b ≥ 2`. -/
theorem encode_decode {b k aSize : Nat} {H : Int} (hr : HeadRoom 64 b (encLsh b k) H) (hb62 : b ≤ 62)
    (hk : 1 ≤ k) (hsz : encSize b k ≤ aSize) (v : Int) (hv : |v| ≤ H) :
    ∃ q : Int,
      decodeCoefI64 b k (encodeCoefI64 b k aSize v) = .ok (wrapN 64 (v - q * 2 ^ k)) ∧
      decodeCoefVec 64 b k (encodeCoefI64 b k aSize v) = .ok (wrapN 64 (v - q * 2 ^ k)) ∧
      decodeCoefVec 128 b k (encodeCoefI64 b k aSize v) = .ok (wrapN 128 (v - q * 2 ^ k)) ∧
      (2 ≤ b → 4 * |v| < 2 ^ k → q = 0) :=
  encode_decode_roundtrip hr hb62 hk hsz v hv

/-- corollary: for `|v| < 2^(k-2)` (and `v` an `i64`) the round trip is the identity -/
theorem encode_decode_exact {b k aSize : Nat} {H : Int} (hr : HeadRoom 64 b (encLsh b k) H) (hb2 : 2 ≤ b) (hb62 : b ≤ 62)
    (hk : 1 ≤ k) (hsz : encSize b k ≤ aSize) (v : Int) (hv : |v| ≤ H) (hsmall : 4 * |v| < 2 ^ k) (hv64 : |v| < 2 ^ 63) :
    decodeCoefI64 b k (encodeCoefI64 b k aSize v) = .ok v ∧
    decodeCoefVec 64 b k (encodeCoefI64 b k aSize v) = .ok v ∧
    decodeCoefVec 128 b k (encodeCoefI64 b k aSize v) = .ok v := by
  obtain ⟨q, h1, h2, h3, h4⟩ := encode_decode hr hb62 hk hsz v hv
  have hq := h4 hb2 hsmall
  subst hq
  simp only [zero_mul, sub_zero] at h1 h2 h3
  have e64 : wrapN 64 v = v := wrapN_eq_abs (by norm_num) (by simpa using hv64)
  have e128 : wrapN 128 v = v := wrapN_eq_abs (by norm_num) (by
    have : (2 : Int) ^ 63 ≤ 2 ^ (128 - 1) := by norm_num
    linarith)
  rw [e64] at h1 h2; rw [e128] at h3
  exact ⟨h1, h2, h3⟩

example : decodeCoefVec 64 5 7 (encodeCoefI64 5 7 3 (-30)) = .ok (-30) :=
  (encode_decode_exact (b := 5) (k := 7) (aSize := 3) (H := 2 ^ 40)
    ⟨by norm_num, by decide, by norm_num, by norm_num, by norm_num⟩ (by norm_num) (by norm_num) (by norm_num) (by decide)
    (-30) (by norm_num) (by norm_num) (by norm_num)).2.1

/-- a value at the edge `v = 2^(k-1)` decodes to its negative representative (`≡ v mod 2^k`) -/
example : decodeCoefVec 64 5 7 (encodeCoefI64 5 7 3 64) = .ok (-64) := by rfl

/-- **round trip, `i128`** (`encode_vec_i128`, `|v| ≤ 2^126`): same statement -/
theorem encode128_decode {b k aSize : Nat} {H : Int} (hr : HeadRoom 64 b (encLsh b k) H) (hH : 2 ^ (b - 1) ≤ H)
    (hb62 : b ≤ 62) (hk : 1 ≤ k) (hsz : encSize b k ≤ aSize) (v : Int) (hv : |v| ≤ 2 ^ 126) :
    ∃ q : Int,
      decodeCoefI64 b k (encodeCoefI128 b k aSize v) = .ok (wrapN 64 (v - q * 2 ^ k)) ∧
      decodeCoefVec 64 b k (encodeCoefI128 b k aSize v) = .ok (wrapN 64 (v - q * 2 ^ k)) ∧
      decodeCoefVec 128 b k (encodeCoefI128 b k aSize v) = .ok (wrapN 128 (v - q * 2 ^ k)) ∧
      (2 ≤ b → 4 * |v| < 2 ^ k → q = 0) :=
  encode128_decode_roundtrip hr hH hb62 hk hsz v hv

example : decodeCoefVec 128 20 100 (encodeCoefI128 20 100 5 (2 ^ 90 + 12345)) = .ok (2 ^ 90 + 12345) := by
  obtain ⟨q, _, _, h3, h4⟩ := encode128_decode (b := 20) (k := 100) (aSize := 5) (H := 2 ^ 40)
    ⟨by norm_num, by decide, by norm_num, by norm_num, by norm_num⟩ (by norm_num) (by norm_num) (by norm_num) (by decide)
    (2 ^ 90 + 12345) (by norm_num)
  have hq := h4 (by norm_num) (by norm_num)
  subst hq
  rw [h3]
  simp only [zero_mul, sub_zero]
  congr 1

/-- **`decode_vec_float`**: the dyadic pair `(m, e)` of the model is the exact rational value of the
limbs: `m · 2^(e + b·size) = Σ_j a_j·2^(b·(size−1−j))`, i.e. `m·2^e = Σ_j a_j·2^(−b(j+1))`.  (The FBig
produced by the Rust is compared with this pair by the correspondence.) -/
theorem decode_float_exact (b : Nat) (a : List Int) :
    ∃ t : Nat, (decodeFloatCoef b a).2 + (b * a.length : Nat) = t ∧ (decodeFloatCoef b a).1 * 2 ^ t = valI b a :=
  decodeFloatCoef_exact b a

example : decodeFloatCoef 5 [0, 12] = (3, -8) := by decide

/-! ### cross radix -/

/-- hypotheses of the cross-radix theorems: `bits ∈ {64,128}`, radices `1 ≤ ab, rb ≤ 62`, input limbs
bounded by `H` with `H + 8 ≤ 2^(bits-2)` (i64: `|limb| ≤ 2^62 − 8`) -/
theorem crossCtx_example : CrossCtx 64 15 25 2 0 (2 ^ 61) [2 ^ 61, -(2 ^ 61), 12345] :=
  ⟨Or.inl rfl, by norm_num, by norm_num, by norm_num, by norm_num, by norm_num, by norm_num,
    by intro x hx; simp at hx; rcases hx with rfl | rfl | rfl <;> norm_num⟩

/-- **cross-radix `vec_znx_normalize` / `vec_znx_big_normalize` at offset 0** (what `glwe_decrypt` into
another radix and `glwe_normalize` use; `bits = 64`: VecZnx / FFT64, `bits = 128`: NTT120), **any pair of
radices `1..62`, any sizes, un-normalised input**: whenever the routine returns a result (the model's loop fuel was never
exhausted in 3·10^6 corresponded cases), the output has `rs` limbs, represents
`a` on the torus within one unit of its last limb, exactly when `ab·a_size ≤ rb·rs`.
Digit range: every output limb satisfies `|d| ≤ 2^rb − 1` — cross-radix limbs are *not* always in the
balanced range `[-2^(rb-1), 2^(rb-1))` (a limb assembled from several balanced pieces can reach down
to `−(2^rb − 1)`); this is all the code guarantees, and all the property demands for different radices. -/
theorem normalize_cross_value_offset0 {bits ab rb rs : Nat} {H : Int} {a : List Int}
    (c : CrossCtx bits ab rb rs 0 H a) {out : List Int}
    (h : normalizeCrossCoef bits rb rs 0 ab a = some out) :
    out.length = rs ∧ (∀ d ∈ out, |d| ≤ 2 ^ rb - 1) ∧
    TorusNear (valI rb out) (rb * rs) (valI ab a) (ab * a.length) ∧
    (ab * a.length ≤ rb * rs → TorusEq (valI rb out) (rb * rs) (valI ab a) (ab * a.length)) :=
  normalizeCrossCoef_value_off0 c h

/-- non-vacuity: radix 2^15 → 2^25, three un-normalised limbs at the head-room boundary into two limbs -/
example : ∃ out, normalizeCrossCoef 64 25 2 0 15 [2 ^ 61, -(2 ^ 61), 12345] = some out ∧
    TorusNear (valI 25 out) (25 * 2) (valI 15 [2 ^ 61, -(2 ^ 61), 12345]) (15 * 3) := by
  have h : normalizeCrossCoef 64 25 2 0 15 [2 ^ 61, -(2 ^ 61), 12345] = some [0, 395040] := by decide
  exact ⟨_, h, (normalize_cross_value_offset0 crossCtx_example h).2.2.1⟩

/-- cross-radix outputs are not always balanced: radix 2^2 → 2^4, `a = [-2,-2,-2,-2,-2,-2]` gives the limbs
`[6, -10, -10]`; `-10` lies outside `[-8, 8)` but within `|d| ≤ 2^4 − 1` (and the value is exact) -/
example : normalizeCrossCoef 64 4 3 0 2 [-2, -2, -2, -2, -2, -2] = some [6, -10, -10] ∧ ¬ Balanced 4 (-10) :=
  ⟨by decide +kernel, by decide⟩

/-- **`vec_znx_normalize` at offset 0, any radix pair** (the dispatch the Rust does): the value
property C01 (`NormSpec`) and C02 (`normalize_phase_modulo_norm`) rely on. -/
theorem normalize_value_offset0 {ab rb rs : Nat} {H : Int} {a : List Int}
    (c : CrossCtx 64 ab rb rs 0 H a) {out : List Int} (h : normalizeCoef rb rs 0 ab a = some out) :
    out.length = rs ∧ (∀ d ∈ out, |d| ≤ 2 ^ rb - 1) ∧
    TorusNear (valI rb out) (rb * rs) (valI ab a) (ab * a.length) ∧
    (ab * a.length ≤ rb * rs → TorusEq (valI rb out) (rb * rs) (valI ab a) (ab * a.length)) := by
  unfold normalizeCoef at h
  by_cases hr : rb = ab
  · subst hr
    simp only [if_true, Option.some.injEq] at h
    subst h
    have hv := normalize_inter_value c.headRoomH rs 0 a c.ha
    simp only [Int.toNat_zero, pow_zero, mul_one, neg_zero, Nat.add_zero] at hv
    have hb1 : 1 ≤ rb := c.hrb1
    have hcast : rb * a.length ≤ rb * rs → (((rb * a.length : Nat) : Int) - 0 ≤ ((rb * rs : Nat) : Int)) := by
      intro hx
      have : ((rb * a.length : Nat) : Int) ≤ ((rb * rs : Nat) : Int) := by exact_mod_cast hx
      linarith
    refine ⟨hv.1, ?_, hv.2.2.1, fun hx => hv.2.2.2 (hcast hx)⟩
    intro d hd
    have := (hv.2.1 d hd).abs_le
    have h2 := half_le_full hb1
    have h3 : (1 : Int) ≤ 2 ^ (rb - 1) := by
      have := two_pow_le (Nat.zero_le (rb - 1)); simpa using this
    linarith
  · rw [if_neg hr] at h
    exact normalize_cross_value_offset0 c h

/-- **NTT120 `vec_znx_big_normalize` at offset 0, any radix pair** (`i128` accumulator) -/
theorem big_normalize128_value_offset0 {ab rb rs : Nat} {H : Int} {a : List Int}
    (c : CrossCtx 128 ab rb rs 0 H a) {out : List Int} (h : bigNormalizeCoef128 rb rs 0 ab a = some out) :
    out.length = rs ∧ (∀ d ∈ out, |d| ≤ 2 ^ rb - 1) ∧
    TorusNear (valI rb out) (rb * rs) (valI ab a) (ab * a.length) ∧
    (ab * a.length ≤ rb * rs → TorusEq (valI rb out) (rb * rs) (valI ab a) (ab * a.length)) := by
  by_cases hr : rb = ab
  · subst hr
    have hb63 : rb ≤ 63 := by have := c.hrb; omega
    have hi := big_normalize128_inter_value c.headRoomH hb63 rs 0 a c.ha
    rw [hi.1] at h
    simp only [Option.some.injEq] at h
    subst h
    have hv := normalize_inter_value c.headRoomH rs 0 a c.ha
    simp only [Int.toNat_zero, pow_zero, mul_one, neg_zero, Nat.add_zero] at hv
    have hb1 : 1 ≤ rb := c.hrb1
    have hcast : rb * a.length ≤ rb * rs → (((rb * a.length : Nat) : Int) - 0 ≤ ((rb * rs : Nat) : Int)) := by
      intro hx
      have : ((rb * a.length : Nat) : Int) ≤ ((rb * rs : Nat) : Int) := by exact_mod_cast hx
      linarith
    refine ⟨hv.1, ?_, hv.2.2.1, fun hx => hv.2.2.2 (hcast hx)⟩
    intro d hd
    have := (hv.2.1 d hd).abs_le
    have h2 := half_le_full hb1
    have h3 : (1 : Int) ≤ 2 ^ (rb - 1) := by
      have := two_pow_le (Nat.zero_le (rb - 1)); simpa using this
    linarith
  · unfold bigNormalizeCoef128 at h
    rw [if_neg hr] at h
    exact normalize_cross_value_offset0 c h

/-- **cross-radix `vec_znx_normalize` / `vec_znx_big_normalize`, EVERY offset** (`bits = 64`: VecZnx and
the FFT64 accumulator, `bits = 128`: NTT120), any pair of radices `1..62`, any `a_size` / `res_size`,
un-normalised input within head-room, `res_offset` negative, zero, positive or beyond either precision:
whenever the routine returns (the model's loop fuel was never exhausted in the correspondence), the output
has `rs` limbs with `|d| ≤ 2^rb − 1` (not always balanced, see below), and its torus value is
`a·2^off` *within one unit of the last limb of the result* (`TorusNear`: `|out/2^(rb·rs) − a·2^off/2^(ab·as)| ≤ 2^-(rb·rs)`
on R/Z — this is the rounding rule of the code: every discarded tail is rounded half-up-ish through the
balanced digit / rounding right shift, never accumulating more than one unit); the value is *exact* when the
shifted input needs no more bits than the result has (`ab·a_size − off ≤ rb·rs`, the same condition as for
equal radices). -/
theorem normalize_cross_value {bits ab rb rs : Nat} {H : Int} {a : List Int}
    (c : CrossCtx bits ab rb rs 0 H a) (off : Int) {out : List Int}
    (h : normalizeCrossCoef bits rb rs off ab a = some out) :
    out.length = rs ∧ (∀ d ∈ out, |d| ≤ 2 ^ rb - 1) ∧
    TorusNear (valI rb out) (rb * rs) (valI ab a * 2 ^ off.toNat) (ab * a.length + (-off).toNat) ∧
    (((ab * a.length : Nat) : Int) - off ≤ ((rb * rs : Nat) : Int) →
      TorusEq (valI rb out) (rb * rs) (valI ab a * 2 ^ off.toNat) (ab * a.length + (-off).toNat)) :=
  normalizeCrossCoef_value c off h

/-- corollary, the last-limb bound spelled out: there are integers `k` (the integer part, invisible on the
torus) and `e` with `out·2^py = a·2^off·2^(rb·rs) + e + k·2^(rb·rs+py)` and `|e| ≤ 2^py`, `py = ab·as + (−off)⁺`,
i.e. the error is at most one unit `2^-(rb·rs)` of the last result limb. -/
theorem normalize_cross_last_limb {bits ab rb rs : Nat} {H : Int} {a : List Int}
    (c : CrossCtx bits ab rb rs 0 H a) (off : Int) {out : List Int}
    (h : normalizeCrossCoef bits rb rs off ab a = some out) :
    ∃ k e : Int, valI rb out * 2 ^ (ab * a.length + (-off).toNat)
        = valI ab a * 2 ^ off.toNat * 2 ^ (rb * rs) + e + k * 2 ^ (rb * rs + (ab * a.length + (-off).toNat)) ∧
      |e| ≤ 2 ^ (ab * a.length + (-off).toNat) :=
  (normalize_cross_value c off h).2.2.1

theorem crossCtx_example_offsets : CrossCtx 64 15 25 2 0 (2 ^ 61) [2 ^ 61 - 12345, -(2 ^ 61) + 98765, 12345] :=
  ⟨Or.inl rfl, by norm_num, by norm_num, by norm_num, by norm_num, by norm_num, by norm_num,
    by intro x hx; simp at hx; rcases hx with rfl | rfl | rfl <;> norm_num⟩

/-- non-vacuity, one example per offset class (radix 2^15 → 2^25, 3 limbs → 2 limbs, limbs at the bound):
negative with overlap (N2), negative into the gap below the result (N1, former gap defect region),
positive, and positive beyond the input precision (all shifted out). -/
example : ∃ out, normalizeCrossCoef 64 25 2 (-22) 15 [2 ^ 61 - 12345, -(2 ^ 61) + 98765, 12345] = some out ∧
    TorusNear (valI 25 out) (25 * 2) (valI 15 [2 ^ 61 - 12345, -(2 ^ 61) + 98765, 12345] * 2 ^ (-22 : Int).toNat)
      (15 * 3 + (-(-22) : Int).toNat) := by
  obtain ⟨out, h⟩ : ∃ out, normalizeCrossCoef 64 25 2 (-22) 15 [2 ^ 61 - 12345, -(2 ^ 61) + 98765, 12345] = some out :=
    Option.isSome_iff_exists.mp (by decide +kernel)
  exact ⟨out, h, (normalize_cross_value crossCtx_example_offsets (-22) h).2.2.1⟩

example : ∃ out, normalizeCrossCoef 64 25 2 (-70) 15 [2 ^ 61 - 12345, -(2 ^ 61) + 98765, 12345] = some out ∧
    TorusNear (valI 25 out) (25 * 2) (valI 15 [2 ^ 61 - 12345, -(2 ^ 61) + 98765, 12345] * 2 ^ (-70 : Int).toNat)
      (15 * 3 + (-(-70) : Int).toNat) := by
  obtain ⟨out, h⟩ : ∃ out, normalizeCrossCoef 64 25 2 (-70) 15 [2 ^ 61 - 12345, -(2 ^ 61) + 98765, 12345] = some out :=
    Option.isSome_iff_exists.mp (by decide +kernel)
  exact ⟨out, h, (normalize_cross_value crossCtx_example_offsets (-70) h).2.2.1⟩

example : ∃ out, normalizeCrossCoef 64 25 2 19 15 [2 ^ 61 - 12345, -(2 ^ 61) + 98765, 12345] = some out ∧
    TorusNear (valI 25 out) (25 * 2) (valI 15 [2 ^ 61 - 12345, -(2 ^ 61) + 98765, 12345] * 2 ^ (19 : Int).toNat)
      (15 * 3 + (-19 : Int).toNat) := by
  obtain ⟨out, h⟩ : ∃ out, normalizeCrossCoef 64 25 2 19 15 [2 ^ 61 - 12345, -(2 ^ 61) + 98765, 12345] = some out :=
    Option.isSome_iff_exists.mp (by decide +kernel)
  exact ⟨out, h, (normalize_cross_value crossCtx_example_offsets 19 h).2.2.1⟩

example : ∃ out, normalizeCrossCoef 64 25 2 1000 15 [2 ^ 61 - 12345, -(2 ^ 61) + 98765, 12345] = some out ∧
    TorusEq (valI 25 out) (25 * 2) (valI 15 [2 ^ 61 - 12345, -(2 ^ 61) + 98765, 12345] * 2 ^ (1000 : Int).toNat)
      (15 * 3 + (-1000 : Int).toNat) := by
  obtain ⟨out, h⟩ : ∃ out, normalizeCrossCoef 64 25 2 1000 15 [2 ^ 61 - 12345, -(2 ^ 61) + 98765, 12345] = some out :=
    Option.isSome_iff_exists.mp (by decide +kernel)
  exact ⟨out, h, (normalize_cross_value crossCtx_example_offsets 1000 h).2.2.2 (by decide)⟩

/-- the digits the four examples compute, and two roundings in the gap region (`-2^-24` resp. `-2^-25` at 50 bits;
`-1/32` into one radix-2^4 limb rounds to `-1/16`, within one unit) -/
example : ([-22, -70, 19, 1000] : List Int).map
      (fun o => normalizeCrossCoef 64 25 2 o 15 [2 ^ 61 - 12345, -(2 ^ 61) + 98765, 12345])
      = [some [-3, -442253], some [2, -2048], some [7559197, -16777216], some [0, 0]] ∧
    normalizeCrossCoef 64 25 2 (-70) 15 [-(2 ^ 61), 0, 0] = some [-2, 0] ∧
    normalizeCrossCoef 64 25 2 (-71) 15 [-(2 ^ 61), 0, 0] = some [-1, 0] ∧
    normalizeCrossCoef 64 4 1 (-4) 3 [-4] = some [-1] := by decide +kernel

/-- bound of the digits (`|d| ≤ 2^rb − 1`) turned into the `i64` no-wrap condition of the fused forms -/
theorem no_wrap_of_cross {rb : Nat} (hb : rb ≤ 62) (res t : List Int)
    (hres : ∀ r ∈ res, |r| ≤ 2 ^ 62) (ht : ∀ d ∈ t, |d| ≤ 2 ^ rb - 1) :
    (∀ p ∈ List.zip res t, |p.1 + p.2| < 2 ^ 63) ∧ (∀ p ∈ List.zip res t, |p.1 - p.2| < 2 ^ 63) := by
  have h1 : (2 : Int) ^ rb ≤ 2 ^ 62 := two_pow_le hb
  constructor <;> intro p hp
  · have hm := List.of_mem_zip hp
    have := hres _ hm.1; have := ht _ hm.2; have := abs_add_le p.1 p.2; linarith
  · have hm := List.of_mem_zip hp
    have := hres _ hm.1; have := ht _ hm.2; have := abs_sub p.1 p.2; linarith

/-- **`vec_znx_normalize` / FFT64 `vec_znx_big_normalize`, any radix pair (equal or different), every offset**
(the dispatch the Rust does).  This is the value property C01 (`NormSpec`) and C02
(`normalize_phase_modulo_norm`) rely on. -/
theorem normalize_value {ab rb rs : Nat} {H : Int} {a : List Int}
    (c : CrossCtx 64 ab rb rs 0 H a) (off : Int) {out : List Int} (h : normalizeCoef rb rs off ab a = some out) :
    out.length = rs ∧ (∀ d ∈ out, |d| ≤ 2 ^ rb - 1) ∧
    TorusNear (valI rb out) (rb * rs) (valI ab a * 2 ^ off.toNat) (ab * a.length + (-off).toNat) ∧
    (((ab * a.length : Nat) : Int) - off ≤ ((rb * rs : Nat) : Int) →
      TorusEq (valI rb out) (rb * rs) (valI ab a * 2 ^ off.toNat) (ab * a.length + (-off).toNat)) :=
  normalizeCoef_value c off h

/-- **NTT120 `vec_znx_big_normalize`, any radix pair, every offset** (`i128` accumulator limbs up to
`2^126 − 8`) -/
theorem big_normalize128_value {ab rb rs : Nat} {H : Int} {a : List Int}
    (c : CrossCtx 128 ab rb rs 0 H a) (off : Int) {out : List Int} (h : bigNormalizeCoef128 rb rs off ab a = some out) :
    out.length = rs ∧ (∀ d ∈ out, |d| ≤ 2 ^ rb - 1) ∧
    TorusNear (valI rb out) (rb * rs) (valI ab a * 2 ^ off.toNat) (ab * a.length + (-off).toNat) ∧
    (((ab * a.length : Nat) : Int) - off ≤ ((rb * rs : Nat) : Int) →
      TorusEq (valI rb out) (rb * rs) (valI ab a * 2 ^ off.toNat) (ab * a.length + (-off).toNat)) :=
  bigNormalizeCoef128_value c off h

/-- i128 context: limbs up to `2^120`, radix 2^20 → 2^12 -/
theorem crossCtx_example128 : CrossCtx 128 20 12 3 0 (2 ^ 120) [2 ^ 120 - 987654321, -5, 77] :=
  ⟨Or.inr rfl, by norm_num, by norm_num, by norm_num, by norm_num, by norm_num, by norm_num,
    by intro x hx; simp at hx; rcases hx with rfl | rfl | rfl <;> norm_num⟩

example : ∃ out, bigNormalizeCoef128 12 3 (-33) 20 [2 ^ 120 - 987654321, -5, 77] = some out ∧
    TorusNear (valI 12 out) (12 * 3) (valI 20 [2 ^ 120 - 987654321, -5, 77] * 2 ^ (-33 : Int).toNat) (20 * 3 + (-(-33) : Int).toNat) := by
  obtain ⟨out, h⟩ : ∃ out, bigNormalizeCoef128 12 3 (-33) 20 [2 ^ 120 - 987654321, -5, 77] = some out :=
    Option.isSome_iff_exists.mp (by decide +kernel)
  exact ⟨out, h, (big_normalize128_value crossCtx_example128 (-33) h).2.2.1⟩

/-! ### fused add / sub, different radices (and the general FFT64 fall-back) -/

/-- **FFT64 `vec_znx_big_normalize_add_assign`, any radix pair, every offset** (HAL fall-back: normalise
into a temporary `t`, then `res[j] = res[j].wrapping_add(t[j])`): `res' − res` represents `a·2^off` within
one unit of the last limb, for limbs of `res` up to `2^62`. -/
theorem big_normalize_add_value64_cross {ab rb : Nat} {H : Int} {a res : List Int}
    (c : CrossCtx 64 ab rb res.length 0 H a) (off : Int) (hres : ∀ r ∈ res, |r| ≤ 2 ^ 62) {t : List Int}
    (h : normalizeCoef rb res.length off ab a = some t) :
    TorusNear (valI rb (List.zipWith (fun r x => w64 (r + x)) res t) - valI rb res) (rb * res.length)
      (valI ab a * 2 ^ off.toNat) (ab * a.length + (-off).toNat) := by
  have hv := normalize_value c off h
  have hnw := no_wrap_of_cross c.hrb res t hres hv.2.1
  exact fused_add_fallback_value rb res t hv.1.symm hnw.1 (by rw [hv.1]; exact hv.2.2.1)

/-- **FFT64 `vec_znx_big_normalize_sub_assign`, any radix pair, every offset**: `res' − res` represents `−a·2^off` -/
theorem big_normalize_sub_value64_cross {ab rb : Nat} {H : Int} {a res : List Int}
    (c : CrossCtx 64 ab rb res.length 0 H a) (off : Int) (hres : ∀ r ∈ res, |r| ≤ 2 ^ 62) {t : List Int}
    (h : normalizeCoef rb res.length off ab a = some t) :
    TorusNear (valI rb (List.zipWith (fun r x => w64 (r - x)) res t) - valI rb res) (rb * res.length)
      (-(valI ab a * 2 ^ off.toNat)) (ab * a.length + (-off).toNat) := by
  have hv := normalize_value c off h
  have hnw := no_wrap_of_cross c.hrb res t hres hv.2.1
  exact fused_sub_fallback_value rb res t hv.1.symm hnw.2 (by rw [hv.1]; exact hv.2.2.1)

/-- **NTT120 `vec_znx_big_normalize_add_assign`, different radices, every offset** (after repair
docs/fixes/03 the `AddOp` and `SubOp` forms both go through the temporary) -/
theorem big_normalize_add_value128_cross {ab rb : Nat} {H : Int} {a res : List Int}
    (c : CrossCtx 128 ab rb res.length 0 H a) (hne : rb ≠ ab) (off : Int) (hres : ∀ r ∈ res, |r| ≤ 2 ^ 62)
    {res' : List Int} (h : bigNormalizeAssignCoef128 .add rb off ab a res = some res') :
    TorusNear (valI rb res' - valI rb res) (rb * res.length)
      (valI ab a * 2 ^ off.toNat) (ab * a.length + (-off).toNat) := by
  unfold bigNormalizeAssignCoef128 at h
  rw [if_neg hne, Option.map_eq_some_iff] at h
  obtain ⟨t, ht, rfl⟩ := h
  have hv := normalize_cross_value c off ht
  have hnw := no_wrap_of_cross c.hrb res t hres hv.2.1
  exact fused_add_fallback_value rb res t hv.1.symm hnw.1 (by rw [hv.1]; exact hv.2.2.1)

/-- **NTT120 `vec_znx_big_normalize_sub_assign`, different radices, every offset** -/
theorem big_normalize_sub_value128_cross {ab rb : Nat} {H : Int} {a res : List Int}
    (c : CrossCtx 128 ab rb res.length 0 H a) (hne : rb ≠ ab) (off : Int) (hres : ∀ r ∈ res, |r| ≤ 2 ^ 62)
    {res' : List Int} (h : bigNormalizeAssignCoef128 .sub rb off ab a res = some res') :
    TorusNear (valI rb res' - valI rb res) (rb * res.length)
      (-(valI ab a * 2 ^ off.toNat)) (ab * a.length + (-off).toNat) := by
  unfold bigNormalizeAssignCoef128 at h
  rw [if_neg hne, Option.map_eq_some_iff] at h
  obtain ⟨t, ht, rfl⟩ := h
  have hv := normalize_cross_value c off ht
  have hnw := no_wrap_of_cross c.hrb res t hres hv.2.1
  exact fused_sub_fallback_value rb res t hv.1.symm hnw.2 (by rw [hv.1]; exact hv.2.2.1)

example : ∃ res', bigNormalizeAssignCoef128 .sub 12 (-33) 20 [2 ^ 120 - 987654321, -5, 77] [2 ^ 62, -(2 ^ 62), 9] = some res' ∧
    TorusNear (valI 12 res' - valI 12 [2 ^ 62, -(2 ^ 62), 9]) (12 * 3)
      (-(valI 20 [2 ^ 120 - 987654321, -5, 77] * 2 ^ (-33 : Int).toNat)) (20 * 3 + (-(-33) : Int).toNat) := by
  obtain ⟨r, h⟩ : ∃ r, bigNormalizeAssignCoef128 .sub 12 (-33) 20 [2 ^ 120 - 987654321, -5, 77] [2 ^ 62, -(2 ^ 62), 9] = some r :=
    Option.isSome_iff_exists.mp (by decide +kernel)
  exact ⟨r, h, big_normalize_sub_value128_cross (res := [2 ^ 62, -(2 ^ 62), 9]) crossCtx_example128 (by decide) (-33)
    (by intro x hx; simp at hx; rcases hx with rfl | rfl | rfl <;> norm_num) h⟩

/-! ### termination of the cross-radix loop: the routines always return -/

/-- **the cross-radix routine always returns**: the model's `'inner` loop fuel (`ab + 2` passes) is never
exhausted, for all radices `≥ 1`, sizes, offsets and inputs (no head-room needed: the loop counters are
data independent).  So the hypotheses `… = some out` above are always satisfiable, and the driver's
`err:fuel` outcome is unreachable. -/
theorem normalize_cross_terminates (bits rb rs : Nat) (off : Int) (ab : Nat) (a : List Int) (hab1 : 1 ≤ ab) (hrb1 : 1 ≤ rb) :
    ∃ out, normalizeCrossCoef bits rb rs off ab a = some out :=
  normalizeCrossCoef_exists bits rb rs off ab a hab1 hrb1

example : ∃ out, normalizeCrossCoef 64 62 3 (-500) 1 [1, -1, 1, 1] = some out :=
  normalize_cross_terminates 64 62 3 (-500) 1 _ (by norm_num) (by norm_num)

/-- **total form, `vec_znx_normalize` / FFT64 `vec_znx_big_normalize`**: any radix pair, every offset — the call
returns `rs` limbs with `|d| ≤ 2^rb − 1` representing `a·2^off` within one unit of the last limb. -/
theorem normalize_value_total {ab rb rs : Nat} {H : Int} {a : List Int} (c : CrossCtx 64 ab rb rs 0 H a) (off : Int) :
    ∃ out, normalizeCoef rb rs off ab a = some out ∧ out.length = rs ∧ (∀ d ∈ out, |d| ≤ 2 ^ rb - 1) ∧
      TorusNear (valI rb out) (rb * rs) (valI ab a * 2 ^ off.toNat) (ab * a.length + (-off).toNat) := by
  obtain ⟨out, h⟩ := normalizeCoef_exists rb rs off ab a c.hlsh c.hrb1
  obtain ⟨h1, h2, h3, _⟩ := normalize_value c off h
  exact ⟨out, h, h1, h2, h3⟩

/-- **total form, NTT120 `vec_znx_big_normalize`** -/
theorem big_normalize128_value_total {ab rb rs : Nat} {H : Int} {a : List Int} (c : CrossCtx 128 ab rb rs 0 H a) (off : Int) :
    ∃ out, bigNormalizeCoef128 rb rs off ab a = some out ∧ out.length = rs ∧ (∀ d ∈ out, |d| ≤ 2 ^ rb - 1) ∧
      TorusNear (valI rb out) (rb * rs) (valI ab a * 2 ^ off.toNat) (ab * a.length + (-off).toNat) := by
  obtain ⟨out, h⟩ := bigNormalizeCoef128_exists rb rs off ab a c.hlsh c.hrb1
  obtain ⟨h1, h2, h3, _⟩ := big_normalize128_value c off h
  exact ⟨out, h, h1, h2, h3⟩

/-- **total form, NTT120 fused `vec_znx_big_normalize_{add,sub}_assign`, different radices**: the call returns,
and `res' − res` represents `±a·2^off` within one unit of the last limb -/
theorem big_normalize_fused128_cross_total {ab rb : Nat} {H : Int} {a res : List Int}
    (c : CrossCtx 128 ab rb res.length 0 H a) (hne : rb ≠ ab) (off : Int) (hres : ∀ r ∈ res, |r| ≤ 2 ^ 62) :
    (∃ res', bigNormalizeAssignCoef128 .add rb off ab a res = some res' ∧
      TorusNear (valI rb res' - valI rb res) (rb * res.length) (valI ab a * 2 ^ off.toNat) (ab * a.length + (-off).toNat)) ∧
    (∃ res', bigNormalizeAssignCoef128 .sub rb off ab a res = some res' ∧
      TorusNear (valI rb res' - valI rb res) (rb * res.length) (-(valI ab a * 2 ^ off.toNat)) (ab * a.length + (-off).toNat)) := by
  obtain ⟨t, ht⟩ := normalizeCrossCoef_exists 128 rb res.length off ab a c.hlsh c.hrb1
  have hadd : bigNormalizeAssignCoef128 .add rb off ab a res = some (List.zipWith (fun r x => AccOp.add.apply r x) res t) := by
    unfold bigNormalizeAssignCoef128; rw [if_neg hne, ht]; rfl
  have hsub : bigNormalizeAssignCoef128 .sub rb off ab a res = some (List.zipWith (fun r x => AccOp.sub.apply r x) res t) := by
    unfold bigNormalizeAssignCoef128; rw [if_neg hne, ht]; rfl
  exact ⟨⟨_, hadd, big_normalize_add_value128_cross c hne off hres hadd⟩,
    ⟨_, hsub, big_normalize_sub_value128_cross c hne off hres hsub⟩⟩

/-- when the offset shifts the whole input out (`res_start = 0` in the Rust) the output is exactly zero,
for every offset (no head-room needed) -/
theorem normalize_cross_shifted_out (rb rs ab : Nat) (off : Int) (a : List Int)
    (h : clampNat ((a.length * ab : Nat) - (splitOffset ab off).2 * ab) (rs * rb) = 0) :
    normalizeCrossCoef 64 rb rs off ab a = some (List.replicate rs 0) := by
  unfold normalizeCrossCoef
  simp only [h]
  simp

example : normalizeCrossCoef 64 4 2 9 3 [1, 2, 3] = some [0, 0] :=
  normalize_cross_shifted_out 4 2 3 9 [1, 2, 3] (by decide)

end C08
