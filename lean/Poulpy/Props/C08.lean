import Poulpy.Model.Encoding
namespace C08
theorem placeholder : getDigitW 64 3 (-4) = -4 := by decide
end C08
